import CifModel.Lemmas.ParserTop
import CifModel.Spec.Recovery
import CifModel.Lemmas.ParserDefect
/-
  Props/C12 — each class of input defect is reported with its code and recovered as documented (property C12), as theorems
  about the integrated parser model `Model.Parser.parse`.

  Proved universally: `C12_clean` (a defect-free document never depends on the callback) and `C12_recovery_is_policy_free`
  (what the parser does with a defect when the callback accepts does not depend on HOW the callback accepts: every policy
  that answers 0 to the reports of the accept-all parse yields the accept-all outcome).  The per-class statements
  `C12_<class>` over all hosts and positions are kept as `C12_class_full` (a `def … : Prop`); what is proved per class are
  kernel-evaluated instances — one planted defect per class, code + line of the first report and the recovered content —
  and the universal version is carried by the `defect` correspondence family with its independent oracle.
-/
namespace CifModel
open CifModel.Model CifModel.Model.Lexer CifModel.Model.Parser CifModel.Spec.Recovery CifModel.Spec.Grammar
open CifModel.Gen.ErrCodes (CIF_MISSING_VALUE CIF_UNEXPECTED_VALUE CIF_DUP_ITEMNAME CIF_EMPTY_LOOP CIF_NO_BLOCK_HEADER CIF_PARTIAL_PACKET CIF_INVALID_INDEX CIF_DISALLOWED_CHAR CIF_NULL_KEY)

/-- **C12_clean** — a document in which the accept-all parse finds no defect triggers no callback under any policy and is
    read identically (= C01 for the callback side) -/
theorem C12_clean (o : Opts) (pol : Policy) (pre : Cif) (units : Str)
    (h : (parse o acceptAll pre units).log = []) :
    (parse o pol pre units).log = [] ∧ parse o pol pre units = parse o acceptAll pre units := by
  obtain ⟨_, _, hs⟩ := parse_spec o pol pre (fuelFor units) units
  change match firstNZ pol 0 (parse o acceptAll pre units).log.reverse with
    | none => parse o pol pre units = parse o acceptAll pre units
    | some x => _ at hs
  rw [h] at hs
  have e : parse o pol pre units = parse o acceptAll pre units := by simpa [firstNZ] using hs
  exact ⟨by rw [e, h], e⟩

/-- **C12_first_report_is_policy_free** — the FIRST report (code, line) a defective document triggers is the same under every
    policy: it is the first report of the accept-all parse -/
theorem C12_first_report_is_policy_free (o : Opts) (pol : Policy) (pre : Cif) (units : Str) (r : Report) (tl : List Report)
    (h : (parse o acceptAll pre units).log = r :: tl) : (parse o pol pre units).log.head? = some r := by
  obtain ⟨_, _, hs⟩ := parse_spec o pol pre (fuelFor units) units
  change match firstNZ pol 0 (parse o acceptAll pre units).log.reverse with
    | none => parse o pol pre units = parse o acceptAll pre units
    | some x => (parse o pol pre units).log = (x.1 :: x.2).reverse ∧ _ at hs
  cases hz : firstNZ pol 0 (parse o acceptAll pre units).log.reverse with
  | none => rw [hz] at hs; rw [hs, h]; rfl
  | some x =>
    rw [hz] at hs
    obtain ⟨_, _, d2, hd⟩ := firstNZ_some (r := x.1) (d1 := x.2) hz
    have hA : (parse o acceptAll pre units).log = x.2.reverse ++ x.1 :: d2.reverse := by
      have := congrArg List.reverse hd
      rw [List.reverse_reverse] at this
      rw [this]; simp
    rw [hs.1, List.reverse_cons]
    rw [h] at hA
    cases hx : x.2.reverse with
    | nil => rw [hx] at hA; simp at hA; simp [hA.1]
    | cons a b => rw [hx] at hA; simp at hA; simp [hA.1]

/-! ### universally quantified class theorems (token level)

  Setting of the four theorems below: ANY container under construction (data block or save frame: any `View` of the store), ANY
  well-formed run of items `pre` in front of the defect and ANY well-formed run `post` behind it (scalar items and loops with lists /
  tables of any depth, every presentation), the scanner entering through `Feeds` (it delivers the tokens of `pre`, of the defective
  construct, of `post` and of what follows), accept-all callback.  Conclusion: the element loop of parse_container goes from the
  first token of `pre` to the token behind `post` having logged EXACTLY ONE report `r` — `r.code` = the documented code of the class
  — and the container holds exactly what the documented recovery prescribes: the items of `pre` and `post` as if nothing had
  happened (content outside the defective construct unaffected) and the recovered construct between them.
  (Line of the report: shown at the step level — `missing_value_step`: `r.line` = the scanner's line when the token FOLLOWING
  the defect has been scanned; at document level it is checked by the `defect` oracle.) -/

/-- **C12_missing_value** — a data name that is not followed by a value: CIF_MISSING_VALUE, the item gets the unknown value -/
theorem C12_missing_value (o : Opts) {path : Path} {put : Container → Cif} {code : Str} (hv : View o path put code)
    (pre post : List Item) (n : Str) (seen seen2 : List Str) (rest : List TokSpec) (s : PS) (fuel : Nat) (w : W)
    (fs : List Container) (ls : List Loop) (isBlock : Bool) (hcif : w.cif = put (.mk code fs ls))
    (hpre : wfItems o pre seen = true) (hseen : ∀ k ∈ normNames o ls, k ∈ seen)
    (hname : wfName n = true) (hfresh : o.norm n ∉ normNames o (denoteItems o.dia o.normKey pre ls))
    (hpost : wfItems o post seen2 = true)
    (hseen2 : ∀ k ∈ normNames o (denoteItems o.dia o.normKey (pre ++ [.item n .unk]) ls), k ∈ seen2)
    (hfuel : szItems pre + szItems post + 1 ≤ fuel)
    (hpostne : post ≠ [] ∨ ∃ ty tx ts, rest = (ty, tx) :: ts ∧ isTerminator ty = true)
    (hrest : lastIsLoop post = true → ∃ ty tx ts, rest = (ty, tx) :: ts ∧ isTerminator ty = true)
    (hF : Feeds o s (itemsToks pre ++ ((.name, n) :: (itemsToks post ++ rest)))) :
    ∃ s' r, elemsLoop o (fuel + post.length + 1 + pre.length) s (some path) isBlock acceptAll w
        = elemsLoop o fuel s' (some path) isBlock acceptAll
            { log := r :: w.log, cif := put (.mk code fs (denoteItems o.dia o.normKey (pre ++ [.item n .unk] ++ post) ls)) }
      ∧ r.code = CIF_MISSING_VALUE ∧ Feeds o s' rest := by
  apply missing_value_run <;> assumption

/-- **C12_unexpected_value** — a value (of any kind, nested lists / tables included) where an item is expected, not directly
    behind a loop: CIF_UNEXPECTED_VALUE, the value is parsed and ignored -/
theorem C12_unexpected_value (o : Opts) {path : Path} {put : Container → Cif} {code : Str} (hv : View o path put code)
    (pre post : List Item) (v : Val) (seen seen2 : List Str) (rest : List TokSpec) (s : PS) (fuel : Nat) (w : W)
    (fs : List Container) (ls : List Loop) (isBlock : Bool) (hcif : w.cif = put (.mk code fs ls))
    (hpre : wfItems o pre seen = true) (hseen : ∀ k ∈ normNames o ls, k ∈ seen) (hnoloop : lastIsLoop pre = false)
    (hwv : wfVal o v = true) (hpost : wfItems o post seen2 = true)
    (hseen2 : ∀ k ∈ normNames o (denoteItems o.dia o.normKey pre ls), k ∈ seen2)
    (hfuel : szItems pre + szItems post + szVal v + 1 ≤ fuel)
    (hrest : lastIsLoop post = true → ∃ ty tx ts, rest = (ty, tx) :: ts ∧ isTerminator ty = true)
    (hF : Feeds o s (itemsToks pre ++ (valToks v ++ (itemsToks post ++ rest)))) :
    ∃ s' r, elemsLoop o (fuel + post.length + 1 + pre.length) s (some path) isBlock acceptAll w
        = elemsLoop o fuel s' (some path) isBlock acceptAll
            { log := r :: w.log, cif := put (.mk code fs (denoteItems o.dia o.normKey (pre ++ post) ls)) }
      ∧ r.code = CIF_UNEXPECTED_VALUE ∧ Feeds o s' rest := by
  apply unexpected_value_run <;> assumption

/-- **C12_dup_itemname** — a data name whose normalised form is already defined in the container (as a scalar or in a loop,
    in any spelling): CIF_DUP_ITEMNAME, the name and its value are parsed and dropped -/
theorem C12_dup_itemname (o : Opts) {path : Path} {put : Container → Cif} {code : Str} (hv : View o path put code)
    (pre post : List Item) (n : Str) (v : Val) (seen seen2 : List Str) (rest : List TokSpec) (s : PS) (fuel : Nat) (w : W)
    (fs : List Container) (ls : List Loop) (isBlock : Bool) (hcif : w.cif = put (.mk code fs ls))
    (hpre : wfItems o pre seen = true) (hseen : ∀ k ∈ normNames o ls, k ∈ seen)
    (hname : wfName n = true) (hdup : o.norm n ∈ normNames o (denoteItems o.dia o.normKey pre ls))
    (hwv : wfVal o v = true) (hpost : wfItems o post seen2 = true)
    (hseen2 : ∀ k ∈ normNames o (denoteItems o.dia o.normKey pre ls), k ∈ seen2)
    (hfuel : szItems pre + szItems post + szVal v + 1 ≤ fuel)
    (hrest : lastIsLoop post = true → ∃ ty tx ts, rest = (ty, tx) :: ts ∧ isTerminator ty = true)
    (hF : Feeds o s (itemsToks pre ++ (((.name, n) :: valToks v) ++ (itemsToks post ++ rest)))) :
    ∃ s' r, elemsLoop o (fuel + post.length + 1 + pre.length) s (some path) isBlock acceptAll w
        = elemsLoop o fuel s' (some path) isBlock acceptAll
            { log := r :: w.log, cif := put (.mk code fs (denoteItems o.dia o.normKey (pre ++ post) ls)) }
      ∧ r.code = CIF_DUP_ITEMNAME ∧ Feeds o s' rest := by
  apply dup_name_run <;> assumption

/-- **C12_empty_loop** — a loop header (≥ 1 valid, new, pairwise distinct names) followed by no value: CIF_EMPTY_LOOP, the loop
    is accepted without packets (parse_container prunes it when the container ends) -/
theorem C12_empty_loop (o : Opts) {path : Path} {put : Container → Cif} {code : Str} (hv : View o path put code)
    (pre post : List Item) (ns : List Str) (seen seen2 : List Str) (rest : List TokSpec) (s : PS) (fuel : Nat) (w : W)
    (fs : List Container) (ls : List Loop) (isBlock : Bool) (hcif : w.cif = put (.mk code fs ls))
    (hpre : wfItems o pre seen = true) (hseen : ∀ k ∈ normNames o ls, k ∈ seen)
    (hns : ns ≠ []) (hwf : ∀ n ∈ ns, wfName n = true)
    (hfresh : ∀ n ∈ ns, o.norm n ∉ normNames o (denoteItems o.dia o.normKey pre ls)) (hnd : (ns.map o.norm).Nodup)
    (hpost : wfItems o post seen2 = true)
    (hseen2 : ∀ k ∈ normNames o (denoteItems o.dia o.normKey pre ls ++ [mkLoop ns []]), k ∈ seen2)
    (hfuel : szItems pre + szItems post + (ns.length + 2) + 1 ≤ fuel)
    (hnext : ∃ ty tx ts, itemsToks post ++ rest = (ty, tx) :: ts ∧ isTerminator ty = true ∧ ty ≠ .name)
    (hrest : lastIsLoop post = true → ∃ ty tx ts, rest = (ty, tx) :: ts ∧ isTerminator ty = true)
    (hF : Feeds o s (itemsToks pre ++ (((.loopKw, []) :: ns.map (fun n => (TokType.name, n))) ++ (itemsToks post ++ rest)))) :
    ∃ s' r, elemsLoop o (fuel + post.length + 1 + pre.length) s (some path) isBlock acceptAll w
        = elemsLoop o fuel s' (some path) isBlock acceptAll
            { log := r :: w.log,
              cif := put (.mk code fs (denoteItems o.dia o.normKey post (denoteItems o.dia o.normKey pre ls ++ [mkLoop ns []]))) }
      ∧ r.code = CIF_EMPTY_LOOP ∧ Feeds o s' rest := by
  apply empty_loop_run <;> assumption

/-- **C12_partial_packet** — a loop (valid, new, pairwise distinct names) with complete packets `ps` and a short last packet `pv`
    (at least one value, fewer than the header has names): CIF_PARTIAL_PACKET, the packet is filled out with unknown values, the
    complete packets are stored as they are — the content is that of the loop `ps ++ [pv ++ unknowns]` -/
theorem C12_partial_packet (o : Opts) {path : Path} {put : Container → Cif} {code : Str} (hv : View o path put code)
    (pre post : List Item) (ns : List Str) (ps : List (List Val)) (pv : List Val) (seen seen2 : List Str) (rest : List TokSpec) (s : PS)
    (fuel : Nat) (w : W) (fs : List Container) (ls : List Loop) (isBlock : Bool) (hcif : w.cif = put (.mk code fs ls))
    (hpre : wfItems o pre seen = true) (hseen : ∀ k ∈ normNames o ls, k ∈ seen)
    (hwf : ∀ n ∈ ns, wfName n = true) (hfresh : ∀ n ∈ ns, o.norm n ∉ normNames o (denoteItems o.dia o.normKey pre ls))
    (hnd : (ns.map o.norm).Nodup) (hlen : ∀ p ∈ ps, p.length = ns.length) (hwv : ∀ p ∈ ps, wfVals o p = true)
    (hpv : pv ≠ []) (hpl : pv.length < ns.length) (hwpv : wfVals o pv = true)
    (hpost : wfItems o post seen2 = true)
    (hseen2 : ∀ k ∈ normNames o (denoteItems o.dia o.normKey
        [.loop ns (ps ++ [pv ++ List.replicate (ns.length - pv.length) Val.unk])] (denoteItems o.dia o.normKey pre ls)), k ∈ seen2)
    (hfuel : szItems pre + szItems post + (ns.length + szPackets ps + szVals pv + 2) + 1 ≤ fuel)
    (hnext : ∃ ty tx ts, itemsToks post ++ rest = (ty, tx) :: ts ∧ isTerminator ty = true)
    (hrest : lastIsLoop post = true → ∃ ty tx ts, rest = (ty, tx) :: ts ∧ isTerminator ty = true)
    (hF : Feeds o s (itemsToks pre ++ (((.loopKw, []) :: (ns.map (fun n => (TokType.name, n)) ++ (packetsToks ps ++ valsToks pv)))
      ++ (itemsToks post ++ rest)))) :
    ∃ s' r, elemsLoop o (fuel + post.length + 1 + pre.length) s (some path) isBlock acceptAll w
        = elemsLoop o fuel s' (some path) isBlock acceptAll
            { log := r :: w.log, cif := put (.mk code fs (denoteItems o.dia o.normKey
                (pre ++ [.loop ns (ps ++ [pv ++ List.replicate (ns.length - pv.length) Val.unk])] ++ post) ls)) }
      ∧ r.code = CIF_PARTIAL_PACKET ∧ Feeds o s' rest := by
  apply partial_packet_run <;> assumption

/-- **C12_dup_header_name** — a loop header `ns₁ ++ [n'] ++ ns₂` in which `n'` repeats, in ANY spelling (normalised comparison), a
    name already defined in the container or one of `ns₁`: CIF_DUP_ITEMNAME, the loop is created with the names `ns₁ ++ ns₂` and every
    packet loses the value of that column (`eraseIdx ns₁.length`) -/
theorem C12_dup_header_name (o : Opts) {path : Path} {put : Container → Cif} {code : Str} (hv : View o path put code)
    (pre post : List Item) (ns1 ns2 : List Str) (n' : Str) (p0 : List Val) (ps : List (List Val)) (seen seen2 : List Str)
    (rest : List TokSpec) (s : PS) (fuel : Nat) (w : W) (fs : List Container) (ls : List Loop) (isBlock : Bool)
    (hcif : w.cif = put (.mk code fs ls)) (hpre : wfItems o pre seen = true) (hseen : ∀ k ∈ normNames o ls, k ∈ seen)
    (hwf : ∀ n ∈ ns1 ++ ns2, wfName n = true)
    (hfresh : ∀ n ∈ ns1 ++ ns2, o.norm n ∉ normNames o (denoteItems o.dia o.normKey pre ls))
    (hnd : ((ns1 ++ ns2).map o.norm).Nodup) (hne : ns1 ++ ns2 ≠ []) (hname : wfName n' = true)
    (hdup : o.norm n' ∈ normNames o (denoteItems o.dia o.normKey pre ls) ∨ ∃ m ∈ ns1, o.norm m = o.norm n')
    (hlen : ∀ p ∈ p0 :: ps, p.length = ns1.length + 1 + ns2.length) (hwv : ∀ p ∈ p0 :: ps, wfVals o p = true)
    (hpost : wfItems o post seen2 = true)
    (hseen2 : ∀ k ∈ normNames o (denoteItems o.dia o.normKey pre ls ++ [mkLoop (ns1 ++ ns2)
        ((p0 :: ps).map (fun p => (denoteVals o.dia o.normKey p).eraseIdx ns1.length))]), k ∈ seen2)
    (hfuel : szItems pre + szItems post + (ns1.length + ns2.length + szPackets (p0 :: ps) + 3) + 1 ≤ fuel)
    (hnext : ∃ ty tx ts, itemsToks post ++ rest = (ty, tx) :: ts ∧ isTerminator ty = true)
    (hrest : lastIsLoop post = true → ∃ ty tx ts, rest = (ty, tx) :: ts ∧ isTerminator ty = true)
    (hF : Feeds o s (itemsToks pre ++ (((.loopKw, []) :: (ns1.map (fun n => (TokType.name, n)) ++ ((.name, n') ::
      (ns2.map (fun n => (TokType.name, n)) ++ packetsToks (p0 :: ps))))) ++ (itemsToks post ++ rest)))) :
    ∃ s' r, elemsLoop o (fuel + post.length + 1 + pre.length) s (some path) isBlock acceptAll w
        = elemsLoop o fuel s' (some path) isBlock acceptAll
            { log := r :: w.log, cif := put (.mk code fs (denoteItems o.dia o.normKey post
                (denoteItems o.dia o.normKey pre ls ++ [mkLoop (ns1 ++ ns2)
                  ((p0 :: ps).map (fun p => (denoteVals o.dia o.normKey p).eraseIdx ns1.length))]))) }
      ∧ r.code = CIF_DUP_ITEMNAME ∧ Feeds o s' rest := by
  apply dup_header_run <;> assumption

/-- **C12_no_block_header** — a whole document whose first elements `e :: es` (items, loops, save frames: any well-formed element
    list) stand BEFORE the first data block header, followed by any well-formed data blocks `bs`: under accept-all parse_cif returns
    CIF_OK having logged exactly one report, CIF_NO_BLOCK_HEADER, and the CIF consists of an anonymous block (empty code) holding
    exactly what the elements denote, followed by exactly what the blocks denote. -/
theorem C12_no_block_header (o : Opts) (e : Elem) (es : List Elem) (bs : List Block) (s : PS) (f : Nat) (w : W)
    (hstore : o.store = true) (hmfd : o.maxFrameDepth ≠ 0) (hempty : w.cif = [])
    (hwb : wfElems o (e :: es) [] [] = true) (hwbs : wfBlocks o bs [o.norm []] = true)
    (hf1 : szBlocks bs + 1 ≤ f) (hf2 : szElems (e :: es) + (e :: es).length + 3 ≤ f + bs.length)
    (hF : Feeds o s (elemsToks (e :: es) ++ (blocksToks bs ++ [(.end_, [])]))) :
    ∃ r, parseCif o (f + bs.length + 1) s acceptAll w
        = .ok () { log := r :: w.log, cif := denoteBlock o.dia o.normKey { code := [], body := e :: es } :: denote o.dia o.normKey bs }
      ∧ r.code = CIF_NO_BLOCK_HEADER := by
  obtain ⟨s1, r, h1, hr, h2⟩ := no_block_header_step o hstore hmfd e es _ s (f + bs.length) w
    (by rw [hempty]; intro c hc; cases hc) hwb hf2 (blocks_rest_head bs) hF
  obtain ⟨s2, h3⟩ := blocks_structure o hstore hmfd bs [o.norm []] s1 f acceptAll
    { log := r :: w.log, cif := w.cif ++ [denoteBlock o.dia o.normKey { code := [], body := e :: es }] } hwbs
    (by
      intro c hc
      rw [hempty] at hc
      simp only [List.nil_append, List.mem_singleton] at hc
      subst hc; simp [denoteBlock, Container.code])
    hf1 h2
  refine ⟨r, ?_, hr⟩
  simp only [hempty, List.nil_append] at h1 h3
  unfold parseCif
  simp only [clamp, Parser.bind_eq, Parser.pure_eq, P.bind, P.pure, h1, h3, List.singleton_append]

/-- the universal per-class statement (not proved): for every host, position and layout, the planted document's accept-all
    parse has the class's code first, at a line between the defect and the following token, and the documented content -/
def C12_class_full {Host Position : Type} (plant : DefectClass → Host → Position → Str) (recovered : DefectClass → Host → Position → Cif)
    (lineLo lineHi : DefectClass → Host → Position → Nat) (admissible : DefectClass → Host → Position → Prop) (o : Opts) : Prop :=
  ∀ (c : DefectClass) (h : Host) (p : Position), admissible c h p →
    match (parse o acceptAll [] (plant c h p)).log with
    | [] => False
    | r :: _ => r.code = c.code ∧ lineLo c h p ≤ r.line ∧ r.line ≤ lineHi c h p ∧
        (parse o acceptAll [] (plant c h p)).rc = 0 ∧ cifEq (parse o acceptAll [] (plant c h p)).cif (recovered c h p) = true

/-! ### instances, evaluated by the kernel: (first code, its line, return value, recovered content) -/

namespace C12
def lower (s : Str) : Str := s.map fun c => if 65 ≤ c ∧ c ≤ 90 then c + 32 else c
def opts2 : Opts := { dia := .cif2, maxFrameDepth := 1, unfold := true, prem := true, notUtf8 := false, store := true, norm := lower, normKey := id }
/-- a block `a` whose scalar loop holds the given names and values -/
def blockA (names : List Str) (vals : List V) (loops : List Loop := []) : Cif :=
  [Container.mk (a!"a") [] (loops ++ (if names.isEmpty then [] else [{ category := some [], names := names, packets := [vals] }]))]
def first (out : Outcome) : Option (Code × Nat) := out.log.head?.map fun r => (r.code, r.line)
def check (c : DefectClass) (line : Nat) (text : Str) (expected : Cif) : Bool :=
  let out := parse opts2 acceptAll [] text
  first out == some (c.code, line) && out.rc == 0 && cifEq out.cif expected
end C12

set_option maxRecDepth 1000000 in
theorem C12_missing_value_instance :
    C12.check .missingValue 2 (a!"data_a _x\n_y 1") (C12.blockA [a!"_x", a!"_y"] [.unk, .chr false (a!"1")]) = true := by decide +kernel

set_option maxRecDepth 1000000 in
theorem C12_unexpected_value_instance :
    C12.check .unexpectedValue 1 (a!"data_a _x 1 stray\n_y 2") (C12.blockA [a!"_x", a!"_y"] [.chr false (a!"1"), .chr false (a!"2")]) = true := by
  decide +kernel

set_option maxRecDepth 1000000 in
theorem C12_dup_scalar_instance :
    C12.check .dupItemName 2 (a!"data_a _Name 1\n_nAME 2 _y 3") (C12.blockA [a!"_Name", a!"_y"] [.chr false (a!"1"), .chr false (a!"3")]) = true := by
  decide +kernel

set_option maxRecDepth 1000000 in
/-- the calibration case of F3 and its case variants: `loop_ _Name _x _name` -/
theorem C12_dup_loop_header_instance :
    C12.check .dupItemName 1 (a!"data_a loop_ _Name _x _name 1 2 3 4 5 6")
      (C12.blockA [] [] [{ category := none, names := [a!"_Name", a!"_x"], packets := [[.chr false (a!"1"), .chr false (a!"2")], [.chr false (a!"4"), .chr false (a!"5")]] }]) = true := by
  decide +kernel

set_option maxRecDepth 1000000 in
theorem C12_partial_packet_instance :
    C12.check .partialPacket 2 (a!"data_a loop_ _p _q 1 2 3\n")
      (C12.blockA [] [] [{ category := none, names := [a!"_p", a!"_q"], packets := [[.chr false (a!"1"), .chr false (a!"2")], [.chr false (a!"3"), .unk]] }]) = true := by
  decide +kernel

set_option maxRecDepth 1000000 in
/-- the empty loop is accepted and pruned at the end of the container; the empty loop header is ignored -/
theorem C12_empty_and_null_loop_instance :
    C12.check .emptyLoop 2 (a!"data_a loop_ _p _q\ndata_b") [Container.mk (a!"a") [] [], Container.mk (a!"b") [] []] = true ∧
    C12.check .nullLoop 1 (a!"data_a loop_ data_b") [Container.mk (a!"a") [] [], Container.mk (a!"b") [] []] = true := by
  decide +kernel

set_option maxRecDepth 1000000 in
theorem C12_no_block_header_instance :
    C12.check .noBlockHeader 1 (a!"_x 1") [Container.mk [] [] [{ category := some [], names := [a!"_x"], packets := [[.chr false (a!"1")]] }]] = true := by
  decide +kernel

set_option maxRecDepth 1000000 in
theorem C12_delimiters_instance :
    C12.check .unexpectedDelim 1 (a!"data_a _x 1 ] _y 2") (C12.blockA [a!"_x", a!"_y"] [.chr false (a!"1"), .chr false (a!"2")]) = true ∧
    C12.check .missingDelim 2 (a!"data_a _x [1 2\n_y 3")
      (C12.blockA [a!"_x", a!"_y"] [.lst [.chr false (a!"1"), .chr false (a!"2")], .chr false (a!"3")]) = true := by
  decide +kernel

set_option maxRecDepth 1000000 in
theorem C12_table_keys_instance :
    C12.check .missingKey 1 (a!"data_a _x {'k':1 stray 'j':2}")
      (C12.blockA [a!"_x"] [.tbl [(a!"k", a!"k", .chr false (a!"1")), (a!"j", a!"j", .chr false (a!"2"))]]) = true ∧
    C12.check .nullKey 1 (a!"data_a _x {:1 'j':2}") (C12.blockA [a!"_x"] [.tbl [(a!"j", a!"j", .chr false (a!"2"))]]) = true ∧
    C12.check .unquotedKey 1 (a!"data_a _x {k:1}") (C12.blockA [a!"_x"] [.tbl [(a!"k", a!"k", .chr false (a!"1"))]]) = true ∧
    C12.check .misquotedKey 3 (a!"data_a _x {\n;k\n;:1}") (C12.blockA [a!"_x"] [.tbl [(a!"k", a!"k", .chr false (a!"1"))]]) = true ∧
    C12.check .missingValue 1 (a!"data_a _x {'k':}") (C12.blockA [a!"_x"] [.tbl [(a!"k", a!"k", .unk)]]) = true := by
  decide +kernel

/-- **C12_invalid_index** — a quoted table key that cannot be a table index (it holds a character CIF does not allow — the
    scanner has reported the character and the report was answered "continue"): exactly one CIF_INVALID_INDEX, at the scanner's
    line behind the key; the entry is dropped (its value is parsed and discarded, as for a null key); the table consists of the
    entries before and the entries behind.  (parser.c since 8375485; before, the parse ended with 73 without any report.) -/
theorem C12_invalid_index (o : Opts) (t : Tok) (s' : PS) (v : Val) (epost : List (Str × Spec.Lexical.Presentation × Val))
    (X : List TokSpec) (fuel : Nat) (s1 : PS) (w1 : W) (acc1 : List (Str × Str × V))
    (hn : ∀ pol w, nextTok o s1 pol w = .ok (t, s') w) (hty : t.ty = .key) (hbad : hasDisallowed (cstr t.text) = true)
    (hwv : wfVal o v = true) (hepost : wfEntries o epost = true) (hf : szVal v + szEntries epost + 3 ≤ fuel)
    (hre : Feeds o (consume s') (valToks v ++ (entriesToks epost ++ (.ctable, [125]) :: X))) :
    ∃ s2 r, tableLoop o fuel s1 acc1 acceptAll w1
        = .ok (denoteEntries o.dia o.normKey epost acc1, s2) { w1 with log := r :: w1.log }
      ∧ r.code = CIF_INVALID_INDEX ∧ r.line = s'.scan.line ∧ Feeds o s2 X :=
  table_invalid_index_tail o t s' v epost X fuel s1 w1 acc1 hn hty hbad hwv hepost hf hre

set_option maxRecDepth 1000000 in
/-- instances evaluated by the kernel: a key holding U+0001 — CIF_DISALLOWED_CHAR from the scanner, then CIF_INVALID_INDEX, the
    entry is dropped, the parse returns CIF_OK; with the die handler the parse ends at the scanner's report.  And `{:1}`: ONE report
    (CIF_NULL_KEY) — no CIF_MISSING_SPACE for the value that follows the colon directly (since 4804559). -/
theorem C12_invalid_index_instance :
    (parse C12.opts2 acceptAll [] (a!"data_a _x {'k\x01':1 'j':2}")).log.map (·.code) = [CIF_DISALLOWED_CHAR, CIF_INVALID_INDEX] ∧
    (parse C12.opts2 acceptAll [] (a!"data_a _x {'k\x01':1 'j':2}")).rc = 0 ∧
    cifEq (parse C12.opts2 acceptAll [] (a!"data_a _x {'k\x01':1 'j':2}")).cif
      (C12.blockA [a!"_x"] [.tbl [(a!"j", a!"j", .chr false (a!"2"))]]) = true ∧
    (parse C12.opts2 (fun i _ => if i = 1 then 73 else 0) [] (a!"data_a _x {'k\x01':1 'j':2}")).rc = 73 ∧
    (parse C12.opts2 acceptAll [] (a!"data_a _x {:1}")).log.map (·.code) = [CIF_NULL_KEY] := by
  decide +kernel

set_option maxRecDepth 1000000 in
/-- the calibration case "text field followed by ':' at container level": CIF_MISSING_SPACE, then the value is an unexpected one -/
theorem C12_key_at_container_level_instance :
    C12.check .missingSpace 3 (a!"data_a _x 1\n;k\n;:2") (C12.blockA [a!"_x"] [.chr false (a!"1")]) = true ∧
    C12.check .missingSpace 1 (a!"data_a _x 1 'k':2") (C12.blockA [a!"_x"] [.chr false (a!"1")]) = true := by
  decide +kernel

set_option maxRecDepth 1000000 in
theorem C12_frames_instance :
    C12.check .unexpectedTerm 1 (a!"data_a save_ _x 1") (C12.blockA [a!"_x"] [.chr false (a!"1")]) = true ∧
    C12.check .eofInFrame 1 (a!"data_a save_f _x 1")
      [Container.mk (a!"a") [Container.mk (a!"f") [] [{ category := some [], names := [a!"_x"], packets := [[.chr false (a!"1")]] }]] []] = true ∧
    C12.check .noFrameTerm 2 (a!"data_a save_f _x 1\ndata_b")
      [Container.mk (a!"a") [Container.mk (a!"f") [] [{ category := some [], names := [a!"_x"], packets := [[.chr false (a!"1")]] }]] [],
       Container.mk (a!"b") [] []] = true := by
  decide +kernel

end CifModel
