import CifModel.Model.Numb
import CifModel.Spec.Rounding
import CifModel.Lemmas.NumbRound
import CifModel.Lemmas.NumbToDouble
import CifModel.Lemmas.NumbShift
import CifModel.Lemmas.NumbDigits
import CifModel.Lemmas.NumbMisc
import CifModel.Lemmas.NumbLink
import CifModel.Lemmas.NumbSyntax
import CifModel.Lemmas.NumbRoundtrip
import CifModel.Lemmas.NumbAutoinit
import CifModel.Lemmas.NumbWindow
import CifModel.Lemmas.NumbLimbPass
import CifModel.Lemmas.NumbLimbRound
import CifModel.Lemmas.NumbLimbLink
import CifModel.Lemmas.NumbLimbCarry
import CifModel.Lemmas.NumbLimbRefine
import CifModel.Lemmas.NumbLimbDigits
import CifModel.Lemmas.NumbLimbFinish
/-
  Property C10 — number text and double values convert with correct rounding.

  Theorems about the executable model `CifModel.Model.Numb` of src/value.c (tied to the real code by the families
  numb / todbl / todig / initnumb and by the link lemmas of Lemmas/NumbLink.lean over the regenerated constants).
  `_partial` = the full statement is kept as a `def … : Prop`; what is missing is said next to it and in
  tools/props/C10.py (PARTIAL).
-/
namespace CifModel
open Model.Numb Spec.Rounding Lemmas.NumbRound Lemmas.NumbToDouble Lemmas.NumbDigits Lemmas.NumbMisc

/-! ### text → double -/

/-- the rational a digit string denotes at a scale: `(numerator, denominator)` of `natOfDigits ds · 10^-scale` -/
def C10_valNum (ds : List Nat) (scale : Int) : Nat := natOfDigits ds * 10 ^ (-scale).toNat
def C10_valDen (scale : Int) : Nat := 10 ^ scale.toNat

/-- **C10_to_double_big** (∀ digit strings with digits ≤ 9, any leading and trailing zeroes, at most 2048 significant
    digits, non-zero value; ∀ scales): if `p` is the IEEE 754 round-to-nearest-even rounding of `digits·10^-scale`
    (`IsRne`) and `p` is a normal double, the model of `to_double` — zero stripping, truncation, the `±∞`/`0` short cuts,
    shift estimate from the leading digit by an exact integer log, exact scaling, the "one more left shift" loop,
    `round_to_int` as written, carry to 2^53, `ldexp` — returns exactly `p`.  (The rounding is unique: `isRne_unique`.) -/
theorem C10_to_double_big (ds : List Nat) (scale : Int) (hdig : ∀ d ∈ ds, d ≤ 9) (hnz : natOfDigits ds ≠ 0)
    (hlen : ((ds.dropWhile (· = 0)).reverse.dropWhile (· = 0)).length ≤ 2048) (p : Nat × Int)
    (hr : IsRne (C10_valNum ds scale) (C10_valDen scale) p) (hn : InNormalRange p) :
    toDoubleBig ds scale = .fin false p.1 p.2 := by
  apply Lemmas.NumbWindow.toDoubleBig_rne_full ds scale hdig hnz hlen p _ hn
  have e1 : B (-scale) = C10_valDen scale := by unfold B C10_valDen; simp
  have e2 : natOfDigits ds * T (-scale) = C10_valNum ds scale := by unfold T C10_valNum; rfl
  rw [e1, e2]
  exact hr

/-- zero digit strings give `+0` -/
theorem C10_to_double_zero (ds : List Nat) (scale : Int) (h : ds.dropWhile (· = 0) = []) :
    toDoubleBig ds scale = .fin false 0 0 := by
  unfold toDoubleBig
  simp [h]

/-- the existential form for normalised strings inside the window — the first version of the theorem, on which
    `C10_to_double_big` is built (digit strings without leading and trailing zeroes, most significant decimal place in
    the window `(-322, 308]` in which `to_double` runs its bignum algorithm).  Superseded by `C10_to_double_big`, which
    needs neither hypothesis. -/
theorem C10_to_double_big_partial (d0 : Nat) (rest : List Nat) (scale : Int) (hd0 : 1 ≤ d0)
    (hdig : ∀ d ∈ d0 :: rest, d ≤ 9)
    (htrail : (d0 :: rest).reverse.dropWhile (· = 0) = (d0 :: rest).reverse)
    (hlen : (d0 :: rest).length ≤ 2048)
    (hmsp1 : -scale + (rest.length : Int) ≤ 308) (hmsp2 : -322 < -scale + (rest.length : Int)) :
    ∃ p : Nat × Int, IsRne (C10_valNum (d0 :: rest) scale) (C10_valDen scale) p ∧
      (InNormalRange p → toDoubleBig (d0 :: rest) scale = .fin false p.1 p.2) := by
  have h := toDoubleBig_rne d0 rest scale hd0 hdig htrail hlen hmsp1 hmsp2
  have e1 : B (-scale) = C10_valDen scale := by unfold B C10_valDen; simp
  have e2 : natOfDigits (d0 :: rest) * T (-scale) = C10_valNum (d0 :: rest) scale := by unfold T C10_valNum; rfl
  rw [e1, e2] at h
  exact h

/-- the core of the above at full strength, independent of digit strings: whenever the shift estimate `un/ud` satisfies
    `V < U ≤ 2V`, `toDoubleCore` rounds `V = num0/den0` to nearest-even -/
theorem C10_to_double_core (num0 den0 un ud : Nat) (hnum0 : 0 < num0) (hden0 : 0 < den0) (hun : 0 < un) (hud : 0 < ud)
    (hVU : num0 * ud < un * den0) (hU2V : un * den0 ≤ 2 * num0 * ud)
    (hlow : -1739 ≤ flog2Rat un ud) :
    ∃ p : Nat × Int, IsRne num0 den0 p ∧ (InNormalRange p → toDoubleCore num0 den0 un ud = .fin false p.1 p.2) := by
  obtain ⟨Hlo, Hhi⟩ := Lemmas.NumbShift.rsMax_bounds num0 den0 un ud hnum0 hden0 hun hud hVU hU2V
  exact toDoubleCore_rne num0 den0 un ud hnum0 hden0 (by unfold DBL_MANT_DIG; omega) Hlo Hhi

/-- `round_to_int` as written after the ties-to-even fix — parity split off, `round_it` applied to the parity, added
    back — is round-half-even: within half a unit, and even on an exact tie (∀ fractions) -/
theorem C10_round_to_int_ties_even (num den : Nat) (hden : 0 < den) :
    roundToInt num den = roundHalfEven num den ∧
    (2 * (num - roundToInt num den * den) ≤ den ∧ 2 * (roundToInt num den * den - num) ≤ den) ∧
    ((2 * (num - roundToInt num den * den) = den ∨ 2 * (roundToInt num den * den - num) = den) → roundToInt num den % 2 = 0) := by
  rw [roundToInt_eq num den hden]
  exact ⟨rfl, roundHalfEven_close num den hden⟩

/-- the meaning of `IsRne`: the result is within half a unit in the last place of the quotient, ties even (∀ fractions) -/
theorem C10_rne_is_nearest (num den : Nat) (hden : 0 < den) (e : Int) :
    let X := num * 2 ^ (-e).toNat
    let Y := den * 2 ^ e.toNat
    (2 * (X - roundAt num den e * Y) ≤ Y ∧ 2 * (roundAt num den e * Y - X) ≤ Y) ∧
    ((2 * (X - roundAt num den e * Y) = Y ∨ 2 * (roundAt num den e * Y - X) = Y) → roundAt num den e % 2 = 0) := by
  intro X Y
  exact roundHalfEven_close X Y (Nat.mul_pos hden (Nat.two_pow_pos _))

/-- **C10_su_scaled**: the su read back by `cif_value_get_su` is `to_double` of the su digits at the value's scale —
    hence (by `C10_to_double_big_partial`) the nearest double to `su·10^-scale`, the su scaled to the last digit of
    the value -/
theorem C10_su_scaled (q : Bool) (t : Str) (neg : Bool) (digits sd : List Nat) (scale : Int) :
    getSu (V.numb q t neg digits (some sd) scale) = .ok (V.numb q t neg digits (some sd) scale, toDoubleBig sd scale) ∧
    getSu (V.numb q t neg digits none scale) = .ok (V.numb q t neg digits none scale, .fin false 0 0) ∧
    getNumber (V.numb q t neg digits (some sd) scale) =
      .ok (V.numb q t neg digits (some sd) scale, if neg then negDbl (toDoubleBig digits scale) else toDoubleBig digits scale) := by
  refine ⟨rfl, rfl, rfl⟩

/-! ### acceptance -/

/-- **C10_syntax** (∀ strings): `cif_value_parse_numb` accepts exactly the texts of CIF's numeric syntax (optional sign,
    digits with at most one decimal point and at least one digit, optional `e`/`E` exponent with digits, optional
    parenthesised digit string), and for every reading `p` of an accepted text the stored fields are the denoted ones:
    the sign, a digit string whose value is the mantissa `ip ++ fp`, su digits whose value is the written su, and —
    as long as the written exponent is below the saturation bound `INT_MAX / 20` — the scale `|fp| − exponent`. -/
theorem C10_syntax (s : Str) :
    ((parseNumb s).isSome ↔ NumberSyntax (cstr s)) ∧
    ∀ p, NumberParts (cstr s) p → ∃ f, parseNumb s = some f ∧ f.neg = p.neg ∧ natOfDigits f.digits = p.mantissa ∧
      f.su.map natOfDigits = p.su.map digitsValue ∧
      ((Parts.expValue p).natAbs < expSatLimit → f.scale = p.scale) := by
  constructor
  · constructor
    · intro h
      cases hf : parseNumb s with
      | none => rw [hf] at h; cases h
      | some f => exact Lemmas.NumbSyntax.parts_of_parse expSatLimit (cstr s) f hf
    · intro ⟨p, hp⟩
      obtain ⟨f, hf, _⟩ := Lemmas.NumbSyntax.parse_of_parts expSatLimit (cstr s) p hp
      unfold parseNumb parseNumbZ
      rw [hf]; rfl
  · intro p hp
    obtain ⟨f, hf, h1, h2, h3, h4, _⟩ := Lemmas.NumbSyntax.parse_of_parts expSatLimit (cstr s) p hp
    refine ⟨f, hf, h1, h2, ?_, ?_⟩
    · rw [h3]; exact Lemmas.NumbSyntax.su_value p.su
    · intro hlt
      rw [h4, Lemmas.NumbSyntax.expContrib_exact expSatLimit p hlt]
      unfold Parts.scale
      omega

/-- **C10_rejects_unchanged**: a text that `cif_value_parse_numb` refuses leaves the value object as it was (the model
    returns `none`; the coercion keeps the character value with its quoting flag) and the getters report
    CIF_INVALID_NUMBER (∀ strings) -/
theorem C10_rejects_unchanged (q : Bool) (s : Str) (h : parseNumb s = none) :
    numbOfText q s = V.chr q s ∧ getNumber (V.chr q s) = .error CIF_INVALID_NUMBER ∧
    getSu (V.chr q s) = .error CIF_INVALID_NUMBER := by
  unfold numbOfText getNumber getSu coerceNumb
  simp [h]

/-- and an accepted text becomes a number value carrying exactly the parsed fields, quoting flag preserved -/
theorem C10_accepts_fields (q : Bool) (s : Str) (f : NumbFields) (h : parseNumb s = some f) :
    numbOfText q s = V.numb q (cstr s) f.neg f.digits f.su f.scale ∧
    coerceNumb (V.chr q s) = .ok (V.numb q (cstr s) f.neg f.digits f.su f.scale) := by
  unfold numbOfText coerceNumb
  simp [h]

/-! ### integer arithmetic of the exponent (C16 shares this) -/

/-- **C10_exponent_no_overflow**: however many exponent digits a text has, the saturating accumulation (bound
    `INT_MAX / 20` since fix d4436fb) ends `≤ 1073741820 < 2^31`, and every `exponent * 10 + digit` it evaluates is
    `≤ INT_MAX` (∀ strings — induction over the digit loop) -/
theorem C10_exponent_no_overflow (r : Str) :
    expAccum (r.takeWhile isDigit) ≤ 1073741820 ∧ 1073741820 < 2 ^ 31 ∧
    ∀ e c, e < expSatLimit → isDigit c = true → e * 10 + (c - UCHAR_0) ≤ INT_MAX := by
  refine ⟨expAccum_le _ (fun c hc => mem_takeWhile_prop isDigit r c hc), by decide, fun e c he hc => expStep_operand_lt e c he hc⟩

/-- **C10_scale_within_int**: for every text of at most a line (2048 units) that `cif_value_parse_numb` accepts, the
    scale fits an `int`, and so do `scale + number of digits` and `-scale + number of digits` — the quantities that
    `scale += digit_end - (decimal_pos + 1)` (value.c) and `lsp = -scale; msp = lsp + digit count` (`to_double`)
    compute in `int` arithmetic.  (∀ strings; from `parseNumbZL_bounds`, which holds for every saturation bound.) -/
theorem C10_scale_within_int (s : Str) (f : NumbFields) (hlen : s.length ≤ 2048) (h : parseNumb s = some f) :
    -(2147483648 : Int) ≤ f.scale ∧ f.scale ≤ 2147483647 ∧
    f.scale + (f.digits.length : Int) ≤ 2147483647 ∧ -f.scale + (f.digits.length : Int) ≤ 2147483647 := by
  unfold parseNumb parseNumbZ at h
  have hb := parseNumbZL_bounds expSatLimit (cstr s) f h
  have hc : (cstr s).length ≤ s.length := len_takeWhile_le _ _
  unfold expSatLimit at hb
  omega

/-- the same statement for an arbitrary saturation bound `lim` -/
def C10_scale_within_int_for (lim : Nat) : Prop :=
  ∀ (s : Str) (f : NumbFields), s.length ≤ 2048 → parseNumbZL lim (cstr s) = some f →
    -(2147483648 : Int) ≤ f.scale ∧ f.scale + (f.digits.length : Int) ≤ 2147483647 ∧ -f.scale + (f.digits.length : Int) ≤ 2147483647

theorem C10_scale_within_int_current : C10_scale_within_int_for expSatLimit := by
  intro s f hlen h
  have := C10_scale_within_int s f hlen (by unfold parseNumb parseNumbZ; exact h)
  omega

/-- counterexample for the bound of the tree before fix d4436fb, `(INT_MAX / 10) - 1` (decided by the kernel): a valid
    33-character number text whose scale is `2^31` (fixed finding C10-exp-digits-overflow) -/
theorem C10_cex_scale_exceeds_int_pinned :
    (parseNumbZL expSatLimitPinned (a!"1.0000000000000000000e-2147483629")).map (·.scale) = some 2147483648 := by decide +kernel

theorem C10_scale_within_int_pinned_refuted : ¬ C10_scale_within_int_for expSatLimitPinned := by
  intro h
  have h1 : parseNumbZL expSatLimitPinned (cstr (a!"1.0000000000000000000e-2147483629")) =
      some ⟨false, [1,0,0,0,0,0,0,0,0,0,0,0,0,0,0,0,0,0,0,0], none, 2147483648⟩ := by decide +kernel
  have := (h _ _ (by decide) h1).2.1
  simp at this

/-! ### double → text -/

/-- **C10_init_correctly_rounded**: on success `cif_value_init_numb` records, at the requested scale, the digit string
    that is the canonical decimal numeral of `|val|·10^scale` rounded half-even (`"0"` when that is zero), the sign of
    `val`, and an su digit string that is the numeral of `su·10^scale` rounded half-even or — when that rounds to
    zero — absent or `"0"` (exact-arithmetic level; ∀ doubles, su, scales, limits and every value of libm's `MSP`) -/
theorem C10_init_correctly_rounded (val su : Bin) (scale maxLead msp : Int) (q : Bool) (t : Str) (neg : Bool)
    (digits : List Nat) (suD : Option (List Nat)) (sc : Int)
    (h : initNumb val su scale maxLead msp = .ok (V.numb q t neg digits suD sc)) :
    sc = scale ∧ q = false ∧ neg = (val.neg && decide (val.m ≠ 0)) ∧
    (val.m = 0 → digits = [0]) ∧
    (val.m ≠ 0 → digits = decDigits (roundHalfEven (scaledNum val.m val.e scale) (scaledDen val.m val.e scale))) ∧
    (su.m = 0 → suD = none) ∧
    (su.m ≠ 0 → ∀ sd, suD = some sd → natOfDigits sd = roundHalfEven (scaledNum su.m su.e scale) (scaledDen su.m su.e scale)) := by
  unfold initNumb at h
  by_cases hc : (su.neg = true ∧ su.m ≠ 0) ∨ -scale < LEAST_DBL_10_DIGIT ∨ -scale > DBL_MAX_10_EXP ∨ maxLead < 0
  · rw [if_pos hc] at h; cases h
  · rw [if_neg hc] at h
    simp only at h
    cases hT : initText (val.neg && decide (val.m ≠ 0)) (initDigits val scale) (initSu su scale) scale maxLead msp with
    | none => rw [hT] at h; cases h
    | some t' =>
      rw [hT] at h
      simp only [Except.ok.injEq, V.numb.injEq] at h
      obtain ⟨hq, _, hneg, hdig, hsu, hsc⟩ := h
      refine ⟨hsc.symm, hq.symm, hneg.symm, ?_, ?_, ?_, ?_⟩
      · intro hm
        rw [← hdig]
        simp [initDigits, toDigitsBig, hm]
      · intro hm
        rw [← hdig]
        unfold initDigits
        obtain ⟨_, h2, h3⟩ := toDigitsBig_value val.m val.e scale hm
        by_cases hz : roundHalfEven (scaledNum val.m val.e scale) (scaledDen val.m val.e scale) = 0
        · rcases h3 hz with h | h
          · rw [h, hz]; decide
          · rw [h, hz]; decide
        · rw [h2 hz]
          have : decDigits (roundHalfEven (scaledNum val.m val.e scale) (scaledDen val.m val.e scale)) ≠ [] := by
            unfold decDigits
            rw [decDigitsF]
            split
            · simp
            · simp
          simp [this]
      · intro hm
        rw [← hsu]
        simp [initSu, hm]
      · intro hm sd hsd
        rw [← hsu] at hsd
        unfold initSu at hsd
        simp only [ne_eq, hm, not_false_eq_true, if_true] at hsd
        split at hsd
        · cases hsd
        · simp only [Option.some.injEq] at hsd
          rw [← hsd]
          exact (toDigitsBig_value su.m su.e scale hm).1

/-- **C10_init_text_roundtrip** (∀ doubles, su, scales, leading-zero limits and every value of libm's `MSP`): the text
    `cif_value_init_numb` writes — plain or scientific notation — parses back with `cif_value_parse_numb` to exactly the
    sign, digit string, su digit string and scale that were recorded in the value object. -/
theorem C10_init_text_roundtrip (val su : Bin) (scale maxLead msp : Int) (q : Bool) (t : Str) (neg : Bool)
    (digits : List Nat) (suD : Option (List Nat)) (sc : Int)
    (h : initNumb val su scale maxLead msp = .ok (V.numb q t neg digits suD sc)) :
    parseNumb t = some ⟨neg, digits, suD, sc⟩ :=
  Lemmas.NumbRoundtrip.initNumb_roundtrip val su scale maxLead msp q t neg digits suD sc h

/-- and the same through `cif_value_autoinit_numb`, which ends in `cif_value_init_numb` -/
theorem C10_autoinit_text_roundtrip (val su : Bin) (rule : Nat) (msp : Int) (q : Bool) (t : Str) (neg : Bool)
    (digits : List Nat) (suD : Option (List Nat)) (sc : Int)
    (h : autoinitNumb val su rule msp = .ok (V.numb q t neg digits suD sc)) :
    parseNumb t = some ⟨neg, digits, suD, sc⟩ := by
  unfold autoinitNumb at h
  split at h
  · cases h
  · split at h
    · exact Lemmas.NumbRoundtrip.initNumb_roundtrip _ _ _ _ _ q t neg digits suD sc h
    · exact Lemmas.NumbRoundtrip.initNumb_roundtrip _ _ _ _ _ q t neg digits suD sc h

/-- **C10_autoinit_scale** (∀ finite doubles `su ≠ 0` — binary exponent ≥ −1074, as for every double —, ∀ values, su
    rules and values of `MSP`): when `cif_value_autoinit_numb` succeeds for a non-zero uncertainty, the scale it chose
    is the LARGEST scale at which the su, rounded half-even to an integer, does not exceed the su rule: the rounded su
    at `sc` is `≤ rule`, at `sc + 1` it is `> rule` (and the rounded su is monotone in the scale). -/
theorem C10_autoinit_scale (val su : Bin) (rule : Nat) (msp : Int) (q : Bool) (t : Str) (neg : Bool)
    (digits : List Nat) (suD : Option (List Nat)) (sc : Int) (hm : su.m ≠ 0) (he : -1074 ≤ su.e)
    (h : autoinitNumb val su rule msp = .ok (V.numb q t neg digits suD sc)) :
    roundHalfEven (scaledNum su.m su.e sc) (scaledDen su.m su.e sc) ≤ rule ∧
    rule < roundHalfEven (scaledNum su.m su.e (sc + 1)) (scaledDen su.m su.e (sc + 1)) := by
  unfold autoinitNumb at h
  by_cases hc : (su.neg = true ∧ su.m ≠ 0) ∨ rule < 2
  · rw [if_pos hc] at h; cases h
  · rw [if_neg hc, if_neg hm] at h
    have hr : 2 ≤ rule := by
      rcases Nat.lt_or_ge rule 2 with h2 | h2
      · exact absurd (Or.inr h2) hc
      · exact h2
    have hsc : sc = autoScale su rule := (C10_init_correctly_rounded val su _ _ msp q t neg digits suD sc h).1
    have := Lemmas.NumbAutoinit.autoScale_largest su rule hm he hr
    rw [hsc, (Lemmas.NumbAutoinit.scaled_uniform su.m su.e _).1, (Lemmas.NumbAutoinit.scaled_uniform su.m su.e _).2,
      (Lemmas.NumbAutoinit.scaled_uniform su.m su.e _).1, (Lemmas.NumbAutoinit.scaled_uniform su.m su.e _).2]
    exact this

/-- **C10_msp_exact**: what the macro `MSP(val)` must deliver (and, since fix 0504c8d, does: the `initnumb` oracle demands
    exactly this value of the executor's observation): for every finite non-zero double `±m·2^e` (`e ≥ −1074`),
    `mspExact` is THE integer `k` with `10^k ≤ |val| < 10^(k+1)` — written without division, `|val| = vn/vd`. -/
theorem C10_msp_exact (v : Bin) (hm : v.m ≠ 0) (he : -1074 ≤ v.e) :
    10 ^ (mspExact v).toNat * (ratOfBin v.m v.e).2 ≤ (ratOfBin v.m v.e).1 * 10 ^ (-(mspExact v)).toNat ∧
    (ratOfBin v.m v.e).1 * 10 ^ (-(mspExact v)).toNat < 10 * (10 ^ (mspExact v).toNat * (ratOfBin v.m v.e).2) := by
  obtain ⟨h1, h2, h3⟩ := Lemmas.NumbAutoinit.ratOfBin_pos v.m v.e hm he
  have := Lemmas.NumbAutoinit.flog10Rat_spec _ _ h1 h2 h3
  unfold mspExact
  simp only [hm, if_false]
  exact this

/-! ### the base-10⁹ limb level (Model/NumbLimbs.lean) -/

open Model.NumbLimbs Lemmas.NumbLimbPass in
/-- **C10_limbs_shr_pass** (∀ well-formed work arrays, ∀ shift widths, both loop shapes — `extra = 0` to_double's
    `for`, `extra = 1` to_digits' `do … while`): a right-shift pass as written (per-limb `dividend >> s`, remainder
    carried into the next limb, continued behind `lsd` while the remainder is non-zero, `lsd`/`msd` re-tracked) divides
    the number denoted by the array EXACTLY by `2^s` — the loop invariant "value of the limb array = the big number"
    at pass granularity — keeps the array length, the limbs below 10⁹ and everything outside `msd..lsd` zero. -/
theorem C10_limbs_shr_pass (extra s : Nat) (A A' : Arr) (h : shrPass extra s A = some A') (wf : WF A)
    (hord : A.msd ≤ A.lsd + 1) :
    natOfLimbs A'.digits * 2 ^ s = natOfLimbs A.digits ∧ A'.digits.length = A.digits.length ∧ WF A' :=
  ⟨(shrPass_spec extra s A A' h wf hord).1, (shrPass_spec extra s A A' h wf hord).2.1, (shrPass_spec extra s A A' h wf hord).2.2.1⟩

open Model.NumbLimbs Lemmas.NumbLimbPass in
/-- **C10_limbs_shl_pass**: a left-shift pass as written (per-limb `(*dig << s) + carry`, `% BBASE`, `/ BBASE`, continued
    above `msd` while the carry is non-zero) multiplies the number denoted by the array exactly by `2^s` and keeps it
    well formed. -/
theorem C10_limbs_shl_pass (s : Nat) (A A' : Arr) (h : shlPass s A = some A') (wf : WF A) (hord : A.msd ≤ A.lsd + 1)
    (hinb : A.lsd < A.digits.length) :
    natOfLimbs A'.digits = natOfLimbs A.digits * 2 ^ s ∧ A'.digits.length = A.digits.length ∧ WF A' :=
  shlPass_spec s A A' h wf hord hinb

open Model.NumbLimbs Lemmas.NumbLimbPass in
/-- **C10_limbs_round_to_int**: `round_to_int`/`round_it`/`compare_half`/`is_zero` over the limbs behind the units limb
    compute exactly the exact-arithmetic `roundToInt` of (number of the array) / (weight of the units limb) — hence, by
    `C10_round_to_int_ties_even`, round-half-even of the scaled significand. -/
theorem C10_limbs_round_to_int (ds : List Nat) (units lsd : Nat) (hs : Small ds)
    (hz : ∀ j, lsd < j → ds.getD j 0 = 0) (hl : lsd < ds.length) (hu : units < ds.length) :
    roundToIntLimbs ds (natOfLimbs (ds.take (units + 1))) units lsd =
      roundToInt (natOfLimbs ds) (BBASE ^ (ds.length - (units + 1))) :=
  Lemmas.NumbLimbRound.roundToIntLimbs_eq ds units lsd hs hz hl hu

open Model.NumbLimbs Lemmas.NumbLimbCarry in
/-- **C10_limbs_carry_loop** (∀ arrays, ∀ rounding positions `r`): the carry propagation of to_digits after rounding —
    `for (work_dig = lsd; *work_dig >= BBASE; ) { carry = *(work_dig--) / BBASE; *work_dig += carry; }`, applied
    "iteratively, if necessary" — ends on a limb below 10⁹ (or at index 0), and the number the digit generation will
    print (limbs up to the stopping position as they are, the limbs behind it modulo 10⁹ — only their low nine digits
    are printed) is exactly the number the limbs `0..r` denoted before the loop.  A round-up that ripples through a
    full limb of nines into a third limb (1999999999.96 at scale 1) is covered; a single carry step is not enough for
    the first conclusion. -/
theorem C10_limbs_carry_loop (fuel : Nat) (ds : List Nat) (r : Nat) (hr : r < ds.length) (hf : r < fuel) :
    printedAt (carryLoop fuel ds r).1 (carryLoop fuel ds r).2 r = natOfLimbs (ds.take (r + 1)) ∧
    ((carryLoop fuel ds r).1.getD (carryLoop fuel ds r).2 0 < BBASE ∨ (carryLoop fuel ds r).2 = 0) ∧
    (carryLoop fuel ds r).2 ≤ r ∧ (carryLoop fuel ds r).1.length = ds.length := by
  obtain ⟨a1, a2, a3⟩ := carryLoop_printed fuel ds r r (Nat.le_refl _) hr
  refine ⟨?_, carryLoop_stops fuel ds r hf, a3, a2⟩
  rw [a1]
  unfold printedAt printed
  simp [natOfLimbs]

/-- **C10_limbs_refine_to_double** (∀ digit strings with digits ≤ 9, ∀ scales): the base-10⁹ limb level of to_double —
    digits read into the work array, `units_digit`/first-limb positions from the shift estimates, right/left shift
    passes of ≤ 28 bits with `msd`/`lsd` tracking (including `lsd` resting on an untouched zero limb after an exactly
    filled limb), the mantissa loop, `round_to_int`/`round_it`/`compare_half`/`is_zero` over limbs, carry, `ldexp` —
    returns exactly what the exact-arithmetic level `toDoubleBig` returns, whenever it stays inside the 337-limb array
    (`none` = overrun, which the executors watch for under ASan).  With `C10_to_double_big` the limb level therefore
    rounds to nearest-even.  Proof: abstraction "array number / weight of the units limb = the fraction" (`Rel`), one
    refinement lemma per pass, the loops by induction on the fuel (`Lemmas/NumbLimbRefine.lean`). -/
theorem C10_limbs_refine_to_double (ds : List Nat) (scale : Int) (d : Dbl) (hdig : ∀ x ∈ ds, x ≤ 9)
    (h : Model.NumbLimbs.toDoubleLimbs ds scale = some d) : d = toDoubleBig ds scale :=
  Lemmas.NumbLimbRefine.toDoubleLimbs_refines ds scale d hdig h

/-- corollary: the limb level rounds to nearest-even -/
theorem C10_limbs_to_double_rne (ds : List Nat) (scale : Int) (d : Dbl) (hdig : ∀ x ∈ ds, x ≤ 9) (hnz : natOfDigits ds ≠ 0)
    (hlen : ((ds.dropWhile (· = 0)).reverse.dropWhile (· = 0)).length ≤ 2048) (p : Nat × Int)
    (hr : IsRne (C10_valNum ds scale) (C10_valDen scale) p) (hn : InNormalRange p)
    (h : Model.NumbLimbs.toDoubleLimbs ds scale = some d) : d = .fin false p.1 p.2 := by
  rw [C10_limbs_refine_to_double ds scale d hdig h]
  exact C10_to_double_big ds scale hdig hnz hlen p hr hn

/-- **C10_limbs_digits_shift** (∀ finite non-zero doubles `m·2^e`, `m < 2^53`, `−1074 ≤ e ≤ 1024`): in to_digits, after
    the 53-bit fraction has been stored limb by limb and the binary exponent applied by passes of at most 28 bits (the
    `do … while` right-shift passes with their extra limb, or the left-shift passes), the 156-limb array is well formed
    and denotes `|d|` exactly: (number of the array) / 10⁹^121 = `m·2^e`. -/
theorem C10_limbs_digits_shift (m : Nat) (e : Int) (A : Model.NumbLimbs.Arr) (hm : m ≠ 0) (hb : bitLen m ≤ 53)
    (he1 : -1074 ≤ e) (he2 : e ≤ 1024) (h : Model.NumbLimbs.digShift m e = some A) :
    Lemmas.NumbLimbDigits.GoodD A ∧
    Model.NumbLimbs.natOfLimbs A.digits * (ratOfBin m e).2 = (ratOfBin m e).1 * BBASE ^ 121 :=
  Lemmas.NumbLimbDigits.digShift_spec m e A hm hb he1 he2 h

open Model.NumbLimbs Lemmas.NumbLimbPass in
/-- **C10_limbs_round_in_limb** (∀ arrays with limbs < 10⁹ and zeros behind `lsd`, ∀ limb indices `r`, ∀ positions
    `roundPos ≤ 8` inside the limb): the rounding step of to_digits as written — `p10 = 10^roundPos`, the check value
    `(*dig % p10)·(BBASE/p10)` (or the next limb when `roundPos = 0`), clearing it from the limb, `round_it` on
    `*dig / p10` with `compare_half`/`is_zero` over the following limbs, the result multiplied back by `p10` — leaves in
    the limbs `0..r` exactly `p10 · roundHalfEven(N / U)`, `N` the number of the whole array and
    `U = p10·10⁹^(limbs behind r)` the rounding unit: correct half-even rounding at a decimal position inside a limb. -/
theorem C10_limbs_round_in_limb (ds : List Nat) (r lsd roundPos : Nat) (hs : Small ds)
    (hz : ∀ j, lsd < j → ds.getD j 0 = 0) (hr : r + 1 < ds.length) (hp : roundPos ≤ 8) :
    natOfLimbs (((if roundPos = 0 then ds else ds.set r (ds.getD r 0 - ds.getD r 0 % pow10 roundPos)).set r
        (pow10 roundPos * roundIt (if roundPos = 0 then ds else ds.set r (ds.getD r 0 - ds.getD r 0 % pow10 roundPos))
          ((if roundPos = 0 then ds else ds.set r (ds.getD r 0 - ds.getD r 0 % pow10 roundPos)).getD r 0 / pow10 roundPos)
          (if roundPos = 0 then ds.getD (r + 1) 0 else (ds.getD r 0 % pow10 roundPos) * (BBASE / pow10 roundPos))
          (if roundPos = 0 then r + 1 else r) lsd)).take (r + 1)) =
      pow10 roundPos * roundHalfEven (natOfLimbs ds) (pow10 roundPos * BBASE ^ (ds.length - (r + 1))) :=
  Lemmas.NumbLimbDigits.round_in_limb ds r lsd roundPos hs hz hr hp

/-- **C10_limbs_refine_to_digits** (∀ doubles `±m·2^e` with `m < 2^53` and `−1074 ≤ e ≤ 1024` — every finite double —,
    ∀ scales): the base-10⁹ limb level of to_digits — the 53-bit fraction stored limb by limb, the binary exponent
    applied by shift passes of ≤ 28 bits, rounding inside a limb at the decimal position of the scale (`p10`, check
    value, `round_it`/`compare_half`/`is_zero`), the carry propagation "iteratively, if necessary", the digit generation
    (first limb with its own digit count, nine digits for each following limb, truncation of the positions below the
    rounding position) — returns exactly the digit string of the exact-arithmetic level `toDigitsBig`, including its
    `""`/`"0"` distinction for values that round to zero; `none` = the scale is outside what `cif_value_init_numb`
    admits or the array would be overrun.  Proof: `digShift_spec` (array = |d|), `digShift_tight` and `msd_limbOfPlace`
    (`msd` = limb of the most significant decimal place), `unit_cross` (rounding unit = 10^-scale), `round_in_limb`,
    `carryLoop_printed`, `gen_spec`/`digits_of_limbs`/`take_numeral` (`Lemmas/NumbLimb{Digits,Tight,Msd,Gen,Finish}.lean`). -/
theorem C10_limbs_refine_to_digits (m : Nat) (e scale : Int) (l : List Nat) (hb : bitLen m ≤ 53) (he1 : -1074 ≤ e)
    (he2 : e ≤ 1024) (h : Model.NumbLimbs.toDigitsLimbs m e scale = some l) : l = toDigitsBig m e scale :=
  Lemmas.NumbLimbFinish.toDigitsLimbs_refines m e scale l hb he1 he2 h

/-- **C10_limbs_refine_big**: both halves of the limb-level refinement -/
theorem C10_limbs_refine_big :
    (∀ (ds : List Nat) (scale : Int) (d : Dbl), (∀ x ∈ ds, x ≤ 9) → Model.NumbLimbs.toDoubleLimbs ds scale = some d →
      d = toDoubleBig ds scale) ∧
    (∀ (m : Nat) (e scale : Int) (l : List Nat), bitLen m ≤ 53 → -1074 ≤ e → e ≤ 1024 →
      Model.NumbLimbs.toDigitsLimbs m e scale = some l → l = toDigitsBig m e scale) :=
  ⟨fun ds scale d hd h => C10_limbs_refine_to_double ds scale d hd h,
   fun m e scale l hb h1 h2 h => C10_limbs_refine_to_digits m e scale l hb h1 h2 h⟩

/-! ### non-vacuity and regression examples -/

-- the carry loop on |1|999999999|10⁹| (1999999999.96 rounded at scale 1): two steps, stops at index 0 with limb 2
example : Model.NumbLimbs.carryLoop 156 [1, 999999999, 1000000000] 2 = ([2, 1000000000, 1000000000], 0) := by decide +kernel
-- limb level = exact level on concrete inputs (ties, a limb of nines with carry ripple, a value rounding to zero)
example : Model.NumbLimbs.toDoubleLimbs [9,0,0,7,1,9,9,2,5,4,7,4,0,9,9,5] 0 = some (.fin false 4503599627370498 1) := by decide +kernel
example : Model.NumbLimbs.toDigitsLimbs 8388607999999832 (-22) 1 = some [2,0,0,0,0,0,0,0,0,0,0] := by decide +kernel
example : toDigitsBig 8388607999999832 (-22) 1 = [2,0,0,0,0,0,0,0,0,0,0] := by decide +kernel
example : Model.NumbLimbs.toDigitsLimbs 7378697629483821 (-64) 2 = some [] := by decide +kernel


-- the hypotheses of C10_to_double_big_partial are satisfiable, and the model returns the tie-to-even result (F14)
example : toDoubleBig [9,0,0,7,1,9,9,2,5,4,7,4,0,9,9,5] 0 = .fin false 4503599627370498 1 := by decide +kernel
example : toDoubleBig [9,0,0,7,1,9,9,2,5,4,7,4,0,9,9,3] 0 = .fin false 4503599627370496 1 := by decide +kernel
example : rne 9007199254740995 1 = (4503599627370498, 1) := by decide +kernel
example : (1 : Nat) ≤ 9 ∧ ([9,0,0,7,1,9,9,2,5,4,7,4,0,9,9,5] : List Nat).reverse.dropWhile (· = 0) = [9,0,0,7,1,9,9,2,5,4,7,4,0,9,9,5].reverse := by decide
example : InNormalRange (4503599627370498, 1) := by decide
example : BinadeOf 9007199254740995 1 1 ∧ ¬ BinadeOf 9007199254740995 1 0 := by decide +kernel
-- C10_to_double_big: hypotheses instantiated on a string with leading and trailing zeroes (0090071992547409950 · 10^-1)
example : natOfDigits [0,0,9,0,0,7,1,9,9,2,5,4,7,4,0,9,9,5,0] ≠ 0 ∧
    ((([0,0,9,0,0,7,1,9,9,2,5,4,7,4,0,9,9,5,0] : List Nat).dropWhile (· = 0)).reverse.dropWhile (· = 0)).length ≤ 2048 := by decide
example : toDoubleBig [0,0,9,0,0,7,1,9,9,2,5,4,7,4,0,9,9,5,0] 1 = .fin false 4503599627370498 1 := by decide +kernel
example : BinadeOf (C10_valNum [0,0,9,0,0,7,1,9,9,2,5,4,7,4,0,9,9,5,0] 1) (C10_valDen 1) 1 := by decide +kernel
-- round_to_int: a tie with odd / even truncated value, and a non-tie
example : roundToInt 3 2 = 2 ∧ roundToInt 5 2 = 2 ∧ roundToInt 7 4 = 2 ∧ roundToInt 5 4 = 1 := by decide
-- syntax: accepted and rejected spellings (tests, not the theorem)
example : (parseNumb (a!"+.5")).isSome ∧ (parseNumb (a!"1.")).isSome ∧ (parseNumb (a!"1.e5")).isSome ∧ (parseNumb (a!"007")).isSome ∧
    (parseNumb (a!"0.0(0)")).isSome ∧ parseNumb (a!".") = none ∧ parseNumb (a!"e5") = none ∧ parseNumb (a!"1e") = none ∧
    parseNumb (a!"1(2") = none ∧ parseNumb (a!"1()") = none ∧ parseNumb (a!"1(2)x") = none := by decide +kernel
example : parseNumb (a!"abc") = none := by decide +kernel
-- init: value rounding to zero keeps one zero digit (F21), and the text parses back
example : (match initNumb ⟨false, 7378697629483821, -64⟩ ⟨false, 0, 0⟩ 2 5 (-4) with
    | .ok (V.numb _ t _ d _ _) => (d, parseNumb t) | _ => ([], none)) = ([0], some ⟨false, [0], none, 2⟩) := by decide +kernel
-- autoinit, rule of 19: 12.3456(123) → scale 3, su 12
example : (match autoinitNumb ⟨false, 6950179563189830, -49⟩ ⟨false, 7090215482051297, -59⟩ 19 1 with
    | .ok (V.numb _ _ _ d s sc) => (d, s, sc) | _ => ([], none, 0)) = ([1,2,3,4,6], some [1,2], 3) := by decide +kernel

end CifModel
