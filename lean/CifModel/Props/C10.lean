import CifModel.Model.Numb
namespace CifModel
end CifModel
