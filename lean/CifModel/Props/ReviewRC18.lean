import CifModel.Props.C18Parse
/-
  Review rA, property C18 (group gS): instances of
    C18_text_field_reads_back_all, C18_text_field_reads_back_value, C18_delim_reads_back_value (used by _item),
    C18_delim_reads_back_item, C18_text_field_reads_back_item
  at the boundaries the statement is interesting at:
    * a first line of exactly 2047 units (`;` + line = a physical line of exactly 2048 characters: NOT folded) and of 2048 (folded),
    * a later line `;aaa…` of 2046 units (prefix alone: `> ;aaa…` is exactly 2048) and of 2047 (prefix forces folding),
    * reserved start + `<LF>;` (fold AND prefix), trailing backslashes (protected lines), a string that starts with `;`,
    * the corner `s = []`, `limit = 0` (clause 1 of the headline is true of the model where the C asserts),
    * digit strings: in apostrophes and in a text field they stay QUOTED CHARACTER values; stored by parse_item.
  All data are `List Nat`; long lists are handled by `decide +kernel`.
-/
namespace CifModel.ReviewRC18
open CifModel Model Spec Lemmas.Analyze
open Spec.Lexical Model.Lexer Model.Writer Model.Decode Model.Parser

/-- the `∃ body` of the headline is not a weak existential: clause 1 pins it to the writer's body -/
theorem body_pinned (c : Ctx) (s body b : Str) (f p : Bool) (c' : Ctx)
    (h : writeText c s f p = .ok (a!"\n;" ++ body ++ a!"\n;", c')) (hb : textBody s f p = .ok b) : body = b := by
  unfold writeText at h
  rw [hb] at h
  simp only [TEXT_CLOSE, Except.ok.injEq, Prod.mk.injEq] at h
  have h1 := h.1
  simp only [List.append_assoc] at h1
  have h2 := List.append_cancel_left h1
  exact (List.append_cancel_right h2).symm


/-- `max_semi_run` of strings made of a long run of `a`: through `C18_stats_exact` and the specification function `maxRun`
    (the kernel cannot evaluate the 2000-deep chain of `REMEMBER_SEMIS` thunks with a comfortable margin) -/
theorem leadRun_rep (n : Nat) (r : Str) (h : leadRun r = 0) : leadRun (List.replicate n 97 ++ r) = 0 := by
  cases n <;> simp [leadRun, h, List.replicate_succ]
theorem maxRun_rep (n : Nat) (r : Str) : maxRun (List.replicate n 97 ++ r) = maxRun r := by
  induction n with
  | zero => simp
  | succ n ih => simp [List.replicate_succ, maxRun, leadRun, ih]

/-- the flags of `write_char`, from the statistics -/
theorem flags_plain (a : Analysis) (h1 : a.lengthFirst < LINE) (h2 : a.lengthMax ≤ LINE) (h3 : a.hasReservedStart = false)
    (h4 : a.maxSemiRun < LINE - 1) (h5 : a.containsTextDelim = false) : Lemmas.WriterChar.charFlags a = (false, false) := by
  have e1 : ¬ (a.lengthFirst ≥ LINE) := by omega
  have e2 : ¬ (a.lengthMax > LINE) := by omega
  have e4 : ¬ (a.maxSemiRun ≥ LINE - 1) := by omega
  simp [Lemmas.WriterChar.charFlags, e1, e2, e4, h3, h5]
theorem flags_fold (a : Analysis) (h1 : a.lengthFirst ≥ LINE) (h4 : a.maxSemiRun = 0) (h5 : a.containsTextDelim = false) :
    Lemmas.WriterChar.charFlags a = (true, false) := by
  simp [Lemmas.WriterChar.charFlags, h1, h4, h5]
theorem flags_prefix (a : Analysis) (h1 : a.lengthFirst < LINE) (h2 : a.lengthMax + PREFIX_LENGTH ≤ LINE) (h3 : a.hasReservedStart = false)
    (h4 : a.maxSemiRun < LINE - 1) (h5 : a.containsTextDelim = true) : Lemmas.WriterChar.charFlags a = (false, true) := by
  have e1 : ¬ (a.lengthFirst ≥ LINE) := by omega
  have e2 : ¬ (a.lengthMax > LINE) := by simp [PREFIX_LENGTH] at h2; omega
  have e3 : ¬ (a.lengthMax + PREFIX_LENGTH > LINE) := by omega
  have e4 : ¬ (a.maxSemiRun ≥ LINE - 1) := by omega
  simp [Lemmas.WriterChar.charFlags, e1, e2, e3, e4, h3, h5]
theorem flags_prefix_fold (a : Analysis) (h2 : a.lengthMax + PREFIX_LENGTH > LINE) (h5 : a.containsTextDelim = true) :
    Lemmas.WriterChar.charFlags a = (true, true) := by
  simp [Lemmas.WriterChar.charFlags, h2, h5]

/-! ### 1. the folding limit on the FIRST line (the arguments are the ones `write_char` passes: !quoted = true, true, 2048) -/

/-- `a`×2047 ⏎ `b`: too long for `'''` (first line + 3 ≥ 2048) ⇒ text field; `;` + 2047 units = a line of exactly 2048 -/
def sA : Str := List.replicate 2047 97 ++ [10, 98]
/-- `a`×2048 ⏎ `b`: one unit more ⇒ `length_first ≥ LINE` ⇒ folding -/
def sB : Str := List.replicate 2048 97 ++ [10, 98]

theorem sA_semis : (analyze sA true true LINE).maxSemiRun = 0 := by
  rw [(C18_stats_exact sA true true LINE).2.2.2.2.2.1, sA, maxRun_rep]; decide
theorem sB_semis : (analyze sB true true LINE).maxSemiRun = 0 := by
  rw [(C18_stats_exact sB true true LINE).2.2.2.2.2.1, sB, maxRun_rep]; decide
theorem sA_text : (analyze sA true true LINE).delimLength = 2 := by decide +kernel
theorem sB_text : (analyze sB true true LINE).delimLength = 2 := by decide +kernel
theorem sA_flags : Lemmas.WriterChar.charFlags (analyze sA true true LINE) = (false, false) :=
  flags_plain _ (by decide +kernel) (by decide +kernel) (by decide +kernel) (by rw [sA_semis]; decide) (by decide +kernel)
theorem sB_flags : Lemmas.WriterChar.charFlags (analyze sB true true LINE) = (true, false) :=
  flags_fold _ (by decide +kernel) sB_semis (by decide +kernel)

/-- the headline applied to `sA`: the body IS `sA` (no protocol), `write_char` emits `⏎;` sA `⏎;`, and the scanner reads it behind
    `_x` + blank at column 3 as ONE text-field token with text `sA`, reporting nothing (the physical line `;aaa…` has exactly 2048
    characters), for every policy and log -/
example (pol : Policy) (log : List Report) :
    writeChar {} sA false true = .ok (a!"\n;" ++ sA ++ a!"\n;", { lastColumn := 1 }) ∧
    decodeText true true sA = sA ∧
    ∃ L C, nextToken .cif2 ⟨[32] ++ ((a!"\n;" ++ sA ++ a!"\n;") ++ [10]), 1, 3, .name⟩ pol log
      = .ok (⟨.tvalue, sA, L, C⟩, ⟨[10], L, C, .tvalue⟩) log := by
  obtain ⟨body, h1, h2, h3, h4⟩ := C18_text_field_reads_back_all sA true true LINE (by decide +kernel) sA_text
  rw [sA_flags] at h1
  have hb : body = sA := body_pinned {} sA body sA false false _ (h1 {}) rfl
  subst hb
  refine ⟨h2 {} false rfl rfl rfl rfl (by decide +kernel), h3, ?_⟩
  have := h4 [.blank 32] [10] 1 3 .name pol log (by decide) (Or.inr (by intro b r h; cases h)) (by decide) (by decide) (by decide)
  simpa [renderWs, WsAtom.render] using this

/-- the headline applied to `sB` (folding on): some body is emitted by `write_char`, decodes to `sB`, and is scanned as one token
    with no over-long-line report although `sB` itself has a line of 2048 units behind the `;` -/
example (pol : Policy) (log : List Report) : ∃ body : Str,
    writeChar {} sB false true = .ok (a!"\n;" ++ body ++ a!"\n;", { lastColumn := 1 }) ∧
    decodeText true true body = sB ∧
    ∃ L C, nextToken .cif2 ⟨[32] ++ ((a!"\n;" ++ body ++ a!"\n;") ++ [10]), 1, 3, .name⟩ pol log
      = .ok (⟨.tvalue, body, L, C⟩, ⟨[10], L, C, .tvalue⟩) log := by
  obtain ⟨body, _, h2, h3, h4⟩ := C18_text_field_reads_back_all sB true true LINE (by decide +kernel) sB_text
  refine ⟨body, h2 {} false rfl rfl rfl rfl (by decide +kernel), h3, ?_⟩
  have := h4 [.blank 32] [10] 1 3 .name pol log (by decide) (Or.inr (by intro b r h; cases h)) (by decide) (by decide) (by decide)
  simpa [renderWs, WsAtom.render] using this

/-! ### 2. the prefix limit on a LATER line that begins with `;` -/

/-- `b` ⏎ `;` `a`×2045: the line has 2046 units, with the prefix `> ` exactly 2048 ⇒ prefix, no folding -/
def sP : Str := [98, 10, 59] ++ List.replicate 2045 97
/-- `b` ⏎ `;` `a`×2046: one more ⇒ the prefix no longer fits ⇒ folding is forced -/
def sQ : Str := [98, 10, 59] ++ List.replicate 2046 97

theorem maxRun_semi_rep (n : Nat) : maxRun ([98, 10, 59] ++ List.replicate n 97) = 1 := by
  have h := maxRun_rep n []
  have l := leadRun_rep n [] rfl
  simp only [List.append_nil] at h l
  simp [maxRun, leadRun, h, l]
theorem sP_semis : (analyze sP true true LINE).maxSemiRun = 1 := by
  rw [(C18_stats_exact sP true true LINE).2.2.2.2.2.1, sP]
  exact maxRun_semi_rep 2045
theorem sP_text : (analyze sP true true LINE).delimLength = 2 := by decide +kernel
theorem sQ_text : (analyze sQ true true LINE).delimLength = 2 := by decide +kernel
theorem sP_flags : Lemmas.WriterChar.charFlags (analyze sP true true LINE) = (false, true) :=
  flags_prefix _ (by decide +kernel) (by decide +kernel) (by decide +kernel) (by rw [sP_semis]; decide) (by decide +kernel)
theorem sQ_flags : Lemmas.WriterChar.charFlags (analyze sQ true true LINE) = (true, true) :=
  flags_prefix_fold _ (by decide +kernel) (by decide +kernel)

example (pol : Policy) (log : List Report) : ∃ body : Str,
    writeChar {} sP false true = .ok (a!"\n;" ++ body ++ a!"\n;", { lastColumn := 1 }) ∧
    decodeText true true body = sP ∧
    ∃ L C, nextToken .cif2 ⟨(a!"\n;" ++ body ++ a!"\n;") ++ [], 7, 2048, .value⟩ pol log
      = .ok (⟨.tvalue, body, L, C⟩, ⟨[], L, C, .tvalue⟩) log := by
  obtain ⟨body, _, h2, h3, h4⟩ := C18_text_field_reads_back_all sP true true LINE (by decide +kernel) sP_text
  refine ⟨body, h2 {} false rfl rfl rfl rfl (by decide +kernel), h3, ?_⟩
  -- no whitespace atom at all in front, the previous token (a value) ends at column 2048, end of input behind
  have := h4 [] [] 7 2048 .value pol log (by intro x hx; cases hx) (Or.inr (by intro b r h; cases h)) (by decide) (by decide) (by decide)
  simpa [renderWs] using this

example : ∃ body : Str, writeChar {} sQ false true = .ok (a!"\n;" ++ body ++ a!"\n;", { lastColumn := 1 }) ∧
    decodeText true true body = sQ := by
  obtain ⟨body, _, h2, h3, _⟩ := C18_text_field_reads_back_all sQ true true LINE (by decide +kernel) sQ_text
  exact ⟨body, h2 {} false rfl rfl rfl rfl (by decide +kernel), h3⟩

/-! ### 3. reserved start + `<LF>;` (fold AND prefix), trailing backslashes, a leading `;` — at the level of the PARSED VALUE -/

/-- `'''"""\` ⏎ `;x` : both triple delimiters shut out, the first line ends in a backslash, and `<LF>;` occurs -/
def sC : Str := a!"'''\"\"\"\\\n;x"
example : Lemmas.WriterChar.charFlags (analyze sC true true LINE) = (true, true) ∧ (analyze sC true true LINE).hasReservedStart = true := by
  decide
/-- the body the writer emits: `> \\` / `> '''"""\\` / (empty line) / `> ;x` -/
example : textBody sC true true = .ok (a!"> \\\\\n> '''\"\"\"\\\\\n\n> ;x") := by rfl

/-- `C18_text_field_reads_back_value` on `sC`: parse_value (CIF 2.0 defaults) on the emitted presentation yields the QUOTED CHARACTER
    value with text exactly `sC`; nothing reported (`W` unchanged), exactly the presentation consumed -/
example (pol : Policy) : ∃ ps', parseValue C01parse.opts2 1
      ⟨⟨[32] ++ ((a!"\n;" ++ a!"> \\\\\n> '''\"\"\"\\\\\n\n> ;x" ++ a!"\n;") ++ [32, 93]), 1, 3, .name⟩, none⟩ pol { log := [], cif := [] }
    = .ok (.chr true sC, ps') { log := [], cif := [] } ∧ ps'.tok = none ∧ ps'.scan.rest = [32, 93] := by
  obtain ⟨body, h1, h⟩ := C18_text_field_reads_back_value sC true true LINE (by decide) (by decide) C01parse.opts2 rfl rfl rfl
  have hfl : Lemmas.WriterChar.charFlags (analyze sC true true LINE) = (true, true) := by decide
  rw [hfl] at h1
  have hb : body = a!"> \\\\\n> '''\"\"\"\\\\\n\n> ;x" := body_pinned {} sC body _ true true _ (h1 {}) (by rfl)
  subst hb
  have := h [.blank 32] [32, 93] 1 3 .name pol { log := [], cif := [] } 0 (by decide) (Or.inr (by intro b r h; cases h)) (by decide)
    (by decide) (by decide)
  simpa [renderWs, WsAtom.render] using this

/-- `a'''b"""\`+2 blanks ⏎ `ab\` : reserved start (backslash before trailing blanks) and a LAST line ending in a backslash -/
def sD : Str := a!"a'''b\"\"\"\\  \nab\\"
example : Lemmas.WriterChar.charFlags (analyze sD true true LINE) = (true, false) := by decide
example : textBody sD true false = .ok (a!"\\\na'''b\"\"\"\\  \\\n\nab\\\\\n") := by rfl
example (pol : Policy) (W : Model.Parser.W) : ∃ body ps', parseValue C01parse.opts2 5
      ⟨⟨[10] ++ ((a!"\n;" ++ body ++ a!"\n;") ++ []), 1, 0, .end_⟩, none⟩ pol W
    = .ok (.chr true sD, ps') W ∧ ps'.tok = none ∧ ps'.scan.rest = [] := by
  obtain ⟨body, _, h⟩ := C18_text_field_reads_back_value sD true true LINE (by decide) (by decide) C01parse.opts2 rfl rfl rfl
  have := h [.eol] [] 1 0 .end_ pol W 4 (by decide) (Or.inl rfl) (by decide) (by decide) (by decide)
  exact ⟨body, by simpa [renderWs, WsAtom.render] using this⟩

/-- `;'''"""` ⏎ `b` : the string itself starts with `;` — plain text field `⏎;;'''"""⏎b⏎;` (has_reserved_start is not even computed) -/
def sE : Str := a!";'''\"\"\"\nb"
example : Lemmas.WriterChar.charFlags (analyze sE true true LINE) = (false, false) := by decide
example (pol : Policy) (W : Model.Parser.W) : ∃ ps', parseValue C01parse.opts2 1
      ⟨⟨a!"\n;;'''\"\"\"\nb\n;" ++ [10], 1, 5, .name⟩, none⟩ pol W
    = .ok (.chr true sE, ps') W ∧ ps'.tok = none ∧ ps'.scan.rest = [10] := by
  obtain ⟨body, h1, h⟩ := C18_text_field_reads_back_value sE true true LINE (by decide) (by decide) C01parse.opts2 rfl rfl rfl
  have hfl : Lemmas.WriterChar.charFlags (analyze sE true true LINE) = (false, false) := by decide
  rw [hfl] at h1
  have hb : body = sE := body_pinned {} sE body sE false false _ (h1 {}) rfl
  subst hb
  have := h [] [10] 1 5 .name pol W 0 (by intro x hx; cases hx) (Or.inr (by intro b r h; cases h)) (by decide) (by decide) (by decide)
  simpa [renderWs, sE] using this

/-! ### 4. the corner `s = []`, `limit < 2`: clause 1 of the headline holds of the MODEL where the C has `assert(*text)` -/

example : (analyze [] true true 0).delimLength = 2 ∧ (analyze [] true true 1).delimLength = 2 ∧ (analyze [] true true 2).delimLength = 1 := by
  decide
/-- "write_text never fails" is claimed here for the empty text, which `write_text` of ciffile.c refuses by assertion
    (review note: minor — unreachable from `write_char`, which passes limit 2048 and gets `'` for the empty string) -/
example (c : Ctx) : writeText c [] false false = .ok (a!"\n;\n;", { c with lastColumn := 1 }) := by
  obtain ⟨body, h1, _, _, _⟩ := C18_text_field_reads_back_all [] true true 0 (by decide) (by decide)
  have hfl : Lemmas.WriterChar.charFlags (analyze [] true true 0) = (false, false) := by decide
  rw [hfl] at h1
  have hb : body = [] := body_pinned c [] body [] false false _ (h1 c) rfl
  subst hb
  simpa using h1 c

/-! ### 5. digit strings stay strings -/

/-- `12` with `allow_unquoted = false` (the value is marked quoted): recommended `'12'`, parse_value gives the QUOTED character
    value — kind char, text `12`, quoted — not a number and not the unquoted string -/
example (pol : Policy) (W : Model.Parser.W) : ∃ ps', parseValue C01parse.opts2 1
      ⟨⟨[32] ++ ((a!"'12'") ++ [10]), 1, 2, .name⟩, none⟩ pol W = .ok (.chr true (a!"12"), ps') W
      ∧ ps'.tok = none ∧ ps'.scan.rest = [10] := by
  have h := C18_delim_reads_back_value (a!"12") [10] false true 2048 [.blank 32] 1 2 .name pol C01parse.opts2 W 0 rfl
    (by decide) (by decide) (by decide) (Or.inr (by intro b r h; cases h)) (by decide) (by decide) (by decide) (by decide)
  have hr : recommend (a!"12") false true 2048 = .apos := by decide
  rw [hr] at h
  simpa [Delim.units, renderWs, WsAtom.render] using h

/-- `12` under a limit of 1: the text field is recommended; it comes back as the quoted character value `12` -/
example (pol : Policy) (W : Model.Parser.W) : ∃ ps', parseValue C01parse.opts2 1
      ⟨⟨a!"\n;12\n;" ++ [], 1, 2, .name⟩, none⟩ pol W = .ok (.chr true (a!"12"), ps') W ∧ ps'.tok = none ∧ ps'.scan.rest = [] := by
  obtain ⟨body, h1, h⟩ := C18_text_field_reads_back_value (a!"12") true true 1 (by decide) (by decide) C01parse.opts2 rfl rfl rfl
  have hfl : Lemmas.WriterChar.charFlags (analyze (a!"12") true true 1) = (false, false) := by decide
  rw [hfl] at h1
  have hb : body = a!"12" := body_pinned {} _ body _ false false _ (h1 {}) rfl
  subst hb
  have := h [] [] 1 2 .name pol W 0 (by intro x hx; cases hx) (Or.inr (by intro b r h; cases h)) (by decide) (by decide) (by decide)
  simpa [renderWs] using this

/-! ### 6. parse_item: what is STORED -/

/-- the block `b`, still empty -/
def cif0 : Cif := [Container.mk (a!"b") [] []]
/-- … and with the scalar item `_x` = QUOTED character value `12` -/
def cif1 : Cif := [Container.mk (a!"b") [] [{ category := some [], names := [a!"_x"], packets := [[.chr true (a!"12")]] }]]

/-- what `setValue` (the right-hand side of the two `_item` theorems) does on a concrete store -/
theorem setValue_cif0 (pol : Policy) (ps' : PS) :
    P.bind (setValue C01parse.opts2 [a!"b"] (a!"_x") (.chr true (a!"12"))) (fun _ => P.pure ps') pol { log := [], cif := cif0 }
      = .ok ps' { log := [], cif := cif1 } := by
  rfl

/-- `C18_delim_reads_back_item`: `_x '12'` inside block `b` — parse_item stores the quoted character value `12` under `_x`, reports
    nothing, and leaves the scanner behind the value -/
example (pol : Policy) : ∃ ps', parseItem C01parse.opts2 1
      ⟨⟨[32] ++ ((a!"'12'") ++ [10]), 1, 2, .name⟩, none⟩ (some [a!"b"]) (some (a!"_x")) pol { log := [], cif := cif0 }
      = .ok ps' { log := [], cif := cif1 } ∧ ps'.tok = none ∧ ps'.scan.rest = [10] := by
  have h := C18_delim_reads_back_item (a!"12") [10] false true 2048 [.blank 32] 1 2 .name pol C01parse.opts2 { log := [], cif := cif0 } 0
    [a!"b"] (a!"_x") rfl
    (by decide) (by decide) (by decide) (Or.inr (by intro b r h; cases h)) (by decide) (by decide) (by decide) (by decide)
  have hr : recommend (a!"12") false true 2048 = .apos := by decide
  rw [hr] at h
  obtain ⟨ps', h, ht, hrst⟩ := h
  refine ⟨ps', ?_, ht, hrst⟩
  rw [← setValue_cif0 pol ps']
  simpa [Delim.units, renderWs, WsAtom.render] using h

/-- `C18_text_field_reads_back_item` on the same store: the text field `⏎;12⏎;` (limit 1) is stored as the same quoted value -/
example (pol : Policy) : ∃ ps', parseItem C01parse.opts2 1
      ⟨⟨a!"\n;12\n;" ++ [10], 1, 2, .name⟩, none⟩ (some [a!"b"]) (some (a!"_x")) pol { log := [], cif := cif0 }
      = .ok ps' { log := [], cif := cif1 } ∧ ps'.tok = none ∧ ps'.scan.rest = [10] := by
  obtain ⟨body, h1, h⟩ := C18_text_field_reads_back_item (a!"12") true true 1 (by decide) (by decide) C01parse.opts2 rfl rfl rfl
  have hfl : Lemmas.WriterChar.charFlags (analyze (a!"12") true true 1) = (false, false) := by decide
  rw [hfl] at h1
  have hb : body = a!"12" := body_pinned {} _ body _ false false _ (h1 {}) rfl
  subst hb
  obtain ⟨ps', h, ht, hrst⟩ := h [] [10] 1 2 .name pol { log := [], cif := cif0 } 0 [a!"b"] (a!"_x")
    (by intro x hx; cases hx) (Or.inr (by intro b r h; cases h)) (by decide) (by decide) (by decide)
  refine ⟨ps', ?_, ht, hrst⟩
  rw [← setValue_cif0 pol ps']
  simpa [renderWs] using h


/-! ### 7. what the only side condition (`okUnits .cif2`) shuts out although the ANALYSIS recommends the text field for it -/

/-- `a` CR `b` (two lines for the analysis): text field recommended, `write_char` writes it plainly, but the string is outside every
    read-back theorem — and indeed `decode_text` gives `a` LF `b` (disclosed: ASSUMPTIONS / PARTIAL of C18.py) -/
example : (analyze [97, 13, 98] true false LINE).delimLength = 2 ∧ okUnits .cif2 none [97, 13, 98] = false ∧
    textBody [97, 13, 98] false false = .ok [97, 13, 98] ∧ decodeText true true [97, 13, 98] = [97, 10, 98] := by
  refine ⟨by decide, by decide, rfl, by decide⟩
/-- the same for units that are not CIF 2.0 characters at all (DEL, a C1 control, U+FFFE, a lone surrogate): recommended, not covered -/
example : ([[97, 127, 10, 98], [97, 0x85, 10, 98], [97, 0xFFFE, 10, 98], [97, 0xD800, 10, 98]] : List Str).all
    (fun s => (analyze s true false LINE).delimLength == 2 && !okUnits .cif2 none s) = true := by decide

end CifModel.ReviewRC18
