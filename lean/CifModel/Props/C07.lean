import CifModel.Model.Value
import CifModel.Model.Serialize
import CifModel.Model.Columns
/- Property C07 — placeholder while the families are brought up; theorems follow. -/
namespace CifModel
end CifModel
