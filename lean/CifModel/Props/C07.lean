import CifModel.Lemmas.Serialize
import CifModel.Lemmas.Columns
/-
  Property C07 — values stored in a CIF are read back identical.

  Model: Model/Serialize (binary form of lists and tables over the 512-byte write buffer), Model/Columns (value ↔ columns
  of item_value + CHECK constraints), Model/Numb.parseNumb (group gB) for the numbers the deserialiser re-parses.
  Independence from the caller's object holds here because values are immutable trees; at the C level it is the
  ownership protocol of Model/Heap (Props/C19.lean) plus the sanitised `storeval` runs.
-/
namespace CifModel
open Model.Serialize Model.Columns

/-- every number inside `v` is what `parse` makes of its text (`parse` = cif_value_parse_numb) -/
abbrev C07_numbsConsistent (parse : Str → Option NumbFields) (v : V) : Prop := numbsParse parse v = true

/-- **Serialisation round trip**, any depth, any size, empty containers, keys in both spellings, quoted flags, numbers
    rebuilt from their text: the deserialiser applied to what the serialiser wrote returns the value and consumes
    exactly the words written (`rest` untouched), with any fuel ≥ `cost v`. -/
theorem C07_serialize_roundtrip (parse : Str → Option NumbFields) (v : V) (h : C07_numbsConsistent parse v) :
    deserialize parse (ser v) = some (v, [])
    ∧ ∀ rest fuel, cost v ≤ fuel → deser parse fuel (ser v ++ rest) = some (v, rest) :=
  ⟨deserialize_ser parse v h, fun rest fuel hf => roundtrip parse v rest fuel h hf⟩

/-- **The write buffer**: for every value whose serialised form is smaller than the address space,
    `cif_value_serialize` terminates successfully, the buffer holds exactly the words of `ser v`, its `limit` is their
    total byte width, and every `memcpy` stayed inside the allocated block (`limit ≤ alloc`). -/
theorem C07_serialize_buffer (v : V) (h : widthSum (ser v) < SZ) :
    ∃ b, serialize v = .ok b ∧ b.contents = ser v ∧ b.limit = widthSum (ser v) ∧ b.limit ≤ b.alloc :=
  serialize_ok v h

/-- **The growth loop of cif_buf_write, as written, terminates** with a capacity that covers the request, for every
    capacity ≥ 2, every position and every length (fuel = the number of bytes requested suffices: the working capacity
    grows by at least one byte per iteration). -/
theorem C07_buf_write_terminates (capacity position len fuel : Nat) (hc : 2 ≤ capacity)
    (hneed : capacity < position + len) (hfuel : position + len ≤ fuel) :
    ∃ p, growLoop fuel capacity (position + len) = some p ∧ position + len ≤ p :=
  growLoop_terminates fuel capacity (position + len) hc (by omega) (by omega)

/-- … consequently a single `cif_buf_write` never diverges and never fails unless `position + len` overflows `size_t` -/
theorem C07_buf_write_ok (b : WBuf) (w : Word) (hb : b.Inv) (h : b.position + w.width < SZ) :
    ∃ b', bufWrite SZ b w = .ok b' ∧ b'.Inv ∧ b'.position = b.position + w.width :=
  let ⟨b', h1, h2, h3, _⟩ := bufWrite_ok b w hb h; ⟨b', h1, h2, h3⟩

/-- the buffer `cif_value_serialize` creates satisfies the capacity hypothesis (DEFAULT_SERIALIZATION_CAP, re-extracted
    from value.c on every run) -/
theorem C07_default_cap_ok : 2 ≤ Gen.ValueCols.defaultSerializationCap ∧ (bufCreate Gen.ValueCols.defaultSerializationCap).Inv := by
  rw [cap_link]; exact ⟨by decide, bufCreate_inv _ (by decide)⟩

/-- F28 (repaired by df2a641): with the pinned loop, which never updates `working_cap`, a write that needs more than
    1.5 × the capacity never returns, whatever the fuel — e.g. 800 bytes into the fresh 512-byte buffer. -/
theorem C07_cex_buf_write_pinned (fuel : Nat) : growLoopPinned fuel 512 800 = none :=
  growLoopPinned_diverges fuel 512 800 (by decide) (by decide)

/-- the hypothesis `capacity ≥ 2` is needed: from capacity 1 the loop as written proposes 1 forever -/
theorem C07_cex_buf_write_cap1 (fuel : Nat) : growLoop fuel 1 2 = none := by
  induction fuel with
  | zero => rfl
  | succ f ih =>
    have h1 : (1 * 3 % SZ) / 2 = 1 := by decide
    unfold growLoop
    simp [h1, ih]

/-- **Column round trip**: a well-formed value is mapped to a row that satisfies the CHECK constraints of item_value and
    is read back identical (lists and tables through serialise → blob → deserialise). -/
theorem C07_columns_roundtrip (parse : Str → Option NumbFields) (v : V) (h : wfValue parse v = true) :
    ∃ row, toColumns v = some row ∧ checks row = true ∧ fromColumns parse row = some v :=
  columns_roundtrip parse v h

/-- the transcribed CHECK constraints, statement column orders and macro offsets are those of the current sources -/
theorem C07_schema_link :
    Gen.ValueCols.checks = assumedChecks
    ∧ (∀ o ∈ Gen.ValueCols.setOrders, o = assumedSetOrder) ∧ (∀ o ∈ Gen.ValueCols.getOrders, o = assumedGetOrder) :=
  ⟨checks_link, colOrder_link.1, colOrder_link.2⟩

/-- F21 (repaired by 46300e2) as a CHECK failure: a number with an empty digit string cannot be stored -/
theorem C07_cex_empty_digits (q : Bool) (t : Str) (neg : Bool) (su : Option (List Nat)) (sc : Int) :
    ∃ row, toColumns (.numb q t neg [] su sc) = some row ∧ checks row = false :=
  empty_digits_rejected q t neg su sc

/-- FULL statement of "numbers inside lists/tables are rebuilt by re-parsing their text": for every number value the API
    can produce — by `cif_value_parse_numb`, `cif_value_init_numb` or `cif_value_autoinit_numb` (`produced`) —
    `parseNumb text = some fields`.  The `init_numb`/`autoinit_numb` half is group gB's `C10_init_text_roundtrip`
    (formatting followed by parsing gives the fields back); it is not available on this branch. -/
def C07_numb_in_list_full (produced : V → Prop) : Prop :=
  ∀ v, produced v → C07_numbsConsistent parseFields v

/-- PARTIAL (the `cif_value_parse_numb` half): every number `cif_value_parse_numb` / the char→numb coercion produces
    from a text is consistent, hence any list or table of such numbers is read back identical from its serialised form.
    Missing for the full statement: the same fact for numbers built by `cif_value_init_numb` / `autoinit_numb`. -/
theorem C07_numb_in_list_partial (q : Bool) (t : Str) :
    C07_numbsConsistent parseFields (Model.Numb.numbOfText q t) := by
  unfold C07_numbsConsistent Model.Numb.numbOfText
  cases h : Model.Numb.parseNumb t with
  | none => simp [numbsParse]
  | some f =>
    have : Model.Numb.parseNumb (Model.Numb.cstr t) = some f := by
      unfold Model.Numb.parseNumb at h ⊢
      rw [cstr_idem]; exact h
    simp [numbsParse, parseFields, this]

/-- … and so a list of parsed numbers survives the store -/
theorem C07_numb_list_roundtrip (ts : List (Bool × Str)) :
    deserialize parseFields (ser (.lst (ts.map (fun p => Model.Numb.numbOfText p.1 p.2))))
      = some (.lst (ts.map (fun p => Model.Numb.numbOfText p.1 p.2)), []) := by
  apply deserialize_ser
  simp only [numbsParse]
  induction ts with
  | nil => rfl
  | cons p ts ih => simp [numbsParseList, C07_numb_in_list_partial p.1 p.2, ih]

/-! ### non-vacuity -/

/-- a nested value with both key spellings, a quoted flag, an empty list and a number -/
def C07_sample : V :=
  .lst [.chr true (a!"ab"), .tbl [((a!"k"), (a!"K"), .lst []), ([], [], .numb false (a!"1.5") false [1, 5] none 1)], .unk, .na]

example : C07_numbsConsistent parseFields C07_sample := by decide +kernel
example : wfValue parseFields C07_sample = true := by decide +kernel
example : deserialize parseFields (ser C07_sample) = some (C07_sample, []) :=
  (C07_serialize_roundtrip parseFields C07_sample (by decide +kernel)).1
example : wfValue parseFields (.numb true (a!"-12(3)") true [1, 2] (some [3]) 0) = true := by decide +kernel
-- the hypotheses of C07_buf_write_terminates hold for the first growing write of a fresh buffer
example : ∃ p, growLoop 2000 512 (500 + 1500) = some p ∧ 2000 ≤ p := C07_buf_write_terminates 512 500 1500 2000 (by decide) (by decide) (by decide)
-- the consistency hypothesis can fail: a number whose fields are not those of its text
example : C07_numbsConsistent parseFields (.numb false (a!"1.5") false [1, 5] none 0) = False := by
  simp only [C07_numbsConsistent, eq_iff_iff, iff_false]; decide +kernel

end CifModel
