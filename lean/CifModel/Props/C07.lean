import CifModel.Lemmas.Serialize
import CifModel.Lemmas.Columns
import CifModel.Lemmas.NumbRoundtrip
import CifModel.Lemmas.NumbAutoinit
import CifModel.Lemmas.StoreValue
import CifModel.Lemmas.StoreInv
import CifModel.Lemmas.NumbOk
import CifModel.Lemmas.StoreCodec
/-
  Property C07 — values stored in a CIF are read back identical.

  Model: Model/Serialize (binary form of lists and tables over the 512-byte write buffer), Model/Columns (value ↔ columns
  of item_value + CHECK constraints), Model/Numb.parseNumb (group gB) for the numbers the deserialiser re-parses.
  Independence from the caller's object holds here because values are immutable trees; at the C level it is the
  ownership protocol of Model/Heap (Props/C19.lean) plus the sanitised `storeval` runs.
-/
namespace CifModel
open Model.Serialize Model.Columns

/-- every number inside `v` is what `parse` makes of its text (`parse` = cif_value_parse_numb) -/
abbrev C07_numbsConsistent (parse : Str → Option NumbFields) (v : V) : Prop := numbsParse parse v = true

/-- **Serialisation round trip**, any depth, any size, empty containers, keys in both spellings, quoted flags, numbers
    rebuilt from their text: the deserialiser applied to what the serialiser wrote returns the value and consumes
    exactly the words written (`rest` untouched), with any fuel ≥ `cost v`. -/
theorem C07_serialize_roundtrip (parse : Str → Option NumbFields) (v : V) (h : C07_numbsConsistent parse v) :
    deserialize parse (ser v) = some (v, [])
    ∧ ∀ rest fuel, cost v ≤ fuel → deser parse fuel (ser v ++ rest) = some (v, rest) :=
  ⟨deserialize_ser parse v h, fun rest fuel hf => roundtrip parse v rest fuel h hf⟩

/-- **The write buffer**: for every value whose serialised form is smaller than the address space,
    `cif_value_serialize` terminates successfully, the buffer holds exactly the words of `ser v`, its `limit` is their
    total byte width, and every `memcpy` stayed inside the allocated block (`limit ≤ alloc`). -/
theorem C07_serialize_buffer (v : V) (h : widthSum (ser v) < SZ) :
    ∃ b, serialize v = .ok b ∧ b.contents = ser v ∧ b.limit = widthSum (ser v) ∧ b.limit ≤ b.alloc :=
  serialize_ok v h

/-- **The growth loop of cif_buf_write, as written, terminates** with a capacity that covers the request, for every
    capacity ≥ 2, every position and every length (fuel = the number of bytes requested suffices: the working capacity
    grows by at least one byte per iteration). -/
theorem C07_buf_write_terminates (capacity position len fuel : Nat) (hc : 2 ≤ capacity)
    (hneed : capacity < position + len) (hfuel : position + len ≤ fuel) :
    ∃ p, growLoop fuel capacity (position + len) = some p ∧ position + len ≤ p :=
  growLoop_terminates fuel capacity (position + len) hc (by omega) (by omega)

/-- … consequently a single `cif_buf_write` never diverges and never fails unless `position + len` overflows `size_t` -/
theorem C07_buf_write_ok (b : WBuf) (w : Word) (hb : b.Inv) (h : b.position + w.width < SZ) :
    ∃ b', bufWrite SZ b w = .ok b' ∧ b'.Inv ∧ b'.position = b.position + w.width :=
  let ⟨b', h1, h2, h3, _⟩ := bufWrite_ok b w hb h; ⟨b', h1, h2, h3⟩

/-- the buffer `cif_value_serialize` creates satisfies the capacity hypothesis (DEFAULT_SERIALIZATION_CAP, re-extracted
    from value.c on every run) -/
theorem C07_default_cap_ok : 2 ≤ Gen.ValueCols.defaultSerializationCap ∧ (bufCreate Gen.ValueCols.defaultSerializationCap).Inv := by
  rw [cap_link]; exact ⟨by decide, bufCreate_inv _ (by decide)⟩

/-- F28 (repaired by df2a641): with the pinned loop, which never updates `working_cap`, a write that needs more than
    1.5 × the capacity never returns, whatever the fuel — e.g. 800 bytes into the fresh 512-byte buffer. -/
theorem C07_cex_buf_write_pinned (fuel : Nat) : growLoopPinned fuel 512 800 = none :=
  growLoopPinned_diverges fuel 512 800 (by decide) (by decide)

/-- the hypothesis `capacity ≥ 2` is needed: from capacity 1 the loop as written proposes 1 forever -/
theorem C07_cex_buf_write_cap1 (fuel : Nat) : growLoop fuel 1 2 = none := by
  induction fuel with
  | zero => rfl
  | succ f ih =>
    have h1 : (1 * 3 % SZ) / 2 = 1 := by decide
    unfold growLoop
    simp [h1, ih]

/-- **Column round trip**: a well-formed value is mapped to a row that satisfies the CHECK constraints of item_value and
    is read back identical (lists and tables through serialise → blob → deserialise). -/
theorem C07_columns_roundtrip (parse : Str → Option NumbFields) (v : V) (h : wfValue parse v = true) :
    ∃ row, toColumns v = some row ∧ checks row = true ∧ fromColumns parse row = some v :=
  columns_roundtrip parse v h

/-- the transcribed CHECK constraints, statement column orders and macro offsets are those of the current sources -/
theorem C07_schema_link :
    Gen.ValueCols.checks = assumedChecks
    ∧ (∀ o ∈ Gen.ValueCols.setOrders, o = assumedSetOrder) ∧ (∀ o ∈ Gen.ValueCols.getOrders, o = assumedGetOrder) :=
  ⟨checks_link, colOrder_link.1, colOrder_link.2⟩

/-- F21 (repaired by 46300e2) as a CHECK failure: a number with an empty digit string cannot be stored -/
theorem C07_cex_empty_digits (q : Bool) (t : Str) (neg : Bool) (su : Option (List Nat)) (sc : Int) :
    ∃ row, toColumns (.numb q t neg [] su sc) = some row ∧ checks row = false :=
  empty_digits_rejected q t neg su sc

/-! ### numbers inside lists and tables are rebuilt by re-parsing their text -/

/-- the number values the API can produce: by `cif_value_parse_numb` / the char→numb coercion of
    `cif_value_get_number` (`numbOfText`), by `cif_value_init_numb` (which `cif_value_create(CIF_NUMB_KIND)` and
    `cif_value_init(…, CIF_NUMB_KIND)` call) and by `cif_value_autoinit_numb`, for every double, every su, every scale,
    rule and value of libm's MSP — each possibly followed by `cif_value_set_quoted` (any quoted flag `q'`) -/
inductive C07_numbProduced : V → Prop
  | parsed (q : Bool) (t : Str) (f : Model.Numb.NumbFields) (h : Model.Numb.parseNumb t = some f) :
      C07_numbProduced (Model.Numb.numbOfText q t)
  | init (val su : Model.Numb.Bin) (scale maxLead msp : Int) (q q' : Bool) (t : Str) (neg : Bool) (digits : List Nat)
      (suD : Option (List Nat)) (sc : Int)
      (h : Model.Numb.initNumb val su scale maxLead msp = .ok (.numb q t neg digits suD sc)) :
      C07_numbProduced (.numb q' t neg digits suD sc)
  | autoinit (val su : Model.Numb.Bin) (rule : Nat) (msp : Int) (q q' : Bool) (t : Str) (neg : Bool) (digits : List Nat)
      (suD : Option (List Nat)) (sc : Int)
      (h : Model.Numb.autoinitNumb val su rule msp = .ok (.numb q t neg digits suD sc)) :
      C07_numbProduced (.numb q' t neg digits suD sc)

mutual
  /-- a value the API can construct: every number in it, at any depth, was produced by one of the number functions -/
  def C07_constructible : V → Prop
    | .numb q t n d su sc => C07_numbProduced (.numb q t n d su sc)
    | .lst vs => C07_constructibleList vs
    | .tbl es => C07_constructibleEntries es
    | _ => True
  def C07_constructibleList : List V → Prop
    | [] => True
    | v :: vs => C07_constructible v ∧ C07_constructibleList vs
  def C07_constructibleEntries : List (Str × Str × V) → Prop
    | [] => True
    | (_, _, v) :: es => C07_constructible v ∧ C07_constructibleEntries es
end

/-- every produced number is what `cif_value_parse_numb` makes of its text -/
theorem C07_numb_produced_consistent (v : V) (h : C07_numbProduced v) : C07_numbsConsistent parseFields v := by
  cases h with
  | parsed q t f hp =>
    unfold C07_numbsConsistent Model.Numb.numbOfText
    have : Model.Numb.parseNumb (Model.Numb.cstr t) = some f := by
      unfold Model.Numb.parseNumb at hp ⊢
      rw [cstr_idem]; exact hp
    simp [hp, numbsParse, parseFields, this]
  | init val su scale maxLead msp q q' t neg digits suD sc hi =>
    have := Lemmas.NumbRoundtrip.initNumb_roundtrip val su scale maxLead msp q t neg digits suD sc hi
    simp [C07_numbsConsistent, numbsParse, parseFields, this]
  | autoinit val su rule msp q q' t neg digits suD sc ha =>
    have : Model.Numb.parseNumb t = some ⟨neg, digits, suD, sc⟩ := by
      unfold Model.Numb.autoinitNumb at ha
      split at ha
      · cases ha
      · split at ha
        · exact Lemmas.NumbRoundtrip.initNumb_roundtrip _ _ _ _ _ q t neg digits suD sc ha
        · exact Lemmas.NumbRoundtrip.initNumb_roundtrip _ _ _ _ _ q t neg digits suD sc ha
    simp [C07_numbsConsistent, numbsParse, parseFields, this]

mutual
  /-- **C07_numb_in_list** (full strength): in every value the API can construct — any nesting, numbers made by
      `parse_numb`, `init_numb`, `autoinit_numb`, `create`, `init` — every number is rebuilt exactly by re-parsing its text -/
  theorem C07_numb_in_list (v : V) (h : C07_constructible v) : C07_numbsConsistent parseFields v := by
    cases v with
    | unk => rfl
    | na => rfl
    | chr q t => rfl
    | numb q t n d su sc => exact C07_numb_produced_consistent _ (by simpa [C07_constructible] using h)
    | lst vs =>
      have := C07_numb_in_list_list vs (by simpa [C07_constructible] using h)
      simpa [C07_numbsConsistent, numbsParse] using this
    | tbl es =>
      have := C07_numb_in_list_entries es (by simpa [C07_constructible] using h)
      simpa [C07_numbsConsistent, numbsParse] using this
  theorem C07_numb_in_list_list (vs : List V) (h : C07_constructibleList vs) : numbsParseList parseFields vs = true := by
    cases vs with
    | nil => rfl
    | cons v vs =>
      simp only [C07_constructibleList] at h
      have h1 := C07_numb_in_list v h.1
      have h2 := C07_numb_in_list_list vs h.2
      simp only [C07_numbsConsistent] at h1
      simp [numbsParseList, h1, h2]
  theorem C07_numb_in_list_entries (es : List (Str × Str × V)) (h : C07_constructibleEntries es) :
      numbsParseEntries parseFields es = true := by
    cases es with
    | nil => rfl
    | cons e es =>
      obtain ⟨k, ko, v⟩ := e
      simp only [C07_constructibleEntries] at h
      have h1 := C07_numb_in_list v h.1
      have h2 := C07_numb_in_list_entries es h.2
      simp only [C07_numbsConsistent] at h1
      simp [numbsParseEntries, h1, h2]
end

/-- **C07_numb_in_list_full** — the statement in the terms of group gB's `C10_init_text_roundtrip` /
    `C10_autoinit_text_roundtrip`: a list or table (any nesting) whose numbers were made by `cif_value_init_numb` /
    `cif_value_autoinit_numb` / `cif_value_parse_numb` survives serialisation → deserialisation although the deserialiser
    rebuilds every number by re-parsing its text -/
theorem C07_numb_in_list_full (v : V) (h : C07_constructible v) :
    C07_numbsConsistent parseFields v ∧ deserialize parseFields (ser v) = some (v, []) :=
  ⟨C07_numb_in_list v h, deserialize_ser parseFields v (C07_numb_in_list v h)⟩

/-! ### bridge: what the API can construct, the store can hold -/

/-- the fields of every number the API produces pass the CHECK constraints of item_value (`numbOk`) -/
def C07_numbFieldsOk : V → Bool
  | .numb _ t neg d su _ => numbOk t neg d su
  | _ => true

theorem C07_numbProduced_ok (v : V) (h : C07_numbProduced v) : C07_numbFieldsOk v = true := by
  cases h with
  | parsed q t f hp =>
    have : Model.Numb.numbOfText q t = .numb q (Model.Numb.cstr t) f.neg f.digits f.su f.scale := by
      unfold Model.Numb.numbOfText; rw [hp]
    rw [this]
    exact (Lemmas.NumbOk.parseNumb_numbOk t f hp).1
  | init val su scale maxLead msp q q' t neg digits suD sc hi =>
    have hp := Lemmas.NumbRoundtrip.initNumb_roundtrip val su scale maxLead msp q t neg digits suD sc hi
    exact (Lemmas.NumbOk.parseNumb_numbOk t ⟨neg, digits, suD, sc⟩ hp).2
  | autoinit val su rule msp q q' t neg digits suD sc ha =>
    have hp : Model.Numb.parseNumb t = some ⟨neg, digits, suD, sc⟩ := by
      unfold Model.Numb.autoinitNumb at ha
      split at ha
      · cases ha
      · split at ha
        · exact Lemmas.NumbRoundtrip.initNumb_roundtrip _ _ _ _ _ q t neg digits suD sc ha
        · exact Lemmas.NumbRoundtrip.initNumb_roundtrip _ _ _ _ _ q t neg digits suD sc ha
    exact (Lemmas.NumbOk.parseNumb_numbOk t ⟨neg, digits, suD, sc⟩ hp).2

/-- the one limit of the store that construction does not guarantee: the serialised form of a list or table must be
    smaller than the address space (2^64 bytes) — beyond it `cif_value_serialize` cannot succeed on any machine -/
def C07_fits : V → Prop
  | .lst vs => widthSum (ser (.lst vs)) < SZ
  | .tbl es => widthSum (ser (.tbl es)) < SZ
  | _ => True

/-- **C07_constructible_wf** — the bridge between the two families of theorems: every value the API can construct (and
    that fits the address space) satisfies `wfValue`, the hypothesis of the column and store theorems -/
theorem C07_constructible_wf (v : V) (h : C07_constructible v) (hf : C07_fits v) : wfValue parseFields v = true := by
  have hn := C07_numb_in_list v h
  cases v with
  | unk => rfl
  | na => rfl
  | chr q t => rfl
  | numb q t n d su sc =>
    have := C07_numbProduced_ok _ (by simpa [C07_constructible] using h)
    simpa [wfValue, C07_numbFieldsOk] using this
  | lst vs =>
    simp only [C07_fits] at hf
    simp only [C07_numbsConsistent, numbsParse] at hn
    simp [wfValue, hf, hn]
  | tbl es =>
    simp only [C07_fits] at hf
    simp only [C07_numbsConsistent, numbsParse] at hn
    simp [wfValue, hf, hn]

/-- … so the column round trip holds for every constructible value: the row the C binds passes the CHECK constraints and
    GET_VALUE_PROPS rebuilds the value from it -/
theorem C07_constructible_columns (v : V) (h : C07_constructible v) (hf : C07_fits v) :
    ∃ row, toColumns v = some row ∧ checks row = true ∧ fromColumns parseFields row = some v :=
  C07_columns_roundtrip parseFields v (C07_constructible_wf v h hf)

/-- … hence **every constructible value survives serialisation**, whatever its depth and whichever number functions
    built its numbers -/
theorem C07_constructible_roundtrip (v : V) (h : C07_constructible v) :
    deserialize parseFields (ser v) = some (v, []) :=
  deserialize_ser parseFields v (C07_numb_in_list v h)

/-- the number `cif_value_create(CIF_NUMB_KIND)` / `cif_value_init(…, CIF_NUMB_KIND)` make is consistent as well -/
theorem C07_default_numb_consistent : C07_numbsConsistent parseFields (.numb false (a!"0") false [0] none 0) := by
  decide +kernel

/-- the `cif_value_parse_numb` case on its own (kept from the first version of this file) -/
theorem C07_numb_in_list_partial (q : Bool) (t : Str) :
    C07_numbsConsistent parseFields (Model.Numb.numbOfText q t) := by
  unfold C07_numbsConsistent Model.Numb.numbOfText
  cases h : Model.Numb.parseNumb t with
  | none => simp [numbsParse]
  | some f =>
    have : Model.Numb.parseNumb (Model.Numb.cstr t) = some f := by
      unfold Model.Numb.parseNumb at h ⊢
      rw [cstr_idem]; exact h
    simp [numbsParse, parseFields, this]

/-- … and so a list of parsed numbers survives the store -/
theorem C07_numb_list_roundtrip (ts : List (Bool × Str)) :
    deserialize parseFields (ser (.lst (ts.map (fun p => Model.Numb.numbOfText p.1 p.2))))
      = some (.lst (ts.map (fun p => Model.Numb.numbOfText p.1 p.2)), []) := by
  apply deserialize_ser
  simp only [numbsParse]
  induction ts with
  | nil => rfl
  | cons p ts ih => simp [numbsParseList, C07_numb_in_list_partial p.1 p.2, ih]

/-! ### store and read back (composition with the store model of property C04, group gF)

  The store model keeps, per (container, item, packet row), a value `V` — i.e. it treats "bind the value's columns with
  SET_VALUE_PROPS, let SQLite keep the row, rebuild the value with GET_VALUE_PROPS" as the identity on values.
  `C07_columns_roundtrip` is what justifies that for every well-formed value (row accepted by the CHECK constraints,
  `fromColumns (toColumns v) = v`, lists and tables through serialise → blob → deserialise, numbers re-parsed from their
  text — `C07_numb_in_list`).  On top of it, the theorems below say that each storing route leaves exactly the given
  value in the cell(s) it addresses, and that the reading statements deliver the cells. -/

open CifModel.Store in
/-- **C07_store_read** — `cif_container_set_value` then `cif_container_get_value`, both paths of set_value (the item
    exists: every packet of its loop; the item is new: the container's scalar loop), for every well-formed value:
    the row the C writes passes the CHECK constraints and decodes to `v`; the call succeeds resp. — where creating the
    scalar item can fail for reasons of the store (C04) — if it succeeds, every value stored for the item is `v` and
    get_value delivers `v`.  For an existing item the two answers are separated: with `ln` the item's loop, every packet
    (row) of the loop holds `v` afterwards; get_value answers `ok (v, _)` when the loop has a packet and CIF_NOSUCH_ITEM
    exactly when it has none (then there is no place to store a value: the call succeeds and stores nothing — the
    documented behaviour of an item of a packet-less loop). -/
theorem C07_store_read (s : Store) (h : CH) (n : Name) (v : V) (hwf : wfValue parseFields v = true)
    (hv : n.valid = true) (hac : s.autocommit = true) :
    (∃ row, toColumns v = some row ∧ checks row = true ∧ fromColumns parseFields row = some v)
    ∧ (∀ l, getItemLoopInternal s.db h.id n.key = .ok l →
        ∃ ln, s.db.loopOfItem h.id n.key = some ln
          ∧ (setValue s h (some n) (some v)).2 = .ok ()
          ∧ (∀ r ∈ s.db.loopRows h.id ln, (setValue s h (some n) (some v)).1.db.cell h.id n.key r = some v)
          ∧ (s.db.loopRows h.id ln ≠ [] →
              ∃ b, (getValue (setValue s h (some n) (some v)).1 h (some n)).2 = .ok (v, b))
          ∧ (s.db.loopRows h.id ln = [] →
              (getValue (setValue s h (some n) (some v)).1 h (some n)).2 = .error Gen.ErrCodes.CIF_NOSUCH_ITEM))
    ∧ (getItemLoopInternal s.db h.id n.key = .error Gen.ErrCodes.CIF_NOSUCH_ITEM →
        (setValue s h (some n) (some v)).2 = .ok () →
        ∃ b, (getValue (setValue s h (some n) (some v)).1 h (some n)).2 = .ok (v, b)) := by
  refine ⟨C07_columns_roundtrip parseFields v hwf, ?_, ?_⟩
  · intro l hl
    obtain ⟨ln, hln, hok, _, hcells, hsome, hnone⟩ := setValue_existing_read_strong s h n v l hv hac hl
    exact ⟨ln, hln, hok, hcells, hsome, hnone⟩
  · intro hnew hok
    obtain ⟨hall, row, hcell⟩ := setValue_new_read s h n v hv hac hnew hok
    exact getValue_delivers _ h n v hv hall row hcell

open CifModel.Store in
/-- **… through cif_loop_add_item** (the value becomes the item's value in every existing packet), **cif_loop_add_packet**
    (a new packet row holding every value of the packet) and **cif_pktitr_update_packet** (the current row; other cells
    untouched) -/
theorem C07_store_read_loop_routes (s : Store) (l : LH) :
    (∀ (n : Name) (v : V), n.valid = true → (addItem s l (some n) (some v)).2 = .ok () →
        (addItem s l (some n) (some v)).1.db.AllVals l.cid n.key v
        ∧ ∃ d1, s.db.insertItem l.cid n.key n.orig l.loopNum = some d1
            ∧ ∀ r ∈ d1.loopRows l.cid l.loopNum, (addItem s l (some n) (some v)).1.db.cell l.cid n.key r = some v)
    ∧ (∀ pkt, (addPacket s l pkt).2 = .ok () →
        ∃ row, ∀ e ∈ pkt, (addPacket s l pkt).1.db.cell l.cid e.1 row = some e.2)
    ∧ (∀ (it : Iter) pkt, keysDistinct_sv pkt → (updatePacket s it pkt).2 = .ok () →
        (∀ e ∈ pkt, (updatePacket s it pkt).1.db.cell it.cid e.1 it.prev.toNat = some e.2)
        ∧ ∀ k' row', (∀ e ∈ pkt, ¬(k' = e.1 ∧ row' = it.prev.toNat)) →
            (updatePacket s it pkt).1.db.cell it.cid k' row' = s.db.cell it.cid k' row') :=
  ⟨fun n v hv hok => addItem_read s l n v hv hok, fun pkt hok => addPacket_read s l pkt hok,
   fun it pkt hd hok => updatePacket_read s it pkt hd hok⟩

open CifModel.Store in
/-- **the reading statements deliver the cells**: every row GET_VALUE_SQL (cif_container_get_value) or GET_LOOP_VALUES_SQL
    (packet iteration, cif_walk) returns is a row of the table, and — the primary key of item_value being unique, which
    the store invariant `Inv` of C04 guarantees in every reachable state — carries the value of its cell -/
theorem C07_store_read_delivers_cells (d : Db) (hinv : Inv d) (cid ln : Nat) (k : Str) :
    (∀ w ∈ d.valuesOf cid k, w.cid = cid ∧ w.name = k ∧ d.cell cid k w.rowNum = some w.val)
    ∧ (∀ w ∈ d.loopValues cid ln, w.cid = cid ∧ d.cell cid w.name w.rowNum = some w.val) := by
  constructor
  · intro w hw
    obtain ⟨hm, hc, hn⟩ := mem_valuesOf d cid k w hw
    have := cell_of_mem d hinv.valuePK w hm
    rw [hc, hn] at this
    exact ⟨hc, hn, this⟩
  · intro w hw
    obtain ⟨hm, hc⟩ := mem_loopValues d cid ln w hw
    have := cell_of_mem d hinv.valuePK w hm
    rw [hc] at this
    exact ⟨hc, this⟩

/-! ### codec ∘ store: stored through any route, read back identical through any reading statement

  `Model/StoreCodec`: the API operations with every value passed through `image = fromColumns ∘ checks ∘ toColumns` on its
  way into the table (what a cell of the store model holds is what the bound columns denote).  The theorem below is about
  these composed operations and quantifies over every value the API can construct (`C07_constructible`, any nesting,
  numbers from every number function) that fits the address space (`C07_fits`): no `wfValue` hypothesis — the bridge
  `C07_constructible_wf` discharges it, and with it the codec is the identity (`image v = some v`).
  Reading: `ReadsBack d cid k row v` — GET_VALUE_SQL (cif_container_get_value) and GET_LOOP_VALUES_SQL (the statement
  cif_pktitr_next_packet and cif_walk read) both return a row for the cell and only rows carrying `v`; for
  cif_container_set_value the API-level answer of cif_container_get_value as well. -/

open CifModel.Store CifModel.Store.Codec in
/-- **C07_stored_read_identical** — in every state satisfying the store invariant, for every constructible value:
    stored through cif_container_set_value (existing item: every packet of its loop; new item: the scalar loop),
    cif_loop_add_item (every packet of the loop), cif_loop_add_packet (the new packet, every item given) or
    cif_pktitr_update_packet (the current packet, every item given), the value is read back identical by both reading
    statements; set_value → get_value also at API level. -/
theorem C07_stored_read_identical (s : Store) (hinv : InvS s) :
    (∀ (h : CH) (n : Name) (v : V) (l : LH), C07_constructible v → C07_fits v → n.valid = true → s.autocommit = true →
        getItemLoopInternal s.db h.id n.key = .ok l →
        ∃ ln, s.db.loopOfItem h.id n.key = some ln ∧ (setValueC s h n v).2 = .ok ()
          ∧ (∀ r ∈ s.db.loopRows h.id ln, ReadsBack (setValueC s h n v).1.db h.id n.key r v)
          ∧ (s.db.loopRows h.id ln ≠ [] → ∃ b, (getValue (setValueC s h n v).1 h (some n)).2 = .ok (v, b)))
    ∧ (∀ (h : CH) (n : Name) (v : V), C07_constructible v → C07_fits v → n.valid = true → s.autocommit = true →
        getItemLoopInternal s.db h.id n.key = .error Gen.ErrCodes.CIF_NOSUCH_ITEM → (setValueC s h n v).2 = .ok () →
        (∃ row, ReadsBack (setValueC s h n v).1.db h.id n.key row v)
        ∧ ∃ b, (getValue (setValueC s h n v).1 h (some n)).2 = .ok (v, b))
    ∧ (∀ (l : LH) (n : Name) (v : V), C07_constructible v → C07_fits v → n.valid = true → (addItemC s l n v).2 = .ok () →
        ∃ d1, s.db.insertItem l.cid n.key n.orig l.loopNum = some d1
          ∧ ∀ r ∈ d1.loopRows l.cid l.loopNum, ReadsBack (addItemC s l n v).1.db l.cid n.key r v)
    ∧ (∀ (l : LH) (pkt : List (Str × V)), (∀ e ∈ pkt, C07_constructible e.2 ∧ C07_fits e.2) → (addPacketC s l pkt).2 = .ok () →
        ∃ row, ∀ e ∈ pkt, ReadsBack (addPacketC s l pkt).1.db l.cid e.1 row e.2)
    ∧ (∀ (it : Iter) (pkt : List (Str × V)), (∀ e ∈ pkt, C07_constructible e.2 ∧ C07_fits e.2) → keysDistinct_sv pkt →
        (updatePacketC s it pkt).2 = .ok () →
        ∀ e ∈ pkt, ReadsBack (updatePacketC s it pkt).1.db it.cid e.1 it.prev.toNat e.2) := by
  refine ⟨?_, ?_, ?_, ?_, ?_⟩
  · intro h n v l hc hf hv hac hl
    have hw := C07_constructible_wf v hc hf
    rw [setValueC_wf s h n v hw]
    obtain ⟨ln, hln, hok, _, hcells, hsome, _⟩ := setValue_existing_read_strong s h n v l hv hac hl
    have hpost : Inv (setValue s h (some n) (some v)).1.db := (setValue_invS hinv h (some n) (some v)).db
    exact ⟨ln, hln, hok, fun r hr => readsBack_of_cell _ hpost _ _ _ _ (hcells r hr), hsome⟩
  · intro h n v hc hf hv hac hnew hok
    have hw := C07_constructible_wf v hc hf
    rw [setValueC_wf s h n v hw] at hok ⊢
    obtain ⟨hall, row, hcell⟩ := setValue_new_read s h n v hv hac hnew hok
    have hpost : Inv (setValue s h (some n) (some v)).1.db := (setValue_invS hinv h (some n) (some v)).db
    exact ⟨⟨row, readsBack_of_cell _ hpost _ _ _ _ hcell⟩, getValue_delivers _ h n v hv hall row hcell⟩
  · intro l n v hc hf hv hok
    have hw := C07_constructible_wf v hc hf
    rw [addItemC_wf s l n v hw] at hok ⊢
    obtain ⟨_, d1, hi, hcells⟩ := addItem_read s l n v hv hok
    have hpost : Inv (addItem s l (some n) (some v)).1.db := (addItem_invS hinv l (some n) (some v)).db
    exact ⟨d1, hi, fun r hr => readsBack_of_cell _ hpost _ _ _ _ (hcells r hr)⟩
  · intro l pkt hp hok
    have hw : ∀ e ∈ pkt, wfValue parseFields e.2 = true := fun e he => C07_constructible_wf e.2 (hp e he).1 (hp e he).2
    rw [addPacketC_wf s l pkt hw] at hok ⊢
    obtain ⟨row, hcells⟩ := addPacket_read s l pkt hok
    have hpost : Inv (addPacket s l pkt).1.db := (addPacket_invS hinv l pkt).db
    exact ⟨row, fun e he => readsBack_of_cell _ hpost _ _ _ _ (hcells e he)⟩
  · intro it pkt hp hd hok
    have hw : ∀ e ∈ pkt, wfValue parseFields e.2 = true := fun e he => C07_constructible_wf e.2 (hp e he).1 (hp e he).2
    rw [updatePacketC_wf s it pkt hw] at hok ⊢
    obtain ⟨hcells, _⟩ := updatePacket_read s it pkt hd hok
    have hpost : Inv (updatePacket s it pkt).1.db := (updatePacket_invS hinv it pkt).db
    exact fun e he => readsBack_of_cell _ hpost _ _ _ _ (hcells e he)

open CifModel.Store in
/-- a value the codec cannot carry is refused by the composed operations — nothing is stored (the C: CIF_ERROR, rollback):
    e.g. a number with an empty digit string (`C07_cex_empty_digits`) -/
theorem C07_refused_not_stored (s : Store) (h : CH) (n : Name) (q : Bool) (t : Str) (neg : Bool) (su : Option (List Nat)) (sc : Int) :
    CifModel.Store.Codec.setValueC s h n (.numb q t neg [] su sc) = (s, .error Gen.ErrCodes.CIF_ERROR) := by
  obtain ⟨row, h1, h2⟩ := empty_digits_rejected q t neg su sc
  simp [CifModel.Store.Codec.setValueC, CifModel.Store.Codec.image, h1, h2]

/-! ### non-vacuity -/

/-- a nested value with both key spellings, a quoted flag, an empty list and a number -/
def C07_sample : V :=
  .lst [.chr true (a!"ab"), .tbl [((a!"k"), (a!"K"), .lst []), ([], [], .numb false (a!"1.5") false [1, 5] none 1)], .unk, .na]

example : C07_numbsConsistent parseFields C07_sample := by decide +kernel
example : wfValue parseFields C07_sample = true := by decide +kernel
-- the codec, executed: bind the columns, check, rebuild (list → blob → list, the number re-parsed)
example : (CifModel.Store.Codec.image C07_sample == some C07_sample) = true := by decide +kernel
example : (CifModel.Store.Codec.image (.numb false (a!"1.5") false [] none 1)).isNone = true := by decide +kernel
example : deserialize parseFields (ser C07_sample) = some (C07_sample, []) :=
  (C07_serialize_roundtrip parseFields C07_sample (by decide +kernel)).1
example : wfValue parseFields (.numb true (a!"-12(3)") true [1, 2] (some [3]) 0) = true := by decide +kernel
-- constructible values exist: a parsed number, and containers of them
theorem C07_constructible_parsed (q : Bool) (t : Str) (f : Model.Numb.NumbFields) (h : Model.Numb.parseNumb t = some f) :
    C07_constructible (Model.Numb.numbOfText q t) := by
  have hp := C07_numbProduced.parsed q t f h
  unfold Model.Numb.numbOfText at hp ⊢
  rw [h] at hp ⊢
  simpa [C07_constructible] using hp
example : C07_constructible (Model.Numb.numbOfText true (a!"-1.50e3(2)")) :=
  C07_constructible_parsed _ _ ⟨true, [1, 5, 0], some [2], -3 + 2⟩ (by decide +kernel)
example : C07_constructible (.lst [.chr true (a!"x"), .tbl [((a!"k"), (a!"k"), .lst [.unk, .na])]]) := by
  simp [C07_constructible, C07_constructibleList, C07_constructibleEntries]
-- the hypotheses of C07_buf_write_terminates hold for the first growing write of a fresh buffer
example : ∃ p, growLoop 2000 512 (500 + 1500) = some p ∧ 2000 ≤ p := C07_buf_write_terminates 512 500 1500 2000 (by decide) (by decide) (by decide)
-- the consistency hypothesis can fail: a number whose fields are not those of its text
example : C07_numbsConsistent parseFields (.numb false (a!"1.5") false [1, 5] none 0) = False := by
  simp only [C07_numbsConsistent, eq_iff_iff, iff_false]; decide +kernel

end CifModel
