import CifModel.Lemmas.FillRun
import CifModel.Lemmas.FillLines
import CifModel.Lemmas.ScanBuf
import CifModel.Lemmas.FillLexShift
import CifModel.Props.C01
/-
  Property C08 — parse results are independent of line-terminator style and buffer boundaries.

  Model: Model.Fill (get_first_char, get_more_chars with its two conversion phases, `nread` accounting, the pending-CR
  flag and the read loop; HANDLE_EOL's `sol` machine).  Spec: Spec.Eol (`normalizeEOL` as a fold, `lineAfter`, `respell`).

  What is quantified: EVERY way the character source cuts the input into non-empty chunks, EVERY sequence of request
  sizes (`counts`, all ≥ 1; they stand for the scan buffer's bookkeeping, which is not modelled), every input.
  The downstream parser is an arbitrary function of the unit stream it is handed, so "the parse" covers content,
  error codes and line numbers alike.

  `ParseConsts.firstCharFoldsSecondCR` is re-read from the text of get_first_char() on every run: the theorems about
  `seen` (the tree as it is) need it to be `true` (`firstChar_link`); should the repair of finding G1 be lost, that link
  stops checking.
-/
namespace CifModel
open Model.Fill Spec.Eol Gen Model.ScanBuf

/-- the tree's get_first_char() folds a look-ahead CR (repair of finding G1, /repo commit a8669bf) -/
theorem C08_firstChar_link : ParseConsts.firstCharFoldsSecondCR = true := by decide

/-- **C08, chunking (invariant form)**: at any moment — after get_first_char and any number of get_more_chars calls with any
    request sizes — the units handed to the scanner so far, followed by the normal form of what the source has not yet
    delivered (taking the pending-CR flag into account), are the normal form of the whole input. -/
theorem C08_fold_prefix (chunks : List Str) (counts : List Nat)
    (hne : ∀ c ∈ chunks, c ≠ []) (hc : ∀ n ∈ counts, 1 ≤ n) :
    let r := seenBy ParseConsts.firstCharFoldsSecondCR counts ⟨chunks⟩
    r.1 ++ normFrom r.2.1.crPending r.2.2.flat = normalizeEOL chunks.flatten :=
  (seenBy_spec _ counts ⟨chunks⟩ hne hc (Or.inl C08_firstChar_link)).1

/-- **C08, chunking**: for every chunking of the input by the character source and every sequence of request sizes, once the
    fill functions have been called often enough to detect the end of the input (`counts` at least as long as the input —
    every call takes at least one unit), the stream the scanner has been handed is exactly `normalizeEOL` of the input:
    no unit lost, none stale, every CR LF / CR folded to one LF wherever the chunk boundaries fall. -/
theorem C08_fold_any_chunking (chunks : List Str) (counts : List Nat)
    (hne : ∀ c ∈ chunks, c ≠ []) (hc : ∀ n ∈ counts, 1 ≤ n) (hlen : chunks.flatten.length ≤ counts.length) :
    seen counts ⟨chunks⟩ = normalizeEOL chunks.flatten := by
  have h := seenBy_spec ParseConsts.firstCharFoldsSecondCR counts ⟨chunks⟩ hne hc (Or.inl C08_firstChar_link)
  exact h.2.1 (h.2.2 hlen)

/-- two chunkings (and request-size sequences) of the same input give the scanner the same stream -/
theorem C08_chunking_irrelevant (chunks chunks' : List Str) (counts counts' : List Nat)
    (hne : ∀ c ∈ chunks, c ≠ []) (hne' : ∀ c ∈ chunks', c ≠ [])
    (hc : ∀ n ∈ counts, 1 ≤ n) (hc' : ∀ n ∈ counts', 1 ≤ n)
    (hlen : chunks.flatten.length ≤ counts.length) (hlen' : chunks'.flatten.length ≤ counts'.length)
    (hsame : chunks.flatten = chunks'.flatten) :
    seen counts ⟨chunks⟩ = seen counts' ⟨chunks'⟩ := by
  rw [C08_fold_any_chunking chunks counts hne hc hlen, C08_fold_any_chunking chunks' counts' hne' hc' hlen', hsame]

/-- **C08, terminator style**: take any document `d` in LF form (no CR), re-spell each of its terminators as LF, CR LF or
    CR in any admissible mixture (`sty`), cut the result into chunks in any way: the scanner is handed `d` itself.  Hence
    ANY function of the scanner's input — the parse: content, the sequence of error codes, their line numbers — has
    the same value as on `d` delivered in one piece. -/
theorem C08_style_independent {α : Type} (parse : Str → α) (d : Str) (sty : List Nat)
    (hd : ∀ c ∈ d, c ≠ 13) (hadm : admissible false sty d = true)
    (chunks : List Str) (counts : List Nat)
    (hflat : chunks.flatten = respell sty d)
    (hne : ∀ c ∈ chunks, c ≠ []) (hc : ∀ n ∈ counts, 1 ≤ n) (hlen : chunks.flatten.length ≤ counts.length) :
    parse (seen counts ⟨chunks⟩) = parse d := by
  rw [C08_fold_any_chunking chunks counts hne hc hlen, hflat, normalizeEOL, normFrom_respell false sty d hd hadm]

/-- **C08, HANDLE_EOL**: over ANY unit stream (LF only, raw CR, raw CR LF, mixtures; `isEol` = the EOL class, which always
    contains LF and CR) the `sol` machine arrives at line 1 + the number of terminators, a CR LF pair counting once -/
theorem C08_handle_eol (isEol : CU → Bool) (h10 : isEol 10 = true) (h13 : isEol 13 = true) (l : Str) :
    lineCount isEol l = lineAfter isEol l :=
  lineCount_eq isEol h10 h13 l

/-- **C08, line numbers**: at every position of the stream the scanner is handed (every prefix `p` of it), the line number
    HANDLE_EOL has counted is 1 + the number of EOL units before the position — the same number as in the LF-form
    document, whatever the terminator style and the chunking of the input were. -/
theorem C08_line_numbers (isEol : CU → Bool) (h10 : isEol 10 = true) (h13 : isEol 13 = true)
    (chunks : List Str) (counts : List Nat)
    (hne : ∀ c ∈ chunks, c ≠ []) (hc : ∀ n ∈ counts, 1 ≤ n) (hlen : chunks.flatten.length ≤ counts.length)
    (p : Str) (hp : p <+: seen counts ⟨chunks⟩) :
    lineCount isEol p = 1 + (p.filter isEol).length ∧ p <+: normalizeEOL chunks.flatten := by
  rw [C08_fold_any_chunking chunks counts hne hc hlen] at hp
  refine ⟨lineCount_noCR isEol h10 h13 p (fun c hcp => ?_), hp⟩
  exact normFrom_noCR false chunks.flatten c (hp.subset hcp)

/-- the unrepaired get_first_char (finding G1, before a8669bf): an input that starts CR CR is handed over with its second
    CR raw — for every chunking -/
theorem C08_unrepaired_first_char (chunks : List Str) (counts : List Nat) (r : Str)
    (hne : ∀ c ∈ chunks, c ≠ []) (hc : ∀ n ∈ counts, 1 ≤ n) (hlen : chunks.flatten.length ≤ counts.length)
    (h : chunks.flatten = 13 :: 13 :: r) :
    (seenBy false counts ⟨chunks⟩).1 = 10 :: 13 :: normalizeEOL r := by
  obtain ⟨src', h1, h2, h3⟩ := getFirstChar_unfixed_crcr ⟨chunks⟩ hne r h
  unfold seenBy
  rw [h1]
  simp only
  have hend := runMore_reaches_eof counts ⟨false, false⟩ src' h3 hc
    (by rw [h2]; rw [h] at hlen; simp only [List.length_cons] at hlen; omega)
  have := runMore_complete counts ⟨false, false⟩ src' h3 hc (fun h => by simp at h) hend
  rw [this, h2]; rfl

/-- … and then HANDLE_EOL takes the raw CR and the LF made from a third CR for one CR LF pair: `CR CR CR a` is counted as
    3 lines where the document has 4 (counterexample for the tree before a8669bf; the repaired model gives 4) -/
theorem C08_cex_three_cr :
    lineCount isEolDefault (seenBy false [5, 5] ⟨[[13, 13, 13, 97]]⟩).1 = 3 ∧
    lineAfter isEolDefault [13, 13, 13, 97] = 4 ∧
    lineCount isEolDefault (seenBy true [5, 5] ⟨[[13, 13, 13, 97]]⟩).1 = 4 := by decide

/-- **C08, buffer moves**: for EVERY scanner state satisfying the pointer invariant
    `0 ≤ text_start ≤ tvalue_start ≤ next_char ≤ buffer_limit ≤ buffer_size` and every one of the cases of get_more_chars()
    (empty → reset; less than BUF_MIN_FILL room → memmove to the front if the retained text is shorter than half the buffer,
    else a buffer of twice the size filled from `text_start`; otherwise nothing), followed by the arrival of any fill that
    fits: the retained token text (`text_start` … `next_char`) and the token-value offset (`tvalue_start − text_start`)
    are unchanged, the invariant holds again, and — the scanner having scanned everything buffered, as at every call
    site — nothing unread is lost: what is unread afterwards is exactly the fill. -/
theorem C08_buffer_moves_preserve_token (b : SB) (hinv : b.Inv) (units : Str)
    (hfit : units.length ≤ (makeRoom ParseConsts.bufMinFill b).room) :
    let b' := append (makeRoom ParseConsts.bufMinFill b) units
    b'.Inv ∧ b'.tokenText = b.tokenText ∧ b'.tvalueOffset = b.tvalueOffset ∧
    (b.next = b.limit → b'.unread = units) := by
  have m := makeRoom_spec ParseConsts.bufMinFill b hinv
  have a := append_spec (makeRoom ParseConsts.bufMinFill b) units m.1 hfit
  refine ⟨a.1, by rw [a.2.1, m.2.1], by rw [a.2.2.1, m.2.2.1], fun h => ?_⟩
  rw [a.2.2.2, (m.2.2.2 h).1]; rfl

/-- the case split itself never loses the token, whichever case applies (stated per case for the record) -/
theorem C08_buffer_cases (b : SB) (hinv : b.Inv) :
    (whichCase ParseConsts.bufMinFill b = .reset ∨ whichCase ParseConsts.bufMinFill b = .move ∨
     whichCase ParseConsts.bufMinFill b = .double ∨ whichCase ParseConsts.bufMinFill b = .append) ∧
    (makeRoom ParseConsts.bufMinFill b).tokenText = b.tokenText ∧
    (makeRoom ParseConsts.bufMinFill b).tvalueOffset = b.tvalueOffset ∧ (makeRoom ParseConsts.bufMinFill b).Inv := by
  have m := makeRoom_spec ParseConsts.bufMinFill b hinv
  refine ⟨?_, m.2.1, m.2.2.1, m.1⟩
  unfold whichCase
  by_cases h1 : b.textStart ≥ b.limit
  · simp [h1]
  · by_cases h2 : b.size < b.limit + ParseConsts.bufMinFill
    · by_cases h3 : (b.next - b.textStart) * 2 < b.size <;> simp [h1, h2, h3]
    · simp [h1, h2]

/-- **C08, the request sizes are positive**: starting from the buffer cif_parse_internal allocates, every read of
    get_more_chars() asks for at least BUF_MIN_FILL ≥ 1 units — the hypothesis `∀ n ∈ counts, 1 ≤ n` of the chunking
    theorems is what the buffer bookkeeping guarantees.  (Invariant: the buffer is at least 2·BUF_MIN_FILL long; it is
    64·BUF_MIN_FILL initially and only ever doubles.) -/
theorem C08_buffer_room (b : SB) (hinv : b.Inv) (hsize : 2 * ParseConsts.bufMinFill ≤ b.size) :
    1 ≤ (makeRoom ParseConsts.bufMinFill b).room ∧ ParseConsts.bufMinFill ≤ (makeRoom ParseConsts.bufMinFill b).room ∧
    2 * ParseConsts.bufMinFill ≤ (makeRoom ParseConsts.bufMinFill b).size := by
  have r := makeRoom_room ParseConsts.bufMinFill b hinv hsize
  have : 1 ≤ ParseConsts.bufMinFill := by decide
  exact ⟨by omega, r.1, r.2⟩

theorem C08_buffer_init : (SB.init ParseConsts.bufSizeInitial).Inv ∧ 2 * ParseConsts.bufMinFill ≤ (SB.init ParseConsts.bufSizeInitial).size := by
  refine ⟨⟨Nat.le_refl _, Nat.le_refl _, Nat.le_refl _, Nat.zero_le _, ?_⟩, by decide⟩
  simp [SB.init]

open Model.Lexer Model.Chars Spec.Lexical in
/-- **C08, whitespace lengthening** (third part of the property; built on group gD's `C01_lex_sep` and on the line-shift
    invariance of the lexer model, `tokensLoop_shift`).  The scanner stands in front of a separator `w` — any run of blanks,
    tabs, line terminators and comments — followed by any remaining input `R`.  Replace the separator by ANY other
    admissible run `w'` (in particular: `w` with whitespace atoms inserted anywhere) that ends in the same column and
    `k` lines further down.  Then the whole token stream that follows is the same: same token types, same value texts, same
    columns, every line number `k` higher; the parse returns the same value, and the reports are the same with line
    numbers `k` higher — for every callback policy that does not itself look at line numbers (`polD k pol` is `pol` for
    accept-all, die-on-first, reject-the-n-th, …).
    (`hfit`: neither run contains an over-long line; `hfirst`: a comment cannot begin a run where whitespace is required;
    `hcol`: the following token starts in the same column — lengthening the blanks in front of a token on the SAME line
    moves it, which matters for `;` in column 1 and for the 2048-character limit; it is implied whenever both runs end
    with the same atoms after their last terminator.) -/
theorem C08_ws_lengthening (dia : Dialect) (w w' : List WsAtom) (R : Str) (line col k : Nat) (lt lt' : TokType)
    (pol : Policy) (log : List Report) (fuel : Nat)
    (hok : ∀ a ∈ w, a.ok dia = true) (hok' : ∀ a ∈ w', a.ok dia = true)
    (hfit : linesFit col (renderWs w) = true) (hfit' : linesFit col (renderWs w') = true)
    (hfirst : afterWsOf lt = true ∨ ∀ b rest, w ≠ WsAtom.comment b :: rest)
    (hfirst' : afterWsOf lt = true ∨ ∀ b rest, w' ≠ WsAtom.comment b :: rest)
    (hlt : afterWsOf lt' = (afterWsOf lt || !w.isEmpty)) (hlt' : afterWsOf lt' = (afterWsOf lt || !w'.isEmpty))
    (hcol : (posAfter line col (renderWs w')).2 = (posAfter line col (renderWs w)).2)
    (hline : (posAfter line col (renderWs w')).1 = (posAfter line col (renderWs w)).1 + k) :
    (tokensLoop dia (polD k pol) (fuel + 1) ⟨renderWs w' ++ R, line, col, lt⟩ [] log).1
        = (tokensLoop dia pol (fuel + 1) ⟨renderWs w ++ R, line, col, lt⟩ [] log).1.map (shTok k) ∧
    (tokensLoop dia (polD k pol) (fuel + 1) ⟨renderWs w' ++ R, line, col, lt⟩ [] log).2.1
        = (tokensLoop dia pol (fuel + 1) ⟨renderWs w ++ R, line, col, lt⟩ [] log).2.1 ∧
    LogRel k log (tokensLoop dia pol (fuel + 1) ⟨renderWs w ++ R, line, col, lt⟩ [] log).2.2
                 (tokensLoop dia (polD k pol) (fuel + 1) ⟨renderWs w' ++ R, line, col, lt⟩ [] log).2.2 := by
  rw [tokensLoop_congr dia pol fuel _ _ [] log (C01_lex_sep dia w R line col lt lt' pol log hok hfit hfirst hlt)]
  rw [tokensLoop_congr dia (polD k pol) fuel _ _ [] log
        (C01_lex_sep dia w' R line col lt lt' (polD k pol) log hok' hfit' hfirst' hlt')]
  rw [hcol, hline]
  have h := tokensLoop_shift k dia pol log [] (fuel + 1)
    ⟨R, (posAfter line col (renderWs w)).1, (posAfter line col (renderWs w)).2, lt'⟩ [] [] log log
    ⟨[], rfl, rfl⟩ (LogRel.refl k log)
  refine ⟨?_, h.2.1.symm, h.2.2⟩
  obtain ⟨new, h1, h2⟩ := h.1
  simp only [List.append_nil, shScan] at h1 h2
  have e1 := congrArg List.reverse h1
  have e2 := congrArg List.reverse h2
  rw [List.reverse_reverse] at e1 e2
  rw [e2, e1, List.map_reverse]

open Model.Lexer Model.Chars Spec.Lexical in
/-- … in particular for INSERTED whitespace: `ins` put anywhere into the separator `w₁ ++ w₂` -/
theorem C08_ws_lengthening_insert (dia : Dialect) (w₁ ins w₂ : List WsAtom) (R : Str) (line col k : Nat) (lt lt' : TokType)
    (pol : Policy) (log : List Report) (fuel : Nat)
    (hok : ∀ a ∈ w₁ ++ ins ++ w₂, a.ok dia = true)
    (hfit : linesFit col (renderWs (w₁ ++ w₂)) = true) (hfit' : linesFit col (renderWs (w₁ ++ ins ++ w₂)) = true)
    (hfirst : afterWsOf lt = true ∨ ∀ b rest, w₁ ++ w₂ ≠ WsAtom.comment b :: rest)
    (hfirst' : afterWsOf lt = true ∨ ∀ b rest, w₁ ++ ins ++ w₂ ≠ WsAtom.comment b :: rest)
    (hne : (w₁ ++ w₂).isEmpty = false ∨ afterWsOf lt = true)
    (hlt : afterWsOf lt' = true)
    (hcol : (posAfter line col (renderWs (w₁ ++ ins ++ w₂))).2 = (posAfter line col (renderWs (w₁ ++ w₂))).2)
    (hline : (posAfter line col (renderWs (w₁ ++ ins ++ w₂))).1 = (posAfter line col (renderWs (w₁ ++ w₂))).1 + k) :
    (tokensLoop dia (polD k pol) (fuel + 1) ⟨renderWs (w₁ ++ ins ++ w₂) ++ R, line, col, lt⟩ [] log).1
        = (tokensLoop dia pol (fuel + 1) ⟨renderWs (w₁ ++ w₂) ++ R, line, col, lt⟩ [] log).1.map (shTok k) := by
  have hok1 : ∀ a ∈ w₁ ++ w₂, a.ok dia = true := by
    intro a ha
    apply hok a
    simp only [List.mem_append] at ha ⊢
    rcases ha with h | h
    · exact Or.inl (Or.inl h)
    · exact Or.inr h
  have e1 : afterWsOf lt' = (afterWsOf lt || !(w₁ ++ w₂).isEmpty) := by
    rw [hlt]; rcases hne with h | h <;> simp [h]
  have e2 : afterWsOf lt' = (afterWsOf lt || !(w₁ ++ ins ++ w₂).isEmpty) := by
    rw [hlt]
    rcases hne with h | h
    · have : (w₁ ++ ins ++ w₂).isEmpty = false := by
        cases w₁ <;> cases ins <;> cases w₂ <;> simp_all
      rw [this]; simp
    · simp [h]
  exact (C08_ws_lengthening dia (w₁ ++ w₂) (w₁ ++ ins ++ w₂) R line col k lt lt' pol log fuel hok1 hok hfit hfit' hfirst hfirst'
    e1 e2 hcol hline).1

open Model.Lexer Model.Chars Spec.Lexical in
/-- … and for any chunking and terminator style of the two documents (composition with `C08_fold_any_chunking`): whatever
    way the character source cuts the two files and however their terminators are spelled, the token streams are related
    as above (separator at the start of the input; for a separator further down start from the state reached there). -/
theorem C08_ws_lengthening_any_chunking (dia : Dialect) (w w' : List WsAtom) (R : Str) (k : Nat) (lt' : TokType)
    (pol : Policy) (fuel : Nat)
    (chunks chunks' : List Str) (counts counts' : List Nat)
    (hne : ∀ c ∈ chunks, c ≠ []) (hne' : ∀ c ∈ chunks', c ≠ [])
    (hc : ∀ n ∈ counts, 1 ≤ n) (hc' : ∀ n ∈ counts', 1 ≤ n)
    (hlen : chunks.flatten.length ≤ counts.length) (hlen' : chunks'.flatten.length ≤ counts'.length)
    (hdoc : normalizeEOL chunks.flatten = renderWs w ++ R) (hdoc' : normalizeEOL chunks'.flatten = renderWs w' ++ R)
    (hok : ∀ a ∈ w, a.ok dia = true) (hok' : ∀ a ∈ w', a.ok dia = true)
    (hfit : linesFit 0 (renderWs w) = true) (hfit' : linesFit 0 (renderWs w') = true)
    (hlt : afterWsOf lt' = true)
    (hcol : (posAfter 1 0 (renderWs w')).2 = (posAfter 1 0 (renderWs w)).2)
    (hline : (posAfter 1 0 (renderWs w')).1 = (posAfter 1 0 (renderWs w)).1 + k) :
    (tokensLoop dia (polD k pol) (fuel + 1) (Scan.init (seen counts' ⟨chunks'⟩)) [] []).1
        = (tokensLoop dia pol (fuel + 1) (Scan.init (seen counts ⟨chunks⟩)) [] []).1.map (shTok k) := by
  rw [C08_fold_any_chunking chunks counts hne hc hlen, C08_fold_any_chunking chunks' counts' hne' hc' hlen', hdoc, hdoc']
  have haw : afterWsOf TokType.end_ = true := rfl
  exact (C08_ws_lengthening dia w w' R 1 0 k .end_ lt' pol [] fuel hok hok' hfit hfit' (Or.inl haw) (Or.inl haw)
    (by rw [hlt, haw]; rfl) (by rw [hlt, haw]; rfl) hcol hline).1

-- non-vacuity -------------------------------------------------------------------------------------------------------
-- the hypotheses of C08_fold_any_chunking on a concrete chunking that splits a CR LF pair and leaves a lone pending LF
example : seen [1, 9, 9, 9, 9, 9] ⟨[[97, 13], [10], [98, 13, 10, 13], [10, 99]]⟩ = [97, 10, 98, 10, 10, 99] := by decide
example : normalizeEOL [97, 13, 10, 98, 13, 10, 13, 10, 99] = [97, 10, 98, 10, 10, 99] := by decide
-- a wrong `nread` would show: the array region after conversion carries a stale tail beyond `nread`
example : convertFill [97, 13, 10, 98, 13, 10, 99] = ([97, 10, 98, 10, 99, 10, 99], 5) := by decide
-- a re-spelling with all three styles, and an inadmissible one (bare CR directly before bare LF)
example : respell [1, 2, 0] [97, 10, 10, 98, 10] = [97, 13, 10, 13, 98, 10] ∧ admissible false [1, 2, 0] [97, 10, 10, 98, 10] = true := by decide
example : admissible false [2, 0] [10, 10] = false ∧ normalizeEOL (respell [2, 0] [10, 10]) ≠ [10, 10] := by decide
-- the buffer moves on a concrete state: a 3-unit token `bcd` with its value starting at `c`, retained while `a` is dropped
example : (makeRoom 4 ⟨[97, 98, 99, 100, 0, 0], 6, 4, 4, 1, 2⟩) = ⟨[98, 99, 100, 0, 0, 0, 0, 0, 0, 0, 0, 0], 12, 3, 3, 0, 1⟩ := by decide
example : (makeRoom 5 ⟨[97, 98, 99, 100, 0, 0, 0, 0], 8, 4, 4, 2, 3⟩) = ⟨[99, 100, 99, 100, 0, 0, 0, 0], 8, 2, 2, 0, 1⟩ := by decide
example : whichCase 4 ⟨[97, 98, 99, 100, 0, 0], 6, 4, 4, 4, 4⟩ = .reset := by decide
-- whitespace lengthening: a separator `LF` replaced by `LF # x LF LF blank… no: LF #x LF LF` (two lines more, same column 0)
open Model.Lexer Model.Chars Spec.Lexical in
example :
    let w : List WsAtom := [.eol]
    let w' : List WsAtom := [.eol, .comment [32, 120], .eol, .blank 32, .eol]
    (∀ a ∈ w', a.ok .cif2 = true) ∧ linesFit 0 (renderWs w') = true ∧
    posAfter 1 0 (renderWs w) = (2, 0) ∧ posAfter 1 0 (renderWs w') = (5, 0) := by decide
open Model.Lexer Model.Chars Spec.Lexical in
example :
    (tokensLoop .cif2 acceptAll 9 ⟨renderWs [.eol, .comment [32, 120], .eol, .blank 32, .eol] ++ a!"_a 'v'", 1, 0, .end_⟩ [] []).1
      = (tokensLoop .cif2 acceptAll 9 ⟨renderWs [.eol] ++ a!"_a 'v'", 1, 0, .end_⟩ [] []).1.map (shTok 3) := by decide
-- HANDLE_EOL on raw CR LF / CR / LF mixtures
example : lineCount isEolDefault [10, 13, 10, 13, 13, 10, 32, 13] = 6 := by decide

end CifModel
