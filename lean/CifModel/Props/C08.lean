import CifModel.Lemmas.FillRun
import CifModel.Lemmas.FillLines
/-
  Property C08 — parse results are independent of line-terminator style and buffer boundaries.

  Model: Model.Fill (get_first_char, get_more_chars with its two conversion phases, `nread` accounting, the pending-CR
  flag and the read loop; HANDLE_EOL's `sol` machine).  Spec: Spec.Eol (`normalizeEOL` as a fold, `lineAfter`, `respell`).

  What is quantified: EVERY way the character source cuts the input into non-empty chunks, EVERY sequence of request
  sizes (`counts`, all ≥ 1; they stand for the scan buffer's bookkeeping, which is not modelled), every input.
  The downstream parser is an arbitrary function of the unit stream it is handed, so "the parse" covers content,
  error codes and line numbers alike.

  `ParseConsts.firstCharFoldsSecondCR` is re-read from the text of get_first_char() on every run: the theorems about
  `seen` (the tree as it is) need it to be `true` (`firstChar_link`); should the repair of finding G1 be lost, that link
  stops checking.
-/
namespace CifModel
open Model.Fill Spec.Eol Gen

/-- the tree's get_first_char() folds a look-ahead CR (repair of finding G1, /repo commit a8669bf) -/
theorem C08_firstChar_link : ParseConsts.firstCharFoldsSecondCR = true := by decide

/-- **C08, chunking (invariant form)**: at any moment — after get_first_char and any number of get_more_chars calls with any
    request sizes — the units handed to the scanner so far, followed by the normal form of what the source has not yet
    delivered (taking the pending-CR flag into account), are the normal form of the whole input. -/
theorem C08_fold_prefix (chunks : List Str) (counts : List Nat)
    (hne : ∀ c ∈ chunks, c ≠ []) (hc : ∀ n ∈ counts, 1 ≤ n) :
    let r := seenBy ParseConsts.firstCharFoldsSecondCR counts ⟨chunks⟩
    r.1 ++ normFrom r.2.1.crPending r.2.2.flat = normalizeEOL chunks.flatten :=
  (seenBy_spec _ counts ⟨chunks⟩ hne hc (Or.inl C08_firstChar_link)).1

/-- **C08, chunking**: for every chunking of the input by the character source and every sequence of request sizes, once the
    fill functions have been called often enough to detect the end of the input (`counts` at least as long as the input —
    every call takes at least one unit), the stream the scanner has been handed is exactly `normalizeEOL` of the input:
    no unit lost, none stale, every CR LF / CR folded to one LF wherever the chunk boundaries fall. -/
theorem C08_fold_any_chunking (chunks : List Str) (counts : List Nat)
    (hne : ∀ c ∈ chunks, c ≠ []) (hc : ∀ n ∈ counts, 1 ≤ n) (hlen : chunks.flatten.length ≤ counts.length) :
    seen counts ⟨chunks⟩ = normalizeEOL chunks.flatten := by
  have h := seenBy_spec ParseConsts.firstCharFoldsSecondCR counts ⟨chunks⟩ hne hc (Or.inl C08_firstChar_link)
  exact h.2.1 (h.2.2 hlen)

/-- two chunkings (and request-size sequences) of the same input give the scanner the same stream -/
theorem C08_chunking_irrelevant (chunks chunks' : List Str) (counts counts' : List Nat)
    (hne : ∀ c ∈ chunks, c ≠ []) (hne' : ∀ c ∈ chunks', c ≠ [])
    (hc : ∀ n ∈ counts, 1 ≤ n) (hc' : ∀ n ∈ counts', 1 ≤ n)
    (hlen : chunks.flatten.length ≤ counts.length) (hlen' : chunks'.flatten.length ≤ counts'.length)
    (hsame : chunks.flatten = chunks'.flatten) :
    seen counts ⟨chunks⟩ = seen counts' ⟨chunks'⟩ := by
  rw [C08_fold_any_chunking chunks counts hne hc hlen, C08_fold_any_chunking chunks' counts' hne' hc' hlen', hsame]

/-- **C08, terminator style**: take any document `d` in LF form (no CR), re-spell each of its terminators as LF, CR LF or
    CR in any admissible mixture (`sty`), cut the result into chunks in any way: the scanner is handed `d` itself.  Hence
    ANY function of the scanner's input — the parse: content, the sequence of error codes, their line numbers — has
    the same value as on `d` delivered in one piece. -/
theorem C08_style_independent {α : Type} (parse : Str → α) (d : Str) (sty : List Nat)
    (hd : ∀ c ∈ d, c ≠ 13) (hadm : admissible false sty d = true)
    (chunks : List Str) (counts : List Nat)
    (hflat : chunks.flatten = respell sty d)
    (hne : ∀ c ∈ chunks, c ≠ []) (hc : ∀ n ∈ counts, 1 ≤ n) (hlen : chunks.flatten.length ≤ counts.length) :
    parse (seen counts ⟨chunks⟩) = parse d := by
  rw [C08_fold_any_chunking chunks counts hne hc hlen, hflat, normalizeEOL, normFrom_respell false sty d hd hadm]

/-- **C08, HANDLE_EOL**: over ANY unit stream (LF only, raw CR, raw CR LF, mixtures; `isEol` = the EOL class, which always
    contains LF and CR) the `sol` machine arrives at line 1 + the number of terminators, a CR LF pair counting once -/
theorem C08_handle_eol (isEol : CU → Bool) (h10 : isEol 10 = true) (h13 : isEol 13 = true) (l : Str) :
    lineCount isEol l = lineAfter isEol l :=
  lineCount_eq isEol h10 h13 l

/-- **C08, line numbers**: at every position of the stream the scanner is handed (every prefix `p` of it), the line number
    HANDLE_EOL has counted is 1 + the number of EOL units before the position — the same number as in the LF-form
    document, whatever the terminator style and the chunking of the input were. -/
theorem C08_line_numbers (isEol : CU → Bool) (h10 : isEol 10 = true) (h13 : isEol 13 = true)
    (chunks : List Str) (counts : List Nat)
    (hne : ∀ c ∈ chunks, c ≠ []) (hc : ∀ n ∈ counts, 1 ≤ n) (hlen : chunks.flatten.length ≤ counts.length)
    (p : Str) (hp : p <+: seen counts ⟨chunks⟩) :
    lineCount isEol p = 1 + (p.filter isEol).length ∧ p <+: normalizeEOL chunks.flatten := by
  rw [C08_fold_any_chunking chunks counts hne hc hlen] at hp
  refine ⟨lineCount_noCR isEol h10 h13 p (fun c hcp => ?_), hp⟩
  exact normFrom_noCR false chunks.flatten c (hp.subset hcp)

/-- the unrepaired get_first_char (finding G1, before a8669bf): an input that starts CR CR is handed over with its second
    CR raw — for every chunking -/
theorem C08_unrepaired_first_char (chunks : List Str) (counts : List Nat) (r : Str)
    (hne : ∀ c ∈ chunks, c ≠ []) (hc : ∀ n ∈ counts, 1 ≤ n) (hlen : chunks.flatten.length ≤ counts.length)
    (h : chunks.flatten = 13 :: 13 :: r) :
    (seenBy false counts ⟨chunks⟩).1 = 10 :: 13 :: normalizeEOL r := by
  obtain ⟨src', h1, h2, h3⟩ := getFirstChar_unfixed_crcr ⟨chunks⟩ hne r h
  unfold seenBy
  rw [h1]
  simp only
  have hend := runMore_reaches_eof counts ⟨false, false⟩ src' h3 hc
    (by rw [h2]; rw [h] at hlen; simp only [List.length_cons] at hlen; omega)
  have := runMore_complete counts ⟨false, false⟩ src' h3 hc (fun h => by simp at h) hend
  rw [this, h2]; rfl

/-- … and then HANDLE_EOL takes the raw CR and the LF made from a third CR for one CR LF pair: `CR CR CR a` is counted as
    3 lines where the document has 4 (counterexample for the tree before a8669bf; the repaired model gives 4) -/
theorem C08_cex_three_cr :
    lineCount isEolDefault (seenBy false [5, 5] ⟨[[13, 13, 13, 97]]⟩).1 = 3 ∧
    lineAfter isEolDefault [13, 13, 13, 97] = 4 ∧
    lineCount isEolDefault (seenBy true [5, 5] ⟨[[13, 13, 13, 97]]⟩).1 = 4 := by decide

/-- FULL statement of the third part of C08 (owned by the lexer group: it needs the token-level model `tokens`, the
    scanner's reading of a unit stream as (type, text, line) triples): lengthening insignificant whitespace — inserting a
    blank or a tab next to a blank, or an empty line after a line terminator — anywhere before a construct never changes
    the tokens read after it, apart from their line numbers when an empty line was inserted. -/
def C08_ws_lengthening_full (tokens : Str → List (Nat × Str × Nat)) : Prop :=
  ∀ (pre suf : Str) (w : CU), (w = 32 ∨ w = 9) →
    (tokens (pre ++ [32] ++ suf) = tokens (pre ++ [32, w] ++ suf)) ∧
    ((tokens (pre ++ [10] ++ suf)).map (fun t => (t.1, t.2.1)) = (tokens (pre ++ [10, 10] ++ suf)).map (fun t => (t.1, t.2.1)))

-- non-vacuity -------------------------------------------------------------------------------------------------------
-- the hypotheses of C08_fold_any_chunking on a concrete chunking that splits a CR LF pair and leaves a lone pending LF
example : seen [1, 9, 9, 9, 9, 9] ⟨[[97, 13], [10], [98, 13, 10, 13], [10, 99]]⟩ = [97, 10, 98, 10, 10, 99] := by decide
example : normalizeEOL [97, 13, 10, 98, 13, 10, 13, 10, 99] = [97, 10, 98, 10, 10, 99] := by decide
-- a wrong `nread` would show: the array region after conversion carries a stale tail beyond `nread`
example : convertFill [97, 13, 10, 98, 13, 10, 99] = ([97, 10, 98, 10, 99, 10, 99], 5) := by decide
-- a re-spelling with all three styles, and an inadmissible one (bare CR directly before bare LF)
example : respell [1, 2, 0] [97, 10, 10, 98, 10] = [97, 13, 10, 13, 98, 10] ∧ admissible false [1, 2, 0] [97, 10, 10, 98, 10] = true := by decide
example : admissible false [2, 0] [10, 10] = false ∧ normalizeEOL (respell [2, 0] [10, 10]) ≠ [10, 10] := by decide
-- HANDLE_EOL on raw CR LF / CR / LF mixtures
example : lineCount isEolDefault [10, 13, 10, 13, 13, 10, 32, 13] = 6 := by decide

end CifModel
