import CifModel.Model.Fill
import CifModel.Spec.Eol
namespace CifModel
open Model.Fill Spec.Eol

example : normalizeEOL [97, 13, 10, 98, 13, 99, 13] = [97, 10, 98, 10, 99, 10] := by decide

end CifModel
