import CifModel.Props.C04
import CifModel.Lemmas.StoreWorld
/-
  Review examples for C04 (group gB, independent review).

  (1) The hypotheses of the loop-level refinement theorems that are NOT part of `Inv` — `RowsBelow`, totality of the packets —
      evaluated on a history with an iterator update / remove / abort (Props/C04.lean has one concrete history, without these).
  (2) `RowsBelow` is not an invariant of the histories the property quantifies over: the history `stale` below consists of
      calls that ALL return CIF_OK, uses only handles the library handed out and never released, and reaches a state in which
      `rowsBelowB` is false; from then on cif_loop_add_packet on a healthy loop returns CIF_ERROR for ever.  The pinned
      library does exactly the same (notes/review/gB-stale-handle-replay.c: …, 0, 2, 2; three packets).  Cause: a loop created
      inside an iterator's transaction, the iterator aborted (the loop and next_loop_num are rolled back), the next
      create_loop re-uses the loop number, the old handle — cached category "" — now names the new loop; get_packets on it
      returns CIF_OK where cif.h promises CIF_INVALID_HANDLE, and remove_packet resets last_row_num (scalar-loop branch).
      Model and library agree, so no correspondence run can flag it; tools/gen/store.py never generates it.
-/
namespace CifModel.ReviewC04
open CifModel Store Store.World Gen.ErrCodes

private def n (k : Str) : Name := { key := k, orig := k, valid := true }
private def flags (w : World) : List (Option (Bool × Bool)) := w.cifs.map (·.map (fun s => (s.db.rowsBelowB, s.db.packetsTotalB)))

-- (1)
def hist : List Op := [.cifNew, .mkBlock 0 (some (n (a!"b"))), .mkLoop 0 none [n (a!"_a"), n (a!"_b")],
  .addPkt 0 [(a!"_a", .na)], .addPkt 0 [(a!"_b", .unk)], .addPkt 0 [(a!"_a", .unk), (a!"_b", .na)],
  .itOpen 0, .itNext 0, .itUpd 0 [(a!"_b", .chr false (a!"x"))], .itNext 0, .itRem 0, .itClose 0,
  .setVal 0 (some (n (a!"_s"))) (some .na), .itOpen 0, .itNext 1, .itRem 1, .itAbort 1, .addPkt 0 [(a!"_a", .na)]]
example : (run {} hist).2.all (fun r => r.rc == some CIF_OK) = true := by decide +kernel
example : flags (run {} hist).1 = [some (true, true)] := by decide +kernel

-- (2)
def stale : List Op := [.cifNew, .mkBlock 0 (some (n (a!"b"))),
  .mkLoop 0 none [n (a!"_a")], .addPkt 0 [(a!"_a", .na)],
  .itOpen 0,                                   -- opens the transaction
  .mkLoop 0 (some []) [n (a!"_s")],            -- loop handle 1: a scalar loop created inside it
  .itAbort 0,                                  -- rolled back; handle 1 is stale, nothing tells the caller
  .mkLoop 0 (some (a!"c")) [n (a!"_c")],       -- loop handle 2: gets the same loop number
  .addPkt 2 [(a!"_c", .na)], .addPkt 2 [(a!"_c", .unk)], .addPkt 2 [(a!"_c", .na)],
  .itOpen 1, .itNext 1, .itRem 1, .itClose 1,  -- through the stale handle: all CIF_OK
  .addPkt 2 [(a!"_c", .na)]]
example : (run {} stale).2.all (fun r => r.rc == some CIF_OK) = true := by decide +kernel
example : flags (run {} stale).1 = [some (false, true)] := by decide +kernel
example : (run (run {} stale).1 [.addPkt 2 [(a!"_c", .na)], .addPkt 2 [(a!"_c", .na)]]).2.map (·.rc) = [some CIF_ERROR, some CIF_ERROR] := by
  decide +kernel

end CifModel.ReviewC04
