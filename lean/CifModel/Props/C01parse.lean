import CifModel.Lemmas.ParserTop
import CifModel.Lemmas.DecodeSpec
import CifModel.Lemmas.ParserStructure
import CifModel.Props.C01
/-
  Props/C01parse — the integrated layer of property C01 (well-formed CIF parses to exactly the content it denotes): theorems
  about value construction in `Model.Parser` and kernel-evaluated instances of the whole parser on rendered documents.
  (The lexical half — every admissible presentation of every string is read back as one token with exactly that text — is
  Props/C01.lean of the scanner group.)
-/
namespace CifModel
open CifModel.Model CifModel.Model.Lexer CifModel.Model.Parser CifModel.Spec.Grammar

/-- what `u_strncpy` leaves of a token text without NUL units: the text itself -/
theorem C01_cstr_id (t : Str) (h : ∀ c ∈ t, c ≠ 0) : cstr t = t := by
  unfold cstr
  induction t with
  | nil => rfl
  | cons c r ih =>
    have hc : c ≠ 0 := h c (by simp)
    simp only [List.takeWhile_cons, hc, ne_eq, not_false_eq_true, decide_true, if_true]
    rw [ih (fun c' hc' => h c' (by simp [hc']))]

/-- **C01_unk_na_only_unquoted (1)** — a whitespace-delimited token reads as the unknown value exactly when its text is `?`,
    and as the not-applicable value exactly when it is `.` (both dialects) -/
theorem C01_bare_unk_iff (dia : Dialect) (t : Str) (h : ∀ c ∈ t, c ≠ 0) :
    (bareValue dia t = some .unk ↔ t = [63]) ∧ (bareValue dia t = some .na ↔ t = [46]) := by
  unfold bareValue
  rw [C01_cstr_id t h]
  by_cases h1 : t = [63]
  · subst h1; simp
  · by_cases h2 : t = [46]
    · subst h2; simp
    · by_cases e : t = [] <;> by_cases r : isReserved t = true <;> by_cases n : noDisallowed t = true <;>
        by_cases hd : hasHardDisallowed t = true <;> cases dia <;> simp [setQuoted, h1, h2, e, r, n, hd]

/-- **C01_unk_na_only_unquoted (2)** — a quoted or triple-quoted string (QVALUE token) is always a quoted character value
    with exactly its text — `'?'` and `'.'` included; the same holds for text fields with the decoded text -/
theorem C01_quoted_is_char (o : Opts) (fuel : Nat) (s : PS) (t : Tok) (pol : Policy) (w : W)
    (ht : s.tok = some t) (hq : t.ty = .qvalue) :
    parseValue o (fuel + 1) s pol w = .ok (.chr true (cstr t.text), consume s) w := by
  rw [parseValue]
  simp [nextTok, ht, hq, P.bind, P.pure]

theorem C01_text_is_char (o : Opts) (fuel : Nat) (s : PS) (t : Tok) (pol : Policy) (w : W)
    (ht : s.tok = some t) (hq : t.ty = .tvalue) :
    parseValue o (fuel + 1) s pol w = .ok (.chr true (cstr (Decode.decodeText o.unfold o.prem t.text)), consume s) w := by
  rw [parseValue]
  simp [nextTok, ht, hq, P.bind, P.pure]

/-- **C01_cif1_brackets_quoted** — in CIF 1.1 mode a whitespace-delimited value that contains a bracket or brace (and is
    not a reserved form) is reported as a QUOTED character value: it could not be presented unquoted in CIF 2.0 -/
theorem C01_cif1_brackets_quoted (t : Str) (h0 : ∀ c ∈ t, c ≠ 0) (hne : t ≠ []) (h1 : t ≠ [63]) (h2 : t ≠ [46])
    (hr : isReserved t = false) (hb : noDisallowed t = false) (hw : hasHardDisallowed t = false) :
    bareValue .cif1 t = some (.chr true t) := by
  unfold bareValue
  rw [C01_cstr_id t h0]
  simp [h1, h2, setQuoted, hne, hr, hb, hw]

/-- … whereas in CIF 2.0 mode the same token is an INVALID bare value (reported, left quoted) -/
theorem C01_cif2_brackets_invalid (t : Str) (h0 : ∀ c ∈ t, c ≠ 0) (hne : t ≠ []) (h1 : t ≠ [63]) (h2 : t ≠ [46])
    (hr : isReserved t = false) (hb : noDisallowed t = false) (hw : hasHardDisallowed t = false) :
    bareValue .cif2 t = none := by
  unfold bareValue
  rw [C01_cstr_id t h0]
  simp [h1, h2, setQuoted, hne, hr, hb, hw]

/-- **C01_error_free_policy_independent** — a document that the accept-all parse reads without a single report is read
    identically (return value, content) under EVERY callback policy: for well-formed input the callback is irrelevant -/
theorem C01_error_free_policy_independent (o : Opts) (pol : Policy) (pre : Cif) (units : Str)
    (h : (parse o acceptAll pre units).log = []) : parse o pol pre units = parse o acceptAll pre units := by
  obtain ⟨_, _, hs⟩ := parse_spec o pol pre (fuelFor units) units
  change match firstNZ pol 0 (parse o acceptAll pre units).log.reverse with
    | none => parse o pol pre units = parse o acceptAll pre units
    | some x => _ at hs
  rw [h] at hs
  simpa [firstNZ] using hs

/-! ### C01_structure: the productions build the denotation -/

/-- a well-formed abstract document (Spec/Grammar.lean) under the option record `o`: valid and pairwise distinct (normalised)
    block codes, frame codes per block, data names per container; loops with at least one name and one packet, packets as
    long as the header; every string value admissible in its presentation (`wfVal`); table keys without disallowed characters;
    no NUL.  Decidable. -/
def C01_wfDoc (o : Opts) (d : Doc) : Bool := wfBlocks o d []

/-- **C01_structure** — over the token sequence of ANY well-formed document (blocks, one level of save frames, scalar items, loops,
    lists and tables nested to any depth, every presentation of every string incl. folded / prefixed text fields through
    `Val.enc`), whatever the callback policy: the productions report nothing (the log is unchanged), return CIF_OK and leave
    in the target exactly the content the document denotes.  The scanner enters through `Feeds` only: "from state `s` it
    hands out the tokens of `d`, silently". -/
theorem C01_structure (o : Opts) (d : Doc) (s : PS) (fuel : Nat) (pol : Policy) (w : W)
    (hstore : o.store = true) (hmfd : o.maxFrameDepth ≠ 0) (hempty : w.cif = []) (hwf : C01_wfDoc o d = true)
    (hfuel : szBlocks d + d.length + 1 ≤ fuel) (hF : Feeds o s (tokensOf d)) :
    parseCif o fuel s pol w = .ok () { w with cif := denote o.dia o.normKey d } := by
  obtain ⟨f, rfl⟩ : ∃ f, fuel = f + d.length := ⟨fuel - d.length, by omega⟩
  obtain ⟨s', h⟩ := blocks_structure o hstore hmfd d [] s f pol w hwf (by rw [hempty]; intro c hc; cases hc) (by omega) hF
  unfold parseCif
  simp only [clamp, Parser.bind_eq, Parser.pure_eq, P.bind, P.pure, h, hempty, List.nil_append]

/-- **C01_parse_render (partial: the lexical glue is a hypothesis)** — for a whole parse: if the characters `units` make the scanner
    deliver the tokens of the well-formed document `d` (hypothesis `hlex`; for `units = render d layout` this is the composition of
    the lexical theorems C01_lex_value / C01_lex_sep / C01_lex_name / C01_lex_keyword / C01_lex_bracket of Props/C01.lean, not
    carried out here), then under EVERY policy the parse returns CIF_OK, reports nothing and yields `denote d`. -/
theorem C01_parse_render_partial (o : Opts) (d : Doc) (c : CU) (rest : Str) (pol : Policy)
    (hstore : o.store = true) (hmfd : o.maxFrameDepth ≠ 0) (hutf : o.notUtf8 = false) (hwf : C01_wfDoc o d = true)
    (hfirst : disallowedInitial c = false) (hbom : (c == 0xFEFF) = false)
    (hfuel : szBlocks d + d.length + 1 ≤ fuelFor (c :: rest))
    (hlex : Feeds o { scan := Scan.init (c :: rest), tok := none } (tokensOf d)) :
    parse o pol [] (c :: rest) = { rc := 0, log := [], cif := denote o.dia o.normKey d } := by
  have h := C01_structure o d _ (fuelFor (c :: rest)) pol { log := [], cif := [] } hstore hmfd rfl hwf hfuel hlex
  unfold parse run parseInternal afterFirst
  simp only [hfirst, hbom, hutf, Bool.false_eq_true, if_false, false_and, Parser.bind_eq, Parser.pure_eq, P.bind, P.pure]
  cases hd : o.dia <;> simp [hd, P.bind, P.pure, h]

/-- **C01_layout_independent** — two character sequences that present the same well-formed document (two layouts, two choices of
    presentation with the same tokens) parse to the same outcome, under any two policies -/
theorem C01_layout_independent (o : Opts) (d : Doc) (c₁ c₂ : CU) (r₁ r₂ : Str) (pol₁ pol₂ : Policy)
    (hstore : o.store = true) (hmfd : o.maxFrameDepth ≠ 0) (hutf : o.notUtf8 = false) (hwf : C01_wfDoc o d = true)
    (hf₁ : disallowedInitial c₁ = false) (hb₁ : (c₁ == 0xFEFF) = false) (hf₂ : disallowedInitial c₂ = false) (hb₂ : (c₂ == 0xFEFF) = false)
    (hfu₁ : szBlocks d + d.length + 1 ≤ fuelFor (c₁ :: r₁)) (hfu₂ : szBlocks d + d.length + 1 ≤ fuelFor (c₂ :: r₂))
    (hl₁ : Feeds o { scan := Scan.init (c₁ :: r₁), tok := none } (tokensOf d))
    (hl₂ : Feeds o { scan := Scan.init (c₂ :: r₂), tok := none } (tokensOf d)) :
    parse o pol₁ [] (c₁ :: r₁) = parse o pol₂ [] (c₂ :: r₂) := by
  rw [C01_parse_render_partial o d c₁ r₁ pol₁ hstore hmfd hutf hwf hf₁ hb₁ hfu₁ hl₁,
    C01_parse_render_partial o d c₂ r₂ pol₂ hstore hmfd hutf hwf hf₂ hb₂ hfu₂ hl₂]

/-! ### the full statements (not proved: they need the structure-level induction over documents) -/

/-! ### the text-field protocols: the model's decoder against the specification's (Spec/TextProtocol.lean)

  `C01_wfDoc` admits a value `.enc text body` exactly when the MODEL's `decodeText` maps the raw body to the text — a predicate phrased
  with the object under test.  The two theorems below tie it to the specification's decoder, so that the admitted bodies include
  everything the CIF texts define: a marked body with ANY admissible prefix, folded or not, any blanks behind the marker. -/

/-- **C01_decodeText_spec** — for every admissible prefix (non-empty, no backslash, no line terminator, not starting with `;`; or
    none, then the field is folded), with or without folding, any blanks behind the marker, any physical lines that carry the prefix:
    `decode_text` (unfolding and prefix removal enabled) computes exactly the specification's `decode` -/
theorem C01_decodeText_spec (pre : Str) (hadm : pre = [] ∨ Spec.TextProtocol.admissiblePrefix pre = true)
    (folded : Bool) (hm : pre ≠ [] ∨ folded = true) (blanks : Str) (hb : blanks.all Spec.TextProtocol.isBlank = true)
    (p : Str) (ps : List Str) (hp : Lemmas.DecodeLines.NoEol p) (hps : ∀ q ∈ ps, Lemmas.DecodeLines.NoEol q)
    (hcarry : ∀ l ∈ p :: ps, pre.isPrefixOf l = true) :
    some (Decode.decodeText true true (Lemmas.DecodeSpec.markerLine pre folded ++ blanks ++ 10 :: Lemmas.DecodeLines.body p ps))
      = Spec.TextProtocol.decode pre folded (p :: ps) :=
  Lemmas.DecodeSpec.decodeText_eq_spec pre hadm folded hm blanks hb p ps hp hps hcarry

/-- **C01_wfVal_enc_of_spec** — a raw text-field body that the SPECIFICATION decodes to `text` is admitted by `wfVal` as a
    presentation of `text` (parser options: line unfolding and prefix removal on — the CIF 2.0 defaults) -/
theorem C01_wfVal_enc_of_spec (o : Opts) (hun : o.unfold = true) (hpr : o.prem = true)
    (pre : Str) (hadm : pre = [] ∨ Spec.TextProtocol.admissiblePrefix pre = true)
    (folded : Bool) (hm : pre ≠ [] ∨ folded = true) (blanks : Str) (hb : blanks.all Spec.TextProtocol.isBlank = true)
    (p : Str) (ps : List Str) (hp : Lemmas.DecodeLines.NoEol p) (hps : ∀ q ∈ ps, Lemmas.DecodeLines.NoEol q)
    (hcarry : ∀ l ∈ p :: ps, pre.isPrefixOf l = true) (text : Str)
    (hdec : Spec.TextProtocol.decode pre folded (p :: ps) = some text) (h0 : noNul text = true) :
    wfVal o (.enc text (Lemmas.DecodeSpec.markerLine pre folded ++ blanks ++ 10 :: Lemmas.DecodeLines.body p ps)) = true := by
  have h := C01_decodeText_spec pre hadm folded hm blanks hb p ps hp hps hcarry
  rw [hdec] at h
  simp only [Option.some.injEq, List.append_assoc] at h
  simp [wfVal, hun, hpr, h0, h]

-- an instance with a prefix other than the writer's: `##` with a blank behind the marker, and the same folded
example : some (Decode.decodeText true true (a!"##\\ \n##ab\n##cd")) = Spec.TextProtocol.decode (a!"##") false [a!"##ab", a!"##cd"]
    ∧ Decode.decodeText true true (a!"##\\ \n##ab\n##cd") = a!"ab\ncd"
    ∧ Decode.decodeText true true (a!"##\\\\\n##ab\\\n##cd") = a!"abcd" := by decide +kernel

/-- … and an unmarked body (no CR; it starts with a semicolon or its first line does not end in a backslash followed by blanks) is
    a presentation of itself -/
theorem C01_wfVal_enc_plain (o : Opts) (hun : o.unfold = true) (hpr : o.prem = true) (s : Str) (hcr : (13 : CU) ∉ s)
    (hplain : s.head? = some 59 ∨ Spec.TextProtocol.endsBslBlank (Lemmas.DecodeMarker.firstLine s) = false)
    (h0 : noNul s = true) : wfVal o (.enc s s) = true := by
  simp [wfVal, hun, hpr, h0, Lemmas.DecodeMarker.decodeText_plain s hcr hplain]

/-- C01_parse_render: for every well-formed abstract document and every layout, parsing the rendered text under accept-all
    reports nothing and yields the denoted content.  `render`, `denote`, `wf` are parameters here (Python mirror:
    tools/gen/parsedoc.py, checked on the implementation by family `parsedoc`). -/
def C01_parse_render_full {Doc Layout : Type} (render : Dialect → Doc → Layout → Str) (denote : Dialect → Doc → Cif)
    (wf : Dialect → Doc → Layout → Prop) (sameContent : Cif → Cif → Prop) : Prop :=
  ∀ (o : Opts) (d : Doc) (l : Layout), wf o.dia d l → o.store = true →
    (parse o acceptAll [] (render o.dia d l)).log = [] ∧ (parse o acceptAll [] (render o.dia d l)).rc = 0 ∧
    sameContent (parse o acceptAll [] (render o.dia d l)).cif (denote o.dia d)

/-! ### instances evaluated by the kernel (non-vacuity; the three combinations named in the property's rationale) -/

namespace C01parse
def lower (s : Str) : Str := s.map fun c => if 65 ≤ c ∧ c ≤ 90 then c + 32 else c
def opts2 : Opts := { dia := .cif2, maxFrameDepth := 1, unfold := true, prem := true, notUtf8 := false, store := true, norm := lower, normKey := id }
def opts1 : Opts := { dia := .cif1, maxFrameDepth := 1, unfold := false, prem := false, notUtf8 := false, store := true, norm := lower, normKey := id }
/-- the single value of the single item of the single block -/
def theValue (c : Cif) : Option V :=
  match c with
  | [Container.mk _ [] [l]] => match l.packets with | [[v]] => some v | _ => none
  | _ => none
end C01parse

/-! ### the lexical hypothesis is satisfiable: `Feeds` from the scanner theorems of Props/C01.lean -/

/-- one scanner step: an equation of the scanner model (as the C01_lex_* theorems provide them) is one link of `Feeds` -/
theorem C01_feeds_of_lex {o : Opts} {sc sc' : Scan} {t : Tok} {ts : List TokSpec}
    (h : ∀ pol log, nextToken o.dia sc pol log = .ok (t, sc') log) (hr : Feeds o { scan := sc', tok := none } ts) :
    Feeds o { scan := sc, tok := none } ((t.ty, t.text) :: ts) := by
  refine Feeds.cons (s' := { scan := sc', tok := some t }) ?_ rfl hr
  intro pol w
  simp [nextTok, Parser.bind_eq, Parser.pure_eq, P.bind, P.pure, liftL, h]

namespace C01parse
/-- `data_a _x 'v w'` + newline, as an abstract document -/
def smallDoc : Doc := [{ code := a!"a", body := [.plain (.item (a!"_x") (.str (a!"v w") .squote))] }]
end C01parse

/-- non-vacuity of `C01_structure` / `C01_parse_render_partial`: for the characters `data_a _x 'v w'⏎` the hypothesis `Feeds` is
    PROVED from the scanner theorems C01_lex_keyword, C01_lex_sep, C01_lex_name, C01_lex_value_after_ws — the composition pattern
    of the lexical glue on one document — and the document is well-formed -/
theorem C01_feeds_instance :
    Feeds C01parse.opts2 { scan := Scan.init (a!"data_a _x 'v w'\n"), tok := none } (tokensOf C01parse.smallDoc)
    ∧ C01_wfDoc C01parse.opts2 C01parse.smallDoc = true := by
  refine ⟨?_, by decide +kernel⟩
  show Feeds C01parse.opts2 _ [(.blockHead, a!"a"), (.name, a!"_x"), (.qvalue, a!"v w"), (.end_, [])]
  -- data_a
  refine C01_feeds_of_lex (t := ⟨.blockHead, a!"a", 1, 6⟩) (sc' := ⟨a!" _x 'v w'\n", 1, 6, .blockHead⟩) ?_ ?_
  · intro pol log
    exact (C01_lex_keyword .cif2 100 97 116 97 95 (a!"a") (a!" _x 'v w'\n") 1 0 .end_ pol log rfl (by decide) (by decide)).1
      (by decide) (by decide)
  -- blank, _x
  refine C01_feeds_of_lex (t := ⟨.name, a!"_x", 1, 9⟩) (sc' := ⟨a!" 'v w'\n", 1, 9, .name⟩) ?_ ?_
  · intro pol log
    have h1 := C01_lex_sep .cif2 [.blank 32] (a!"_x 'v w'\n") 1 6 .blockHead .end_ pol log (by decide) (by decide)
      (Or.inr (by intro b rest h; cases h)) (by decide)
    have h2 := C01_lex_name .cif2 (a!"x") (a!" 'v w'\n") 1 7 .end_ pol log rfl (by decide) (by decide)
    exact h1.trans h2
  -- blank, 'v w'
  refine C01_feeds_of_lex (t := ⟨.qvalue, a!"v w", 1, 15⟩) (sc' := ⟨a!"\n", 1, 15, .qvalue⟩) ?_ ?_
  · intro pol log
    exact C01_lex_value_after_ws .cif2 [.blank 32] .squote (a!"v w") (a!"\n") 1 9 .name pol log (by decide)
      (Or.inr (by intro b rest h; cases h)) (by decide) (by decide) (by decide) (by decide) (by decide) (by decide)
  -- newline, end of input
  refine C01_feeds_of_lex (t := ⟨.end_, [], 2, 0⟩) (sc' := ⟨[], 2, 0, .end_⟩) ?_ (Feeds.nil _)
  · intro pol log
    have h1 := C01_lex_sep .cif2 [.eol] [] 1 15 .qvalue .end_ pol log (by decide) (by decide)
      (Or.inr (by intro b rest h; cases h)) (by decide)
    exact h1.trans rfl

/-- … and therefore, for EVERY callback policy, the whole parse of these characters returns CIF_OK, reports nothing and yields the
    denoted content (C01_parse_render_partial with all its hypotheses discharged) -/
theorem C01_parse_render_instance (pol : Policy) :
    parse C01parse.opts2 pol [] (a!"data_a _x 'v w'\n")
      = { rc := 0, log := [], cif := denote .cif2 id C01parse.smallDoc } :=
  C01_parse_render_partial C01parse.opts2 C01parse.smallDoc 100 (a!"ata_a _x 'v w'\n") pol rfl (by decide) rfl
    C01_feeds_instance.2 (by decide) (by decide) (by decide +kernel) C01_feeds_instance.1

set_option maxRecDepth 1000000 in
/-- a folded + prefixed text field inside a list: `[` `;> \\` `> ab\` `> cd` `;` `]` reads as the list ["abcd"] -/
example :
    (parse C01parse.opts2 acceptAll [] (a!"data_a _x [\n;> \\\\\n> ab\\\n> cd\n;\n]")).log = [] ∧
    (C01parse.theValue (parse C01parse.opts2 acceptAll [] (a!"data_a _x [\n;> \\\\\n> ab\\\n> cd\n;\n]")).cif) == some (.lst [.chr true (a!"abcd")]) := by
  decide +kernel

set_option maxRecDepth 1000000 in
/-- a triple-quoted table key followed by a text field, and a surrogate pair (U+1F600) before a closing delimiter -/
example :
    (parse C01parse.opts2 acceptAll [] (a!"data_a _x {'''k''':[\n;t\n;\n] 'p':'" ++ [0xD83D, 0xDE00] ++ a!"'}")).log = [] ∧
    (C01parse.theValue (parse C01parse.opts2 acceptAll [] (a!"data_a _x {'''k''':[\n;t\n;\n] 'p':'" ++ [0xD83D, 0xDE00] ++ a!"'}")).cif)
      == some (.tbl [(a!"k", a!"k", .lst [.chr true (a!"t")]), (a!"p", a!"p", .chr true [0xD83D, 0xDE00])]) := by
  decide +kernel

set_option maxRecDepth 1000000 in
/-- `?` / `.` unquoted vs quoted, and the CIF 1.1 bracket rule -/
example :
    (C01parse.theValue (parse C01parse.opts2 acceptAll [] (a!"data_a _x ?")).cif) == some .unk ∧
    (C01parse.theValue (parse C01parse.opts2 acceptAll [] (a!"data_a _x '?'")).cif) == some (.chr true (a!"?")) ∧
    (C01parse.theValue (parse C01parse.opts1 acceptAll [] (a!"data_a _x a[1]")).cif) == some (.chr true (a!"a[1]")) ∧
    (C01parse.theValue (parse C01parse.opts1 acceptAll [] (a!"data_a _x abc")).cif) == some (.chr false (a!"abc")) := by
  decide +kernel

end CifModel
