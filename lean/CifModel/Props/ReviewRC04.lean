import CifModel.Props.C04
/-
  Review rA — instances for the C04 theorems added by group gL (C04_refines over all 31 ops, set_value closed forms, …).
  Nothing here is a proof of anything new: every `example` APPLIES a REQUIRED theorem to concrete data and evaluates the conclusion.
-/
namespace CifModel.ReviewRC04
open CifModel Store Gen.ErrCodes World

private def nm (k : Str) : Name := { key := k, orig := k, valid := true }
/-- a name whose spelling differs from its normalised key -/
private def nmB : Name := { key := a!"b", orig := a!"B", valid := true }

-- ---- (1) C04_refines_hist from a NON-EMPTY WOk world: two CIFs, frames, loops, an open iterator on CIF 0 --------------------------------

private def pre : List Op :=
  [.cifNew, .mkBlock 0 (some nmB), .mkLoop 0 (some (a!"c")) [nm (a!"_a"), nm (a!"_b")],
   .addPkt 0 [(a!"_a", .na), (a!"_b", .unk)], .addPkt 0 [(a!"_a", .unk)],
   .cifNew, .mkBlock 1 (some (nm (a!"d"))), .itOpen 0, .itNext 0]

private theorem pre_ok : WOk (run {} pre).1 := C04_wok_hist pre {} C04_wok_init (by decide)

/-- continuing while the iterator of CIF 0 is open: work on CIF 1, update / remove through the iterator, a refused second get_packets,
    abort; then read CIF 0 again -/
private def cont : List Op :=
  [.setVal 1 (some (nm (a!"_q"))) (some .na), .itUpd 0 [(a!"_b", .na)], .itNext 0, .itRem 0, .itOpen 0, .itAbort 0,
   .getVal 0 (some (nm (a!"_a"))), .setVal 0 (some (nm (a!"_a"))) none, .names 0]

example : inContractHist (run {} pre).1 cont = true := by decide

/-- the theorem gives the documented model's codes for `cont`: they are the store model's — and these are the expected ones
    (CIF_ERROR for the second get_packets, CIF_AMBIGUOUS_ITEM for get_value on a two-packet loop after the abort brought the removed
    packet back) -/
example : (specRun (absW (run {} pre).1) cont).map (fun r => r.2.map (·.rc)) =
    some [some 0, some 0, some 0, some 0, some CIF_ERROR, some 0, some CIF_AMBIGUOUS_ITEM, some 0, some 0] := by
  rw [C04_refines_hist cont _ pre_ok (by decide)]
  decide

-- ---- (2) one step: C04_refines at the refused get_packets and at set_value joining a packet-less scalar loop ----------------------------

example := C04_refines (run {} pre).1 (.itOpen 0) pre_ok (by decide)

private def scal : List Op :=
  [.cifNew, .mkBlock 0 (some (nm (a!"b"))), .mkLoop 0 (some []) [nm (a!"_s")]]
example : (specStep (absW (run {} scal).1) (.setVal 0 (some (nm (a!"_t"))) (some .na))).map (·.2.rc) = some (some 0) := by
  rw [C04_refines _ _ (C04_wok_hist scal {} C04_wok_init (by decide)) (by decide)]
  decide

-- ---- (3) C04_set_value_in_contract / Store.setValue_spec on a reachable store -------------------------------------------------------------

private def w3 : World := (run {} [.cifNew, .mkBlock 0 (some nmB), .setVal 0 (some (nm (a!"_s"))) (some .na)]).1
private theorem w3_ok : WOk w3 := C04_wok_hist _ {} C04_wok_init (by decide)

example : ∃ e s, w3.liveH 0 = some (e, s) ∧
    (Store.setValue s e.h (some (nm (a!"_t"))) none).2 = (specSetValue (absS s.db) e.h (some (nm (a!"_t"))) none).2 := by
  cases hl : w3.liveH 0 with
  | none => exact absurd hl (by decide)
  | some p =>
    obtain ⟨e, s⟩ := p
    exact ⟨e, s, rfl, (C04_set_value_in_contract w3 0 (some (nm (a!"_t"))) none w3_ok (by decide) e s hl).2⟩

-- ---- (4) C04_hist_names_returned_as_created with a spelling that differs from the key ------------------------------------------------------

example : (step (step (run {} [.cifNew]).1 (.mkBlock 0 (some nmB))).1 (.code 0)).2.out = .str (some (a!"B")) :=
  (C04_hist_names_returned_as_created (run {} [.cifNew]).1 0 nmB (by decide)).2

-- ---- (5) C04_abs_loop_keys / C04_abs_fresh_loop_num / Store.absS_tree on a reachable store ---------------------------------------------

example : ∃ s, w3.liveC 0 = some s ∧ (absS s.db).tree = abs s.db ∧
    ∀ y ∈ (absS s.db).loops, ∀ z ∈ (absS s.db).loops, (z.cid == y.cid && z.num == y.num) = true → z = y := by
  cases hl : w3.liveC 0 with
  | none => exact absurd hl (by decide)
  | some s =>
    have hinv : Inv s.db := (w3_ok.good.live hl).db.inv
    exact ⟨s, rfl, absS_tree s.db, fun y hy => C04_abs_loop_keys s.db hinv y hy⟩

-- ---- (6) closed forms: C04_set_value_cells, C04_set_value_invalid_name ------------------------------------------------------------------

example := (C04_set_value_cells [(a!"_a", a!"_a"), (a!"_b", a!"_B")] (a!"_b") V.na [.unk, .unk] rfl).2 1 (a!"_b", a!"_B") .unk rfl rfl
example := (C04_set_value_invalid_name {} { id := 1, code := [], isBlock := true } (some .na)).2
  { key := a!"x", orig := a!"x", valid := false } rfl

-- ---- (7) FINDING (repaired in the contract, see below): the "documented model" keeps what is inside a destroyed container ----------------------------------------------------
-- block b ⊃ frame f ⊃ frame g; an item in f and one in g; then the BLOCK is destroyed.  cif.h: cif_container_destroy "removes the
-- associated container and all its contents from its managed CIF".  The handles 1 (f) and 2 (g) obtained before stay `inContract`
-- (valid by state: the orphaned `container` rows exist), so C04_refines_from_start speaks about this history — and the documented
-- model (`specRun`) says: the values inside the destroyed block can still be read (rc 0), a new item can still be stored there.

private def orphan : List Op :=
  [.cifNew, .mkBlock 0 (some (nm (a!"b"))), .mkFrame 0 (some (nm (a!"f"))), .mkFrame 1 (some (nm (a!"g"))),
   .setVal 1 (some (nm (a!"_x"))) (some .na), .setVal 2 (some (nm (a!"_y"))) (some .na),
   .cdestroy 0, .blocks 0, .getVal 1 (some (nm (a!"_x"))), .getVal 2 (some (nm (a!"_y"))), .setVal 2 (some (nm (a!"_z"))) (some .na)]

-- REPAIRED (group gL, after review rA A.9): a handle is in contract only if its container is PART OF THE CIF (`Db.inCif`: the row exists
-- and climbs through save_frame rows to a data block; `CH.okB`).  The destroy itself and the queries on the CIF stay in contract; the
-- first call through the old handle of f is out of contract — C04_refines no longer speaks about reads / writes inside the destroyed block.
example : inContractHist {} (orphan.take 8) = true := by decide
example : inContractHist {} orphan = false := by decide
example : inContract (run {} (orphan.take 8)).1 (.getVal 1 (some (nm (a!"_x")))) = false := by decide
example : inContract (run {} (orphan.take 8)).1 (.getVal 2 (some (nm (a!"_y")))) = false := by decide
example : inContract (run {} (orphan.take 8)).1 (.setVal 2 (some (nm (a!"_z"))) (some .na)) = false := by decide
-- before the destroy the same handles are in contract
example : inContract (run {} (orphan.take 6)).1 (.getVal 2 (some (nm (a!"_y")))) = true := by decide
-- the containers of f and g are no longer part of the CIF, although their rows exist (the store keeps them, as the library does)
example : ((run {} (orphan.take 7)).1.cifs.map (fun c => c.map (fun s => ([2, 3].map s.db.inCif, [2, 3].map s.db.hasContainer)))) =
    [some ([false, false], [true, true])] := by decide

/-- STILL TRUE (disclosed in tools/props/C04.py PARTIAL): the state-level documented model keeps the unreachable rows after the
    destroy (2 loops, 2 containers); only the tree view is empty -/
example : (specRun {} (orphan.take 7)).map (fun r => (r.1.cifs.map (fun c => c.map (fun a => (a.loops.length, a.containers.length, a.tree.length))))) =
    some [some (2, 2, 0)] := by
  rw [C04_refines_from_start (orphan.take 7) (by decide)]
  decide

end CifModel.ReviewRC04
