import CifModel.Lemmas.HeapHistRun
import CifModel.Lemmas.ValueHist
import CifModel.Lemmas.HistSpec
import CifModel.Props.C19
/-
  Property C19 — operation HISTORIES (group gM).

  Heap level: `Model/HeapHist.lean` defines an op language `HOp` over 8 value slots and 4 packet slots (create values of every
  kind, build through the API, clone into an empty slot / onto an existing object, re-initialise, list insert / set / remove /
  get, table and packet set / remove / get — members addressed by paths at any depth, sources given by reference and
  allowed to lie anywhere: inside the target, around it, the target itself —, packet create / free, release) with the heap
  interpretation `runH` (what family `valheap` executes against the C library, operation by operation) and the pure
  interpretation `runP` on immutable values (compared with the library by family `val`).

  `C19_history_heap`   : from the empty heap, after ANY history, the heap state is well-formed and represents exactly the pure
                         state (`RepS`: every occupied slot holds an object representing the slot's pure value; the footprints
                         of different slots are disjoint; every live block belongs to exactly one of them — no block owned
                         twice, no dangling pointer, no orphan).
  `C19_history_release`: releasing all slots afterwards frees every block, each once (a second `free` would fail).
  `C19_step_heap`      : the one-step statement from ANY represented state (not only reachable ones), any operation: the heap
                         interpretation succeeds exactly when the pure one does and the results are related again — this
                         includes the aliased member cases (set_element_at / set_item on an EXISTING member with the source
                         inside the member replaced; clone onto a list element / an entry's inline value with any source).
  Pure level: `C19_history_pure_is_spec` (the tied pure interpreter agrees with Spec/ValueSpec: lists are sequences, tables and
  packets are maps, at any path, in any history, errors included), `C19_nested_update_exact` (an update through a path changes
  exactly that sub-value).

  Fuel: the pointer-following heap functions (`cleanVal`, `cloneH`) take fuel; `stepH` computes it from the heap (`fuelOf h =
  3 · h.next + 9`), which covers every represented value because a footprint lists each block once and lies below the bump
  pointer (Lemmas/HeapHistFuel.lean) — the history theorems carry no fuel hypothesis.
-/
namespace CifModel
open Model.Heap Model.Hist

/-- **one operation, from any represented state** — any `HOp`, any fuel that is at least the fuel `stepH` computes from the heap:
    heap and pure interpretation both succeed in related states, or both leave the state as it is.  The aliased cases are
    instances: `.lset r i (some sr)` / `.mset r key nk (some sr)` / `.cln sr dst` with `sr` a member of the target, an ancestor of
    it, or the target itself. -/
theorem C19_step_heap (s : HState) (p : PState) (F : Root → List Nat) (inv : RepS [] s p F) (fuel : Nat)
    (hfuel : fuelOf s.h ≤ fuel) (op : HOp) :
    (∃ s' p' F', stepH? fuel s op = some s' ∧ stepP? p op = some p' ∧ RepS [] s' p' F')
    ∨ (stepH? fuel s op = none ∧ stepP? p op = none) :=
  step_sim inv fuel hfuel op

/-- **C19_history_heap** — every state reachable from the empty heap by any operation history is well-formed and represents
    exactly the pure state reached by the same history -/
theorem C19_history_heap (ops : List HOp) : ∃ F, RepS [] (runH ops HState.empty) (runP ops PState.empty) F :=
  run_RepS ops HState.empty PState.empty (fun _ => []) RepS.init

/-- what `RepS` says, spelled out for the state after a history: the heap is well-formed; every occupied slot holds the
    address of an object (free-standing value, detached entry, packet) that represents the slot's pure value with footprint
    `F r`, an empty slot is empty on both sides; footprints of different slots share no block; every live block lies in the
    footprint of some slot; and no footprint lists a block twice -/
theorem C19_history_owned (ops : List HOp) :
    ∃ F : Root → List Nat,
      (runH ops HState.empty).h.WF
      ∧ (∀ r, match (runH ops HState.empty).slot r, (runP ops PState.empty).get r with
          | none, none => F r = []
          | some a, some v => ∃ hv G, getHV (runH ops HState.empty).h a = some hv
              ∧ Rep (runH ops HState.empty).h hv v G ∧ a ∉ G ∧ G.Nodup ∧ ∀ x, x ∈ F r ↔ (x = a ∨ x ∈ G)
          | _, _ => False)
      ∧ (∀ r r', r ≠ r' → ∀ a, a ∈ F r → a ∉ F r')
      ∧ (∀ a, ((runH ops HState.empty).h.cell a).isSome = true → ∃ r, a ∈ F r) := by
  obtain ⟨F, inv⟩ := C19_history_heap ops
  refine ⟨F, inv.wf, ?_, inv.dis, ?_⟩
  · intro r
    have := inv.rel r
    cases hs : (runH ops HState.empty).slot r <;> cases hp : (runP ops PState.empty).get r <;> rw [hs, hp] at this
    · exact this
    · exact this
    · exact this
    · obtain ⟨hv, G, h1, _, h3, h4, h5⟩ := this
      exact ⟨hv, G, h1, h3, h4, Rep_nodup _ _ _ _ h3, h5⟩
  · intro a ha
    rcases inv.cov a ha with h1 | h1
    · exact h1
    · cases h1

/-- **C19_history_release** — after any history, releasing every slot (`cif_value_free` / `cif_packet_free`) touches live blocks
    only and leaves no block live: every block allocated during the history has been freed exactly once -/
theorem C19_history_release (ops : List HOp) :
    ∃ h', releaseAll (runH ops HState.empty) = some h' ∧ ∀ a, h'.cell a = none := by
  obtain ⟨F, inv⟩ := C19_history_heap ops
  exact releaseAll_spec inv

/-- **different references, different objects** — in a represented state two references that resolve to the same address
    are the same reference (slot and path): the blocks of different slots and of different members are disjoint.  So the
    pointer tests of the C (`*clone == value` in cif_value_clone, `target == element` in set_element_at, `value ==
    existing_value` in cif_map_set_item), made on addresses by the heap interpretation, are the reference comparison of the pure
    interpretation. -/
theorem C19_refs_distinct (T : List Nat) (s : HState) (p : PState) (F : Root → List Nat) (inv : RepS T s p F) (r1 r2 : Ref)
    (c1 c2 : V) (h1 : getP p r1 = some c1) (h2 : getP p r2 = some c2) (t : Nat) (hr1 : resolveRef s r1 = some t)
    (hr2 : resolveRef s r2 = some t) : r1 = r2 :=
  inv.resolve_inj r1 r2 c1 c2 h1 h2 t hr1 hr2

/-- **members by reference, after any history** — `get_element_at` / `get_item_by_key` / `packet_get_item` followed through any
    path: the reference resolves on the heap exactly when it resolves in the pure state, and the address obtained is a block
    that holds fields representing the pure member (no copy: the block lies in the slot's own footprint, `RepS.atRef`) -/
theorem C19_history_get (ops : List HOp) (r : Ref) :
    match getP (runP ops PState.empty) r with
    | none => resolveRef (runH ops HState.empty) r = none
    | some c => ∃ t hvt Ft, resolveRef (runH ops HState.empty) r = some t ∧ getHV (runH ops HState.empty).h t = some hvt
        ∧ Rep (runH ops HState.empty).h hvt c Ft ∧ t ∉ Ft := by
  obtain ⟨F, inv⟩ := C19_history_heap ops
  have := inv.atRef r
  cases hg : getP (runP ops PState.empty) r with
  | none => rw [hg] at this; exact this
  | some c =>
    rw [hg] at this
    obtain ⟨a, t, hvt, Ft, _, hres, hgt, hrep, htF, _⟩ := this
    exact ⟨t, hvt, Ft, hres, hgt, hrep, htF⟩

/-- … and that block and everything it owns lie in the footprint of the reference's slot (no copy is handed out) -/
theorem C19_history_get_owned (ops : List HOp) (r : Ref) (c : V) (hg : getP (runP ops PState.empty) r = some c) :
    ∃ F, RepS [] (runH ops HState.empty) (runP ops PState.empty) F
      ∧ ∃ t hvt Ft, resolveRef (runH ops HState.empty) r = some t ∧ getHV (runH ops HState.empty).h t = some hvt
        ∧ Rep (runH ops HState.empty).h hvt c Ft ∧ t ∈ F r.root ∧ ∀ x, x ∈ Ft → x ∈ F r.root := by
  obtain ⟨F, inv⟩ := C19_history_heap ops
  have := inv.atRef r
  rw [hg] at this
  obtain ⟨a, t, hvt, Ft, _, hres, hgt, hrep, _, htG, hsub, _⟩ := this
  exact ⟨F, inv, t, hvt, Ft, hres, hgt, hrep, htG, hsub⟩

/-- the states the driver of family `valheap` prints its observations from (`traceH`) are the `runH` states of the prefixes -/
theorem C19_history_trace (ops : List HOp) (s : HState) :
    traceH ops s = (List.range ops.length).map (fun n => runH (ops.take (n + 1)) s) := by
  induction ops generalizing s with
  | nil => rfl
  | cons op ops ih =>
    simp only [traceH, List.length_cons, List.range_succ_eq_map, List.map_cons, List.map_map, ih]
    simp [runH, Function.comp_def]

/-- **clone onto a member, any aliasing, heap level** — the target a list element or the inline value of a map entry (or a
    free-standing object), the source anywhere (inside the target, around it, elsewhere): the target object keeps its block
    and afterwards represents the source's value on fresh blocks; its old blocks are released; nothing else changes: the
    block keeps its kind (a `val` stays a `val`, an `entry` keeps its two keys), and the LIVE cells afterwards are exactly the
    fresh footprint `Fn`, the target block, and the cells that were live before outside the target's old footprint — in
    particular the scratch object the copy was built in is gone and nothing else allocated on the way stays live -/
theorem C19_clone_onto_member_heap (h : Heap) (hw : h.WF) (t : Nat) (old : HVal) (vOld : V) (Ft : List Nat) (fuel : Nat)
    (hg : getHV h t = some old) (hval : IsValCell (h.cell t)) (hr : Rep h old vOld Ft) (htF : t ∉ Ft)
    (hF : ∀ x, x ∈ Ft → x < h.next) (hfuel : Model.Heap.need vOld ≤ fuel)
    (sa : Nat) (hs : HVal) (x : V) (Fs : List Nat) (hsrc : fieldsAt h sa = some hs) (hrs : Rep h hs x Fs)
    (hFs : ∀ a, a ∈ Fs → a < h.next) (hfx : Model.Heap.need x ≤ fuel) :
    ∃ h' new Fn, cloneOntoAt fuel h t sa = some h' ∧ h'.WF ∧ getHV h' t = some new ∧ Rep h' new x Fn
      ∧ (∀ a, a ∈ Fn → h.next ≤ a ∧ a < h'.next)
      ∧ (∀ a, a < h.next → a ∉ Ft → a ≠ t → h'.cell a = h.cell a)
      ∧ (∀ a, a ∈ Ft → h'.cell a = none)
      ∧ SameKind (h.cell t) (h'.cell t)
      ∧ (∀ a, (h'.cell a).isSome = true ↔ (a ∈ Fn ∨ a = t ∨ ((h.cell a).isSome = true ∧ a ∉ Ft ∧ a ≠ t))) := by
  obtain ⟨h', new, Fn, hop, U, hfresh⟩ := cloneOntoAt_spec h hw t old vOld Ft fuel hg hval hr htF hF hfuel sa hs x Fs hsrc hrs hFs hfx
  refine ⟨h', new, Fn, hop, U.wf, U.fields, U.rep, hfresh, U.frame, ?_, U.kind, ?_⟩
  · intro a ha
    have hne : a ≠ t := fun e => htF (e ▸ ha)
    have hin : a ∉ Fn := fun hm => by have := (hfresh a hm).1; have := hF a ha; omega
    exact U.dead a ha hin hne
  · intro a
    constructor
    · intro hl
      rcases U.cov a hl with h1 | h1 | h1 | ⟨h1, h2⟩
      · exact Or.inl h1
      · exact Or.inr (Or.inl h1)
      · cases h1
      · by_cases hat : a = t
        · exact Or.inr (Or.inl hat)
        · refine Or.inr (Or.inr ⟨?_, h2, hat⟩)
          rw [← U.frame a h1 h2 hat]; exact hl
    · rintro (h1 | h1 | ⟨h1, h2, h3⟩)
      · exact Model.Hist.Rep_live h' x new Fn U.rep a h1
      · subst h1
        have := U.fields
        unfold getHV at this
        cases hc : h'.cell a with
        | none => rw [hc] at this; cases this
        | some c => rfl
      · rw [U.frame a (Model.Hist.isSome_lt hw h1) h2 h3]; exact h1

/-! ## pure level: list histories, nested paths -/

section Pure
open Model.Value Spec.ValueSpec

/-- **C19_history_pure_is_spec** — the TIED pure interpreter (`stepP?` / `runP`: the function family val runs next to the library
    and `C19_history_heap` relates the heap to) agrees with the independent specification Spec/ValueSpec, in every state any
    operation sequence reaches, for the object at ANY path:
    * `ListIsSeq`: insert / set / remove / get on a list are `seqInsert / seqSet / seqRemove / seqGet` on its `List V` (the value
      entered is a copy of the source's value, the unknown value for NULL; an element set to itself is left alone; the removed
      element goes to the caller's slot or is released; get is by reference), CIF_INVALID_INDEX exactly where the sequence
      operation is undefined, nothing happening then;
    * `TableIsMap`: set / remove / get on a table or packet are `AMap.set / erase / lookup` on the abstract map of its entries
      keyed by the normalised key (new key: entered under the spelling given; existing key: first the new spelling, then the
      value part on the member; remove — for a map without a key twice — hands the value out; a rejected key: nothing);
    * `WrongKindNothing`: a list operation on a non-list, a map operation on a non-table: nothing happens.
    With `C19_history_heap` this composes to: after any history the heap state represents what the SPECIFICATION says. -/
theorem C19_history_pure_is_spec (ops : List HOp) :
    ListIsSeq (runP ops PState.empty) ∧ TableIsMap (runP ops PState.empty) ∧ WrongKindNothing (runP ops PState.empty) :=
  ⟨listIsSeq_any _, tableIsMap_any _, wrongKind_any _⟩

/-- … the same for any pure state whatever (the clauses do not depend on how the state was reached) -/
theorem C19_pure_is_spec_any (p : PState) : ListIsSeq p ∧ TableIsMap p ∧ WrongKindNothing p :=
  ⟨listIsSeq_any p, tableIsMap_any p, wrongKind_any p⟩

/-- **C19_nested_update_exact** — an operation applied to a member through a path (`update root p x`) changes exactly that
    sub-value: the member at `p` is `x` afterwards, and every member whose path parts ways with `p` is what it was -/
theorem C19_nested_update_exact (root x root' : V) (p : List Step) (h : update root p x = some root') :
    resolve root' p = some x ∧ ∀ q, diverge p q → resolve root' q = resolve root q :=
  ⟨resolve_update p root x root' h, fun q hd => update_resolve_other p q root x root' h hd⟩

/-- … and in the slot language of the history theorems: `putP` at a reference changes that member and no other slot -/
theorem C19_nested_putP_exact (p p' : PState) (r : Ref) (x : V) (h : putP p r x = some p') :
    getP p' r = some x ∧ (∀ rt, rt ≠ r.root → p'.get rt = p.get rt)
    ∧ ∀ q, diverge r.path q → getP p' ⟨r.root, q⟩ = getP p ⟨r.root, q⟩ := by
  unfold putP at h
  cases hp : p.get r.root with
  | none => simp [hp] at h
  | some v =>
    cases hu : update v r.path x with
    | none => simp [hp, hu] at h
    | some v' =>
      simp only [hp, hu, Option.some.injEq] at h
      subst h
      refine ⟨by simp [getP, setP_get, resolve_update r.path v x v' hu], fun rt hne => by simp [setP_get, hne], ?_⟩
      intro q hd
      simp [getP, setP_get, hp, update_resolve_other r.path q v x v' hu hd]

end Pure

/-! ### non-vacuity -/

-- a history with nesting, aliasing (source inside the target; the target itself) and transfers between slots: the bound is
-- a concrete number and the pure run is the expected state
example : RepS [] HState.empty PState.empty (fun _ => []) := RepS.init
example : ((runP [.bld 0 (.lst [.lst [.chr true (a!"x")]]), .lset ⟨.val 0, []⟩ 0 (some ⟨.val 0, [.idx 0, .idx 0]⟩)]
    PState.empty).get (.val 0)).isSome = true := by decide
example : Model.Value.diverge [.idx 0, .idx 1] [.idx 0, .idx 2] := Or.inr ⟨rfl, Or.inl (by decide)⟩

end CifModel
