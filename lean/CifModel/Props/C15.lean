import CifModel.Model.ParseCB
namespace CifModel
end CifModel
