import CifModel.Lemmas.ParseCBSkip
import CifModel.Lemmas.ParseCBErase
import CifModel.Lemmas.ParseCBMirror
import CifModel.Lemmas.ParseCBAllCont
import CifModel.Lemmas.ParseCBPrune
import CifModel.Lemmas.ParseCBFuel
import CifModel.Lemmas.ParseCBCut
import CifModel.Lemmas.ParseCBDup
import CifModel.Lemmas.ParseCBSub
import CifModel.Lemmas.ParseCBGrammar
import CifModel.Spec.Traversal
/-
  Property C15 — parse-time callbacks mirror the document and steer what is stored.

  Model: `ParseCB.parseCB p storing toks` (Model/ParseCB.lean: the productions of parser.c on the token sequence, with
  the handler call sites and `skip_depth` threaded as in the C).  Spec: abstract documents, their layout-free token
  sequence `tokensOf`, the callbacks owed in document order `docEvents` and the denotation `denote`
  (Spec/Traversal.lean, part 2).

  PROVED here.
  For ALL token sequences (well-formed or not), all handler programs, all fuels:
    * C15_skip_depth_balanced / _nonneg / _cif — every production returns (CIF_OK) with the depth it was entered with
      (0 or 1 when entered at 0); never negative; a parse entered at 0 ends at 0.
    * C15_stop_is_last, C15_end_ok, C15_positive_aborts — an END / error answer is the last callback of any kind; cif_parse
      returns CIF_OK / that code.  C15_result_nonneg, C15_positive_aborts_local, C15_loop_start_local.
    * C15_skip_opens_region, C15_skipped_region_silent — a SKIP answer opens a region at depth > 0; such a region makes no
      handler / data-name / keyword callback and stores nothing.
    * C15_syntax_only_same_log — same callbacks (handles erased) and result without a target CIF, for handle-blind
      programs, unless the storing parse stops on a frame-nesting diagnostic.
  For every well-formed abstract document `d` (over its token sequence `tokensOf d`, fuel `fuelFor`, proved sufficient):
    * C15_all_continue_mirror(_parseCB) — callbacks = `docEvents d`, CIF_OK, store = `denote d`.
    * C15_stored_is_structural — for skip-only programs the parse = the structural interpreter `kDoc` on the tree.
    * C15_skip_semantics_rest — for skip-only programs the store = `denoteP (prunedDoc p true d)`: the document with the
      bypassed sub-trees removed; C15_unfiltered_is_denote.
    * C15_stored_is_structural_any, C15_stop_semantics_store — for EVERY program (END and error answers included): the parse
      = the structural interpreter `xDoc`; the store = `denote (cutDoc p true d).kept`: the document with the bypassed
      sub-trees removed AND cut at the stopping point (Spec/Traversal.lean part 4 says what stays of the construct in
      progress; containers open at the stop keep their packet-less loops), the return value = `cutResult`: the stopping
      answer if positive, else CIF_OK.  C15_cut_extends_pruned.
  Duplicates under callbacks (model `parseCBD`, Model/ParseCBDup.lean: DUP_* diagnostics with an accepting error callback):
    * C15_dup_all_continue_mirror — for every document in which block codes, frame codes and scalar data names may repeat
      (any spelling that normalises alike; loop headers new to their container): with all-continue handlers the callbacks are
      `dupEvents` and the store is `dupDenote` (Spec/TraversalDup.lean): a duplicate scalar gets its data-name callback and
      the error callback but NO item handler and is not stored; a duplicate frame / block code gets the error callback and
      the EXISTING frame / block is reopened — its handle goes to the start / end handlers, later names are checked against
      and added to its content.
  Pinned variants of repaired defects: C15_cex_loop_start_pinned (F33).
  Not covered by theorems: layout (whitespace / comments) in the document-level theorems (`tokensOf` is layout-free; the
  token-sequence theorems above do cover layout), duplicate names (DUP_* diagnostics), error recovery (another property).
-/
namespace CifModel
open ParseCB Lemmas.ParseCB Spec.Doc

-- ---- FULL statements (not proved) ---------------------------------------------------------------------------------

def C15_handlerEvents (l : List Ev) : List Ev := l.filter (fun e => match e with | .ws _ => false | _ => true)

-- "everything else is stored as in an unfiltered parse", first half: nothing is altered or invented — whatever a filtered
-- parse stores (block, frame, loop, packet, scalar item) is also stored, with the same value, by the unfiltered parse
def C15_itemsOf (l : Loop) : List (Str × V) := List.zip l.names (l.packets.headD [])
def C15_subLoop (a b : Loop) : Bool :=
  if isScalarLoop a then isScalarLoop b && (C15_itemsOf a).all (fun x => (C15_itemsOf b).any (fun y => x.1 == y.1 && V.beq x.2 y.2))
  else a.names == b.names && a.category == b.category && a.packets.all (fun pk => b.packets.any (V.beqList pk))
mutual
  def C15_subCont : Container → Container → Bool
    | .mk c fs ls, b => c == b.code && C15_subConts fs b.frames && ls.all (fun l => b.loops.any (C15_subLoop l))
  def C15_subConts : List Container → List Container → Bool
    | [], _ => true
    | f :: fs, gs => gs.any (fun g => C15_subCont f g) && C15_subConts fs gs
end

-- Boolean equality of stored CIFs (values compared with `V.beq`)
def C15_loopBeq (a b : Loop) : Bool :=
  a.category == b.category && a.names == b.names && a.packets.length == b.packets.length
    && (List.zip a.packets b.packets).all (fun x => V.beqList x.1 x.2)
mutual
  def C15_contBeq : Container → Container → Bool
    | .mk c fs ls, b => c == b.code && C15_contsBeq fs b.frames && ls.length == b.loops.length
        && (List.zip ls b.loops).all (fun x => C15_loopBeq x.1 x.2)
  def C15_contsBeq : List Container → List Container → Bool
    | [], [] => true
    | f :: fs, g :: gs => C15_contBeq f g && C15_contsBeq fs gs
    | _, _ => false
end

-- ---- proved ------------------------------------------------------------------------------------------------------

/-- **skip_depth bookkeeping**, for all token sequences, programs, fuels and entry states `s` with a non-negative counter:
    every production returns (result CIF_OK) with the depth it was entered with — `Bal`: unchanged when entered inside a
    skipped region, 0 or 1 (a handler asked to skip the following siblings) when entered at 0 — and never negative;
    values never touch the counter nor call a handler; a whole parse entered at 0 ends at 0. -/
theorem C15_skip_depth_balanced (p : Prog) (fuel : Nat) (s : St) (h0 : 0 ≤ s.skip) :
    -- parse_value / parse_list / parse_table
    ((parseValue fuel s).2.2.skip = s.skip ∧ (parseValue fuel s).2.2.n = s.n)
    -- parse_item (a skipped item has no name)
    ∧ (∀ cont name, (s.skip > 0 → name = none) → Bal s.skip (parseItem p fuel cont name s).2.1.skip)
    -- the packet loop of parse_loop_packets, entered at a packet boundary
    ∧ (∀ loopH names (k : PkSt), k.col = 0 → (packetsLoop p loopH names fuel s k).1 = OK →
        Bal s.skip (packetsLoop p loopH names fuel s k).2.1.skip)
    -- parse_loop
    ∧ (∀ cont, (parseLoop p fuel cont s).1 = OK → Bal s.skip (parseLoop p fuel cont s).2.1.skip)
    -- parse_container and its element loop
    ∧ (∀ m cont isBlock code, (parseContainer p m fuel cont isBlock code s).1 = OK →
        Bal s.skip (parseContainer p m fuel cont isBlock code s).2.1.skip)
    ∧ (∀ m cont isBlock c, (elemsLoop p m fuel cont isBlock s c).1 = OK →
        Bal s.skip (elemsLoop p m fuel cont isBlock s c).2.1.skip)
    -- the block loop of parse_cif
    ∧ (∀ m cif acc, (blocksLoop p m cif fuel s acc).1 = OK → Bal s.skip (blocksLoop p m cif fuel s acc).2.1.skip) := by
  refine ⟨(value_skip fuel).1 s, fun cont name hn => item_bal p fuel cont name s h0 hn, ?_,
    fun cont hok => loop_bal p fuel cont s h0 hok,
    fun m cont isBlock code hok => (container_bal p m fuel).1 cont isBlock code s h0 hok,
    fun m cont isBlock c hok => (container_bal p m fuel).2 cont isBlock s c h0 hok,
    fun m cif acc hok => blocks_bal p m cif fuel s acc h0 hok⟩
  intro loopH names k hk hok
  exact packets_bal p loopH names s.skip h0 fuel s k (by unfold PInv; simp [hk, Bal.refl]) hok

/-- a result CIF_OK of any production leaves the counter non-negative -/
theorem C15_skip_depth_nonneg (p : Prog) (fuel : Nat) (s : St) (h0 : 0 ≤ s.skip) :
    (∀ cont name, (s.skip > 0 → name = none) → 0 ≤ (parseItem p fuel cont name s).2.1.skip)
    ∧ (∀ cont, (parseLoop p fuel cont s).1 = OK → 0 ≤ (parseLoop p fuel cont s).2.1.skip)
    ∧ (∀ m cont isBlock code, (parseContainer p m fuel cont isBlock code s).1 = OK →
        0 ≤ (parseContainer p m fuel cont isBlock code s).2.1.skip) :=
  ⟨fun cont name hn => Bal.nonneg h0 (item_bal p fuel cont name s h0 hn),
   fun cont hok => Bal.nonneg h0 (loop_bal p fuel cont s h0 hok),
   fun m cont isBlock code hok => Bal.nonneg h0 ((container_bal p m fuel).1 cont isBlock code s h0 hok)⟩

/-- a whole parse entered at depth 0 ends at depth 0 (when the block loop, if entered, ended with CIF_OK) -/
theorem C15_skip_depth_cif (p : Prog) (m : Int) (cif : Bool) (fuel : Nat) (s : St) (hs : s.skip = 0)
    (hok : (site p s (.cifStart cif) (some 1) (some 1)).1 = OK →
      (blocksLoop p m cif fuel (site p s (.cifStart cif) (some 1) (some 1)).2 []).1 = OK) :
    (parseCif p m cif fuel s).2.1.skip = 0 :=
  cif_bal p m cif fuel s hs hok

/-- cif_parse returns CIF_OK or a positive code, never a navigation code -/
theorem C15_result_nonneg (p : Prog) (storing : Bool) (toks : List Tok) : 0 ≤ (parseCB p storing toks).2.1 := by
  have hce : ∀ cif r s, 0 ≤ (cifEndStep p cif r s).1 := by
    intro cif r s
    unfold cifEndStep
    split
    · dsimp only; split <;> simp_all [OK] <;> omega
    · dsimp only; split <;> simp_all [OK] <;> omega
  unfold parseCB parseCif
  dsimp only
  split
  · simp [OK]
  · split
    · exact hce _ _ _
    · exact hce _ _ _

/-- **END / positive codes, locally**: at the packet_start, item (in a loop), packet_end, loop_end, block/frame start and
    block/frame end call sites, when nothing is being skipped, an answer `r` that is none of CONTINUE, SKIP_CURRENT,
    SKIP_SIBLINGS is returned as the result of the step (the callers stop on any result ≠ CIF_OK) -/
theorem C15_positive_aborts_local (p : Prog) (s : St) (hs : s.skip = 0) (r : Int)
    (hr : r ≠ CONTINUE ∧ r ≠ SKIP_CURRENT ∧ r ≠ SKIP_SIBLINGS) :
    (p s.n .pktStart = r → (pktStartStep p s).1 = r)
    ∧ (∀ nm v, p s.n (.item nm v) = r → (itemStep p nm OK v s).1 = r)
    ∧ (∀ items, p s.n (.pktEnd items) = r → (pktEndStep p items s).1 = r)
    ∧ (∀ h, p s.n (.loopEnd h) = r → (loopEndStep p h OK s).1 = r)
    ∧ (∀ cont code, p s.n (.blockStart (if cont then some code else none)) = r → (contStartStep p cont true code s).1 = r)
    ∧ (∀ cont code, p s.n (.frameStart (if cont then some code else none)) = r → (contStartStep p cont false code s).1 = r)
    ∧ (∀ cont code c, p s.n (.blockEnd (if cont then some code else none)) = r → (containerEnd p cont true code OK s c).1 = r)
    ∧ (∀ cont code c, p s.n (.frameEnd (if cont then some code else none)) = r → (containerEnd p cont false code OK s c).1 = r) := by
  obtain ⟨h1, h2, h3⟩ := hr
  have hne : r ≠ OK := h1
  refine ⟨?_, ?_, ?_, ?_, ?_, ?_, ?_, ?_⟩
  · intro h; simp [pktStartStep, hs, site_stop p s _ _ _ r h h1 h2 h3]
  · intro nm v h; simp [itemStep, hs, site_stop p s _ _ _ r h h1 h2 h3]
  · intro items h; simp [pktEndStep, hs, site_stop p s _ _ _ r h h1 h2 h3]
  · intro hd h; simp [loopEndStep, hs, site_stop p s _ _ _ r h h1 h2 h3]
  · intro cont code h; simp [contStartStep, hs, site_stop p s _ _ _ r h h1 h2 h3]
  · intro cont code h; simp [contStartStep, hs, site_stop p s _ _ _ r h h1 h2 h3]
  · intro cont code c h
    have hd : dec s = s := by simp [dec, hs]
    simp [containerEnd, hd, hs, site_stop p s _ _ _ r h h1 h2 h3]
  · intro cont code c h
    have hd : dec s = s := by simp [dec, hs]
    simp [containerEnd, hd, hs, site_stop p s _ _ _ r h h1 h2 h3]

/-- handle_loop_start: an answer that is neither CONTINUE nor a SKIP directive (END or a positive code) skips the loop
    body and is the result of the step (`goto loop_body_end`) -/
theorem C15_loop_start_local (p : Prog) (cont : Bool) (names : List Str) (s : St) (hs : s.skip = 0) (r : Int)
    (hr : r ≠ CONTINUE ∧ r ≠ SKIP_CURRENT ∧ r ≠ SKIP_SIBLINGS) (h : p s.n (.loopStart names) = r) :
    (loopStartStep p cont names s).2.2.2 = false ∧ (loopStartStep p cont names s).1 = r := by
  obtain ⟨h1, h2, h3⟩ := hr
  have hne : r ≠ OK := h1
  simp [loopStartStep, hs, site_stop p s _ _ _ r h h1 h2 h3, hne]

/-- **A stopping answer ends the parse** — for all token sequences, all programs, both modes: if the `k`-th handler
    callback answers anything but CONTINUE / SKIP_CURRENT / SKIP_SIBLINGS (END, or any code), then it is the last handler
    callback, it is the last callback of any kind (no whitespace, data-name or keyword callback follows), and cif_parse
    returns that answer if it is positive and CIF_OK otherwise. -/
theorem C15_stop_is_last (p : Prog) (storing : Bool) (toks : List Tok) (k : Nat)
    (hk : k < ((parseCB p storing toks).1.filter Ev.isHandler).length)
    (hstop : isStop (p k ((parseCB p storing toks).1.filter Ev.isHandler)[k])) :
    k + 1 = ((parseCB p storing toks).1.filter Ev.isHandler).length
    ∧ (parseCB p storing toks).1.getLast? = some ((parseCB p storing toks).1.filter Ev.isHandler)[k]
    ∧ (parseCB p storing toks).2.1 = (if p k ((parseCB p storing toks).1.filter Ev.isHandler)[k] > 0
        then p k ((parseCB p storing toks).1.filter Ev.isHandler)[k] else OK) := by
  have h := stop_of_top p _ _ (cif_top p 1 storing (fuelFor toks) toks) k hk hstop
  refine ⟨h.1, ?_, h.2.2⟩
  unfold parseCB
  simp only [List.getLast?_reverse]
  exact h.2.1

/-- **END**: a handler answering END makes its callback the last one and cif_parse return CIF_OK -/
theorem C15_end_ok (p : Prog) (storing : Bool) (toks : List Tok) (k : Nat)
    (hk : k < ((parseCB p storing toks).1.filter Ev.isHandler).length)
    (hend : p k ((parseCB p storing toks).1.filter Ev.isHandler)[k] = END) :
    k + 1 = ((parseCB p storing toks).1.filter Ev.isHandler).length
    ∧ (parseCB p storing toks).1.getLast? = some ((parseCB p storing toks).1.filter Ev.isHandler)[k]
    ∧ (parseCB p storing toks).2.1 = OK := by
  have h := C15_stop_is_last p storing toks k hk (by rw [hend]; decide)
  refine ⟨h.1, h.2.1, ?_⟩
  rw [h.2.2, hend]; decide

/-- **Positive codes abort**: a handler answering a positive code makes its callback the last one and cif_parse return
    that code -/
theorem C15_positive_aborts (p : Prog) (storing : Bool) (toks : List Tok) (k : Nat)
    (hk : k < ((parseCB p storing toks).1.filter Ev.isHandler).length)
    (hpos : p k ((parseCB p storing toks).1.filter Ev.isHandler)[k] > 0) :
    k + 1 = ((parseCB p storing toks).1.filter Ev.isHandler).length
    ∧ (parseCB p storing toks).1.getLast? = some ((parseCB p storing toks).1.filter Ev.isHandler)[k]
    ∧ (parseCB p storing toks).2.1 = p k ((parseCB p storing toks).1.filter Ev.isHandler)[k] := by
  have h := C15_stop_is_last p storing toks k hk (by
    unfold isStop CONTINUE SKIP_CURRENT SKIP_SIBLINGS; omega)
  refine ⟨h.1, h.2.1, ?_⟩
  rw [h.2.2]; simp [hpos]

/-- **SKIP semantics, part 1 — a directive opens a skipped region.**  At every start call site (nothing being skipped),
    SKIP_CURRENT puts the element's content at depth 1 and SKIP_SIBLINGS at depth 2 (so that the depth is still 1 after
    the element: its following siblings are skipped too); a loop so answered is not created; at the end call sites and at
    items SKIP_SIBLINGS puts the following siblings at depth 1 (2 for a scalar item, popped to 1 by parse_item); a scalar
    item answered SKIP_CURRENT / SKIP_SIBLINGS is not stored, a packet whose end is not answered CONTINUE is not recorded. -/
theorem C15_skip_opens_region (p : Prog) (s : St) (hs : s.skip = 0) :
    (∀ cont isBlock code,
      let e := if isBlock then Ev.blockStart (if cont then some code else none) else Ev.frameStart (if cont then some code else none)
      (p s.n e = SKIP_CURRENT → (contStartStep p cont isBlock code s).1 = OK ∧ (contStartStep p cont isBlock code s).2.skip = 1)
      ∧ (p s.n e = SKIP_SIBLINGS → (contStartStep p cont isBlock code s).1 = OK ∧ (contStartStep p cont isBlock code s).2.skip = 2))
    ∧ (∀ cont names,
      (p s.n (.loopStart names) = SKIP_CURRENT → (loopStartStep p cont names s).2.1.skip = 1 ∧ (loopStartStep p cont names s).2.2.1 = false)
      ∧ (p s.n (.loopStart names) = SKIP_SIBLINGS → (loopStartStep p cont names s).2.1.skip = 2 ∧ (loopStartStep p cont names s).2.2.1 = false))
    ∧ ((p s.n .pktStart = SKIP_CURRENT → (pktStartStep p s).2.skip = 1) ∧ (p s.n .pktStart = SKIP_SIBLINGS → (pktStartStep p s).2.skip = 2))
    ∧ (∀ nm v, p s.n (.item nm v) = SKIP_SIBLINGS → (itemStep p nm OK v s).2.skip = 1)
    ∧ (∀ items, (p s.n (.pktEnd items) ≠ CONTINUE → (pktEndStep p items s).2.2 = false)
        ∧ (p s.n (.pktEnd items) = SKIP_SIBLINGS → (pktEndStep p items s).2.1.skip = 1))
    ∧ (∀ cont nm v, (p s.n (.item nm v) ≠ CONTINUE → (scalarItemStep p cont nm v s).2.2 = none)
        ∧ (p s.n (.item nm v) = SKIP_SIBLINGS → (scalarItemStep p cont nm v s).2.1.skip = 2)) := by
  have c1 : SKIP_CURRENT ≠ CONTINUE := by decide
  have c2 : SKIP_SIBLINGS ≠ CONTINUE := by decide
  have c3 : SKIP_SIBLINGS ≠ SKIP_CURRENT := by decide
  refine ⟨?_, ?_, ?_, ?_, ?_, ?_⟩
  · intro cont isBlock code
    constructor
    · intro h; simp [contStartStep, hs, site, h, c1, setSkip]
    · intro h; simp [contStartStep, hs, site, h, c2, c3, setSkip]
  · intro cont names
    constructor
    · intro h; simp [loopStartStep, hs, site, h, c1, setSkip]
    · intro h; simp [loopStartStep, hs, site, h, c2, c3, setSkip]
  · constructor
    · intro h; simp [pktStartStep, hs, site, h, c1, setSkip]
    · intro h; simp [pktStartStep, hs, site, h, c2, c3, setSkip]
  · intro nm v h; simp [itemStep, hs, site, h, c2, c3, setSkip]
  · intro items
    constructor
    · intro h; simp [pktEndStep, hs, h]
    · intro h; simp [pktEndStep, hs, site, h, c2, c3, setSkip]
  · intro cont nm v
    constructor
    · intro h; simp [scalarItemStep, h]
    · intro h; simp [scalarItemStep, site, h, c2, c3, setSkip]

/-- **SKIP semantics, part 2 — a skipped region is silent and stores nothing.**  For every token sequence, program and
    fuel: a production entered while `skip_depth > 0` makes no handler, data-name or keyword callback (the log grows by
    whitespace callbacks only — comments — and the handler count is unchanged) and stores nothing: no item, no loop, no
    packet, no frame, no block. -/
theorem C15_skipped_region_silent (p : Prog) (fuel : Nat) (s : St) (hs : s.skip > 0) :
    (∀ cont, Quiet s (parseItem p fuel cont none s).2.1 ∧ (parseItem p fuel cont none s).2.2 = none)
    ∧ (∀ cont, Quiet s (parseLoop p fuel cont s).2.1 ∧ (parseLoop p fuel cont s).2.2 = none)
    ∧ (∀ loopH names (k : PkSt), k.col = 0 →
        Quiet s (packetsLoop p loopH names fuel s k).2.1 ∧ (packetsLoop p loopH names fuel s k).2.2.stored = k.stored)
    ∧ (∀ m cont isBlock code, Quiet s (parseContainer p m fuel cont isBlock code s).2.1
        ∧ (parseContainer p m fuel cont isBlock code s).2.2.frames = [] ∧ (parseContainer p m fuel cont isBlock code s).2.2.loops = [])
    ∧ (∀ m cont isBlock c, Quiet s (elemsLoop p m fuel cont isBlock s c).2.1 ∧ (elemsLoop p m fuel cont isBlock s c).2.2 = c)
    ∧ (∀ m cif acc, Quiet s (blocksLoop p m cif fuel s acc).2.1 ∧ (blocksLoop p m cif fuel s acc).2.2 = acc) :=
  ⟨fun cont => item_skipped p fuel cont s,
   fun cont => loop_skipped p fuel cont s hs,
   fun loopH names k hk => packets_skipped p loopH names s.skip hs fuel s k (by unfold PInv; simp [hk, Bal.refl]),
   fun m cont isBlock code => (container_skipped p m fuel).1 cont isBlock code s hs,
   fun m cont isBlock c => (container_skipped p m fuel).2 cont isBlock s c hs,
   fun m cif acc => blocks_skipped p m cif fuel s acc hs⟩

/-- **Syntax-only mode**: for every token sequence and every handler program that does not look at the handles it is
    given (`HandleBlind`: in syntax-only mode the container / loop handles are NULL, so only such programs can behave the
    same), the parse without a target CIF delivers exactly the callbacks of the storing parse — handler, data-name,
    keyword and whitespace callbacks, in the same order, with the handles erased — and returns the same value; provided
    the storing parse does not stop on a frame-nesting diagnostic (`MALFORMED`: CIF_FRAME_NOT_ALLOWED / CIF_NO_FRAME_TERM,
    which parse_container raises only when it has a container handle — input that is not well-formed under the options).
    Duplicate-name diagnostics are outside the model (documents without duplicates). -/
theorem C15_syntax_only_same_log (p : Prog) (hp : HandleBlind p) (toks : List Tok)
    (hwf : (parseCB p true toks).2.1 ≠ MALFORMED) :
    (parseCB p false toks).1 = (parseCB p true toks).1.map erase
    ∧ (parseCB p false toks).2.1 = (parseCB p true toks).2.1 := by
  have h := cif_erase p hp 1 (fuelFor toks) (St.init toks) hwf
  have hinit : eraseSt (St.init toks) = St.init toks := rfl
  rw [hinit] at h
  unfold parseCB
  refine ⟨?_, h.1⟩
  dsimp only
  rw [h.2]
  simp [eraseSt, List.map_reverse]

/-- **Mirror, value level** (first building block of `C15_all_continue_mirror_full`): for every value `v` (any nesting of
    lists and tables; table entries carrying their key spelling as normalised key, as the parser model stores them),
    every continuation `rest` of the token sequence, every state and enough fuel, parse_value on the layout-free tokens of
    `v` consumes exactly those tokens, returns CIF_OK and rebuilds `v` (no callback, depth untouched). -/
theorem C15_value_mirror (v : V) (rest : List Tok) (s : St) (b : Bool) (fuel : Nat) (hw : wfV v = true) (hf : szV v ≤ fuel) :
    parseValue fuel (atb s (valueToks v ++ rest) b) = (OK, v, atb s rest false) :=
  value_mirror v rest s b fuel hw hf

/-- **All continue — the callbacks mirror the document and the store is its denotation.**  For every well-formed abstract
    document `d` (`wfDocN norm`: well-formed values; loops with ≥ 1 name and ≥ 1 packet, every packet as long as the header;
    save frames only in data blocks, not nested; block codes, frame codes per block and data names per container pairwise
    distinct after the normalisation `norm` — any `norm`: with duplicates the C makes a DUP_* diagnostic, which `parseCB` does
    not model, see `C15_dup_all_continue_mirror`), with handlers that always continue and a target CIF: the parse of the
    document's token sequence delivers exactly the callbacks `docEvents true d` — cif / block / frame / loop / packet
    start and end, every item with its name and value, the data-name and keyword callbacks — in document order, returns
    CIF_OK, and the resulting CIF is `denote d`.  (`fuel`: any amount ≥ `szDoc d + 1`; the model's own `fuelFor` in the
    corollary below.) -/
theorem C15_all_continue_mirror (norm : Str → Str) (d : Doc) (hwn : wfDocN norm d = true) (fuel : Nat) (hf : szDoc d + 1 ≤ fuel) :
    (parseCif allContP 1 true fuel (St.init (tokensOf d))).2.1.log.reverse = docEvents true d
    ∧ (parseCif allContP 1 true fuel (St.init (tokensOf d))).1 = OK
    ∧ (parseCif allContP 1 true fuel (St.init (tokensOf d))).2.2 = denote d := by
  have hw : wfDoc d = true := wfDocN_wf hwn
  obtain ⟨h1, h2, h3⟩ := doc_stage1 allContP allContP_noStop true d fuel hw hf
  obtain ⟨k1, k2⟩ := kDoc_allCont d hw
  exact ⟨by rw [h2]; exact k1, h1, by rw [h3]; exact k2⟩

/-- the same for `parseCB` (the model's entry point, fuel `fuelFor`) -/
theorem C15_all_continue_mirror_parseCB (norm : Str → Str) (d : Doc) (hwn : wfDocN norm d = true) :
    parseCB allContP true (tokensOf d) = (docEvents true d, OK, denote d) := by
  have hw : wfDoc d = true := wfDocN_wf hwn
  obtain ⟨h1, h2, h3⟩ := C15_all_continue_mirror norm d hwn (fuelFor (tokensOf d)) (fuelFor_enough d)
  unfold parseCB
  rw [h1, h2, h3]

/-- **Skip semantics, reduction to the document tree** (stage 1 of the remaining clause): for every well-formed document and
    every program that only continues or skips, in both modes, the parse returns CIF_OK and what it logs and stores is what
    the structural interpreter `kDoc` — the same handler steps applied to the document tree, without tokens or fuel — logs
    and stores. -/
theorem C15_stored_is_structural (p : Prog) (hp : NoStop p) (storing : Bool) (norm : Str → Str) (d : Doc) (hwn : wfDocN norm d = true) :
    parseCB p storing (tokensOf d)
      = ((kDoc p storing d (St.init [])).1.log.reverse, OK, (kDoc p storing d (St.init [])).2) := by
  have hw : wfDoc d = true := wfDocN_wf hwn
  obtain ⟨h1, h2, h3⟩ := doc_stage1 p hp storing d (fuelFor (tokensOf d)) hw (fuelFor_enough d)
  unfold parseCB
  rw [h1, h2, h3]

/-- **"Everything else is stored as in an unfiltered parse"** — the last clause of the skip semantics, over the document
    tree.  For every well-formed document `d` and every handler program that only continues or skips (`NoStop`), the CIF
    stored by the parse of `tokensOf d` is the denotation of `prunedDoc p true d`: the document with the bypassed sub-trees
    removed — the sub-trees below the elements whose start answered SKIP_CURRENT, plus the later siblings after
    SKIP_SIBLINGS — defined declaratively in Spec/Traversal.lean part 3 (threading only the number of handler callbacks
    delivered), with the documented conventions listed there (a skipped block/frame exists empty; a loop whose start
    answered SKIP_* is not created; scalar item SKIP_* not stored; loop item SKIP_CURRENT stays; loop item SKIP_SIBLINGS
    drops its packet; packet_end ≠ CONTINUE drops the packet; `denoteP` = `denote` + removal of packet-less loops at every
    container end).  The parse returns CIF_OK. -/
theorem C15_skip_semantics_rest (p : Prog) (hp : NoStop p) (norm : Str → Str) (d : Doc) (hwn : wfDocN norm d = true) :
    (parseCB p true (tokensOf d)).2.2 = denoteP (prunedDoc p true d) ∧ (parseCB p true (tokensOf d)).2.1 = OK := by
  have hw : wfDoc d = true := wfDocN_wf hwn
  rw [C15_stored_is_structural p hp true norm d hwn]
  exact ⟨kDoc_d p hp d hw, rfl⟩

/-- **Reduction to the document tree, for EVERY program** (END and error answers included): for every well-formed document, in
    both modes, what the parse returns, logs and stores is what the structural interpreter `xDoc` — the handler steps of
    parser.c with the early exits of the productions, applied to the document tree, without tokens or fuel — returns, logs
    and stores. -/
theorem C15_stored_is_structural_any (p : Prog) (storing : Bool) (norm : Str → Str) (d : Doc) (hwn : wfDocN norm d = true) :
    parseCB p storing (tokensOf d)
      = ((xDoc p storing d (St.init [])).2.1.log.reverse, (xDoc p storing d (St.init [])).1, (xDoc p storing d (St.init [])).2.2) := by
  have hw : wfDoc d = true := wfDocN_wf hwn
  obtain ⟨h1, h2, h3⟩ := doc_x p storing d (fuelFor (tokensOf d)) hw (fuelFor_enough d)
  unfold parseCB
  rw [h1, h2, h3]

/-- **Stop semantics of the store.**  For every well-formed document `d` and EVERY handler program `p` — any mixture of
    CONTINUE, SKIP_CURRENT, SKIP_SIBLINGS, CIF_TRAVERSE_END and error codes, at any callbacks — the CIF stored by the parse of
    `tokensOf d` is the plain denotation of `(cutDoc p true d).kept`: the document with the bypassed sub-trees removed (as in
    `C15_skip_semantics_rest`) and cut at the first answer that is not one of the three directives.  Everything stored before
    that answer stays, nothing after it is stored.  Of the construct in progress (Spec/Traversal.lean part 4): a scalar item
    is not stored; a loop whose loop_start stopped is not created; a stop at packet_start, at an item of the packet or at
    packet_end drops the open packet and leaves the loop with the packets recorded before (possibly none); a block / frame
    whose start stopped exists, empty; a stop inside a block / frame leaves it with what it had; a stop at loop_end / frame_end
    / block_end leaves the construct complete.  Packet-less loops are removed from a container when it is closed
    (`stripL`, just before its end handler); the containers that are open at the stopping point keep theirs.
    The return value is `cutResult`: the stopping answer if it is positive, CIF_OK if not (END); without a stop the answer
    of cif_end if positive, else CIF_OK. -/
theorem C15_stop_semantics_store (p : Prog) (norm : Str → Str) (d : Doc) (hwn : wfDocN norm d = true) :
    (parseCB p true (tokensOf d)).2.2 = denote (cutDoc p true d).kept
    ∧ (parseCB p true (tokensOf d)).2.1 = cutResult p true (cutDoc p true d) := by
  have hw : wfDoc d = true := wfDocN_wf hwn
  rw [C15_stored_is_structural_any p true norm d hwn]
  obtain ⟨h1, h2⟩ := xDoc_c p d hw
  exact ⟨h2, h1⟩

/-- the two descriptions agree where both apply: for a program that only continues or skips, the cut document denotes what
    the pruned document denotes after the removal of packet-less loops -/
theorem C15_cut_extends_pruned (p : Prog) (hp : NoStop p) (norm : Str → Str) (d : Doc) (hwn : wfDocN norm d = true) :
    denote (cutDoc p true d).kept = denoteP (prunedDoc p true d) := by
  have hw : wfDoc d = true := wfDocN_wf hwn
  rw [← (C15_stop_semantics_store p norm d hwn).1, (C15_skip_semantics_rest p hp norm d hwn).1]

/-- **Duplicates under callbacks — all-continue handlers, accepting error callback.**  For every normalisation `norm` and every
    document `d` in which data block codes, save frame codes and scalar data names may repeat (in any spellings that `norm`
    identifies; `okDoc`: values well-formed, loops rectangular with headers that are new to their container and repeat nothing),
    the parse of `tokensOf d` by the model with the duplicate diagnostics returns CIF_OK, delivers exactly the callbacks
    `dupEvents norm d` — the document in document order with the recovery of every duplicate: scalar: data-name callback,
    error callback CIF_DUP_ITEMNAME, no item handler; frame / block: error callback CIF_DUP_FRAMECODE / CIF_DUP_BLOCKCODE,
    then start … end of the EXISTING frame / block (its handle, i.e. its code in its first spelling) — and stores
    `dupDenote norm d`: the reopened containers hold the union of their parts, a duplicate scalar is dropped (the first value
    stays).  (The error callback is recorded as `errEv code`, see Model/ParseCBDup.lean.) -/
theorem C15_dup_all_continue_mirror (norm : Str → Str) (d : Doc) (hw : okDoc norm d = true) :
    parseCBD allContP norm true (tokensOf d) = (dupEvents norm d, OK, dupDenote norm d) := by
  obtain ⟨h1, h2, h3⟩ := docD_allCont norm d (fuelFor (tokensOf d)) hw (fuelFor_enough d)
  unfold parseCBD
  rw [h1, h2, h3]

/-- **The callbacks delivered are callbacks the document owes, in document order — for EVERY program.**  For every
    well-formed duplicate-free document, every handler program (skips, END, error codes) and both modes, the callbacks of the
    parse of `tokensOf d` — handler, data-name and keyword callbacks — form a sublist of `docEvents storing d`: a program that
    does not always continue only ever makes the parser LEAVE OUT callbacks; it never reorders, repeats or invents one, and
    the handles passed are the ones the document owes.  (Which callbacks are left out: `C15_skip_opens_region`,
    `C15_skipped_region_silent`, `C15_stop_is_last`, and exactly, through `xDoc`: `C15_stored_is_structural_any`.) -/
theorem C15_events_sublist (p : Prog) (storing : Bool) (norm : Str → Str) (d : Doc) (hwn : wfDocN norm d = true) :
    (parseCB p storing (tokensOf d)).1.Sublist (docEvents storing d) := by
  rw [C15_stored_is_structural_any p storing norm d hwn]
  exact xDoc_sub p storing d (wfDocN_wf hwn)

/-- **The denotation is the independent one.**  `Spec.Doc.denote` — the stored CIF of the theorems above — is written with the
    store operations of Model/ParseCB.lean.  On every document of the Grammar specification (Spec/Grammar.lean: written from the
    CIF grammar and cif.h by another group, no model involved), read as a C15 document (`ofDoc`: each value replaced by what it
    denotes), it coincides with that specification's own `denote`. -/
theorem C15_denote_is_grammar_denote (dia : Dialect) (nk : Str → Str) (g : Spec.Grammar.Doc) :
    denote (ofDoc dia nk g) = Spec.Grammar.denote dia nk g :=
  denote_ofDoc dia nk g

/-- … so the all-continue parse of a Grammar document stores its Grammar denotation -/
theorem C15_all_continue_stores_grammar_denote (dia : Dialect) (nk norm : Str → Str) (g : Spec.Grammar.Doc)
    (hwn : wfDocN norm (ofDoc dia nk g) = true) :
    (parseCB allContP true (tokensOf (ofDoc dia nk g))).2.2 = Spec.Grammar.denote dia nk g := by
  rw [C15_all_continue_mirror_parseCB norm _ hwn]
  exact denote_ofDoc dia nk g

/-- **Whitespace and comment callbacks, per token**: when next_token scans a new token it reports the layout in front of it in
    order — every comment, every whitespace run unless something is being skipped (`segEvents`) — and nothing else changes;
    a token that has been scanned is not reported again.  (Every production reads tokens through next_token only; the
    document-level theorems are about layout-free token sequences, the order of these callbacks across a whole document is
    checked by the correspondence oracle.) -/
theorem C15_ws_reported_in_order (s : St) (t : Tok) (rest : List Tok) (hs : s.toks = t :: rest) :
    (s.scanned = false →
      (nextToken s).2.log = (segEvents s.skip t.pre).reverse ++ s.log ∧ (nextToken s).2.scanned = true
        ∧ (nextToken s).2.skip = s.skip ∧ (nextToken s).2.n = s.n ∧ (nextToken s).2.toks = s.toks ∧ (nextToken s).1 = t.ty)
    ∧ (s.scanned = true → nextToken s = (t.ty, s)) := by
  unfold nextToken
  simp only [hs]
  constructor
  · intro h
    obtain ⟨a, b, c, e, _⟩ := reportPre_spec t.pre s
    simp only [h, Bool.false_eq_true, if_false]
    exact ⟨a, trivial, b, c, by rw [e, hs], trivial⟩
  · intro h
    simp only [h, if_true]

/-- with all-continue handlers nothing is bypassed: the pruned document stores what the document denotes -/
theorem C15_unfiltered_is_denote (norm : Str → Str) (d : Doc) (hwn : wfDocN norm d = true) : denoteP (prunedDoc allContP true d) = denote d := by
  have hw : wfDoc d = true := wfDocN_wf hwn
  have h1 := (C15_skip_semantics_rest allContP allContP_noStop norm d hwn).1
  rw [C15_all_continue_mirror_parseCB norm d hwn] at h1
  exact h1.symm

-- ---- the repaired defect F33, as a statement about the pinned variant ------------------------------------------------

/-- before fix 43d0bb7 a positive answer of handle_loop_start did not skip the loop body: the packets were parsed (with
    their callbacks) and their result replaced the handler's code -/
theorem C15_cex_loop_start_pinned (p : Prog) (cont : Bool) (names : List Str) (s : St) (hs : s.skip = 0) (r : Int)
    (hr : r > 0) (h : p s.n (.loopStart names) = r) :
    (loopStartStepPinned p cont names s).2.2.2 = true ∧ (loopStartStep p cont names s).2.2.2 = false := by
  have h1 : r ≠ CONTINUE := by unfold CONTINUE; omega
  have h2 : r ≠ SKIP_CURRENT := by unfold SKIP_CURRENT; omega
  have h3 : r ≠ SKIP_SIBLINGS := by unfold SKIP_SIBLINGS; omega
  have h4 : r ≠ END := by unfold END; omega
  have hne : r ≠ OK := h1
  constructor
  · simp [loopStartStepPinned, hs, h, h4]
  · simp [loopStartStep, hs, site_stop p s _ _ _ r h h1 h2 h3, hne]

/-- `data_a loop_ _x 1` -/
def C15_cexDoc : Doc := [{ code := (a!"a"), body := [.loop [(a!"_x")] [[.chr false (a!"1")]]] }]
/-- answers 7 at handler invocation 2 = loop_start -/
def C15_cexProg : Prog := fun k _ => if k = 2 then 7 else 0

/-- the repaired parser: the positive code 7 answered by loop_start ends the parse after 3 handler callbacks, is
    returned, and the loop is not stored -/
theorem C15_loop_start_code_returned :
    (parseCB C15_cexProg true (tokensOf C15_cexDoc)).2.1 = 7
    ∧ ((parseCB C15_cexProg true (tokensOf C15_cexDoc)).1.filter Ev.isHandler).length = 3
    ∧ ((parseCB C15_cexProg true (tokensOf C15_cexDoc)).2.2.map (fun c => c.loops.length)) = [0] := by
  decide +kernel

-- ---- non-vacuity / sanity ---------------------------------------------------------------------------------------------

def C15_demo : Doc :=
  [{ code := (a!"b"), body := [.item (a!"_s") (.chr false (a!"v")),
      .frame (a!"f") [.item (a!"_t") (.lst [.unk, .tbl [((a!"k"), (a!"k"), .na)]])],
      .loop [(a!"_x"), (a!"_y")] [[.chr true (a!"1"), .na], [.unk, .chr false (a!"2")]]] }]

-- all continue: 18 handler callbacks, result OK, one frame and two loops (scalar loop + the loop) stored
example : ((parseCB (fun _ _ => 0) true (tokensOf C15_demo)).1.filter Ev.isHandler).length = (docEvents true C15_demo |>.filter Ev.isHandler).length := by
  decide +kernel
example : (parseCB (fun _ _ => 0) true (tokensOf C15_demo)).2.1 = 0 := by decide +kernel
example : (parseCB (fun _ _ => 0) true (tokensOf C15_demo)).2.2.map (fun c => (c.frames.length, c.loops.length)) = [(1, 2)] := by
  decide +kernel
example : (denote C15_demo).map (fun c => (c.frames.length, c.loops.length)) = [(1, 2)] := by decide +kernel
-- block_start answers SKIP_CURRENT: only cif_start, block_start, block_end, cif_end; nothing stored in the block
example : ((parseCB (fun k _ => if k = 1 then -1 else 0) true (tokensOf C15_demo)).1.filter Ev.isHandler).length = 4
    ∧ (parseCB (fun k _ => if k = 1 then -1 else 0) true (tokensOf C15_demo)).2.2.map (fun c => (c.frames.length, c.loops.length)) = [(0, 0)] := by
  decide +kernel
-- a positive code from the item handler is returned
example : (parseCB (fun k _ => if k = 2 then 7 else 0) true (tokensOf C15_demo)).2.1 = 7 := by decide +kernel
-- the balance hypotheses are satisfiable: entry at depth 0 and at depth 2
example : Bal 0 1 ∧ Bal 2 2 ∧ ¬ Bal 2 1 := by unfold Bal; omega
-- the mirror hypotheses hold for the demo document
example : wfDoc C15_demo = true := by decide +kernel
-- the remaining skip-semantics clause: a loop-heavy document for instances
def C15_loopDoc : Doc :=
  [{ code := (a!"t"), body := [.item (a!"_s") (.chr false (a!"a")),
      .loop [(a!"_a"), (a!"_b")] [[.unk, .na], [.chr false (a!"1"), .chr false (a!"2")], [.na, .unk]],
      .frame (a!"f") [.loop [(a!"_c")] [[.unk], [.na]], .item (a!"_t") .na],
      .item (a!"_u") .unk] },
   { code := (a!"u"), body := [.item (a!"_z") .na] }]
def C15_dev1 (k : Nat) (r : Int) : Prog := fun i _ => if i = k then r else 0
def C15_dev2 (k1 : Nat) (r1 : Int) (k2 : Nat) (r2 : Int) : Prog := fun i _ => if i = k1 then r1 else if i = k2 then r2 else 0
def C15_restOK (p : Prog) (d : Doc) : Bool := C15_contsBeq (parseCB p true (tokensOf d)).2.2 (denoteP (prunedDoc p true d))
example : wfDoc C15_loopDoc = true := by decide +kernel
example : NoStop (C15_dev1 4 (-2)) := fun i _ => by
  unfold C15_dev1; split <;> simp [CONTINUE, SKIP_CURRENT, SKIP_SIBLINGS]
-- kernel-evaluated instances (the theorem above covers all of them): packet_start of the first loop answers SKIP_SIBLINGS
example : C15_restOK (C15_dev1 4 (-2)) C15_loopDoc = true := by decide +kernel
example : C15_restOK (C15_dev2 6 (-2) 12 (-1)) C15_loopDoc = true := by decide +kernel
-- the value-mirror hypotheses on a nested value
example : wfV (.lst [.unk, .tbl [((a!"k"), (a!"k"), .lst [.na])]]) = true ∧ szV (.lst [.unk, .tbl [((a!"k"), (a!"k"), .lst [.na])]]) = 13 := by decide +kernel
-- the sub-structure relation on the demo: a filtered parse (block_start answers SKIP_CURRENT; an item answers SKIP_CURRENT)
example : C15_subConts (parseCB (fun k _ => if k = 1 then -1 else 0) true (tokensOf C15_demo)).2.2 (denote C15_demo) = true := by
  decide +kernel
example : C15_subConts (parseCB (fun k _ => if k = 2 then -1 else 0) true (tokensOf C15_demo)).2.2 (denote C15_demo) = true
    ∧ C15_subConts (denote C15_demo) (parseCB (fun k _ => if k = 2 then -1 else 0) true (tokensOf C15_demo)).2.2 = false := by
  decide +kernel
-- syntax-only mode on the demo: same callbacks with the handles erased; the program below ignores its event argument
example : HandleBlind (fun k _ => if k = 5 then -2 else 0) := fun _ _ => rfl
example : (parseCB (fun k _ => if k = 5 then -2 else 0) true (tokensOf C15_demo)).2.1 ≠ MALFORMED := by decide +kernel
example : ((parseCB (fun k _ => if k = 5 then -2 else 0) false (tokensOf C15_demo)).1.filter Ev.isHandler).length
    = ((parseCB (fun k _ => if k = 5 then -2 else 0) true (tokensOf C15_demo)).1.filter Ev.isHandler).length := by decide +kernel
-- END and a positive code at invocation 3 (frame_start): last callback, results 0 and 7
example : (parseCB (fun k _ => if k = 3 then END else 0) true (tokensOf C15_demo)).2.1 = 0
    ∧ ((parseCB (fun k _ => if k = 3 then END else 0) true (tokensOf C15_demo)).1.filter Ev.isHandler).length = 4 := by decide +kernel

-- stop semantics of the store, kernel-evaluated instances on the loop-heavy document (the theorem covers all of them):
-- packet_start of the first loop answers SKIP_SIBLINGS (the loop is left without packets), then frame_start answers 7: the
-- open block keeps the packet-less loop (scalar loop + loop = 2 loops, the frame exists, empty), result 7
def C15_cutOK (p : Prog) (d : Doc) : Bool :=
  C15_contsBeq (parseCB p true (tokensOf d)).2.2 (denote (cutDoc p true d).kept)
    && decide ((parseCB p true (tokensOf d)).2.1 = cutResult p true (cutDoc p true d))
example : C15_cutOK (C15_dev2 4 (-2) 5 7) C15_loopDoc = true := by decide +kernel
example : (parseCB (C15_dev2 4 (-2) 5 7) true (tokensOf C15_loopDoc)).2.2.map (fun c => (c.frames.length, c.loops.length)) = [(1, 2)]
    ∧ (parseCB (C15_dev2 4 (-2) 5 7) true (tokensOf C15_loopDoc)).2.1 = 7 := by decide +kernel
-- the same skip without a stop: the block is closed, the packet-less loop is gone
example : (parseCB (C15_dev1 4 (-2)) true (tokensOf C15_loopDoc)).2.2.map (fun c => (c.frames.length, c.loops.length)) = [(1, 1), (0, 1)] := by
  decide +kernel
-- END at an item inside a packet: the open packet is dropped, the loop keeps the packet recorded before; CIF_OK
example : C15_cutOK (C15_dev1 9 END) C15_loopDoc = true := by decide +kernel

-- duplicates under callbacks: a document with a repeated scalar (other spelling), a reopened frame and a reopened block
def C15_lower (s : Str) : Str := s.map fun c => if 65 ≤ c ∧ c ≤ 90 then c + 32 else c
def C15_dupDoc : Doc :=
  [{ code := (a!"b"), body := [.item (a!"_s") (.chr false (a!"v")), .item (a!"_S") .na,
      .frame (a!"f") [.item (a!"_t") .unk],
      .frame (a!"F") [.item (a!"_t") .na, .item (a!"_u") .na]] },
   { code := (a!"B"), body := [.item (a!"_s") .unk, .item (a!"_w") .na] }]
example : okDoc C15_lower C15_dupDoc = true := by decide +kernel
-- five error callbacks: _S, save_F, _t in the reopened frame, data_B, _s in the reopened block; one block, one frame stored
example : ((dupEvents C15_lower C15_dupDoc).filter (fun e => match e with | .keyword (0 :: _) => true | _ => false)).length = 5
    ∧ (dupDenote C15_lower C15_dupDoc).map (fun c => (c.code, c.frames.map (fun f => f.code))) = [((a!"b"), [(a!"f")])] := by
  decide +kernel

-- the documents of the document-level theorems: well-formed and duplicate-free (after normalisation)
example : wfDocN C15_lower C15_demo = true ∧ wfDocN C15_lower C15_loopDoc = true := by decide +kernel
example : wfDoc C15_dupDoc = true ∧ wfDocN C15_lower C15_dupDoc = false := by decide +kernel
-- every program: the callbacks are a sublist of the document's (instance: two deviations, one of them END)
example : (parseCB (C15_dev2 4 (-2) 9 END) true (tokensOf C15_loopDoc)).1.length < (docEvents true C15_loopDoc).length := by
  decide +kernel

end CifModel
