import CifModel.Lemmas.ParseCB
import CifModel.Spec.Traversal
/-
  Property C15 — parse-time callbacks mirror the document and steer what is stored.

  Model: `ParseCB.parseCB p storing toks` (Model/ParseCB.lean: the productions of parser.c on the token sequence, with
  the handler call sites and `skip_depth` threaded as in the C).  Spec: abstract documents, their layout-free token
  sequence `tokensOf`, the callbacks owed in document order `docEvents` and the denotation `denote`
  (Spec/Traversal.lean, part 2).

  PROVED here, for ALL token sequences (well-formed or not), all handler programs, all fuels:
    * C15_skip_depth_balanced_partial — parse_value / parse_list / parse_table never touch the counter and call no
      handler; parse_item returns with the depth it was entered with (0 or 1 when entered at 0); the packet loop of
      parse_loop_packets returns, at every packet boundary, with the depth of the boundary it was entered at (0 or 1
      when entered at 0), whatever the handlers answer; the counter is never negative.
    * C15_result_nonneg — cif_parse never returns a navigation code.
    * C15_positive_aborts_local / C15_loop_start_local — at every handler call site, an answer that is neither
      CONTINUE nor a SKIP directive (END, or a positive code) becomes the result of the production at once.
    * C15_cex_loop_start_pinned — before fix 43d0bb7 a positive answer of handle_loop_start was dropped (finding F33,
      fixed): kept as a statement about the pinned step `loopStartStepPinned`.
  NOT PROVED (stated as `_full` propositions; checked by the `pcb` correspondence family and its independent oracle
  only): the loop / container / CIF levels of the balance theorem, and the global theorems all_continue_mirror,
  syntax_only_same_log, skip_semantics, end_ok, positive_aborts over rendered documents.
-/
namespace CifModel
open ParseCB Lemmas.ParseCB Spec.Doc

-- ---- FULL statements (not proved) ---------------------------------------------------------------------------------

/-- every production returns with the depth it was entered with (0/1 when entered at 0), on results CIF_OK -/
def C15_skip_depth_balanced_full : Prop :=
  ∀ (p : Prog) (fuel : Nat) (s : St), 0 ≤ s.skip →
    (∀ cont, (parseLoop p fuel cont s).1 = OK → Bal s.skip (parseLoop p fuel cont s).2.1.skip)
    ∧ (∀ m cont isBlock code, (parseContainer p m fuel cont isBlock code s).1 = OK →
        Bal s.skip (parseContainer p m fuel cont isBlock code s).2.1.skip)
    ∧ (∀ m cif, s.skip = 0 → (parseCif p m cif fuel s).2.1.skip = 0)

def C15_handlerEvents (l : List Ev) : List Ev := l.filter (fun e => match e with | .ws _ => false | _ => true)

/-- with handlers that always continue, the callbacks are those the document owes, in document order, and the stored
    CIF is the document's denotation (as canonical text) -/
def C15_all_continue_mirror_full (evEq : List Ev → List Ev → Bool) (cifEq : Cif → Cif → Bool) : Prop :=
  ∀ d : Doc, evEq (C15_handlerEvents (parseCB (fun _ _ => 0) true (tokensOf d)).1) (docEvents true d) = true
    ∧ (parseCB (fun _ _ => 0) true (tokensOf d)).2.1 = 0
    ∧ cifEq (parseCB (fun _ _ => 0) true (tokensOf d)).2.2 (denote d) = true

/-- syntax-only mode produces the same callbacks (handles erased) and the same result, for programs that do not look
    at the handles -/
def C15_syntax_only_same_log_full (erase : Ev → Ev) (evEq : List Ev → List Ev → Bool) : Prop :=
  ∀ (d : Doc) (p : Prog), (∀ k e, p k e = p k (erase e)) →
    evEq ((parseCB p true (tokensOf d)).1.map erase) ((parseCB p false (tokensOf d)).1.map erase) = true
    ∧ (parseCB p true (tokensOf d)).2.1 = (parseCB p false (tokensOf d)).2.1

/-- a positive answer of any handler is the last handler callback and the result -/
def C15_positive_aborts_full : Prop :=
  ∀ (d : Doc) (p : Prog) (storing : Bool) (k : Nat)
    (h : k < ((parseCB p storing (tokensOf d)).1.filter Ev.isHandler).length),
    p k ((parseCB p storing (tokensOf d)).1.filter Ev.isHandler)[k] > 0 →
      ((parseCB p storing (tokensOf d)).1.filter Ev.isHandler).length = k + 1
      ∧ (parseCB p storing (tokensOf d)).2.1 = p k ((parseCB p storing (tokensOf d)).1.filter Ev.isHandler)[k]

-- ---- proved ------------------------------------------------------------------------------------------------------

/-- **skip_depth bookkeeping** (partial: the value, item and packet-loop levels), for all token sequences, programs,
    fuels and entry states -/
theorem C15_skip_depth_balanced_partial (p : Prog) (fuel : Nat) (s : St) (h0 : 0 ≤ s.skip) :
    -- values: counter and handler count untouched
    ((parseValue fuel s).2.2.skip = s.skip ∧ (parseValue fuel s).2.2.n = s.n)
    -- parse_item (a skipped item has no name)
    ∧ (∀ cont name, (s.skip > 0 → name = none) → Bal s.skip (parseItem p fuel cont name s).2.1.skip)
    -- the packet loop, entered at a packet boundary
    ∧ (∀ loopH names (k : PkSt), k.col = 0 → (packetsLoop p loopH names fuel s k).1 = OK →
        Bal s.skip (packetsLoop p loopH names fuel s k).2.1.skip)
    -- never negative
    ∧ (∀ cont name, (s.skip > 0 → name = none) → 0 ≤ (parseItem p fuel cont name s).2.1.skip)
    ∧ (∀ loopH names (k : PkSt), k.col = 0 → (packetsLoop p loopH names fuel s k).1 = OK →
        0 ≤ (packetsLoop p loopH names fuel s k).2.1.skip) := by
  refine ⟨(value_skip fuel).1 s, fun cont name hn => item_bal p fuel cont name s h0 hn, ?_,
    fun cont name hn => Bal.nonneg h0 (item_bal p fuel cont name s h0 hn), ?_⟩
  · intro loopH names k hk hok
    exact packets_bal p loopH names s.skip h0 fuel s k (by unfold PInv; simp [hk, Bal.refl]) hok
  · intro loopH names k hk hok
    exact Bal.nonneg h0 (packets_bal p loopH names s.skip h0 fuel s k (by unfold PInv; simp [hk, Bal.refl]) hok)

/-- cif_parse returns CIF_OK or a positive code, never a navigation code -/
theorem C15_result_nonneg (p : Prog) (storing : Bool) (toks : List Tok) : 0 ≤ (parseCB p storing toks).2.1 := by
  unfold parseCB parseCif
  dsimp only
  split
  · simp [OK]
  · dsimp only
    split <;> simp_all [OK] <;> omega

/-- **END / positive codes, locally**: at the packet_start, item (in a loop), packet_end, loop_end, block/frame start and
    block/frame end call sites, when nothing is being skipped, an answer `r` that is none of CONTINUE, SKIP_CURRENT,
    SKIP_SIBLINGS is returned as the result of the step (the callers stop on any result ≠ CIF_OK) -/
theorem C15_positive_aborts_local (p : Prog) (s : St) (hs : s.skip = 0) (r : Int)
    (hr : r ≠ CONTINUE ∧ r ≠ SKIP_CURRENT ∧ r ≠ SKIP_SIBLINGS) :
    (p s.n .pktStart = r → (pktStartStep p s).1 = r)
    ∧ (∀ nm v, p s.n (.item nm v) = r → (itemStep p nm OK v s).1 = r)
    ∧ (∀ items, p s.n (.pktEnd items) = r → (pktEndStep p items s).1 = r)
    ∧ (∀ h, p s.n (.loopEnd h) = r → (loopEndStep p h OK s).1 = r)
    ∧ (∀ cont code, p s.n (.blockStart (if cont then some code else none)) = r → (contStartStep p cont true code s).1 = r)
    ∧ (∀ cont code, p s.n (.frameStart (if cont then some code else none)) = r → (contStartStep p cont false code s).1 = r)
    ∧ (∀ cont code c, p s.n (.blockEnd (if cont then some code else none)) = r → (containerEnd p cont true code OK s c).1 = r)
    ∧ (∀ cont code c, p s.n (.frameEnd (if cont then some code else none)) = r → (containerEnd p cont false code OK s c).1 = r) := by
  obtain ⟨h1, h2, h3⟩ := hr
  refine ⟨?_, ?_, ?_, ?_, ?_, ?_, ?_, ?_⟩
  · intro h; simp [pktStartStep, hs, call, h, h1, h2, h3]
  · intro nm v h; simp [itemStep, hs, call, h, h2, h3]
  · intro items h; simp [pktEndStep, hs, call, h, h1, h2, h3]
  · intro hd h; simp [loopEndStep, hs, call, h, h2, h3]
  · intro cont code h; simp [contStartStep, hs, call, h, h1, h2, h3]
  · intro cont code h; simp [contStartStep, hs, call, h, h1, h2, h3]
  · intro cont code c h; simp [containerEnd, dec, hs, call, h, h1, h2, h3]
  · intro cont code c h; simp [containerEnd, dec, hs, call, h, h1, h2, h3]

/-- handle_loop_start: an answer that is neither CONTINUE nor a SKIP directive (END or a positive code) skips the loop
    body and is the result of the step (`goto loop_body_end`) -/
theorem C15_loop_start_local (p : Prog) (cont : Bool) (names : List Str) (s : St) (hs : s.skip = 0) (r : Int)
    (hr : r ≠ CONTINUE ∧ r ≠ SKIP_CURRENT ∧ r ≠ SKIP_SIBLINGS) (h : p s.n (.loopStart names) = r) :
    (loopStartStep p cont names s).2.2.2 = false ∧ (loopStartStep p cont names s).1 = r := by
  obtain ⟨h1, h2, h3⟩ := hr
  simp [loopStartStep, hs, call, h, h1, h2, h3]

-- ---- the repaired defect F33, as a statement about the pinned variant ------------------------------------------------

/-- before fix 43d0bb7 a positive answer of handle_loop_start did not skip the loop body: the packets were parsed (with
    their callbacks) and their result replaced the handler's code -/
theorem C15_cex_loop_start_pinned (p : Prog) (cont : Bool) (names : List Str) (s : St) (hs : s.skip = 0) (r : Int)
    (hr : r > 0) (h : p s.n (.loopStart names) = r) :
    (loopStartStepPinned p cont names s).2.2.2 = true ∧ (loopStartStep p cont names s).2.2.2 = false := by
  have h1 : r ≠ CONTINUE := by unfold CONTINUE; omega
  have h2 : r ≠ SKIP_CURRENT := by unfold SKIP_CURRENT; omega
  have h3 : r ≠ SKIP_SIBLINGS := by unfold SKIP_SIBLINGS; omega
  have h4 : r ≠ END := by unfold END; omega
  constructor
  · simp [loopStartStepPinned, hs, call, h, h1, h2, h3, h4]
  · simp [loopStartStep, hs, call, h, h1, h2, h3]

/-- `data_a loop_ _x 1` -/
def C15_cexDoc : Doc := [{ code := (a!"a"), body := [.loop [(a!"_x")] [[.chr false (a!"1")]]] }]
/-- answers 7 at handler invocation 2 = loop_start -/
def C15_cexProg : Prog := fun k _ => if k = 2 then 7 else 0

/-- the repaired parser: the positive code 7 answered by loop_start ends the parse after 3 handler callbacks, is
    returned, and the loop is not stored -/
theorem C15_loop_start_code_returned :
    (parseCB C15_cexProg true (tokensOf C15_cexDoc)).2.1 = 7
    ∧ ((parseCB C15_cexProg true (tokensOf C15_cexDoc)).1.filter Ev.isHandler).length = 3
    ∧ ((parseCB C15_cexProg true (tokensOf C15_cexDoc)).2.2.map (fun c => c.loops.length)) = [0] := by
  decide +kernel

-- ---- non-vacuity / sanity ---------------------------------------------------------------------------------------------

def C15_demo : Doc :=
  [{ code := (a!"b"), body := [.item (a!"_s") (.chr false (a!"v")),
      .frame (a!"f") [.item (a!"_t") (.lst [.unk, .tbl [((a!"k"), (a!"k"), .na)]])],
      .loop [(a!"_x"), (a!"_y")] [[.chr true (a!"1"), .na], [.unk, .chr false (a!"2")]]] }]

-- all continue: 18 handler callbacks, result OK, one frame and two loops (scalar loop + the loop) stored
example : ((parseCB (fun _ _ => 0) true (tokensOf C15_demo)).1.filter Ev.isHandler).length = (docEvents true C15_demo |>.filter Ev.isHandler).length := by
  decide +kernel
example : (parseCB (fun _ _ => 0) true (tokensOf C15_demo)).2.1 = 0 := by decide +kernel
example : (parseCB (fun _ _ => 0) true (tokensOf C15_demo)).2.2.map (fun c => (c.frames.length, c.loops.length)) = [(1, 2)] := by
  decide +kernel
example : (denote C15_demo).map (fun c => (c.frames.length, c.loops.length)) = [(1, 2)] := by decide +kernel
-- block_start answers SKIP_CURRENT: only cif_start, block_start, block_end, cif_end; nothing stored in the block
example : ((parseCB (fun k _ => if k = 1 then -1 else 0) true (tokensOf C15_demo)).1.filter Ev.isHandler).length = 4
    ∧ (parseCB (fun k _ => if k = 1 then -1 else 0) true (tokensOf C15_demo)).2.2.map (fun c => (c.frames.length, c.loops.length)) = [(0, 0)] := by
  decide +kernel
-- a positive code from the item handler is returned
example : (parseCB (fun k _ => if k = 2 then 7 else 0) true (tokensOf C15_demo)).2.1 = 7 := by decide +kernel
-- the balance hypotheses are satisfiable: entry at depth 0 and at depth 2
example : Bal 0 1 ∧ Bal 2 2 ∧ ¬ Bal 2 1 := by unfold Bal; omega

end CifModel
