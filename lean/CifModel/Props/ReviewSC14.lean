import CifModel.Props.ReviewRC14
/-
  Review rB, part `repairs`, C14: the restated `C14_handles_are_elements` / `C14_handles_all_continue` applied, and a second,
  harder witness than rA's `fakeLog`: `swapLog` is CONSISTENT element by element (start and end callback of an element carry the same
  handle, no (kind, position) twice, every entry satisfies the content predicate `Res`'s ingredients) but the two equal frames `f` of
  the two blocks are SWAPPED.  Conjunct 4 (Nodup) does not see it; conjunct 1 (Sublist of the positional traversal, which is
  ordered) excludes it.
-/
namespace CifModel.ReviewSC14
open CifModel Walk Lemmas.Walk Lemmas.WalkH Spec.Traversal Spec.TraversalPos ReviewRC14

private def b1 := a!"b1"
private def b2 := a!"b2"
private def f := a!"f"
private def _s := a!"_s"

/-- `cif2` without its packet-less loop: two blocks, each with a frame `f` holding the same loop with two equal packets -/
def cif3 : WCif := [.mk b1 [.mk f [] [loopS]] [], .mk b2 [.mk f [] [loopS]] []]

example : noEmptyLoops cif3 = true := by decide +kernel

-- `C14_handles_all_continue` applied: the handles delivered are obtained THROUGH the theorem from the positional traversal
example : (walkH allCont cif3).1.map (·.2) =
    [.cif, .cont [0], .cont [0, 0], .loop [0, 0] 0, .packet [0, 0] 0 0, .item [0, 0] 0 0 0, .packet [0, 0] 0 0,
     .packet [0, 0] 0 1, .item [0, 0] 0 1 0, .packet [0, 0] 0 1, .loop [0, 0] 0, .cont [0, 0], .cont [0],
     .cont [1], .cont [1, 0], .loop [1, 0] 0, .packet [1, 0] 0 0, .item [1, 0] 0 0 0, .packet [1, 0] 0 0,
     .packet [1, 0] 0 1, .item [1, 0] 0 1 0, .packet [1, 0] 0 1, .loop [1, 0] 0, .cont [1, 0], .cont [1], .cif]
    ∧ (walkH allCont cif3).2 = OK := by
  rw [C14_handles_all_continue cif3 (by decide +kernel)]
  exact ⟨by decide +kernel, rfl⟩

/-- the frames of the two blocks swapped, consistently: b1's frame is announced (start AND end) with the position of b2's frame and
    vice versa; only the frame callbacks, the rest skipped (a log shape a SKIP_CURRENT program produces) -/
def swapLog : List (Ev × Handle) :=
  [(.cifStart, .cif), (.blockStart b1, .cont [0]), (.frameStart f, .cont [1, 0]), (.blockEnd b1, .cont [0]),
   (.blockStart b2, .cont [1]), (.frameStart f, .cont [0, 0]), (.blockEnd b2, .cont [1]), (.cifEnd, .cif)]

-- the callbacks are those of a real walk (SKIP_CURRENT at both frame_start callbacks) …
def skipFrames : Prog := fun k _ => if k = 2 ∨ k = 5 then SKIP_CURRENT else 0
example : swapLog.map (·.1) = (walkH skipFrames cif3).1.map (·.1) := by rfl
-- … no (kind, position) occurs twice, so conjunct 4 alone would accept it …
example : (swapLog.map (fun x => (kind x.1, x.2))).Nodup := by decide +kernel
-- … every handle is a position of `cif3` announcing a frame with code `f` (content-wise right) …
example : qCode cif3 [1, 0] = some f ∧ qCode cif3 [0, 0] = some f ∧ qNumLoops cif3 [1, 0] = qNumLoops cif3 [0, 0] := by decide +kernel
-- … and conjunct 1 excludes it: not a sublist of the (ordered) positional traversal
theorem swap_not_positional : ¬ swapLog.Sublist (fullTraversalH cif3) := by
  intro h
  exact absurd (h.map (·.2)) (by decide +kernel)
example (p : Prog) : (walkH p cif3).1 ≠ swapLog := by
  intro h
  exact swap_not_positional (h ▸ (C14_handles_are_elements p cif3).1)
-- the real walk under that program hands out each frame's own position
example : (walkH skipFrames cif3).1.map (·.2) = [.cif, .cont [0], .cont [0, 0], .cont [0], .cont [1], .cont [1, 0], .cont [1], .cif] := by
  decide +kernel

end CifModel.ReviewSC14
