import CifModel.Props.C19Hist
/-
  Review rA, property C19, group gM (Props/C19Hist.lean): instances that APPLY the history theorems to concrete data.
-/
namespace CifModel.ReviewRC19
open CifModel Model.Heap Model.Hist Model.Value

private def x : V := .chr true (a!"x")
private def y : V := .chr false (a!"y")
private def s0 : Ref := ⟨.val 0, []⟩
private def s1 : Ref := ⟨.val 1, []⟩
private def p0 : Ref := ⟨.pkt 0, []⟩

/-- nesting, the three aliased positions of the source (inside the member replaced / around the target / the target itself),
    transfers between slots (list element, detached entry), a packet with a re-spelled existing name -/
def ops1 : List HOp :=
  [ .bld 0 (.lst [.lst [x], y]),
    .new 1 3,
    .mset s1 (a!"K") (some (a!"k")) (some s0),                          -- s1 = { k ↦ copy of s0 }
    .lset s0 0 (some ⟨.val 0, [.idx 0, .idx 0]⟩),                        -- source INSIDE the member replaced
    .cln s0 ⟨.val 0, [.idx 1]⟩,                                          -- source AROUND the target
    .cln ⟨.val 0, [.idx 1]⟩ ⟨.val 0, [.idx 1]⟩,                          -- the target itself
    .lrem ⟨.val 1, [.key (a!"k")]⟩ 0 (some 2),                           -- element of a nested list handed to slot 2
    .mrem s1 (some (a!"k")) (some 3),                                    -- detached entry handed to slot 3
    .pnew 0 [(a!"_A", some (a!"_a")), (a!"_b", some (a!"_b"))],
    .mset p0 (a!"_a") (some (a!"_a")) (some ⟨.val 3, []⟩),              -- existing name, new spelling, source a detached entry
    .lins ⟨.pkt 0, [.key (a!"_a")]⟩ 1 (some ⟨.pkt 0, [.key (a!"_a")]⟩),  -- a list inserted into itself
    .init ⟨.val 2, []⟩ 7,                                                -- invalid kind: cleaned, unknown value
    .lset s0 9 none,                                                     -- CIF_INVALID_INDEX: nothing happens
    .pnew 1 [(a!"_c", some (a!"_c")), (a!"_C", some (a!"_c"))] ]         -- CIF_DUP_ITEMNAME: nothing recorded

def sH : HState := runH ops1 HState.empty
def sP : PState := runP ops1 PState.empty

private def live (h : Heap) : Nat := ((List.range h.next).filter (fun a => (h.cell a).isSome)).length


/-! ### C19_history_heap / C19_history_owned / C19_history_release on `ops1` -/

-- the pure run is the expected state (so the `RepS` of C19_history_heap speaks about these values) …
example : (sP.get (.val 0) == some (.lst [x, .lst [x, y]])) = true := by decide +kernel
example : (sP.get (.val 3) == some (.lst [y])) = true := by decide +kernel
example : (sP.get (.pkt 0) == some (.tbl [(a!"_a", a!"_a", .lst [y, .lst [y]]), (a!"_b", a!"_b", .unk)])) = true := by
  decide +kernel
-- … 29 blocks are live on the model heap, 46 have been allocated
example : live sH.h = 29 ∧ sH.h.next = 47 := by decide +kernel

-- C19_history_owned applied: every one of the 29 live blocks lies in the footprint of a slot
example : ∃ F : Root → List Nat, ∀ a, (sH.h.cell a).isSome = true → ∃ r, a ∈ F r := by
  obtain ⟨F, _, _, _, hcov⟩ := C19_history_owned ops1
  exact ⟨F, hcov⟩

-- C19_history_release applied: the release succeeds and whatever it returns has no live cell
example : (releaseAll sH).isSome = true ∧ ∀ h', releaseAll sH = some h' → ∀ a, h'.cell a = none := by
  obtain ⟨h', e, hd⟩ := C19_history_release ops1
  refine ⟨by show (releaseAll (runH ops1 HState.empty)).isSome = true; rw [e]; rfl, ?_⟩
  intro h'' e' a
  have e2 : releaseAll (runH ops1 HState.empty) = some h'' := e'
  rw [e] at e2
  rw [← Option.some.inj e2]; exact hd a
-- the same by evaluation (independent of the theorem)
example : (match releaseAll sH with | some h' => live h' | none => 99) = 0 := by decide +kernel

-- C19_history_trace
example : (traceH ops1 HState.empty).length = 14 := by rw [C19_history_trace]; simp [ops1]

/-! ### C19_step_heap: an aliased member case from a reachable state; a refused operation; the duplicate-name packet -/

def pre : List HOp := ops1.take 3
def opA : HOp := .lset s0 0 (some ⟨.val 0, [.idx 0, .idx 0]⟩)
example : ∃ s' F', stepH? (fuelOf (runH pre HState.empty).h) (runH pre HState.empty) opA = some s'
    ∧ RepS [] s' (stepP (runP pre PState.empty) opA) F' := by
  obtain ⟨F, inv⟩ := C19_history_heap pre
  rcases C19_step_heap _ _ F inv _ (Nat.le_refl _) opA with ⟨s', p', F', h1, h2, h3⟩ | ⟨_, h2⟩
  · refine ⟨s', F', h1, ?_⟩
    simp only [stepP, h2, Option.getD_some]; exact h3
  · have : (stepP? (runP pre PState.empty) opA).isSome = true := by decide +kernel
    rw [h2] at this; cases this

-- CIF_INVALID_INDEX: the theorem's second arm — the heap interpretation does nothing either
example : stepH? (fuelOf sH.h) sH (.lset s0 9 none) = none := by
  obtain ⟨F, inv⟩ := C19_history_heap ops1
  rcases C19_step_heap _ _ F inv _ (Nat.le_refl _) (.lset s0 9 none) with ⟨s', p', F', h1, h2, h3⟩ | ⟨h1, _⟩
  · have : (stepP? (runP ops1 PState.empty) (.lset s0 9 none)).isSome = false := by decide +kernel
    rw [h2] at this; cases this
  · exact h1

-- cif_packet_create with two names of one item: `none` on both sides, i.e. "nothing happened" — the 6 blocks the C (and
-- `packetCreateH`) allocates and releases again are outside the statement (disclosed in PARTIAL (iii))
private def dup : HOp := .pnew 1 [(a!"_c", some (a!"_c")), (a!"_C", some (a!"_c"))]
example : stepH? (fuelOf sH.h) sH dup = none := by
  obtain ⟨F, inv⟩ := C19_history_heap ops1
  rcases C19_step_heap _ _ F inv _ (Nat.le_refl _) dup with ⟨s', p', F', h1, h2, h3⟩ | ⟨h1, _⟩
  · have : (stepP? (runP ops1 PState.empty) dup).isSome = false := by decide +kernel
    rw [h2] at this; cases this
  · exact h1

/-! ### C19_history_get, C19_refs_distinct (paths of depth 3 inside a packet) -/

private def rA : Ref := ⟨.pkt 0, [.key (a!"_a"), .idx 1, .idx 0]⟩
private def rB : Ref := ⟨.pkt 0, [.key (a!"_a"), .idx 0]⟩

example : ∃ t hvt Ft, resolveRef sH rA = some t ∧ getHV sH.h t = some hvt ∧ Rep sH.h hvt y Ft ∧ t ∉ Ft := by
  have h := C19_history_get ops1 rA
  rw [show getP (runP ops1 PState.empty) rA = some y from rfl] at h
  exact h
-- the entry that was removed no longer resolves on the heap
example : resolveRef sH ⟨.val 1, [.key (a!"k")]⟩ = none := by
  have h := C19_history_get ops1 ⟨.val 1, [.key (a!"k")]⟩
  rw [show getP (runP ops1 PState.empty) ⟨.val 1, [.key (a!"k")]⟩ = none from rfl] at h
  exact h

-- two members holding EQUAL values (`y`, a copy of `y`) are different blocks
example : ∃ t1 t2, resolveRef sH rA = some t1 ∧ resolveRef sH rB = some t2 ∧ t1 ≠ t2 := by
  obtain ⟨F, inv⟩ := C19_history_heap ops1
  have hA := C19_history_get ops1 rA
  have hB := C19_history_get ops1 rB
  rw [show getP (runP ops1 PState.empty) rA = some y from rfl] at hA
  rw [show getP (runP ops1 PState.empty) rB = some y from rfl] at hB
  obtain ⟨t1, _, _, h1, _⟩ := hA
  obtain ⟨t2, _, _, h2, _⟩ := hB
  refine ⟨t1, t2, h1, h2, fun e => ?_⟩
  have := C19_refs_distinct [] _ _ F inv rA rB y y rfl rfl t1 h1 (e ▸ h2)
  exact absurd this (by decide)

/-! ### C19_clone_onto_member_heap: target = element 1 of the list in slot 0, source = the list itself (AROUND the target);
    the hypotheses are discharged for a REACHABLE state from `RepS.atRef` (Lemmas/HeapHistState) — no Props-level theorem
    provides them (`C19_history_get` drops `IsValCell` and the bounds) -/

private def pre2 : List HOp := [.bld 0 (.lst [.lst [x], y])]
private def rT : Ref := ⟨.val 0, [.idx 1]⟩
example : ∃ t sa h' new Fn, resolveRef (runH pre2 HState.empty) rT = some t ∧ resolveRef (runH pre2 HState.empty) s0 = some sa
    ∧ cloneOntoAt 100 (runH pre2 HState.empty).h t sa = some h' ∧ h'.WF ∧ getHV h' t = some new
    ∧ Rep h' new (.lst [.lst [x], y]) Fn ∧ (∀ a, a ∈ Fn → (runH pre2 HState.empty).h.next ≤ a) := by
  obtain ⟨F, inv⟩ := C19_history_heap pre2
  have hT := inv.atRef rT
  have hS := inv.atRef s0
  rw [show getP (runP pre2 PState.empty) rT = some y from rfl] at hT
  rw [show getP (runP pre2 PState.empty) s0 = some (.lst [.lst [x], y]) from rfl] at hS
  obtain ⟨_, t, hvt, Ft, _, hrt, hgt, hrept, htF, _, hsubt, hvalt, _⟩ := hT
  obtain ⟨a', sa, hs, Fs, _, hrs, hgs, hreps, _, _, hsubs, _, hroot, hsh, _⟩ := hS
  have hsa : sa = a' := hroot rfl
  subst hsa
  have hf : fieldsAt (runH pre2 HState.empty).h sa = some hs := by
    unfold fieldsAt Model.Heap.read; unfold getHV at hgs
    cases hc : (runH pre2 HState.empty).h.cell sa with
    | none => rw [hc] at hgs; cases hgs
    | some c =>
      rw [hc] at hgs hsh
      cases c with
      | val v => simpa using hgs
      | entry v k ko => simpa using hgs
      | pkt es st => exact absurd hsh (by simp [shellOK, s0])
      | str s => simp at hgs
      | arr xs cap => simp at hgs
  obtain ⟨h', new, Fn, hop, hwf, hget, hrep, hfresh, _, _⟩ :=
    C19_clone_onto_member_heap _ inv.wf t hvt y Ft 100 hgt (hvalt (by decide)) hrept htF
      (fun a ha => inv.lt _ a (hsubt a ha)) (by decide) sa hs (.lst [.lst [x], y]) Fs hf hreps
      (fun a ha => inv.lt _ a (hsubs a ha)) (by decide)
  exact ⟨t, sa, h', new, Fn, hrt, hrs, hop, hwf, hget, hrep, fun a ha => (hfresh a ha).1⟩

/-! ### pure level -/

-- C19_history_pure_is_spec applied to the reachable state `sP`: the list at depth 1 inside packet 0 (`[y, [y]]`) is a sequence —
-- insert at 3 is CIF_INVALID_INDEX (nothing happens), insert at 2 is `putP` of the spliced list
private def rL : Ref := ⟨.pkt 0, [.key (a!"_a")]⟩
example : stepP? sP (.lins rL 3 none) = none ∧ stepP? sP (.lins rL 2 none) = putP sP rL (.lst [y, .lst [y], .unk]) := by
  obtain ⟨hl, _, _⟩ := C19_history_pure_is_spec ops1
  obtain ⟨h1, _⟩ := hl rL [y, .lst [y]] (by decide) rfl 3
  obtain ⟨h2, _⟩ := hl rL [y, .lst [y]] (by decide) rfl 2
  exact ⟨h1 none none rfl, h2 none none rfl⟩
-- … and packet 0 is a map: looking `_b` up is the lookup of the abstract map
example : getP sP ⟨.pkt 0, [.key (a!"_b")]⟩ = some .unk := by
  obtain ⟨_, ht, _⟩ := C19_history_pure_is_spec ops1
  obtain ⟨_, _, _, _, h5, _⟩ := ht p0 _ (by decide) rfl (a!"_b")
  exact h5.trans rfl

private def root : V := .tbl [(a!"k", a!"K", .lst [x, y]), (a!"j", a!"J", x)]
private def root' : V := .tbl [(a!"k", a!"K", .lst [x, .na]), (a!"j", a!"J", x)]
example : resolve root' [.key (a!"k"), .idx 1] = some .na
    ∧ resolve root' [.key (a!"k"), .idx 0] = resolve root [.key (a!"k"), .idx 0]
    ∧ resolve root' [.key (a!"j")] = resolve root [.key (a!"j")] := by
  obtain ⟨h1, h2⟩ := C19_nested_update_exact root .na root' [.key (a!"k"), .idx 1] rfl
  exact ⟨h1, h2 _ (Or.inr ⟨rfl, Or.inl (by decide)⟩), h2 _ (Or.inl (by decide))⟩

example : (putP sP rA .na).isSome = true := by rfl
example : ∀ p', putP sP rA .na = some p' →
    getP p' rA = some .na ∧ p'.get (.val 0) = sP.get (.val 0) ∧ getP p' rB = getP sP rB := by
  intro p' h
  obtain ⟨h1, h2, h3⟩ := C19_nested_putP_exact sP p' rA .na h
  exact ⟨h1, h2 (.val 0) (by decide), h3 [.key (a!"_a"), .idx 0] (Or.inr ⟨rfl, Or.inl (by decide)⟩)⟩

/-! ### what the quantifier "∀ ops" also contains: `bld` takes ANY `V`, also one no API sequence produces (a nested table with
    one key twice — `apiValue` normalises the top level only); the theorems hold for such states too (harmless) -/
example : ((runP [.bld 0 (.lst [.tbl [(a!"k", a!"k", x), (a!"k", a!"k", y)]])] PState.empty).get (.val 0)
    == some (.lst [.tbl [(a!"k", a!"k", x), (a!"k", a!"k", y)]])) = true := by decide +kernel

end CifModel.ReviewRC19
