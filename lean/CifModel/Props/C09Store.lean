import CifModel.Lemmas.Serialize
import CifModel.Model.Value
/-
  Property C09 — tables that travel through a managed CIF (kept apart from Props/C09Api.lean because the lemma files of the store
  refinement and of the value columns, by different groups, cannot be imported into one module; `deserialize_ser` is the
  lemma behind `C07_serialize_roundtrip`).
-/
namespace CifModel
open Model

/-- **C09, a table that has been stored in a managed CIF and read back is the same table** — for the matching of its keys this is the
    serialisation round trip of property C07 (`cif_table_serialize` writes, per entry, the normalised key AND the original spelling;
    `cif_table_deserialize` reads both back): the value that comes out has the same entries — same normalised keys, same spellings, same
    values, same order —, hence look-up under any spelling, `cif_value_get_keys` and every later set / remove behave exactly as on the
    table that was stored (all statements of `C09_table_keys`, `C09_table_enumeration`, `C09_table_keys_case_significant` carry over
    verbatim).  Tied to value.c by family `norm map` ops `S` (set_value / get_value) and `P` (loop packet / packet iterator). -/
theorem C09_table_survives_store (parse : Str → Option Model.Serialize.NumbFields) (es : List (Str × Str × V))
    (h : Model.Columns.numbsParse parse (.tbl es) = true) :
    Model.Serialize.deserialize parse (Model.Serialize.ser (.tbl es)) = some (.tbl es, []) ∧
    (∀ (t : V), Model.Serialize.deserialize parse (Model.Serialize.ser (.tbl es)) = some (t, []) →
      (∀ norm key, Value.tableGet norm t key = Value.tableGet norm (.tbl es) key) ∧
      Value.tableKeys t = Value.tableKeys (.tbl es) ∧
      (∀ norm key x, Value.tableSet norm t key x = Value.tableSet norm (.tbl es) key x) ∧
      (∀ norm key, Value.tableRemove norm t key = Value.tableRemove norm (.tbl es) key)) := by
  have hr := Model.Serialize.deserialize_ser parse (.tbl es) h
  refine ⟨hr, ?_⟩
  intro t ht
  rw [hr] at ht
  cases ht
  exact ⟨fun _ _ => rfl, rfl, fun _ _ _ => rfl, fun _ _ => rfl⟩

/-- instance: a table keyed `Å` under the spelling `A + ring`, with a character value -/
example : Model.Serialize.deserialize (fun _ => none) (Model.Serialize.ser (.tbl [([197], [65, 778], .chr true [49])]))
    = some (.tbl [([197], [65, 778], .chr true [49])], []) :=
  (C09_table_survives_store (fun _ => none) [([197], [65, 778], .chr true [49])] (by decide)).1


end CifModel
