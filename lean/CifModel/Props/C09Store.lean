import CifModel.Props.C07
import CifModel.Lemmas.NamesBridge
import CifModel.Props.C09
/-
  Property C09 — a table that travels through a managed CIF.  The store model composes `cif_container_set_value` with the value codec
  (`Store.Codec.setValueC`: the value is turned into its SQL columns — for a table: `cif_value_serialize` into the blob column — and what
  is stored is what the columns decode to); `C07_stored_read_identical` shows that `cif_container_get_value` then delivers the identical
  value.  Here that is combined with the bridge between the two map models (Lemmas/NamesBridge.lean), so that the statements of
  `C09_table_keys`, `C09_table_enumeration`, `C09_table_keys_case_significant` — which are about `Normalize.Entries` — speak about the
  table READ BACK from the store.
-/
namespace CifModel
open Model Lemmas.Names CifModel.Store CifModel.Store.Codec

/-- the serialisation round trip of a table (what the blob column of `item_value` holds): normalised key AND original spelling of every
    entry are written and read back (the lemma behind `C07_serialize_roundtrip`, restated for tables) -/
theorem C09_table_serialisation_roundtrip (parse : Str → Option Model.Serialize.NumbFields) (es : List (Str × Str × V))
    (h : Model.Columns.numbsParse parse (.tbl es) = true) :
    Model.Serialize.deserialize parse (Model.Serialize.ser (.tbl es)) = some (.tbl es, []) :=
  Model.Serialize.deserialize_ser parse (.tbl es) h

/-- **C09_table_survives_store** — about the STORE MODEL.  In every state satisfying the store invariant (outside a transaction), for a
    valid data name `n` and a table `es` of constructible values whose normalised keys are pairwise different and are the NFC forms of
    their spellings (`KeyedBy U.nfc`, what `cif_value_set_item_by_key` maintains — `C09_map_invariant`): after
    `cif_container_set_value(h, n, table)` — item new (scalar loop created) or existing in a loop with packets —
    `cif_container_get_value(h, n)` delivers a value `t` on which the table entry points of the value model, with the C09 table
    normaliser, answer EXACTLY what `Normalize`'s map operations answer on the entries that were stored:
    look-up under every spelling (`Entries.get`), set under every spelling — an equivalent one replaces in place and records the new
    spelling — (`Entries.set`), remove (`Entries.remove`), enumeration (`Entries.keys`).  Hence `C09_table_keys` (found iff NFC equal,
    case significant), `C09_table_enumeration` (the spelling most recently entered is the one enumerated, one entry per normal form)
    hold of the table read back from the store, with `es` the table that was stored. -/
theorem C09_table_survives_store (U : UnicodeOps) (s : Store.Store) (hinv : InvS s) (h : CH) (n : Store.Name) (es : List (Str × Str × V))
    (hc : C07_constructible (.tbl es)) (hf : C07_fits (.tbl es)) (hv : n.valid = true) (hac : s.autocommit = true)
    (hk : KeyedBy U.nfc es)
    (hroute : (getItemLoopInternal s.db h.id n.key = .error Gen.ErrCodes.CIF_NOSUCH_ITEM ∧ (setValueC s h n (.tbl es)).2 = .ok ()) ∨
      (∃ l ln, getItemLoopInternal s.db h.id n.key = .ok l ∧ s.db.loopOfItem h.id n.key = some ln ∧ s.db.loopRows h.id ln ≠ [])) :
    ∃ t b, (getValue (setValueC s h n (.tbl es)).1 h (some n)).2 = .ok (t, b) ∧
      (∀ key, Value.tableGet (tableNorm U) t key
          = Entries.get es (fun k => normalizeTableIndex U k Value.NOSUCH_ITEM) key Value.NOSUCH_ITEM) ∧
      (∀ key x, Value.tableSet (tableNorm U) t key (some x)
          = (Entries.set es (fun k => normalizeTableIndex U k Value.INVALID_INDEX) key x).map V.tbl) ∧
      (∀ key, (Value.tableRemove (tableNorm U) t key).map (·.1)
          = (Entries.remove es (fun k => normalizeTableIndex U k Value.NOSUCH_ITEM) key Value.NOSUCH_ITEM).map V.tbl) ∧
      Value.tableKeys t = .ok (Entries.keys es) := by
  have hread : ∃ b, (getValue (setValueC s h n (.tbl es)).1 h (some n)).2 = .ok (.tbl es, b) := by
    obtain ⟨c1, c2, _⟩ := C07_stored_read_identical s hinv
    rcases hroute with ⟨hnew, hok⟩ | ⟨l, ln, hl, hln, hrows⟩
    · exact (c2 h n (.tbl es) hc hf hv hac hnew hok).2
    · obtain ⟨ln', hln', _, _, hget⟩ := c1 h n (.tbl es) l hc hf hv hac hl
      rw [hln] at hln'
      cases hln'
      exact hget hrows
  obtain ⟨b, hb⟩ := hread
  exact ⟨.tbl es, b, hb, fun key => tableGet_bridge U es key, fun key x => tableSet_bridge U es key x hk.1,
    fun key => tableRemove_bridge U es key hk.1, tableKeys_bridge es⟩

-- non-vacuity ------------------------------------------------------------------------------------------------------------
namespace C09Store
/-- one block; the table has the key `Á` entered under the spelling `A ´` (NFC of `composeU` composes it) and the key `b` -/
def sB : Store.Store := (createBlock {} (some (apiName composeU false [98]))).1
def hB : CH := { id := 1, code := [98], isBlock := true }
def tblA : List (Str × Str × V) := [([193], [65, 769], .chr true [49]), ([98], [98], .unk)]
theorem invB : InvS sB := createBlock_invS InvS.empty _ _
theorem conA : C07_constructible (.tbl tblA) := by simp [tblA, C07_constructible, C07_constructibleEntries]
theorem fitA : C07_fits (.tbl tblA) := by unfold C07_fits; decide
theorem keyedA : KeyedBy composeU.nfc tblA := ⟨by decide, by intro e he; simp [tblA] at he; rcases he with rfl | rfl <;> rfl⟩
theorem okA : (setValueC sB hB (apiName composeU true [95, 116]) (.tbl tblA)).2 = .ok () := by
  rw [setValueC_wf _ _ _ _ (C07_constructible_wf _ conA fitA)]
  rfl

/-- every hypothesis of `C09_table_survives_store` holds (new item `_t` of the block), and its conclusion gives: on the table READ BACK
    from the store, the composed spelling `Á` finds the value entered under `A ´` -/
example : ∃ t b, (getValue (setValueC sB hB (apiName composeU true [95, 116]) (.tbl tblA)).1 hB (some (apiName composeU true [95, 116]))).2 = .ok (t, b) ∧
    Value.tableGet (tableNorm composeU) t [193] = .ok (.chr true [49]) := by
  obtain ⟨t, b, h1, h2, _⟩ := C09_table_survives_store composeU sB invB hB (apiName composeU true [95, 116]) tblA conA fitA (by decide)
    (by rfl) keyedA (Or.inl ⟨by rfl, okA⟩)
  exact ⟨t, b, h1, by rw [h2]; rfl⟩
end C09Store

end CifModel
