import CifModel.Props.C16
/-
  Review examples for C16 (group gB, independent review): the paths on which the nested and the outer call of
  cif_value_autoinit_numb see DIFFERENT answers of the environment — covered by the ∀-theorems, exhibited nowhere.
-/
namespace CifModel.ReviewC16
open CifModel Model.Locale

-- outer setlocale("C") succeeds, the nested one (inside cif_value_init_numb) fails: error class 2, locale restored
example :
    let e : Env := { mallocOk := fun _ => true, setCOk := fun n => n == 0, restoreOk := fun _ => true }
    (autoinitNumb e true false true true .ok { cur := .other 7 }).1 = 2 ∧
    (autoinitNumb e true false true true .ok { cur := .other 7 }).2.cur = .other 7 ∧
    (autoinitNumb e true false true true .ok { cur := .other 7 }).2.nRestore = 1 := by decide
-- the nested malloc of the locale name fails
example :
    let e : Env := { mallocOk := fun n => n == 0, setCOk := fun _ => true, restoreOk := fun _ => true }
    (autoinitNumb e true false true true .ok { cur := .other 7 }).1 = 2 ∧
    (autoinitNumb e true false true true .ok { cur := .other 7 }).2.cur = .other 7 := by decide
-- the very first setlocale("C") fails: nothing was switched, nothing to restore
example :
    let e : Env := { mallocOk := fun _ => true, setCOk := fun _ => false, restoreOk := fun _ => true }
    (initNumb e true .ok { cur := .other 7 }).1 = 2 ∧ (initNumb e true .ok { cur := .other 7 }).2.cur = .other 7
    ∧ (initNumb e true .ok { cur := .other 7 }).2.nRestore = 0 := by decide
-- what `Restorable` excludes: a failing restore leaves the process in "C"
example :
    let e : Env := { mallocOk := fun _ => true, setCOk := fun _ => true, restoreOk := fun _ => false }
    (initNumb e true .ok { cur := .other 7 }).2.cur = .c := by decide

end CifModel.ReviewC16
