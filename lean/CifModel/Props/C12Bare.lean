import CifModel.Lemmas.ParserDefectBare
import CifModel.Props.C12Two
/-
  Props/C12Bare (group gW) — the classes of the recovery table that are decided in parse_value (token level, not in the scanner):

    * CIF_INVALID_BARE_VALUE ("Invalid unquoted value — accept"): a whitespace-delimited value that cannot stand unquoted (`bareValue
      dia text = none`: cif_value_set_quoted / try_quoted refuse it, e.g. a leading `$`).  Any
      container, any well-formed items before and behind: exactly one report, made behind the value token; the item is stored with
      the text AS IT IS, marked quoted (the oracle of family `defect` admits quoted and unquoted: the table does not say).  Die
      policy: return value 74, one report, the item is not stored.
    * CIF_MISSING_PREFIX ("Missing text prefix — accept"): NEVER reported by parse_value / decode_text — a text field whose lines
      do not all carry the prefix is not a prefixed field and is taken verbatim: `C12_text_prefix_never_reported` (every policy,
      every body).
-/
namespace CifModel
open CifModel.Model CifModel.Model.Lexer CifModel.Model.Parser CifModel.Spec.Grammar CifModel.Spec.Lexical
open CifModel.Gen.ErrCodes

/-- **C12_seg_invalid_bare_value** — segment form (compose with other segments / lift into save frames / carry to characters with
    `C12_chars_segment` when the token stream is given) -/
theorem C12_seg_invalid_bare_value (o : Opts) {path : Path} {put : Container → Cif} {code : Str} (hv : View o path put code)
    (isBlock : Bool) (pre post : List Item) (n tx : Str) (seen seen2 : List Str) (fs : List Container) (ls : List Loop)
    (hpre : wfItems o pre seen = true) (hseen : ∀ k ∈ normNames o ls, k ∈ seen)
    (hname : wfName n = true) (hfresh : o.norm n ∉ normNames o (denoteItems o.dia o.normKey pre ls))
    (hb : bareValue o.dia tx = none) (hpost : wfItems o post seen2 = true)
    (hseen2 : ∀ k ∈ normNames o (putScalar (denoteItems o.dia o.normKey pre ls) n (.chr true (cstr tx))), k ∈ seen2) :
    Seg o path put code isBlock ((itemsToks pre ++ [(.name, n), (.value, tx)]) ++ itemsToks post) fs ls fs
      (denoteItems o.dia o.normKey post (putScalar (denoteItems o.dia o.normKey pre ls) n (.chr true (cstr tx))))
      [(CIF_INVALID_BARE_VALUE, (itemsToks pre).length + 1)] ((itemsToks pre).length + 2 + (itemsToks post).length)
      (post.length + (1 + pre.length)) (szItems pre + 1 + szItems post) termFollow := by
  have A := Seg.items o hv isBlock pre seen fs ls hpre hseen
  have B := Seg.invalid_bare_value o hv isBlock n tx fs (denoteItems o.dia o.normKey pre ls) hname hfresh hb
  have C := Seg.items o hv isBlock post seen2 fs _ hpost hseen2
  have h := Seg.comp (Seg.comp A B (fun rest _ => ⟨_, _, _, rfl, rfl⟩)) C (fun _ _ => trivial)
  simpa only [List.nil_append, shiftSpec, List.map_nil, List.map_cons, List.append_nil] using h

/-- **C12_invalid_bare_value** — in the form of the `_at` theorems -/
theorem C12_invalid_bare_value (o : Opts) {path : Path} {put : Container → Cif} {code : Str} (hv : View o path put code)
    (isBlock : Bool) (pre post : List Item) (n tx : Str) (seen seen2 : List Str) (fs : List Container) (ls : List Loop)
    (rest : List TokSpec) (s : PS) (fuel : Nat) (w : W) (hcif : w.cif = put (.mk code fs ls))
    (hpre : wfItems o pre seen = true) (hseen : ∀ k ∈ normNames o ls, k ∈ seen)
    (hname : wfName n = true) (hfresh : o.norm n ∉ normNames o (denoteItems o.dia o.normKey pre ls))
    (hb : bareValue o.dia tx = none) (hpost : wfItems o post seen2 = true)
    (hseen2 : ∀ k ∈ normNames o (putScalar (denoteItems o.dia o.normKey pre ls) n (.chr true (cstr tx))), k ∈ seen2)
    (hfuel : szItems pre + 1 + szItems post ≤ fuel) (hrest : termFollow rest)
    (hF : Feeds o s (((itemsToks pre ++ [(.name, n), (.value, tx)]) ++ itemsToks post) ++ rest)) :
    ∃ s' r, elemsLoop o (fuel + (post.length + (1 + pre.length))) s (some path) isBlock acceptAll w
        = elemsLoop o fuel s' (some path) isBlock acceptAll
            { log := r :: w.log, cif := put (.mk code fs
                (denoteItems o.dia o.normKey post (putScalar (denoteItems o.dia o.normKey pre ls) n (.chr true (cstr tx))))) }
      ∧ r.code = CIF_INVALID_BARE_VALUE ∧ Feeds o s' rest ∧ RepAt o s ((itemsToks pre).length + 1) r
      ∧ At o s ((itemsToks pre).length + 2 + (itemsToks post).length) s' :=
  Seg.one_inv (C12_seg_invalid_bare_value o hv isBlock pre post n tx seen seen2 fs ls hpre hseen hname hfresh hb hpost hseen2)
    rest s fuel w hcif hfuel hrest hF

/-- **C12_die_invalid_bare_value** — abort-on-error handler: behind well-formed items `pre` the element loop is left with 74, one
    report, the container holds what `pre` denotes (the item is not stored) -/
theorem C12_die_invalid_bare_value (o : Opts) {path : Path} {put : Container → Cif} {code : Str} (hv : View o path put code)
    (isBlock : Bool) (pre : List Item) (n tx : Str) (seen : List Str) (fs : List Container) (ls : List Loop)
    (hpre : wfItems o pre seen = true) (hseen : ∀ k ∈ normNames o ls, k ∈ seen)
    (hname : wfName n = true) (hfresh : o.norm n ∉ normNames o (denoteItems o.dia o.normKey pre ls))
    (hb : bareValue o.dia tx = none) :
    DieSeg o path put code isBlock (itemsToks pre ++ [(.name, n), (.value, tx)]) fs ls fs (denoteItems o.dia o.normKey pre ls)
      CIF_INVALID_BARE_VALUE ((itemsToks pre).length + 1) (szItems pre + pre.length + 2) (fun _ => True) :=
  DieSeg.after_items o hv isBlock pre seen fs ls hpre hseen (fun _ _ _ => ⟨_, _, _, rfl, rfl⟩)
    (die_invalid_bare_value o hv isBlock n tx fs _ hname hfresh hb)

/-- **C12_text_prefix_never_reported** — parse_value on a text field never reports, whatever the body and the policy -/
theorem C12_text_prefix_never_reported (o : Opts) (s : PS) (body : Str) (rest : List TokSpec) (fuel : Nat) (pol : Policy) (w : W)
    (hf : Feeds o s ((.tvalue, body) :: rest)) :
    ∃ s', parseValue o (fuel + 1) s pol w = .ok (.chr true (cstr (Decode.decodeText o.unfold o.prem body)), s') w ∧ Feeds o s' rest := by
  obtain ⟨s', h1, h2, _⟩ := text_field_never_reports o s body rest fuel pol w hf
  exact ⟨s', h1, h2⟩

/-- non-vacuity: `$abc` must not stand unquoted in either dialect; an ordinary word may -/
example : bareValue .cif2 (a!"$abc") = none ∧ bareValue .cif1 (a!"$abc") = none
    ∧ (bareValue .cif2 (a!"abc")).isSome = true :=
  ⟨Option.isNone_iff_eq_none.mp (by decide), Option.isNone_iff_eq_none.mp (by decide), by decide⟩

end CifModel
