import CifModel.Props.C20
/-
  Review examples for C20 (group gB, independent review; updated by the coordinator after the finding was repaired).

  The review found that the keyword groups of Spec/ErrWords did not discriminate: 20 (name, foreign message) pairs were accepted,
  two of them in both directions, so exchanging two initialisers in cif.c left every C20 theorem true.  The groups were tightened
  (negative groups, more specific alternatives) and `C20_discriminates` now proves that no message of the header describes the
  condition of another code.  The instances below are the former counterexamples, now refused.
-/
namespace CifModel.ReviewC20
open CifModel Gen Model Spec

-- the swap that no C20 theorem noticed: both directions are refused now
example : C20_slotDescribes (a!"CIF_INVALID_BARE_VALUE") ErrCodes.CIF_MISSING_ENDQUOTE = false
        ∧ C20_slotDescribes (a!"CIF_MISSING_ENDQUOTE") ErrCodes.CIF_INVALID_BARE_VALUE = false := by decide +kernel

/-- the row predicate of C20 on a table in which the messages of codes `i` and `j` are exchanged -/
def rowOkSwapped (i j : Nat) (r : Str × Nat) : Bool :=
  let k := if r.2 = i then j else if r.2 = j then i else r.2
  match ErrList.message k with
  | none => false
  | some msg => msg != [] && msg.length < ErrCodes.width && ErrWords.describes r.1 msg

-- exchanging the two messages is noticed by the row predicate of `C20_table`
example : ErrCodes.codes.all (rowOkSwapped ErrCodes.CIF_INVALID_BARE_VALUE ErrCodes.CIF_MISSING_ENDQUOTE) = false := by decide +kernel

-- former one-directional acceptances of a foreign message
example : C20_slotDescribes (a!"CIF_DISALLOWED_VALUE") ErrCodes.CIF_INVALID_BARE_VALUE = false := by decide +kernel
example : C20_slotDescribes (a!"CIF_DISALLOWED_VALUE") ErrCodes.CIF_RESERVED_WORD = false := by decide +kernel
example : C20_slotDescribes (a!"CIF_INVALID_INDEX") ErrCodes.CIF_DISALLOWED_VALUE = false := by decide +kernel
example : C20_slotDescribes (a!"CIF_RESERVED_LOOP") ErrCodes.CIF_RESERVED_WORD = false := by decide +kernel
example : C20_slotDescribes (a!"CIF_EMPTY_LOOP") ErrCodes.CIF_NULL_LOOP = false := by decide +kernel

-- every name of the header has its own row in the keyword table (the `nameWords` fallback is not in use at present)
example : ErrCodes.codes.all (fun r => (ErrWords.table.find? (fun t => t.1 == r.1)).isSome) = true := by decide +kernel

end CifModel.ReviewC20
