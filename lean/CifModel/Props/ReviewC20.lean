import CifModel.Props.C20
/-
  Review examples for C20 (group gB, independent review).

  `C20_table` decides "the message describes that very condition" with the keyword groups of Spec/ErrWords.  The instances
  below show that the groups do not discriminate: the message of ANOTHER code is accepted for the name on the left, in two
  cases in both directions — so exchanging the two initialisers in cif.c would leave `C20_table`, `C20_distinct`,
  `C20_nerr_is_length` and `C20_codes_unique` all true (notes/review/gB-review.md, C20 S1).
-/
namespace CifModel.ReviewC20
open CifModel Gen Model Spec

/-- `describes name (message of code k)` -/
def acc (name : Str) (k : Nat) : Bool :=
  match ErrList.message k with
  | some m => ErrWords.describes name m
  | none => false

-- a swap that no C20 theorem notices (both directions accepted)
example : acc (a!"CIF_INVALID_BARE_VALUE") ErrCodes.CIF_MISSING_ENDQUOTE = true
        ∧ acc (a!"CIF_MISSING_ENDQUOTE") ErrCodes.CIF_INVALID_BARE_VALUE = true := by decide +kernel

/-- the row predicate of C20 on a table in which the messages of codes `i` and `j` are exchanged -/
def rowOkSwapped (i j : Nat) (r : Str × Nat) : Bool :=
  let k := if r.2 = i then j else if r.2 = j then i else r.2
  match ErrList.message k with
  | none => false
  | some msg => msg != [] && msg.length < ErrCodes.width && ErrWords.describes r.1 msg

example : ErrCodes.codes.all (rowOkSwapped ErrCodes.CIF_INVALID_BARE_VALUE ErrCodes.CIF_MISSING_ENDQUOTE) = true := by decide +kernel

-- one-directional acceptances of a foreign message
example : acc (a!"CIF_DISALLOWED_VALUE") ErrCodes.CIF_INVALID_BARE_VALUE = true := by decide +kernel
example : acc (a!"CIF_DISALLOWED_VALUE") ErrCodes.CIF_RESERVED_WORD = true := by decide +kernel
example : acc (a!"CIF_INVALID_INDEX") ErrCodes.CIF_DISALLOWED_VALUE = true := by decide +kernel
example : acc (a!"CIF_RESERVED_LOOP") ErrCodes.CIF_RESERVED_WORD = true := by decide +kernel

/-- how many (name, foreign message) pairs of the header are accepted; a discriminating spec would give 0 -/
def confusions : Nat :=
  (ErrCodes.codes.map (fun r => (ErrCodes.codes.filter (fun s => s.2 != r.2 && acc r.1 s.2)).length)).sum

-- `#eval confusions` gives 20 on the pinned tree (10 names accept 1-6 foreign messages each); deciding it in the kernel takes
-- about 15 s, so only the instances above are checked here.

-- every name of the header has its own row in the keyword table (the `nameWords` fallback is not in use at present)
example : ErrCodes.codes.all (fun r => (ErrWords.table.find? (fun t => t.1 == r.1)).isSome) = true := by decide +kernel

end CifModel.ReviewC20
