import CifModel.Lemmas.NormBuf
/-
  Property C09, buffer level — `cif_unicode_normalize`, `cif_fold_case`, `cif_normalize` and the `cif_normalize_*` entry points of
  src/utils.c as they manage their buffers (Model/NormalizeBuf.lean) REFINE the string-level model of Model/Normalize.lean on which
  the matching theorems of Props/C09.lean are stated.

  ICU is a parameter: `I : IcuOps` are the three entry points called WITH A CAPACITY, `U : UnicodeOps` the string functions they
  compute, `Contract U I` the hypothesis that they follow ICU's capacity convention (fits: result + NUL, U_ZERO_ERROR; fits exactly:
  result, U_STRING_NOT_TERMINATED_WARNING; does not fit: needed length, U_BUFFER_OVERFLOW_ERROR, nothing written beyond the capacity).
  The contract is a hypothesis, never an axiom; family `norm icu` tests it against the real ICU for every capacity 0 … length + 2.
-/
namespace CifModel
open Model Model.NormBuf Lemmas.NormBuf

/-- **C09, one stage: `cif_unicode_normalize`.**  For every call obeying the capacity contract for `f`, every source block, every
    source-length convention that stays inside the block (`srcChars … = .ok n`: an explicit length `≤` the block, or `< 0` with a
    terminator present), EVERY capacity of the first buffer (`guess`), both values of `terminate` and every fuel ≥ 2, the function
    succeeds — in particular it never stores outside a block it allocated (`Err.oobWrite`), never reads outside the source
    (`Err.oobRead`) and never runs out of fuel — and delivers a block whose first `result_length = |f x|` units are `f x`, `x` the
    logical source string; everything initialised lies inside the block; with `terminate` the block is exactly `f x` + NUL; it made
    one or two ICU calls; and the loop freed every block it replaced.  An out-of-block source is reported as such. -/
theorem C09_unicode_normalize_buffer (f : Str → Str) (call : IcuCall) (hc : CallContract f call) (guess : Nat → Nat) (mem : Str)
    (srclen : Int) (terminate : Bool) (fuel : Nat) (hf : 2 ≤ fuel) :
    (∀ e, srcChars mem srclen = .error e → unicodeNormalize call guess mem srclen terminate fuel = ([], .error .oobRead)) ∧
    (∀ n, srcChars mem srclen = .ok n →
      ∃ t buf, unicodeNormalize call guess mem srclen terminate fuel = (t, .ok (buf, (f (logical mem n)).length)) ∧
        buf.data.take (f (logical mem n)).length = f (logical mem n) ∧
        buf.data.length ≤ buf.cap ∧ (f (logical mem n)).length ≤ buf.cap ∧
        (terminate = true → buf.data = f (logical mem n) ++ [0]) ∧
        1 ≤ icuCalls t ∧ icuCalls t ≤ 2 ∧ liveBlocks t = 1) := by
  constructor
  · intro e he
    have : e = .oobRead := by
      unfold srcChars at he
      split at he
      · split at he <;> cases he; rfl
      · split at he <;> cases he; rfl
    subst this
    simp [unicodeNormalize, he]
  · intro n hs
    obtain ⟨b, e, k, l, c, t, _, i, j, v⟩ := loopSpec_ok f (logical mem n) terminate (guess n)
    refine ⟨Ev.malloc (guess n) :: (loopSpec f (logical mem n) terminate (guess n)).1, b, ?_, k, c, by omega, t, ?_, ?_, ?_⟩
    · rw [unicodeNormalize_eq hc guess mem srclen n terminate fuel hf hs, e]
    · rw [icuCalls_cons_malloc]; exact j
    · rw [icuCalls_cons_malloc]; exact i
    · simp [liveBlocks, v]

/-- **C09, one stage: `cif_fold_case`** — as `C09_unicode_normalize_buffer`, no terminator promised -/
theorem C09_fold_case_buffer (f : Str → Str) (call : IcuCall) (hc : CallContract f call) (guess : Nat → Nat) (mem : Str)
    (srclen : Int) (fuel : Nat) (hf : 2 ≤ fuel) :
    (∀ e, srcChars mem srclen = .error e → foldCase call guess mem srclen fuel = ([], .error .oobRead)) ∧
    (∀ n, srcChars mem srclen = .ok n →
      ∃ t buf, foldCase call guess mem srclen fuel = (t, .ok (buf, (f (logical mem n)).length)) ∧
        buf.data.take (f (logical mem n)).length = f (logical mem n) ∧
        buf.data.length ≤ buf.cap ∧ (f (logical mem n)).length ≤ buf.cap ∧
        1 ≤ icuCalls t ∧ icuCalls t ≤ 2 ∧ liveBlocks t = 1) := by
  constructor
  · intro e he
    have : e = .oobRead := by
      unfold srcChars at he
      split at he
      · split at he <;> cases he; rfl
      · split at he <;> cases he; rfl
    subst this
    simp [foldCase, he]
  · intro n hs
    obtain ⟨b, e, k, l, c, _, _, i, j, v⟩ := loopSpec_ok f (logical mem n) false (guess n)
    refine ⟨Ev.malloc (guess n) :: (loopSpec f (logical mem n) false (guess n)).1, b, ?_, k, c, by omega, ?_, ?_, ?_⟩
    · rw [foldCase_eq hc guess mem srclen n fuel hf hs, e]
    · rw [icuCalls_cons_malloc]; exact j
    · rw [icuCalls_cons_malloc]; exact i
    · simp [liveBlocks, v]

/-- **C09_normalize_buffer_refines — `cif_normalize` at buffer level computes `cifNormalize`.**  For every `UnicodeOps` and ICU entry
    points obeying the capacity contract, every source block and source-length convention inside it, every capacity guess for the
    first buffer of each stage (the C's `src_chars + 1` is one instance), `normalized` NULL or not, every fuel ≥ 2:
    `cif_normalize` returns CIF_OK with a block that holds EXACTLY `Normalize.cifNormalize U` of the logical source string followed
    by the terminator, inside its capacity; the three stages made between 3 and 6 ICU calls (at most two attempts per stage — the
    retry loops terminate); no store outside an allocated block, no read outside a source — the NFD and the folded buffer are read
    only up to their `result_length`, which lies in their initialised part —; every intermediate block is freed and exactly the result
    block is live afterwards (none when `normalized == NULL`); and the outcome does not depend on the fuel.  A source-length
    convention that leaves the block is reported as an out-of-block read before anything is allocated. -/
theorem C09_normalize_buffer_refines (U : UnicodeOps) (I : IcuOps) (hI : Contract U I) (guess : Nat → Nat) (mem : Str) (srclen : Int)
    (want : Bool) (fuel : Nat) (hf : 2 ≤ fuel) :
    (∀ e, srcChars mem srclen = .error e → cifNormalizeBuf I guess mem srclen want fuel = ([], .error .oobRead)) ∧
    (∀ n, srcChars mem srclen = .ok n →
      ∃ t cap, cifNormalizeBuf I guess mem srclen want fuel = (t, .ok ⟨cap, cifNormalize U (logical mem n) ++ [0]⟩) ∧
        (cifNormalize U (logical mem n)).length + 1 ≤ cap ∧
        3 ≤ icuCalls t ∧ icuCalls t ≤ 6 ∧ liveBlocks t = (if want then 1 else 0) ∧
        ∀ fuel', 2 ≤ fuel' → cifNormalizeBuf I guess mem srclen want fuel' = cifNormalizeBuf I guess mem srclen want fuel) := by
  constructor
  · intro e he
    have h1 := (C09_unicode_normalize_buffer U.nfd I.nfd hI.nfd guess mem srclen false fuel hf).1 e he
    simp [cifNormalizeBuf, h1]
  · intro n hs
    obtain ⟨cap, e, hc, h3, h6, hl⟩ := cifNormalizeBuf_spec U I hI guess mem srclen n want fuel hf hs
    refine ⟨_, cap, e, hc, h3, h6, hl, ?_⟩
    intro fuel' hf'
    obtain ⟨cap', e', hc', _⟩ := cifNormalizeBuf_spec U I hI guess mem srclen n want fuel' hf' hs
    -- the capacity of the result block is determined by the closed form too
    rw [e, e']
    have : (cifNormalizeBuf I guess mem srclen want fuel').1 = (cifNormalizeBuf I guess mem srclen want fuel).1 := by rw [e, e']
    -- both results come from the same closed form of stage 3
    unfold cifNormalizeBuf at e e'
    have s1 := unicodeNormalize_eq hI.nfd guess mem srclen n false fuel hf hs
    have s1' := unicodeNormalize_eq hI.nfd guess mem srclen n false fuel' hf' hs
    rw [s1] at e; rw [s1'] at e'
    obtain ⟨b1, e1, k1, l1, _⟩ := loopSpec_ok U.nfd (logical mem n) false (guess n)
    rw [e1] at e e'
    simp only at e e'
    have hs2 : srcChars b1.data ((U.nfd (logical mem n)).length : Int) = .ok (U.nfd (logical mem n)).length := srcChars_nat _ _ l1
    have s2 := foldCase_eq hI.fold guess b1.data _ _ fuel hf hs2
    have s2' := foldCase_eq hI.fold guess b1.data _ _ fuel' hf' hs2
    rw [s2] at e; rw [s2'] at e'
    have hl2 : logical b1.data (U.nfd (logical mem n)).length = U.nfd (logical mem n) := k1
    rw [hl2] at e e'
    obtain ⟨b2, e2, k2, l2, _⟩ := loopSpec_ok U.fold (U.nfd (logical mem n)) false (guess (U.nfd (logical mem n)).length)
    rw [e2] at e e'
    simp only at e e'
    have hs3 : srcChars b2.data ((U.fold (U.nfd (logical mem n))).length : Int) = .ok (U.fold (U.nfd (logical mem n))).length :=
      srcChars_nat _ _ l2
    have s3 := unicodeNormalize_eq hI.nfc guess b2.data _ _ true fuel hf hs3
    have s3' := unicodeNormalize_eq hI.nfc guess b2.data _ _ true fuel' hf' hs3
    rw [s3] at e; rw [s3'] at e'
    rw [← e, ← e']

/-- **what the caller of `cif_normalize(src, -1, &out)` reads.**  With a NUL-terminated source whose normal form is NUL-free (true of
    ICU's functions on NUL-free input), the C string at `*normalized` is exactly `cifNormalize U` of the C string at `src` — the
    string-level model `Model.cifNormalize` on which `C09_idempotent`, `C09_canon_invariant`, `C09_match_iff` are stated. -/
theorem C09_normalize_buffer_cstring (U : UnicodeOps) (I : IcuOps) (hI : Contract U I) (guess : Nat → Nat) (mem : Str) (srclen : Int)
    (fuel : Nat) (hf : 2 ≤ fuel) (hneg : srclen < 0) (h0 : mem.contains 0 = true)
    (hnf : (0 : CU) ∉ cifNormalize U (cstrOf mem)) :
    ∃ t buf, cifNormalizeBuf I guess mem srclen true fuel = (t, .ok buf) ∧ buf.cstr = cifNormalize U (cstrOf mem) := by
  obtain ⟨hs, hl⟩ := srcChars_neg mem srclen hneg h0
  obtain ⟨cap, e, _⟩ := cifNormalizeBuf_spec U I hI guess mem srclen _ true fuel hf hs
  rw [hl] at e
  exact ⟨_, _, e, cstr_of_terminated _ hnf cap⟩

/-- **the three name normalisers at buffer level refine the string-level ones** (`Model.normalizeName`, `normalizeItemName`,
    `normalizeTableIndex`, which every matching theorem of C09 and the entry-point models use), for the length convention every
    caller in the library uses (`namelen < 0`: the whole NUL-terminated string `s = cstrOf mem`):
    the string-level function refuses with `code` ⇒ the buffer-level one returns `code`, having allocated nothing;
    the string-level function answers `k` ⇒ the buffer-level one returns a block holding exactly `k` + terminator. -/
theorem C09_normalize_entry_buffer_refines (U : UnicodeOps) (I : IcuOps) (hI : Contract U I) (guess : Nat → Nat) (mem : Str)
    (namelen : Int) (code : Code) (want : Bool) (fuel : Nat) (hf : 2 ≤ fuel) (hneg : namelen < 0) (h0 : mem.contains 0 = true) :
    (∀ forItem : Bool,
      match (if forItem then normalizeItemName U (some (cstrOf mem)) code else normalizeName U (some (cstrOf mem)) code) with
      | .error c => normalizeNameBuf I guess forItem (some mem) namelen code want fuel = ([], .error (.code c))
      | .ok k => ∃ t cap, normalizeNameBuf I guess forItem (some mem) namelen code want fuel = (t, .ok ⟨cap, k ++ [0]⟩) ∧
          k.length + 1 ≤ cap ∧ icuCalls t ≤ 6 ∧ liveBlocks t = (if want then 1 else 0)) ∧
    (match normalizeTableIndex U (some (cstrOf mem)) code with
      | .error c => normalizeTableIndexBuf I guess (some mem) namelen code want fuel = ([], .error (.code c))
      | .ok k => ∃ t cap, normalizeTableIndexBuf I guess (some mem) namelen code want fuel = (t, .ok ⟨cap, k ++ [0]⟩) ∧
          k.length + 1 ≤ cap ∧ icuCalls t ≤ 2 ∧ liveBlocks t = (if want then 1 else 0)) ∧
    (∀ forItem, normalizeNameBuf I guess forItem none namelen code want fuel = ([], .error (.code code))) ∧
    normalizeTableIndexBuf I guess none namelen code want fuel = ([], .error (.code code)) := by
  obtain ⟨hs, hl⟩ := srcChars_neg mem namelen hneg h0
  refine ⟨?_, ?_, fun _ => rfl, rfl⟩
  · intro forItem
    obtain ⟨hbad, hgood⟩ := normalizeNameBuf_spec U I hI guess forItem mem namelen _ code want fuel hf h0 hs
    obtain ⟨_, _, _, _, h6, hlive⟩ := cifNormalizeBuf_spec U I hI guess mem namelen _ want fuel hf hs
    rw [hl] at hgood h6 hlive
    cases hv : isValidName forItem (cstrOf mem) with
    | false =>
      have := hbad hv
      cases forItem <;> simp_all [normalizeName, normalizeItemName]
    | true =>
      obtain ⟨cap, e, hc⟩ := hgood hv
      cases forItem <;> simp only [normalizeName, normalizeItemName, hv, ↓reduceIte, Bool.false_eq_true] <;>
        exact ⟨_, cap, e, hc, h6, hlive⟩
  · obtain ⟨hbad, hgood⟩ := normalizeTableIndexBuf_spec U I hI guess mem namelen _ code want fuel hf h0 hs
    rw [hl] at hgood
    cases hv : hasDisallowed (cstrOf mem) with
    | true => simp [normalizeTableIndex, hv, hbad hv]
    | false =>
      simp only [normalizeTableIndex, hv, Bool.false_eq_true, ↓reduceIte]
      exact hgood hv

-- non-vacuity ------------------------------------------------------------------------------------------------------------
namespace C09Buf

/-- a toy `UnicodeOps` in which every stage changes lengths: NFD decomposes `Å` (197) to `A` + ring (65 778), folding maps `A` to
    `a` and `ß` (223) to `ss`, NFC composes `a` + ring to `å` (229) -/
def expU : UnicodeOps where
  nfd := fun s => s.flatMap fun c => if c = 197 then [65, 778] else [c]
  fold := fun s => s.flatMap fun c => if c = 65 then [97] else if c = 223 then [115, 115] else [c]
  nfc := fun s => if s = [97, 778, 115, 115] then [229, 115, 115] else s

/-- the hypotheses of `C09_normalize_buffer_refines` are satisfiable: the canonical calls obey the contract -/
example : Contract expU (IcuOps.of expU) := of_contract expU

/-- … and on `Åß` + NUL with the C's capacity guess the model runs through an exact fit (NFD: 3 units into 3), an overflow with
    retry (fold: 4 units into 3) and a plain fit, ending with `åss` + NUL in a block of 5 units -/
example : cifNormalizeBuf (IcuOps.of expU) cGuess [197, 223, 0] (-1) true 2
    = ([.malloc 3, .icu 3 3 .notTerminated,
        .malloc 4, .icu 4 4 .notTerminated, .free,
        .malloc 5, .icu 5 3 .zero, .free], .ok ⟨5, [229, 115, 115, 0]⟩) := by rfl

/-- a first buffer of capacity 0 for every stage: every stage overflows once and succeeds at the second attempt -/
example : (cifNormalizeBuf (IcuOps.of expU) (fun _ => 0) [197, 223, 0] (-1) true 2).2 = .ok ⟨4, [229, 115, 115, 0]⟩ ∧
    icuCalls (cifNormalizeBuf (IcuOps.of expU) (fun _ => 0) [197, 223, 0] (-1) true 2).1 = 6 := ⟨by rfl, by rfl⟩

/-- the terminator branch: NFC of a 3-unit source that fills the first buffer exactly needs the `realloc` -/
example : unicodeNormalize (icuOf fun s => s ++ [7]) cGuess [1, 2, 0] 2 true 2
    = ([.malloc 3, .icu 3 3 .notTerminated, .realloc 4], .ok (⟨4, [1, 2, 7, 0]⟩, 3)) := by rfl

/-- fuel 1 does NOT suffice when the first buffer is too small (the bound `2 ≤ fuel` is sharp) -/
example : (unicodeNormalize (icuOf expU.nfd) cGuess [197, 197, 0] (-1) false 1).2 = .error .fuel := by rfl

/-- a source-length convention leaving the block is refused as an out-of-block read -/
example : cifNormalizeBuf (IcuOps.of expU) cGuess [97, 98] 3 true 2 = ([], .error .oobRead) ∧
    cifNormalizeBuf (IcuOps.of expU) cGuess [97, 98] (-1) true 2 = ([], .error .oobRead) := ⟨by rfl, by rfl⟩

/-- explicit length: only the first unit is normalised, embedded material behind it is ignored -/
example : (cifNormalizeBuf (IcuOps.of expU) cGuess [65, 223, 0] 1 true 2).2 = .ok ⟨2, [97, 0]⟩ := by rfl

/-- a call that violates the contract (writes one unit more than the capacity on overflow) is caught as an out-of-block store:
    the contract hypothesis is not decorative -/
example : (unicodeNormalize (fun x cap => ⟨x.length + 1, .overflow, List.replicate (cap + 1) 0⟩) cGuess [1, 0] (-1) true 5).2
    = .error .oobWrite := by rfl

end C09Buf
end CifModel
