import CifModel.Lemmas.ParserTop
import CifModel.Lemmas.ParserQuiet
import CifModel.Lemmas.ParserConsistent
import CifModel.Lemmas.ParserRect
import CifModel.Props.C03Extra
/-
  Props/C03 — the parser is total and honours the error-callback contract on any input (property C03), as theorems about
  the integrated parser model `Model.Parser.parse` (tied to src/parser.c by the `parse` correspondence family).

  Quantifiers: every option record `o` (dialect, max_frame_depth, folding / prefix switches, not_utf8, target present or
  not, any normalisation functions), every initial content `pre` of the target, every input `units` (any code units), and
  every callback policy `pol : Nat → Report → Int` — an ARBITRARY function of the invocation index and the report, i.e. all
  accept / reject decision sequences, with arbitrary (also negative) answers.

  `A` = the accept-all parse, `R` = the parse under `pol`; logs are in order of occurrence.
-/
namespace CifModel
open CifModel.Model CifModel.Model.Lexer CifModel.Model.Parser

/-- all answers of `pol` to the first `n` reports of `log` are zero -/
def C03_quietBefore (pol : Policy) (log : List Report) (n : Nat) : Prop :=
  ∀ j r, j < n → log[j]? = some r → pol j r = 0

/-- C03_total — the model is a total function: Lean accepts `parse` only with a termination proof (structural recursion on
    the input inside the scanner, on the fuel `2·|input| + 16` in the productions); every input, option record and policy
    has an outcome.  (That the fuel is never exhausted — the outcome never has the code NOFUEL — is observed by the
    correspondence, not proved: see PARTIAL.) -/
theorem C03_total (o : Opts) (pol : Policy) (pre : Cif) (units : Str) : ∃ out : Outcome, parse o pol pre units = out := ⟨_, rfl⟩

/-- Result propagation (parser.c 973-983): a value ≤ 0 never leaves parse_cif as a failure — callback answers < 0
    ("navigation codes") end the parse with CIF_OK. -/
theorem C03_clamp (o : Opts) (fuel : Nat) (s : PS) (pol : Policy) (w w' : W) (rv : Int)
    (h : parseCif o fuel s pol w = .abort rv w') : rv > 0 :=
  clamp_abort_pos _ pol w w' rv h

/-- The callback contract at a single call site. -/
theorem C03_report_site (code : Code) (line col : Nat) (pol : Policy) (w : W) :
    (pol w.log.length ⟨code, line, col⟩ = 0 → report code line col pol w = .ok () { w with log := ⟨code, line, col⟩ :: w.log }) ∧
    (pol w.log.length ⟨code, line, col⟩ ≠ 0 →
      report code line col pol w = .abort (pol w.log.length ⟨code, line, col⟩) { w with log := ⟨code, line, col⟩ :: w.log }) :=
  ⟨report_zero code line col pol w, report_nonzero code line col pol w⟩

private theorem quiet_of_firstNZ_none (pol : Policy) : ∀ (d : List Report), firstNZ pol 0 d = none →
    ∀ j r, d.reverse[j]? = some r → pol j r = 0
  | [], _, j, r, h => by simp at h
  | r0 :: rest, hz, j, r, h => by
    simp only [firstNZ] at hz
    cases hr : firstNZ pol 0 rest with
    | some x => rw [hr] at hz; cases hz
    | none =>
      rw [hr] at hz; simp only [Nat.zero_add] at hz
      have h0 : pol rest.length r0 = 0 := by
        by_cases hh : pol rest.length r0 = 0
        · exact hh
        · simp [hh] at hz
      rw [List.reverse_cons] at h
      by_cases hj : j < rest.reverse.length
      · rw [List.getElem?_append_left hj] at h
        exact quiet_of_firstNZ_none pol rest hr j r h
      · rw [List.getElem?_append_right (by omega)] at h
        rw [List.length_reverse] at hj h
        have : j - rest.length = 0 := by
          by_cases hq : j - rest.length = 0
          · exact hq
          · have : ([r0] : List Report)[j - rest.length]? = none := by
              apply List.getElem?_eq_none; simp; omega
            rw [this] at h; cases h
        rw [this] at h
        simp only [List.getElem?_cons_zero, Option.some.injEq] at h
        have hj' : j = rest.length := by omega
        subst h; rw [hj']; exact h0

/-- **C03_prefix_determinism** — the parse under an arbitrary policy is determined by the accept-all parse: either the policy
    answers 0 to every report of the accept-all parse and the two parses have the SAME outcome (return value, log, content), or
    the parse under `pol` logs exactly the reports of the accept-all parse up to the first one `pol` answers non-zero — that is
    the last callback invocation — and returns that answer (a negative answer may also end as CIF_OK). -/
theorem C03_prefix_determinism (o : Opts) (pol : Policy) (pre : Cif) (units : Str) :
    let A := parse o acceptAll pre units
    let R := parse o pol pre units
    (C03_quietBefore pol A.log A.log.length ∧ R = A) ∨
    (∃ k r, A.log[k]? = some r ∧ pol k r ≠ 0 ∧ C03_quietBefore pol A.log k ∧
      R.log = A.log.take (k + 1) ∧ (R.rc = pol k r ∨ (pol k r < 0 ∧ R.rc = 0))) := by
  intro A R
  obtain ⟨_, _, hs⟩ := parse_spec o pol pre (fuelFor units) units
  change match firstNZ pol 0 A.log.reverse with
    | none => R = A
    | some x => R.log = (x.1 :: x.2).reverse ∧ (R.rc = pol x.2.length x.1 ∨ (pol x.2.length x.1 < 0 ∧ R.rc = 0)) at hs
  cases hz : firstNZ pol 0 A.log.reverse with
  | none =>
    rw [hz] at hs
    left
    refine ⟨?_, hs⟩
    intro j r _ hj
    have := quiet_of_firstNZ_none pol A.log.reverse hz j r
    rw [List.reverse_reverse] at this
    exact this hj
  | some x =>
    rw [hz] at hs
    obtain ⟨hl, hrc⟩ := hs
    obtain ⟨hne, hq, d2, hd⟩ := firstNZ_some (r := x.1) (d1 := x.2) hz
    have hA : A.log = x.2.reverse ++ x.1 :: d2.reverse := by
      have := congrArg List.reverse hd
      rw [List.reverse_reverse] at this
      rw [this]; simp
    right
    refine ⟨x.2.length, x.1, ?_, by simpa using hne, ?_, ?_, by simpa using hrc⟩
    · rw [hA, List.getElem?_append_right (by simp)]; simp
    · intro j r hj hjr
      rw [hA, List.getElem?_append_left (by simpa using hj)] at hjr
      exact quiet_of_firstNZ_none pol x.2 hq j r hjr
    · have e : x.2.reverse ++ x.1 :: d2.reverse = (x.2.reverse ++ [x.1]) ++ d2.reverse := by simp
      rw [hl, hA, e, List.take_left' (by simp)]
      simp

/-- the codes the MODEL can return without a callback having produced them — the places where parser.c returns a code
    without calling the error callback: CIF_INTERNAL_ERROR (5; "should not happen" branches), CIF_INVALID_INDEX (73; a table
    key with a disallowed character), CIF_INVALID_ITEMNAME (42) / CIF_DUP_ITEMNAME (41) (cif_packet_create), and the model's
    own out-of-fuel marker 1001 -/
def C03_silentCode (c : Int) : Prop := FailCode c

/-- **C03_result** — the return value is CIF_OK, or the first non-zero answer of the callback (then that invocation is the
    last one, and every earlier answer was 0), or one of the codes the parser returns on its own. -/
theorem C03_result (o : Opts) (pol : Policy) (pre : Cif) (units : Str) :
    let R := parse o pol pre units
    R.rc = 0 ∨ C03_silentCode R.rc ∨
    (∃ k r, R.log[k]? = some r ∧ R.log.length = k + 1 ∧ R.rc = pol k r ∧ R.rc ≠ 0 ∧ C03_quietBefore pol R.log k) := by
  intro R
  obtain ⟨_, hf, hs⟩ := parse_spec o pol pre (fuelFor units) units
  change match firstNZ pol 0 (parse o acceptAll pre units).log.reverse with
    | none => R = parse o acceptAll pre units
    | some x => R.log = (x.1 :: x.2).reverse ∧ (R.rc = pol x.2.length x.1 ∨ (pol x.2.length x.1 < 0 ∧ R.rc = 0)) at hs
  cases hz : firstNZ pol 0 (parse o acceptAll pre units).log.reverse with
  | none =>
    rw [hz] at hs
    rw [hs]
    rcases hf with h | h
    · exact Or.inl h
    · exact Or.inr (Or.inl h)
  | some x =>
    rw [hz] at hs
    obtain ⟨hl, hrc⟩ := hs
    obtain ⟨hne, hq, _, _⟩ := firstNZ_some (r := x.1) (d1 := x.2) hz
    rcases hrc with h | ⟨_, h⟩
    · right; right
      refine ⟨x.2.length, x.1, ?_, ?_, by simpa using h, ?_, ?_⟩
      · rw [hl]; simp
      · rw [hl]; simp
      · rw [h]; simpa using hne
      · intro j r hj hjr
        rw [hl, List.reverse_cons, List.getElem?_append_left (by simpa using hj)] at hjr
        exact quiet_of_firstNZ_none pol x.2 hq j r hjr
    · exact Or.inl h

/-- **C03_reported** (partial: see PARTIAL — for the codes of `C03_silentCode` it is not proved here that they are
    unreachable or preceded by a report) — a parse that fails with any other value has reported at least one error. -/
theorem C03_reported_partial (o : Opts) (pol : Policy) (pre : Cif) (units : Str)
    (hrc : (parse o pol pre units).rc ≠ 0) (hs : ¬ C03_silentCode (parse o pol pre units).rc) :
    (parse o pol pre units).log ≠ [] := by
  rcases C03_result o pol pre units with h | h | ⟨k, r, h1, h2, _⟩
  · exact absurd h hrc
  · exact absurd h hs
  · intro he; rw [he] at h2; simp at h2

/-- **C03_die_is_first** — with the abort-on-error handler (`cif_parse_error_die`: the answer is the code) the parse returns
    exactly the first code the accept-all parse of the same input reports; when that parse reports nothing, the two parses
    have the same outcome. -/
theorem C03_die_is_first (o : Opts) (pre : Cif) (units : Str) :
    match (parse o acceptAll pre units).log with
    | [] => parse o dieAll pre units = parse o acceptAll pre units
    | r :: _ => (parse o dieAll pre units).rc = r.code ∧ (parse o dieAll pre units).log = [r] := by
  obtain ⟨hcodes, _, hs⟩ := parse_spec o dieAll pre (fuelFor units) units
  change ∀ r ∈ (parse o acceptAll pre units).log, r.code ≠ 0 at hcodes
  change match firstNZ dieAll 0 (parse o acceptAll pre units).log.reverse with
    | none => parse o dieAll pre units = parse o acceptAll pre units
    | some x => (parse o dieAll pre units).log = (x.1 :: x.2).reverse ∧
        ((parse o dieAll pre units).rc = dieAll x.2.length x.1 ∨ (dieAll x.2.length x.1 < 0 ∧ (parse o dieAll pre units).rc = 0)) at hs
  cases hA : (parse o acceptAll pre units).log with
  | nil =>
    rw [hA] at hs
    simpa [firstNZ] using hs
  | cons r tl =>
    rw [hA] at hs hcodes
    have hr : r.code ≠ 0 := hcodes r (by simp)
    have hz : firstNZ dieAll 0 (r :: tl).reverse = some (r, []) := by
      rw [List.reverse_cons, firstNZ_append]
      have : (dieAll 0 r) ≠ 0 := by simp only [dieAll]; exact_mod_cast hr
      simp [firstNZ, this]
    rw [hz] at hs
    obtain ⟨hl, hrc⟩ := hs
    refine ⟨?_, by simpa using hl⟩
    rcases hrc with h | ⟨hneg, _⟩
    · simpa [dieAll] using h
    · simp only [dieAll] at hneg
      omega

/-- **C03_reported** — every callback policy: a parse that fails with a value other than the model's out-of-fuel marker
    (1001) has reported at least one error.  In particular the "should not happen" exits of parser.c (CIF_INTERNAL_ERROR from
    parse_value, parse_loop ×2 and parse_container; CIF_INVALID_ITEMNAME from cif_container_set_value and from
    cif_packet_create; CIF_DUP_ITEMNAME from cif_packet_create) are never taken before an error has been reported
    (`Lemmas/ParserQuiet`: on the report-free path the pending token is never of type ERROR, a value is only parsed at a
    value token, an item is only stored under a valid name, and the names a loop header keeps are valid, pairwise distinct
    after normalisation and not yet defined in the container); CIF_INVALID_INDEX is itself reported (since 8375485). -/
theorem C03_reported (o : Opts) (pol : Policy) (pre : Cif) (units : Str)
    (hrc : (parse o pol pre units).rc ≠ 0) (h1 : (parse o pol pre units).rc ≠ 1001) :
    (parse o pol pre units).log ≠ [] := by
  intro hlog
  -- with an empty log the parse coincides with the accept-all parse, and that with the parse under `dieAll`
  obtain ⟨_, _, hs⟩ := parse_spec o pol pre (fuelFor units) units
  change match firstNZ pol 0 (parse o acceptAll pre units).log.reverse with
    | none => parse o pol pre units = parse o acceptAll pre units
    | some x => (parse o pol pre units).log = (x.1 :: x.2).reverse ∧
        ((parse o pol pre units).rc = pol x.2.length x.1 ∨ (pol x.2.length x.1 < 0 ∧ (parse o pol pre units).rc = 0)) at hs
  cases hz : firstNZ pol 0 (parse o acceptAll pre units).log.reverse with
  | some x =>
    rw [hz] at hs
    rw [hs.1] at hlog
    simp at hlog
  | none =>
    rw [hz] at hs
    simp only [] at hs
    have hA : (parse o acceptAll pre units).log = [] := by rw [← hs]; exact hlog
    have hd := C03_die_is_first o pre units
    rw [hA] at hd
    simp only [] at hd
    have heq : parse o pol pre units = parse o dieAll pre units := by rw [hs, hd]
    rw [heq] at hrc h1 hlog
    have hfin := parseInternal_die o (fuelFor units) units { log := [], cif := pre } rfl
    unfold parse run at hrc h1 hlog
    cases hr : parseInternal o (fuelFor units) units dieAll { log := [], cif := pre } with
    | ok a w => rw [hr] at hrc; exact hrc rfl
    | abort c w =>
      rw [hr] at hfin h1 hlog
      simp only [] at hfin h1 hlog
      rcases hfin with h | h
      · apply h; simpa using hlog
      · exact h1 h

/-- **C03_reported_full** — every option record, every callback policy, every initial target, every input: a parse that
    fails has reported at least one error.  (`C03_reported` + the fuel lemma of group gC: a parse whose log is empty is the
    accept-all parse, and that never ends with the out-of-fuel marker.) -/
theorem C03_reported_full (o : Opts) (pol : Policy) (pre : Cif) (units : Str) (hrc : (parse o pol pre units).rc ≠ 0) :
    (parse o pol pre units).log ≠ [] := by
  intro hlog
  by_cases h1 : (parse o pol pre units).rc = 1001
  · -- an empty log: the parse is the accept-all parse, whose result is never 1001
    obtain ⟨_, _, hs⟩ := parse_spec o pol pre (fuelFor units) units
    change match firstNZ pol 0 (parse o acceptAll pre units).log.reverse with
      | none => parse o pol pre units = parse o acceptAll pre units
      | some x => (parse o pol pre units).log = (x.1 :: x.2).reverse ∧
          ((parse o pol pre units).rc = pol x.2.length x.1 ∨ (pol x.2.length x.1 < 0 ∧ (parse o pol pre units).rc = 0)) at hs
    cases hz : firstNZ pol 0 (parse o acceptAll pre units).log.reverse with
    | some x =>
      rw [hz] at hs
      rw [hs.1] at hlog
      simp at hlog
    | none =>
      rw [hz] at hs
      simp only [] at hs
      rw [hs] at h1
      exact C03_fuel_suffices_accept_all o pre units h1
  · exact C03_reported o pol pre units hrc h1 hlog

/-- the consistency of a managed CIF (`Lemmas/ParserStore.OkCif`), spelled out: block codes pairwise distinct after
    normalisation; in every container, recursively: frame codes pairwise distinct after normalisation, every normalised item
    name defined once over all loops, at most one scalar loop, and at most one packet in a scalar loop -/
theorem C03_consistent_iff (o : Opts) (cif : Cif) :
    OkCif o cif ↔ (cif.map fun c => o.norm c.code).Nodup ∧ ∀ c ∈ cif, OkC o c := by
  unfold OkCif normCodes
  rw [OkCs_iff]

theorem C03_consistent_container (o : Opts) (code : Str) (fs : List Container) (ls : List Loop) :
    OkC o (.mk code fs ls) ↔
      ((normNames o ls).Nodup ∧ (ls.filter Parser.isScalarLoop).length ≤ 1 ∧
        ∀ l ∈ ls, Parser.isScalarLoop l = true → l.packets.length ≤ 1) ∧
      (fs.map fun c => o.norm c.code).Nodup ∧ ∀ c ∈ fs, OkC o c := by
  rw [OkC_mk, OkCs_iff]
  rfl

/-- rectangularity of a managed CIF (`Lemmas/ParserRect.RectCif`), spelled out: in every container, recursively, every packet of
    every loop has exactly as many values as the loop has item names -/
theorem C03_rectangular_iff (cif : Cif) : RectCif cif ↔ ∀ c ∈ cif, RectC c := RectCs_iff cif

theorem C03_rectangular_container (code : Str) (fs : List Container) (ls : List Loop) :
    RectC (.mk code fs ls) ↔ (∀ l ∈ ls, ∀ p ∈ l.packets, p.length = l.names.length) ∧ ∀ c ∈ fs, RectC c := by
  rw [RectC_mk, RectCs_iff]
  rfl

/-- **C03_packets_rectangular** — every option record, every callback policy, every input, every consistent and rectangular
    initial content of the target: after the parse — completed, stopped by a callback answer (also a negative one), or left
    through one of the parser's own failure exits — every packet of every loop of every container of the target has exactly as
    many values as its loop has item names.  This follows the column bookkeeping of parse_loop_packets: header names that were
    dropped (duplicates, invalid names: their values are parsed and discarded), the packet stored when the column index wraps,
    and the partial last packet padded with unknown values (CIF_PARTIAL_PACKET) — `Lemmas/ParserRect.packetsLoop_presR`. -/
theorem C03_packets_rectangular (o : Opts) (pol : Policy) (pre : Cif) (units : Str) (h : OkCif o pre) (hr : RectCif pre) :
    RectCif (parse o pol pre units).cif :=
  (parse_okR o pol pre units ⟨h, hr⟩).2

/-- **C03_consistent_after** — every option record, every callback policy, every input, every consistent initial content of the
    target: after the parse — completed, stopped by a callback answer (also a negative one), or left through one of the
    parser's own failure exits — the target CIF is consistent (`OkCif`: codes and names unique after normalisation, one scalar
    loop with at most one packet), and when the initial content was rectangular (every packet as wide as its loop's header),
    so is the result. -/
theorem C03_consistent_after (o : Opts) (pol : Policy) (pre : Cif) (units : Str) (h : OkCif o pre) :
    OkCif o (parse o pol pre units).cif ∧ (RectCif pre → RectCif (parse o pol pre units).cif) :=
  ⟨parse_ok o pol pre units h, fun hr => C03_packets_rectangular o pol pre units h hr⟩

/-- … in particular when the parse starts with an empty CIF -/
theorem C03_consistent_after_fresh (o : Opts) (pol : Policy) (units : Str) :
    OkCif o (parse o pol [] units).cif ∧ RectCif (parse o pol [] units).cif :=
  parse_okR o pol [] units ⟨⟨by simp [normCodes], by simp [OkCs]⟩, by simp [RectCif, RectCs]⟩

/-- the invariant is not vacuous: two blocks with the same code are not consistent, nor is a block that defines a name twice -/
example (o : Opts) : ¬ OkCif o [.mk [97] [] [], .mk [97] [] []] := by
  simp [OkCif, normCodes, Container.code]

example (o : Opts) : ¬ OkCif o [.mk [97] [] [{ category := none, names := [[95, 120]], packets := [] },
    { category := some [], names := [[95, 120]], packets := [] }]] := by
  simp [OkCif, OkCs, OkC, LoopsOk, normNames]

/-- rectangularity is not vacuous: a loop of two names with a packet of one value is not rectangular, also inside a save frame;
    the packet of two values is -/
example : ¬ RectCif [.mk [97] [.mk [98] [] [{ category := none, names := [[95, 120], [95, 121]], packets := [[.unk]] }]] []] := by
  simp [RectCif, RectCs, RectC, LoopsRect, LoopRect]

example : RectCif [.mk [97] [] [{ category := none, names := [[95, 120], [95, 121]], packets := [[.unk, .na]] }]] := by
  simp [RectCif, RectCs, RectC, LoopsRect, LoopRect]

/-- under the all-accepting callback the parse returns CIF_OK or one of the codes the parser returns on its own -/
theorem C03_accept_all (o : Opts) (pre : Cif) (units : Str) :
    (parse o acceptAll pre units).rc = 0 ∨ C03_silentCode (parse o acceptAll pre units).rc :=
  (parse_spec o acceptAll pre (fuelFor units) units).2.1

/-- every report carries a non-zero code (so the die handler always stops at the first report) -/
theorem C03_codes_nonzero (o : Opts) (pre : Cif) (units : Str) : ∀ r ∈ (parse o acceptAll pre units).log, r.code ≠ 0 :=
  (parse_spec o acceptAll pre (fuelFor units) units).1

/-! ### non-vacuity: instances evaluated by the kernel -/

namespace C03
def lower (s : Str) : Str := s.map fun c => if 65 ≤ c ∧ c ≤ 90 then c + 32 else c
def opts2 : Opts := { dia := .cif2, maxFrameDepth := 1, unfold := true, prem := true, notUtf8 := false, store := true, norm := lower, normKey := id }
end C03

set_option maxRecDepth 100000 in
/-- `data_a _x _y` : accept-all reports two missing values and returns 0; the die handler returns 133 after ONE report; a policy
    that answers -1 to the second report ends with CIF_OK after two reports -/
example :
    (parse C03.opts2 acceptAll [] (a!"data_a _x _y")).log.map (·.code) = [133, 133] ∧
    (parse C03.opts2 acceptAll [] (a!"data_a _x _y")).rc = 0 ∧
    (parse C03.opts2 dieAll [] (a!"data_a _x _y")).rc = 133 ∧
    (parse C03.opts2 dieAll [] (a!"data_a _x _y")).log.length = 1 ∧
    (parse C03.opts2 (fun i _ => if i = 1 then -1 else 0) [] (a!"data_a _x _y")).rc = 0 ∧
    (parse C03.opts2 (fun i _ => if i = 1 then -1 else 0) [] (a!"data_a _x _y")).log.length = 2 := by decide +kernel

set_option maxRecDepth 100000 in
/-- the column bookkeeping at work: `loop_ _a _A _b 1 2 3 4` — the second header name is a duplicate (dropped), the last packet is
    partial: two packets of two values each (`1 3` and `4 ?`), reports CIF_DUP_ITEMNAME and CIF_PARTIAL_PACKET -/
example :
    (parse C03.opts2 acceptAll [] (a!"data_a loop_ _a _A _b 1 2 3 4")).cif.map (fun c => c.loops.map (fun l => (l.names.length, l.packets.map List.length)))
      = [[(2, [2, 2])]] ∧
    (parse C03.opts2 acceptAll [] (a!"data_a loop_ _a _A _b 1 2 3 4")).log.map (·.code) = [Gen.ErrCodes.CIF_DUP_ITEMNAME, Gen.ErrCodes.CIF_PARTIAL_PACKET] := by decide +kernel

end CifModel
