import CifModel.Lemmas.ParserBasic
/-
  Props/C03 — the parser is total and honours the error-callback contract on any input (property C03), as theorems about
  the integrated parser model `Model.Parser.parse` (tied to src/parser.c by the `parse` correspondence family).
-/
namespace CifModel
open CifModel.Model CifModel.Model.Lexer CifModel.Model.Parser

/-- Result propagation (parser.c 973-983): whatever the productions do, a value ≤ 0 never leaves parse_cif as a failure:
    callback answers < 0 ("navigation codes") end the parse with CIF_OK. -/
theorem C03_clamp (o : Opts) (fuel : Nat) (s : PS) (pol : Policy) (w w' : W) (rv : Int)
    (h : parseCif o fuel s pol w = .abort rv w') : rv > 0 :=
  clamp_abort_pos _ pol w w' rv h

/-- The callback contract at a single call site: a zero answer logs the report and continues, a non-zero answer `rv` logs
    it and leaves the production with exactly `rv`. -/
theorem C03_report_site (code : Code) (line col : Nat) (pol : Policy) (w : W) :
    (pol w.log.length ⟨code, line, col⟩ = 0 → report code line col pol w = .ok () { w with log := ⟨code, line, col⟩ :: w.log }) ∧
    (pol w.log.length ⟨code, line, col⟩ ≠ 0 →
      report code line col pol w = .abort (pol w.log.length ⟨code, line, col⟩) { w with log := ⟨code, line, col⟩ :: w.log }) :=
  ⟨report_zero code line col pol w, report_nonzero code line col pol w⟩

end CifModel
