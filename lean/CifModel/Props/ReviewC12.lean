import CifModel.Props.C12
import CifModel.Props.C01parse
import CifModel.Props.C12Lex
/-
  Review of property C12.
  (1) The class "unquoted reserved word" (CIF_RESERVED_WORD) has neither a class theorem for the scanner half nor an instance in the
      property files; two whole-parse instances are evaluated here.
  (2) None of the universally quantified class theorems of Props/C12.lean / C12Lex.lean has its HYPOTHESES instantiated in the
      property files (the `_instance` theorems evaluate whole parses of character strings; they do not go through the class
      theorems).  Here `C12_missing_value` is applied to a concrete data block — `View`, `wfItems`, freshness, fuel and `Feeds`
      (from the scanner theorems of Props/C01.lean) all discharged — which shows that its hypotheses are jointly satisfiable.
-/
namespace CifModel.ReviewC12
open CifModel Model.Parser Model.Lexer Spec.Grammar Spec.Lexical Spec.Recovery

/-! ### (1) reserved words -/
example : C12.check .reservedWord 1 (a!"data_a _x 1 stop_ _y 2") (C12.blockA [a!"_x", a!"_y"] [.chr false (a!"1"), .chr false (a!"2")]) = true := by
  decide +kernel
example : C12.check .reservedWord 2 (a!"data_a _x 1\nGLOBAL_ _y 2") (C12.blockA [a!"_x", a!"_y"] [.chr false (a!"1"), .chr false (a!"2")]) = true := by
  decide +kernel

/-! ### (2) `C12_missing_value` with every hypothesis discharged: block `a`, `_p 1 _x⏎_y 2` — `_x` has no value -/

def o := C12.opts2
def pre : List Item := [.item (a!"_p") (.str (a!"1") .bare)]
def post : List Item := [.item (a!"_y") (.str (a!"2") .bare)]
def s0 : PS := { scan := ⟨a!" _p 1 _x\n_y 2", 1, 6, .blockHead⟩, tok := none }
def w0 : W := { log := [], cif := [.mk (a!"a") [] []] }

theorem feeds : Feeds o s0 (itemsToks pre ++ ((.name, a!"_x") :: (itemsToks post ++ [(.end_, [])]))) := by
  show Feeds o _ [(.name, a!"_p"), (.value, a!"1"), (.name, a!"_x"), (.name, a!"_y"), (.value, a!"2"), (.end_, [])]
  refine C01_feeds_of_lex (t := ⟨.name, a!"_p", 1, 9⟩) (sc' := ⟨a!" 1 _x\n_y 2", 1, 9, .name⟩) ?_ ?_
  · intro pol log
    have h1 := C01_lex_sep .cif2 [.blank 32] (a!"_p 1 _x\n_y 2") 1 6 .blockHead .end_ pol log (by decide) (by decide)
      (Or.inr (by intro b rest h; cases h)) (by decide)
    exact h1.trans (C01_lex_name .cif2 (a!"p") (a!" 1 _x\n_y 2") 1 7 .end_ pol log rfl (by decide) (by decide))
  refine C01_feeds_of_lex (t := ⟨.value, a!"1", 1, 11⟩) (sc' := ⟨a!" _x\n_y 2", 1, 11, .value⟩) ?_ ?_
  · intro pol log
    exact C01_lex_value_after_ws .cif2 [.blank 32] .bare (a!"1") (a!" _x\n_y 2") 1 9 .name pol log (by decide)
      (Or.inr (by intro b rest h; cases h)) (by decide) (by decide) (by decide) (by decide) (by decide) (by decide)
  refine C01_feeds_of_lex (t := ⟨.name, a!"_x", 1, 14⟩) (sc' := ⟨a!"\n_y 2", 1, 14, .name⟩) ?_ ?_
  · intro pol log
    have h1 := C01_lex_sep .cif2 [.blank 32] (a!"_x\n_y 2") 1 11 .value .end_ pol log (by decide) (by decide)
      (Or.inr (by intro b rest h; cases h)) (by decide)
    exact h1.trans (C01_lex_name .cif2 (a!"x") (a!"\n_y 2") 1 12 .end_ pol log rfl (by decide) (by decide))
  refine C01_feeds_of_lex (t := ⟨.name, a!"_y", 2, 2⟩) (sc' := ⟨a!" 2", 2, 2, .name⟩) ?_ ?_
  · intro pol log
    have h1 := C01_lex_sep .cif2 [.eol] (a!"_y 2") 1 14 .name .end_ pol log (by decide) (by decide)
      (Or.inr (by intro b rest h; cases h)) (by decide)
    exact h1.trans (C01_lex_name .cif2 (a!"y") (a!" 2") 2 0 .end_ pol log rfl (by decide) (by decide))
  refine C01_feeds_of_lex (t := ⟨.value, a!"2", 2, 4⟩) (sc' := ⟨[], 2, 4, .value⟩) ?_ ?_
  · intro pol log
    exact C01_lex_value_after_ws .cif2 [.blank 32] .bare (a!"2") [] 2 2 .name pol log (by decide)
      (Or.inr (by intro b rest h; cases h)) (by decide) (by decide) (by decide) (by decide) (by decide) (by decide)
  refine C01_feeds_of_lex (t := ⟨.end_, [], 2, 4⟩) (sc' := ⟨[], 2, 4, .end_⟩) ?_ (Feeds.nil _)
  · intro pol log; rfl

/-- the class theorem applied: exactly one report, CIF_MISSING_VALUE; the block holds `_p 1`, `_x ?`, `_y 2` -/
theorem missing_value_applied :
    ∃ s' r, elemsLoop o (8 + 1 + 1 + 1) s0 (some [o.norm (a!"a")]) true acceptAll w0
        = elemsLoop o 8 s' (some [o.norm (a!"a")]) true acceptAll
            { log := r :: w0.log,
              cif := [] ++ [.mk (a!"a") [] (denoteItems o.dia o.normKey (pre ++ [.item (a!"_x") .unk] ++ post) [])] }
      ∧ r.code = Gen.ErrCodes.CIF_MISSING_VALUE ∧ Feeds o s' [(.end_, [])] :=
  C12_missing_value o (View.block o [] (a!"a") (by intro c hc; cases hc)) pre post (a!"_x") [] [o.norm (a!"_x"), o.norm (a!"_p")]
    [(.end_, [])] s0 8 w0 [] [] true rfl (by decide +kernel) (by intro k hk; cases hk) (by decide +kernel) (by decide +kernel)
    (by decide +kernel) (by decide +kernel) (by decide +kernel) (Or.inl (by simp [post]))
    (by intro h; exact absurd h (by decide)) feeds

/-! ### `C12_no_block_header` (whole parse_cif) applied to `_x 1⏎data_b _y 2` -/

def sN : PS := { scan := Scan.init (a!"_x 1\ndata_b _y 2"), tok := none }

theorem feedsN : Feeds o sN (elemsToks [.plain (.item (a!"_x") (.str (a!"1") .bare))] ++
    (blocksToks [{ code := a!"b", body := [.plain (.item (a!"_y") (.str (a!"2") .bare))] }] ++ [(.end_, [])])) := by
  show Feeds o _ [(.name, a!"_x"), (.value, a!"1"), (.blockHead, a!"b"), (.name, a!"_y"), (.value, a!"2"), (.end_, [])]
  refine C01_feeds_of_lex (t := ⟨.name, a!"_x", 1, 2⟩) (sc' := ⟨a!" 1\ndata_b _y 2", 1, 2, .name⟩) ?_ ?_
  · intro pol log
    exact C01_lex_name .cif2 (a!"x") (a!" 1\ndata_b _y 2") 1 0 .end_ pol log rfl (by decide) (by decide)
  refine C01_feeds_of_lex (t := ⟨.value, a!"1", 1, 4⟩) (sc' := ⟨a!"\ndata_b _y 2", 1, 4, .value⟩) ?_ ?_
  · intro pol log
    exact C01_lex_value_after_ws .cif2 [.blank 32] .bare (a!"1") (a!"\ndata_b _y 2") 1 2 .name pol log (by decide)
      (Or.inr (by intro b rest h; cases h)) (by decide) (by decide) (by decide) (by decide) (by decide) (by decide)
  refine C01_feeds_of_lex (t := ⟨.blockHead, a!"b", 2, 6⟩) (sc' := ⟨a!" _y 2", 2, 6, .blockHead⟩) ?_ ?_
  · intro pol log
    have h1 := C01_lex_sep .cif2 [.eol] (a!"data_b _y 2") 1 4 .value .end_ pol log (by decide) (by decide)
      (Or.inr (by intro b rest h; cases h)) (by decide)
    exact h1.trans ((C01_lex_keyword .cif2 100 97 116 97 95 (a!"b") (a!" _y 2") 2 0 .end_ pol log rfl (by decide) (by decide)).1
      (by decide) (by decide))
  refine C01_feeds_of_lex (t := ⟨.name, a!"_y", 2, 9⟩) (sc' := ⟨a!" 2", 2, 9, .name⟩) ?_ ?_
  · intro pol log
    have h1 := C01_lex_sep .cif2 [.blank 32] (a!"_y 2") 2 6 .blockHead .end_ pol log (by decide) (by decide)
      (Or.inr (by intro b rest h; cases h)) (by decide)
    exact h1.trans (C01_lex_name .cif2 (a!"y") (a!" 2") 2 7 .end_ pol log rfl (by decide) (by decide))
  refine C01_feeds_of_lex (t := ⟨.value, a!"2", 2, 11⟩) (sc' := ⟨[], 2, 11, .value⟩) ?_ ?_
  · intro pol log
    exact C01_lex_value_after_ws .cif2 [.blank 32] .bare (a!"2") [] 2 9 .name pol log (by decide)
      (Or.inr (by intro b rest h; cases h)) (by decide) (by decide) (by decide) (by decide) (by decide) (by decide)
  refine C01_feeds_of_lex (t := ⟨.end_, [], 2, 11⟩) (sc' := ⟨[], 2, 11, .end_⟩) ?_ (Feeds.nil _)
  · intro pol log; rfl

theorem no_block_header_applied :
    ∃ r, parseCif o (12 + 1 + 1) sN acceptAll { log := [], cif := [] }
        = .ok () { log := r :: [], cif := denoteBlock o.dia o.normKey { code := [], body := [.plain (.item (a!"_x") (.str (a!"1") .bare))] }
            :: denote o.dia o.normKey [{ code := a!"b", body := [.plain (.item (a!"_y") (.str (a!"2") .bare))] }] }
      ∧ r.code = Gen.ErrCodes.CIF_NO_BLOCK_HEADER :=
  C12_no_block_header o (.plain (.item (a!"_x") (.str (a!"1") .bare))) [] [{ code := a!"b", body := [.plain (.item (a!"_y") (.str (a!"2") .bare))] }]
    sN 12 { log := [], cif := [] } rfl (by decide) rfl (by decide +kernel) (by decide +kernel) (by decide +kernel) (by decide +kernel) feedsN

end CifModel.ReviewC12
