import CifModel.Lemmas.Ustream
import CifModel.Lemmas.UstreamConv
import CifModel.Props.C08
/-
  CifModel.Props.C08Stream — properties C08 / C03 / C11 at the BYTE level: the character source `ustream_read_chars`
  (Model/Ustream.lean) delivers, whatever the request sizes and wherever the 4096-byte refills and the destination ends
  fall relative to multi-byte characters, exactly the one-shot decoding of the file; every call returns; nothing is read
  twice or skipped.  The converter is a parameter constrained by `Laws`; `utf8_incremental` / `utf16_incremental`
  (Lemmas/UstreamConv.lean) show that the UTF-8 and UTF-16LE/BE converters of the model meet it.
-/
namespace CifModel
open Model.Ustream Model.Fill Spec.Eol

/-- the buffer size of the tree is non-zero ("assumes the buffer size is nonzero", ciffile.c) — re-decided on every run -/
theorem C08_ustream_buffer_link : 1 ≤ bufferSize := by decide

/-- **C08 (byte level).**  For EVERY converter meeting the contract, every byte string, both set-ups of `cif_parse`
    (first block sniffed / nothing read), every buffer size ≥ 1, every callback that accepts all reports and every sequence
    of request sizes `count ≥ 1` long enough to reach the end: the calls split into a first part, each returning a
    positive number = the number of units it delivered, and a non-empty rest, each returning 0 and delivering nothing (the
    end is reported after the last unit and stays reported); the concatenation of the units delivered is the ONE-SHOT
    decoding of the whole file (ill-formed sequences replaced); no call fails. -/
theorem C08_ustream_any_requests (c : Conv) (L : Laws c) (pol : Policy) (hacc : Accepting pol) (repl B : Nat)
    (hB : 1 ≤ B) (bytes : List Nat) (sniffed : Bool) (counts : List Int) (hc : ∀ n ∈ counts, 1 ≤ n)
    (hlen : (decodeAll c repl bytes).length < counts.length) :
    ∃ pre post, runCalls c pol repl B (initStream c B bytes sniffed) counts = pre ++ post ∧ post ≠ [] ∧
      (∀ r ∈ pre, 0 < r.ret ∧ r.ret = r.units.length ∧ r.err = 0) ∧
      (∀ r ∈ post, r.ret = 0 ∧ r.units = [] ∧ r.err = 0 ∧ r.st.eof > 0) ∧
      pre.flatMap (·.units) = decodeAll c repl bytes ∧ pre.length + post.length = counts.length := by
  have h := runCalls_accepting L pol hacc repl hB counts (initStream c B bytes sniffed) (wf_init B bytes sniffed) hc
    (by rw [den_init]; exact hlen)
  rw [den_init] at h
  exact h

/-- the same for the tree's UTF-8 set-up: `ucnv_open("UTF-8")`, BUFFER_SIZE of the tree -/
theorem C08_ustream_any_requests_utf8 (pol : Policy) (hacc : Accepting pol) (repl : Nat) (bytes : List Nat)
    (sniffed : Bool) (counts : List Int) (hc : ∀ n ∈ counts, 1 ≤ n)
    (hlen : (decodeAll utf8 repl bytes).length < counts.length) :
    ∃ pre post, runCalls utf8 pol repl bufferSize (initStream utf8 bufferSize bytes sniffed) counts = pre ++ post ∧
      post ≠ [] ∧ (∀ r ∈ pre, 0 < r.ret ∧ r.ret = r.units.length ∧ r.err = 0) ∧
      (∀ r ∈ post, r.ret = 0 ∧ r.units = [] ∧ r.err = 0 ∧ r.st.eof > 0) ∧
      pre.flatMap (·.units) = decodeAll utf8 repl bytes ∧ pre.length + post.length = counts.length :=
  C08_ustream_any_requests utf8 utf8_incremental pol hacc repl bufferSize C08_ustream_buffer_link bytes sniffed counts hc hlen

/-- … and for UTF-16LE / UTF-16BE -/
theorem C08_ustream_any_requests_utf16 (be : Bool) (pol : Policy) (hacc : Accepting pol) (repl : Nat) (bytes : List Nat)
    (sniffed : Bool) (counts : List Int) (hc : ∀ n ∈ counts, 1 ≤ n)
    (hlen : (decodeAll (utf16 be) repl bytes).length < counts.length) :
    ∃ pre post, runCalls (utf16 be) pol repl bufferSize (initStream (utf16 be) bufferSize bytes sniffed) counts
        = pre ++ post ∧
      post ≠ [] ∧ (∀ r ∈ pre, 0 < r.ret ∧ r.ret = r.units.length ∧ r.err = 0) ∧
      (∀ r ∈ post, r.ret = 0 ∧ r.units = [] ∧ r.err = 0 ∧ r.st.eof > 0) ∧
      pre.flatMap (·.units) = decodeAll (utf16 be) repl bytes ∧ pre.length + post.length = counts.length :=
  C08_ustream_any_requests (utf16 be) (utf16_incremental be) pol hacc repl bufferSize C08_ustream_buffer_link bytes sniffed
    counts hc hlen

/-- non-vacuity / instance: 'a', U+00E9, U+1F600 (4 bytes), a stray 0xFF and a sequence truncated by the end of the file,
    asked for one unit at a time: the surrogate pair is split between two calls, both replacement units arrive, then 0 -/
example : (runCalls utf8 acceptAll 0xFFFD 4 (initStream utf8 4 [0x61, 0xC3, 0xA9, 0xF0, 0x9F, 0x98, 0x80, 0xFF, 0xE2, 0x82] true)
      [1, 1, 1, 1, 1, 1, 1, 1]).map (fun r => (r.ret, r.units))
    = [(1, [0x61]), (1, [0xE9]), (1, [0xD83D]), (1, [0xDE00]), (1, [0xFFFD]), (1, [0xFFFD]), (0, []), (0, [])] := by
  decide

example : decodeAll utf8 0xFFFD [0x61, 0xC3, 0xA9, 0xF0, 0x9F, 0x98, 0x80, 0xFF, 0xE2, 0x82]
    = [0x61, 0xE9, 0xD83D, 0xDE00, 0xFFFD, 0xFFFD] := by decide

/-- **per call** (any policy): a call with `count ≥ 1` on an unfinished stream either fails (−1, a non-zero error code, no
    units), or returns the number of units delivered, at most `count`; 0 only when the stream has ended; what was still to
    come = the units delivered ++ what is still to come afterwards -/
theorem C08_ustream_call (c : Conv) (L : Laws c) (pol : Policy) (repl B : Nat) (hB : 1 ≤ B) (u : UState c) (count : Int)
    (hc : 1 ≤ count) (hw : Wf u) (he : u.eof ≤ 0) :
    CallOk c pol repl count.toNat u (readChars c pol repl B u count) :=
  readChars_spec L pol repl hB u count hc hw he

/-- **no byte is read twice or skipped** (ANY policy, ANY request sizes incl. ≤ 0): after every call the bytes in front of
    the converter (rest of the byte buffer, then the rest of the file) are exactly the file without its first `fed` bytes,
    `fed` = the number of bytes the converter has consumed; and when the stream has ended every byte has been consumed -/
theorem C08_ustream_bytes_conserved (c : Conv) (L : Laws c) (pol : Policy) (repl B : Nat) (hB : 1 ≤ B)
    (bytes : List Nat) (sniffed : Bool) (counts : List Int) :
    ∀ r ∈ runCalls c pol repl B (initStream c B bytes sniffed) counts,
      bytes.drop r.st.fed = r.st.buf ++ r.st.file ∧ r.st.fed ≤ bytes.length ∧ (r.st.eof > 0 → r.st.fed = bytes.length) := by
  intro r hr
  exact (runCalls_inv L pol repl hB bytes counts _ (wf_init B bytes sniffed) (conserved_init B bytes sniffed) r hr).2.2

example : ((runCalls utf8 acceptAll 0xFFFD 4 (initStream utf8 4 [0x61, 0xC3, 0xA9, 0xF0, 0x9F, 0x98, 0x80, 0x62] false)
      [2, 0, 1, 5, 5]).map (fun r => r.st.fed)) = [3, 3, 7, 8, 8] := by decide

/-- **C03 (byte level): every call returns** — the model's loops (`do … while (num_read == 0)` with its refills; the
    converter / callback loop inside `ucnv_toUnicode`) never run out of the fuel the model gives them (return value −2),
    for ANY callback policy, any request sizes, any bytes: each refill shortens the file, each report consumes input or
    simplifies the converter state (`Laws.progress`) -/
theorem C03_ustream_total (c : Conv) (L : Laws c) (pol : Policy) (repl B : Nat) (hB : 1 ≤ B)
    (bytes : List Nat) (sniffed : Bool) (counts : List Int) :
    ∀ r ∈ runCalls c pol repl B (initStream c B bytes sniffed) counts, r.ret ≠ -2 := by
  intro r hr
  exact (runCalls_inv L pol repl hB bytes counts _ (wf_init B bytes sniffed) (conserved_init B bytes sniffed) r hr).1

/-- **C03: a refused report stops the stream with the callback's answer** — whenever a call returns −1 its error code is
    non-zero, it delivered nothing, and nothing is called afterwards (it is the last element of the run) -/
theorem C03_ustream_refusal_is_last (c : Conv) (pol : Policy) (repl B : Nat) :
    ∀ (counts : List Int) (u : UState c) (pre post : List (CallR c)) (r : CallR c),
      runCalls c pol repl B u counts = pre ++ r :: post → r.ret < 0 → post = [] := by
  intro counts
  induction counts with
  | nil => intro u pre post r h; simp [runCalls] at h
  | cons n ns ih =>
    intro u pre post r h hr
    unfold runCalls at h
    cases pre with
    | nil =>
      simp only [List.nil_append, List.cons.injEq] at h
      obtain ⟨h1, h2⟩ := h
      rw [h1, if_pos hr] at h2
      exact h2.symm
    | cons p pre =>
      simp only [List.cons_append, List.cons.injEq] at h
      obtain ⟨h1, h2⟩ := h
      split at h2
      · simp at h2
      · exact ih _ pre post r h2 hr

/-- the pinned behaviour behind finding F-source-minus-one: a callback answering −1 to a report of the character source
    makes `ustream_read_chars` return −1 with error code −1 (which `get_more_chars` hands on and every caller compares
    with CIF_EOF = −1) -/
theorem C03_cex_source_minus_one :
    (runCalls utf8 (fun _ _ => -1) 0xFFFD 4096 (initStream utf8 4096 [0x61, 0xFF, 0x62] true) [5, 5]).map
      (fun r => (r.ret, r.err, r.reports)) = [(-1, -1, [102])] := by decide

/-- `utf8_incremental` (Lemmas/UstreamConv.lean) under the property's name: the model's UTF-8 converter (tied to ICU's by
    family `ustream`) meets the contract of an incremental converter -/
theorem C08_utf8_incremental : Laws utf8 := utf8_incremental

theorem C08_utf16_incremental (be : Bool) : Laws (utf16 be) := utf16_incremental be

/-- C11: the converters `cif_parse` opens for a BOM-signalled UTF-16 file meet the contract, so everything proved about the
    stream (`C08_ustream_any_requests`, `C08_bytes_to_scanner`, `C03_ustream_total`) holds for them -/
theorem C11_utf16_incremental (be : Bool) : Laws (utf16 be) := utf16_incremental be

/-! ### C11: the same text in UTF-8 and in UTF-16 -/

/-- UTF-8 form of a scalar value -/
def utf8Enc (cp : Nat) : List Nat :=
  if cp < 0x80 then [cp]
  else if cp < 0x800 then [0xC0 + cp / 0x40, 0x80 + cp % 0x40]
  else if cp < 0x10000 then [0xE0 + cp / 0x1000, 0x80 + cp / 0x40 % 0x40, 0x80 + cp % 0x40]
  else [0xF0 + cp / 0x40000, 0x80 + cp / 0x1000 % 0x40, 0x80 + cp / 0x40 % 0x40, 0x80 + cp % 0x40]

/-- UTF-16BE / UTF-16LE form of a scalar value -/
def utf16Enc (be : Bool) (cp : Nat) : List Nat :=
  (utf16Units cp).flatMap (fun u => if be = true then [u / 256, u % 256] else [u % 256, u / 256])

def isScalar (cp : Nat) : Prop := cp < 0x110000 ∧ ¬ (0xD800 ≤ cp ∧ cp ≤ 0xDFFF)

/-- FULL statement (NOT proved): a text of Unicode scalar values (a leading U+FEFF included) encoded in UTF-8 and in
    UTF-16BE/LE decodes, through the model's converters, to the same UTF-16 units — hence, with
    `C08_ustream_any_requests`, the scanner is handed the same stream whatever the signature-recognised encoding.
    Missing: the round-trip arithmetic of the 2-, 3- and 4-byte forms and of surrogate pairs. -/
def C11_same_units_any_signature_full : Prop :=
  ∀ (text : List Nat) (be : Bool) (repl : Nat), (∀ cp ∈ text, isScalar cp) →
    decodeAll utf8 repl (text.flatMap utf8Enc) = text.flatMap utf16Units ∧
    decodeAll (utf16 be) repl (text.flatMap (utf16Enc be)) = text.flatMap utf16Units

theorem evs_emit {t : Trans} {s s' : t.σ} {b : Nat} {us : List Nat} (h : t.feed s b = .emit us s') (rest : List Nat) :
    t.evs s (b :: rest) = us.map .unit ++ t.evs s' rest := by
  conv => lhs; unfold Trans.evs
  simp only [h]

theorem utf8_evs_ascii (cp : Nat) (h : cp < 0x80) (bs : List Nat) :
    utf8T.evs [] (cp :: bs) = .unit cp :: utf8T.evs [] bs := by
  have hf : utf8T.feed [] cp = .emit [cp] [] := by simp [utf8T, utf8Feed, h]
  rw [evs_emit hf]; rfl

theorem utf16_evs_ascii (be : Bool) (cp : Nat) (h : cp < 0x80) (bs : List Nat) :
    (utf16T be).evs [] (utf16Enc be cp ++ bs) = .unit cp :: (utf16T be).evs [] bs := by
  have h1 : cp / 256 = 0 := by omega
  have h2 : cp % 256 = cp := by omega
  have h3 : utf16Units cp = [cp] := by unfold utf16Units; rw [if_pos (by omega)]
  have hl : isLead cp = false := by simp [isLead]; omega
  have ht : isTrail cp = false := by simp [isTrail]; omega
  cases be
  · have e : utf16Enc false cp ++ bs = cp :: 0 :: bs := by simp [utf16Enc, h3, h1, h2]
    have f1 : (utf16T false).feed [] cp = .emit [] [cp] := rfl
    have f2 : (utf16T false).feed [cp] 0 = .emit [cp] [] := by simp [utf16T, utf16Feed, unit16, hl, ht]
    rw [e, evs_emit f1, evs_emit f2]; rfl
  · have e : utf16Enc true cp ++ bs = 0 :: cp :: bs := by simp [utf16Enc, h3, h1, h2]
    have f1 : (utf16T true).feed [] 0 = .emit [] [0] := rfl
    have f2 : (utf16T true).feed [0] cp = .emit [cp] [] := by simp [utf16T, utf16Feed, unit16, hl, ht]
    rw [e, evs_emit f1, evs_emit f2]; rfl

/-- PROVED PART of `C11_same_units_any_signature_full`: for ASCII text (the characters CIF syntax itself is made of) -/
theorem C11_same_units_any_signature_partial (text : List Nat) (be : Bool) (repl : Nat) (h : ∀ cp ∈ text, cp < 0x80) :
    decodeAll utf8 repl (text.flatMap utf8Enc) = text.flatMap utf16Units ∧
    decodeAll (utf16 be) repl (text.flatMap (utf16Enc be)) = text.flatMap utf16Units := by
  induction text with
  | nil => constructor <;> rfl
  | cons cp rest ih =>
    have hcp : cp < 0x80 := h cp (by simp)
    have ih' := ih (fun x hx => h x (by simp [hx]))
    have h3 : utf16Units cp = [cp] := by unfold utf16Units; rw [if_pos (by omega)]
    constructor
    · have := ih'.1
      simp only [decodeAll, utf8, Trans.toConv, List.map_nil, List.nil_append] at this ⊢
      simp only [List.flatMap_cons, utf8Enc, if_pos hcp, List.singleton_append, h3]
      have e := utf8_evs_ascii cp hcp (List.flatMap utf8Enc rest)
      change utf8T.evs utf8T.init _ = .unit cp :: utf8T.evs utf8T.init _ at e
      rw [e]
      simp only [render]
      rw [this]
    · have := ih'.2
      simp only [decodeAll, utf16, Trans.toConv, List.map_nil, List.nil_append] at this ⊢
      simp only [List.flatMap_cons, h3, List.singleton_append]
      have e := utf16_evs_ascii be cp hcp (List.flatMap (utf16Enc be) rest)
      change (utf16T be).evs (utf16T be).init _ = .unit cp :: (utf16T be).evs (utf16T be).init _ at e
      rw [e]
      simp only [render]
      rw [this]

example : decodeAll utf8 0xFFFD ([0x23, 0x5C, 0x23, 0x43].flatMap utf8Enc) = [0x23, 0x5C, 0x23, 0x43] ∧
    decodeAll (utf16 false) 0xFFFD ([0x23, 0x5C, 0x23, 0x43].flatMap (utf16Enc false)) = [0x23, 0x5C, 0x23, 0x43] := by decide

/-- the non-empty deliveries of a run, as a chunked character source for `get_first_char` / `get_more_chars` -/
def deliveries {c : Conv} (rs : List (CallR c)) : List Str := (rs.map (·.units)).filter (· ≠ [])

/-- **C08: bytes → scanner.**  The units `ustream_read_chars` delivers under ANY request sequence, taken as the chunked
    source of Model/Fill (`get_first_char` then `get_more_chars` with any request sizes), are handed to the scanner as
    `normalizeEOL (decode bytes)`: refill boundaries, destination ends and CR LF pairs may fall anywhere. -/
theorem C08_bytes_to_scanner (c : Conv) (L : Laws c) (pol : Policy) (hacc : Accepting pol) (repl B : Nat)
    (hB : 1 ≤ B) (bytes : List Nat) (sniffed : Bool) (reqs : List Int) (hr : ∀ n ∈ reqs, 1 ≤ n)
    (hlen : (decodeAll c repl bytes).length < reqs.length)
    (counts : List Nat) (hc : ∀ n ∈ counts, 1 ≤ n) (hlen2 : (decodeAll c repl bytes).length ≤ counts.length) :
    seen counts ⟨deliveries (runCalls c pol repl B (initStream c B bytes sniffed) reqs)⟩
      = normalizeEOL (decodeAll c repl bytes) := by
  obtain ⟨pre, post, hrun, _, hpre, hpost, hflat, _⟩ :=
    C08_ustream_any_requests c L pol hacc repl B hB bytes sniffed reqs hr hlen
  have hd : deliveries (runCalls c pol repl B (initStream c B bytes sniffed) reqs) = pre.map (·.units) := by
    unfold deliveries
    rw [hrun, List.map_append, List.filter_append]
    have h1 : (post.map (·.units)).filter (· ≠ []) = [] := by
      rw [List.filter_eq_nil_iff]
      intro x hx
      simp only [List.mem_map] at hx
      obtain ⟨r, hr, rfl⟩ := hx
      simp [(hpost r hr).2.1]
    have h2 : (pre.map (·.units)).filter (· ≠ []) = pre.map (·.units) := by
      rw [List.filter_eq_self]
      intro x hx
      simp only [List.mem_map] at hx
      obtain ⟨r, hr, rfl⟩ := hx
      have := hpre r hr
      have hne : r.units ≠ [] := by
        intro h0; rw [h0] at this; simp at this; omega
      simpa using hne
    rw [h1, h2, List.append_nil]
  have hfl : (pre.map (·.units)).flatten = decodeAll c repl bytes := by
    rw [← hflat, List.flatMap_def]
  rw [hd, ← hfl]
  apply C08_fold_any_chunking _ counts _ hc (by rw [hfl]; exact hlen2)
  intro x hx
  simp only [List.mem_map] at hx
  obtain ⟨r, hr, rfl⟩ := hx
  have := hpre r hr
  intro h0; rw [h0] at this; simp at this; omega

example : seen [4, 4, 4, 4, 4, 4] ⟨deliveries (runCalls utf8 acceptAll 0xFFFD 3
      (initStream utf8 3 [0x61, 0x0D, 0x0A, 0xC3, 0xA9, 0x0D, 0x62] true) [2, 2, 2, 2, 2, 2, 2])⟩
    = [0x61, 0x0A, 0xE9, 0x0A, 0x62] := by decide

end CifModel
