import CifModel.Model.Analyze
/-
  Property C18 — string analysis and quoting rules agree with what the parser reads back.
-/
namespace CifModel
open Model

/-- the recommended delimiter is one the arguments permit: whitespace-delimited only with `allow_unquoted`,
    triple-quoted only with `allow_triple_quoted` -/
theorem C18_delim_permitted (s : Str) (unq tri : Bool) (limit : Nat) :
    (recommend s unq tri limit = .none → unq = true) ∧
    ((recommend s unq tri limit = .apos3 ∨ recommend s unq tri limit = .quot3) → tri = true) := by
  unfold recommend chooseDelim unquotedOk
  constructor
  · intro h; cases unq
    · simp at h; (repeat' split at h) <;> cases h
    · rfl
  · intro h; cases tri
    · simp at h; rcases h with h | h <;> ((repeat' split at h) <;> cases h)
    · rfl

end CifModel
