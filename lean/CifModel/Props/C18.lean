import CifModel.Lemmas.AnalyzeQuote
import CifModel.Lemmas.AnalyzeReadback
import CifModel.Props.C01
/-
  Property C18 — string analysis and quoting rules agree with what the parser reads back.

  Model: `CifModel.Model.Analyze` (cif_analyze_string, cif_is_reserved_string, cif_value_set_quoted / try_quoted), tied to
  /repo by the correspondence families `analyze`, `reserved`, `setq`.  Spec: `CifModel.Spec.Analyze`.
  All theorems quantify over EVERY string (list of code units); NUL-freeness (`0 ∉ s`, true of every C string) is assumed only
  where the C reads the terminator.
-/
namespace CifModel
open Model Spec Lemmas.Analyze

/-- C18, statistics: for every string and all arguments, the reported statistics are those of the line decomposition —
    length; number of lines; length of the first, last and longest line; longest run of semicolons; presence of a line
    terminator directly followed by `;`; some line (the last included) ending in a blank.  CR LF and a lone CR are line
    terminators like LF (`Spec.splitLines`). -/
theorem C18_stats_exact (s : Str) (unq tri : Bool) (limit : Nat) :
    (analyze s unq tri limit).length = s.length ∧
    (analyze s unq tri limit).numLines = (splitLines s).length ∧
    (analyze s unq tri limit).lengthFirst = ((splitLines s).headD []).length ∧
    (analyze s unq tri limit).lengthLast = ((splitLines s).getLastD []).length ∧
    (analyze s unq tri limit).lengthMax = maxLen (splitLines s) ∧
    (analyze s unq tri limit).maxSemiRun = maxRun s ∧
    (analyze s unq tri limit).containsTextDelim = (splitLines s).tail.any startsSemi ∧
    (analyze s unq tri limit).hasTrailingWs = (splitLines s).any (endsWith isBlankOrVT) ∧
    (11 ∉ s → (analyze s unq tri limit).hasTrailingWs = (splitLines s).any (endsWith isBlank)) := by
  cases hL : splitLines s with
  | nil => exact absurd hL (splitLines_ne_nil s)
  | cons l0 ls =>
    obtain ⟨h1, h2, h3, h4, h5, h6, h7, h8⟩ := counters_stats s l0 ls hL
    have h8' : (counters s).hasTrailingWs = (l0 :: ls).any (endsWith isBlankOrVT) := by
      have e : (lineEnds false) = endsWith isBlankOrVT := funext lineEnds_false_eq
      rw [h8, e]
    refine ⟨h1, h2, h3, h4, h5, h6, h7, h8', ?_⟩
    intro hv
    show (counters s).hasTrailingWs = _
    rw [h8']
    have key : ∀ (L : List Str), (∀ l ∈ L, 11 ∉ l) → L.any (endsWith isBlankOrVT) = L.any (endsWith isBlank) := by
      intro L
      induction L with
      | nil => intro _; rfl
      | cons a b ih =>
        intro h
        simp only [List.any_cons]
        rw [endsWith_noVT a (h a (by simp)), ih (fun l hl => h l (by simp [hl]))]
    exact key _ (fun l hl h => hv (mem_of_mem_splitLines s l 11 (hL ▸ hl) h))


/-- `maxRun` is the declared quantity: a run of `k` semicolons occurs at the head of some suffix iff `k ≤ maxRun s` -/
theorem C18_maxRun_spec (s : Str) (k : Nat) : (∃ t, t <:+ s ∧ k ≤ leadRun t) ↔ k ≤ maxRun s := by
  induction s with
  | nil =>
    constructor
    · rintro ⟨t, ht, hk⟩; have : t = [] := List.suffix_nil.mp ht; subst this; simpa [leadRun, maxRun] using hk
    · intro h; exact ⟨[], List.suffix_refl _, by simpa [maxRun, leadRun] using h⟩
  | cons c rest ih =>
    constructor
    · rintro ⟨t, ht, hk⟩
      rcases List.suffix_cons_iff.mp ht with rfl | ht'
      · simp only [maxRun]; omega
      · have := ih.1 ⟨t, ht', hk⟩; simp only [maxRun]; omega
    · intro h
      simp only [maxRun] at h
      by_cases h1 : k ≤ leadRun (c :: rest)
      · exact ⟨c :: rest, List.suffix_refl _, h1⟩
      · obtain ⟨t, ht, hk⟩ := ih.2 (by omega)
        exact ⟨t, List.suffix_cons_iff.mpr (Or.inr ht), hk⟩

/-- C18, the recommended delimiter is one the arguments permit: whitespace-delimited only with `allow_unquoted`,
    triple-quoted only with `allow_triple_quoted` -/
theorem C18_delim_permitted (s : Str) (unq tri : Bool) (limit : Nat) :
    (recommend s unq tri limit = .none → unq = true) ∧
    ((recommend s unq tri limit = .apos3 ∨ recommend s unq tri limit = .quot3) → tri = true) := by
  unfold recommend chooseDelim unquotedOk
  constructor
  · intro h; cases unq
    · simp at h; (repeat' split at h) <;> cases h
    · rfl
  · intro h; cases tri
    · simp at h; rcases h with h | h <;> ((repeat' split at h) <;> cases h)
    · rfl

/-- C18, the recommended delimiter is admissible for the string and fits the limit: whitespace-delimited only for a string
    that CIF 2.0 allows in that form at any position; a single-quote form only for a string that does not contain that quote;
    the triple forms only for a string that neither contains the triple delimiter nor ends with its character; and the
    delimited first / last line stays within `limit`.  (`analyze` reports exactly `recommend` — by definition.) -/
theorem C18_delim_admissible (s : Str) (unq tri : Bool) (limit : Nat) (h0 : 0 ∉ s) :
    (recommend s unq tri limit = .none → (∀ c ∈ s, c ≠ 32 ∧ c ≠ 9 ∧ c ≠ 91 ∧ c ≠ 93 ∧ c ≠ 123 ∧ c ≠ 125) ∧ ¬ reservedForm s ∧ s ≠ [] ∧ s.head? ≠ some 59 ∧
        s ≠ [63] ∧ s ≠ [46] ∧ (counters s).numLines = 1 ∧ (counters s).maxLine ≤ limit) ∧
    (recommend s unq tri limit = .apos → 39 ∉ s ∧ (counters s).numLines = 1 ∧ (counters s).maxLine + 2 ≤ limit) ∧
    (recommend s unq tri limit = .quot → 34 ∉ s ∧ (counters s).numLines = 1 ∧ (counters s).maxLine + 2 ≤ limit) ∧
    (recommend s unq tri limit = .apos3 → tripleOk 39 s = true ∧
        (if (counters s).numLines = 1 then (counters s).maxLine + 6 ≤ limit
         else (counters s).firstLine + 3 ≤ limit ∧ (counters s).thisLine + 3 < limit ∧ (counters s).maxLine ≤ limit)) ∧
    (recommend s unq tri limit = .quot3 → tripleOk 34 s = true ∧
        (if (counters s).numLines = 1 then (counters s).maxLine + 6 ≤ limit
         else (counters s).firstLine + 3 ≤ limit ∧ (counters s).thisLine + 3 < limit ∧ (counters s).maxLine ≤ limit)) := by
  unfold recommend chooseDelim
  refine ⟨?_, ?_, ?_, ?_, ?_⟩
  · intro h
    by_cases hm : (counters s).maxLine ≤ limit
    · by_cases hn : (counters s).numLines = 1
      · by_cases hu : unquotedOk s unq = true
        · -- the conjunction of the C's test, read back as the CIF 2.0 rule
          have hu' := hu
          simp only [unquotedOk, Bool.and_eq_true, decide_eq_true_eq, beq_iff_eq, bne_iff_ne, Bool.or_eq_true,
            Bool.not_eq_true', ne_eq] at hu'
          obtain ⟨⟨⟨⟨⟨⟨⟨⟨⟨⟨_, hlen⟩, hcnt⟩, q1⟩, q2⟩, q3⟩, q4⟩, q5⟩, q6⟩, q7⟩, hres⟩ := hu'
          have hne : s ≠ [] := by intro e; subst e; simp at hlen
          have hnd : ∀ c ∈ s, c ≠ 32 ∧ c ≠ 9 ∧ c ≠ 91 ∧ c ≠ 93 ∧ c ≠ 123 ∧ c ≠ 125 := by
            intro c hc
            have e32 : cnt s 32 = 0 := by omega
            have e9 : cnt s 9 = 0 := by omega
            have e91 : cnt s 91 = 0 := by omega
            have e93 : cnt s 93 = 0 := by omega
            have e123 : cnt s 123 = 0 := by omega
            have e125 : cnt s 125 = 0 := by omega
            rw [cnt_zero] at e32 e9 e91 e93 e123 e125
            exact ⟨fun e => e32 (e ▸ hc), fun e => e9 (e ▸ hc), fun e => e91 (e ▸ hc), fun e => e93 (e ▸ hc),
                   fun e => e123 (e ▸ hc), fun e => e125 (e ▸ hc)⟩
          have hnr : ¬ reservedForm s := fun hr => by rw [(isReserved_iff s h0).2 hr] at hres; cases hres
          refine ⟨hnd, hnr, hne, ?_, ?_, ?_, hn, hm⟩
          · intro e; cases s with
            | nil => exact hne rfl
            | cons a r => simp at e; subst e; simp [unitAt] at q6
          · intro e; subst e; simp [unitAt] at q7
          · intro e; subst e; simp [unitAt] at q7
        · simp only [hm, hn, hu, if_true, if_false] at h
          (repeat' split at h) <;> first | (cases h; done) | (simp_all; done)
      · simp only [hm, hn, if_true, if_false] at h
        (repeat' split at h) <;> first | (cases h; done) | (simp_all; done)
    · simp only [hm, if_false] at h; cases h
  all_goals
    intro h
    by_cases hm : (counters s).maxLine ≤ limit
    · by_cases hn : (counters s).numLines = 1
      · simp only [hm, hn, if_true] at h ⊢
        (repeat' split at h) <;> first | (cases h; done) | (simp_all [cnt_zero]; done) | (simp_all [cnt_zero]; omega)
      · simp only [hm, hn, if_true, if_false] at h ⊢
        (repeat' split at h) <;> first | (cases h; done) | (simp_all [cnt_zero]; done) | (simp_all [cnt_zero]; omega)
    · simp only [hm, if_false] at h; cases h

/-- C18, simple forms preferred: a string that is a single line (no CR, no LF) with two units of room is recommended
    whitespace-delimited whenever that is allowed and CIF 2.0 admits it at any position, and otherwise single-quoted whenever
    one of the two quote characters does not occur in it — never triple-quoted or as a text field. -/
theorem C18_prefers_simple (s : Str) (unq tri : Bool) (limit : Nat) (h0 : 0 ∉ s)
    (hline : ∀ c ∈ s, c ≠ 10 ∧ c ≠ 13) (hroom : s.length + 2 ≤ limit) :
    (unq = true → wsDelimitableAnywhere s → recommend s unq tri limit = .none) ∧
    ((39 ∉ s ∨ 34 ∉ s) → recommend s unq tri limit = .none ∨ recommend s unq tri limit = .apos ∨ recommend s unq tri limit = .quot) := by
  obtain ⟨hn, hm⟩ := counters_single s hline
  have hml : (counters s).maxLine ≤ limit := by omega
  have hm2 : (counters s).maxLine + 2 ≤ limit := by omega
  constructor
  · rintro rfl ⟨⟨hne, hlead, hnd, hword⟩, hsemi, hq, hd⟩
    have hu : unquotedOk s true = true := by
      have hres : isReserved s = false := by
        cases hb : isReserved s with
        | false => rfl
        | true =>
          rcases (isReserved_iff s h0).1 hb with ⟨c, hc, hl⟩ | hw
          · exact absurd hl (hlead c hc)
          · exact absurd hw hword
      cases s with
      | nil => exact absurd rfl hne
      | cons a r =>
        have ha := hlead a rfl
        have hcnt : ∀ c, wsOrBracket c → cnt (a :: r) c = 0 := fun c hw => (cnt_zero _ c).2 (fun hc => hnd c hc hw)
        have c1 := hcnt 32 (by simp [wsOrBracket]); have c2 := hcnt 9 (by simp [wsOrBracket])
        have c3 := hcnt 91 (by simp [wsOrBracket]); have c4 := hcnt 93 (by simp [wsOrBracket])
        have c5 := hcnt 123 (by simp [wsOrBracket]); have c6 := hcnt 125 (by simp [wsOrBracket])
        have a1 : a ≠ 95 := fun e => ha (Or.inl e)
        have a2 : a ≠ 35 := fun e => ha (Or.inr (Or.inl e))
        have a3 : a ≠ 36 := fun e => ha (Or.inr (Or.inr (Or.inl e)))
        have a4 : a ≠ 39 := fun e => ha (Or.inr (Or.inr (Or.inr (Or.inl e))))
        have a5 : a ≠ 34 := fun e => ha (Or.inr (Or.inr (Or.inr (Or.inr e))))
        have a6 : a ≠ 59 := fun e => hsemi (by simp [e])
        have a7 : r ≠ [] ∨ (a ≠ 63 ∧ a ≠ 46) := by
          cases r with
          | nil => right; exact ⟨fun e => hq (by simp [e]), fun e => hd (by simp [e])⟩
          | cons b t => left; simp
        simp only [unquotedOk, unitAt, List.getD_cons_zero, c1, c2, c3, c4, c5, c6, hres]
        rcases a7 with h | ⟨h1, h2⟩
        · cases r with
          | nil => exact absurd rfl h
          | cons b t => simp [a1, a2, a3, a4, a5, a6]
        · simp [a1, a2, a3, a4, a5, a6, h1, h2]
    unfold recommend chooseDelim
    simp [hml, hn, hu]
  · intro hq
    unfold recommend chooseDelim
    simp only [hml, hn, if_true]
    by_cases hu : unquotedOk s unq = true
    · simp [hu]
    · rcases hq with h | h
      · have : cnt s 39 = 0 := (cnt_zero s 39).2 h
        simp [hu, hm2, this]
      · have : cnt s 34 = 0 := (cnt_zero s 34).2 h
        by_cases h39 : cnt s 39 = 0
        · simp [hu, hm2, h39]
        · simp [hu, hm2, h39, this]

/-- C18, `cif_is_reserved_string` is true exactly for strings with a reserved first character or of reserved-word form -/
theorem C18_reserved_iff (s : Str) (h0 : 0 ∉ s) : isReserved s = true ↔ reservedForm s := isReserved_iff s h0

/-- C18, `cif_value_set_quoted(value, CIF_NOT_QUOTED)` on a quoted character value: succeeds exactly when the text is a CIF 2.0
    whitespace-delimited string (or is `?` / `.`), with the documented outcome — `?` becomes the unknown value, `.` the
    not-applicable value, any other admissible text stays a character value now marked unquoted; every other text is refused
    with CIF_ARGUMENT_ERROR (and the value is unchanged: `.error` carries no new value). -/
theorem C18_set_unquoted_iff (text : Str) (h0 : 0 ∉ text) :
    (text = [63] → setQuoted false (.chr true text) false = .ok .unk) ∧
    (text = [46] → setQuoted false (.chr true text) false = .ok .na) ∧
    (text ≠ [63] → text ≠ [46] → cif2WsDelimitable text → setQuoted false (.chr true text) false = .ok (.chr false text)) ∧
    (¬ cif2WsDelimitable text → setQuoted false (.chr true text) false = .error Gen.ErrCodes.CIF_ARGUMENT_ERROR) ∧
    ((∃ v, setQuoted false (.chr true text) false = .ok v) ↔ cif2WsDelimitable text) := by
  have hq : cif2WsDelimitable [63] := by
    refine ⟨by simp, ?_, ?_, ?_⟩
    · intro c hc; simp at hc; subst hc; simp [reservedLead]
    · intro c hc; simp at hc; subst hc; simp [wsOrBracket]
    · simp [reservedWord, ciPrefix, ciEq, lowerAscii]
  have hd : cif2WsDelimitable [46] := by
    refine ⟨by simp, ?_, ?_, ?_⟩
    · intro c hc; simp at hc; subst hc; simp [reservedLead]
    · intro c hc; simp at hc; subst hc; simp [wsOrBracket]
    · simp [reservedWord, ciPrefix, ciEq, lowerAscii]
  have A : text = [63] → setQuoted false (.chr true text) false = .ok .unk := by rintro rfl; simp [setQuoted]
  have B : text = [46] → setQuoted false (.chr true text) false = .ok .na := by rintro rfl; simp [setQuoted]
  have C : text ≠ [63] → text ≠ [46] → cif2WsDelimitable text → setQuoted false (.chr true text) false = .ok (.chr false text) := by
    intro h1 h2 hw
    have hne : text ≠ [] := hw.1
    obtain ⟨hr, hn⟩ := (unquotable_iff text h0 hne).2 hw
    simp [setQuoted, hne, h1, h2, hr, hn]
  have D : ¬ cif2WsDelimitable text → setQuoted false (.chr true text) false = .error Gen.ErrCodes.CIF_ARGUMENT_ERROR := by
    intro hw
    have h1 : text ≠ [63] := fun e => hw (e ▸ hq)
    have h2 : text ≠ [46] := fun e => hw (e ▸ hd)
    by_cases hne : text = []
    · subst hne; simp [setQuoted]
    · have hnot := fun h => hw ((unquotable_iff text h0 hne).1 h)
      by_cases hr : isReserved text = true
      · simp [setQuoted, hne, h1, h2, hr]
      · have hr' : isReserved text = false := by cases h : isReserved text <;> simp_all
        have hn : noDisallowed text = false := by
          cases h : noDisallowed text with
          | false => rfl
          | true => exact absurd ⟨hr', h⟩ hnot
        simp only [setQuoted]
        simp [hne, h1, h2, hr', hn]
  refine ⟨A, B, C, D, ?_⟩
  constructor
  · rintro ⟨v, hv⟩
    apply Classical.byContradiction
    intro hw
    rw [D hw] at hv; cases hv
  · intro hw
    by_cases h1 : text = [63]
    · exact ⟨_, A h1⟩
    · by_cases h2 : text = [46]
      · exact ⟨_, B h2⟩
      · exact ⟨_, C h1 h2 hw⟩

/-- **cif_value_set_quoted on every kind of value** (the table of cif.h).  `C18_set_unquoted_iff` is the one case in which the text
    is examined — a QUOTED character value asked to become unquoted.  All other cases, for every value and both targets:
    * unknown / not-applicable: asked QUOTED they become the quoted strings `?` / `.`; asked unquoted they stay;
    * list, table: cannot be quoted (CIF_ARGUMENT_ERROR), asked unquoted they stay;
    * number: only the flag changes;
    * character value already UNQUOTED: the flag is set as asked, whatever the text (no test: an unquoted character value with
      arbitrary text cannot be made through the public API — every initialiser marks the value quoted — only by the parser);
    * quoted character value asked QUOTED: stays. -/
theorem C18_set_quoted_all_kinds (q : Bool) (text : Str) (t : Str) (n : Bool) (d : List Nat) (su : Option (List Nat)) (sc : Int)
    (qn : Bool) (vs : List V) (es : List (Str × Str × V)) :
    setQuoted false .unk q = .ok (if q then .chr true [63] else .unk) ∧
    setQuoted false .na q = .ok (if q then .chr true [46] else .na) ∧
    setQuoted false (.lst vs) q = (if q then .error Gen.ErrCodes.CIF_ARGUMENT_ERROR else .ok (.lst vs)) ∧
    setQuoted false (.tbl es) q = (if q then .error Gen.ErrCodes.CIF_ARGUMENT_ERROR else .ok (.tbl es)) ∧
    setQuoted false (.numb qn t n d su sc) q = .ok (.numb q t n d su sc) ∧
    setQuoted false (.chr false text) q = .ok (.chr q text) ∧
    setQuoted false (.chr true text) true = .ok (.chr true text) := by
  cases q <;> simp [setQuoted]

/-- `cif_value_try_quoted` differs from `cif_value_set_quoted` only in answering CIF_OK, leaving the value as it is, where
    `set_quoted` refuses -/
theorem C18_try_quoted (v : V) (q : Bool) :
    setQuoted true v q = setQuoted false v q ∨ ((∃ c, setQuoted false v q = .error c) ∧ setQuoted true v q = .ok v) := by
  cases v <;> simp [setQuoted] <;> (repeat' split) <;> simp_all

/-- C18 ⇒ lexical grammar: for a string of CIF 2.0 characters, the delimiter `cif_analyze_string` recommends (other than the text
    field) denotes a presentation that the CIF 2.0 lexical grammar (`Spec/Lexical.lean`, written from the specification) admits
    for this string, and that may start at any column. -/
theorem C18_delim_lexically_admissible (s : Str) (unq tri : Bool) (limit : Nat)
    (hchars : Spec.Lexical.okUnits .cif2 none s = true) (hnt : recommend s unq tri limit ≠ .text) :
    Spec.Lexical.admissible .cif2 (presOf (recommend s unq tri limit)) s = true ∧
    ∀ col, Spec.Lexical.startOk (presOf (recommend s unq tri limit)) s col = true := by
  have hu := okUnits_units .cif2 s none hchars
  have h0 : 0 ∉ s := fun h => (hu 0 h).1 rfl
  obtain ⟨A1, A2, A3, A4, A5⟩ := C18_delim_admissible s unq tri limit h0
  cases hd : recommend s unq tri limit with
  | text => exact absurd hd hnt
  | none =>
    obtain ⟨hnd, hnr, hne, hsemi, _, _, hn, _⟩ := A1 hd
    have hterm := counters_one_line s hn
    cases s with
    | nil => exact absurd rfl hne
    | cons c r =>
      have hlead : ¬ reservedLead c := fun h => hnr (Or.inl ⟨c, rfl, h⟩)
      have hword : Spec.Lexical.isReservedWord (c :: r) = false := by
        cases h : Spec.Lexical.isReservedWord (c :: r) with
        | false => rfl
        | true => exact absurd (Or.inr ((reservedWord_iff _).1 h)) hnr
      constructor
      · simp only [presOf, Spec.Lexical.admissible, Spec.Lexical.bareOk, hchars, hword, Bool.true_and, Bool.not_false,
          Bool.and_true, Bool.and_eq_true, List.all_eq_true, Bool.not_eq_true', Bool.or_eq_false_iff, beq_eq_false_iff_ne]
        refine ⟨⟨?_, ?_⟩, ?_⟩
        · intro x hx
          have a := hnd x hx; have b := hterm x hx
          simp [Spec.Lexical.isWs, Spec.Lexical.isBlank, Spec.Lexical.isEol, a.1, a.2.1, b.1]
        · simp only [reservedLead] at hlead
          refine ⟨⟨⟨⟨?_, ?_⟩, ?_⟩, ?_⟩, ?_⟩ <;> (intro e; apply hlead; simp [e])
        · intro x hx
          have a := hnd x hx
          exact ⟨⟨⟨a.2.2.1, a.2.2.2.1⟩, a.2.2.2.2.1⟩, a.2.2.2.2.2⟩
      · intro col
        have : (c :: r).head? ≠ some 59 := hsemi
        simp only [presOf, Spec.Lexical.startOk, Spec.Lexical.semiOk]
        simp at this
        simp [this]
  | apos =>
    obtain ⟨hq, hn, _⟩ := A2 hd
    have hterm := counters_one_line s hn
    refine ⟨?_, fun _ => rfl⟩
    simp only [presOf, Spec.Lexical.admissible, Spec.Lexical.quotedOk, hchars, Bool.true_and, Bool.and_eq_true, List.all_eq_true]
    exact ⟨fun x hx => by simp [Spec.Lexical.isEol, (hterm x hx).1], fun x hx => by
      have hx' : x ≠ 39 := fun e => hq (by rw [← e]; exact hx)
      simpa using hx'⟩
  | quot =>
    obtain ⟨hq, hn, _⟩ := A3 hd
    have hterm := counters_one_line s hn
    refine ⟨?_, fun _ => rfl⟩
    simp only [presOf, Spec.Lexical.admissible, Spec.Lexical.quotedOk, hchars, Bool.true_and, Bool.and_eq_true, List.all_eq_true]
    exact ⟨fun x hx => by simp [Spec.Lexical.isEol, (hterm x hx).1], fun x hx => by
      have hx' : x ≠ 34 := fun e => hq (by rw [← e]; exact hx)
      simpa using hx'⟩
  | apos3 =>
    obtain ⟨ht, _⟩ := A4 hd
    refine ⟨?_, fun _ => rfl⟩
    simp only [Model.tripleOk, Bool.and_eq_true, bne_iff_ne, ne_eq, Bool.not_eq_true'] at ht
    simp only [presOf, Spec.Lexical.admissible, Spec.Lexical.tripleOk, hchars, Bool.and_true, Bool.true_and]
    exact tripleBody_of 39 s 0 (by omega) (fun _ => rfl) ht.1 (by simpa using ht.2)
  | quot3 =>
    obtain ⟨ht, _⟩ := A5 hd
    refine ⟨?_, fun _ => rfl⟩
    simp only [Model.tripleOk, Bool.and_eq_true, bne_iff_ne, ne_eq, Bool.not_eq_true'] at ht
    simp only [presOf, Spec.Lexical.admissible, Spec.Lexical.tripleOk, hchars, Bool.and_true, Bool.true_and]
    exact tripleBody_of 34 s 0 (by omega) (fun _ => rfl) ht.1 (by simpa using ht.2)

/-- **C18, read-back.**  For every string `s` of CIF 2.0 characters, all arguments, whenever the recommended delimiter `δ` is
    not the text field: the presentation `δ s δ`, behind ANY run of whitespace and comments `w`, from any scanner state, at any
    position at which no line ending inside it exceeds 2048 characters (`hfitw`, `hfit`), followed by anything that may follow
    a value, is read by the CIF 2.0 scanner (`next_token`, model of group gD, theorem `C01_lex_value_after_ws`) as ONE value token
    whose text is exactly `s` — quoted iff `δ` is not empty —, consuming exactly the presentation, reporting nothing, for every
    error-callback policy. -/
theorem C18_delim_reads_back (s ctx : Str) (unq tri : Bool) (limit : Nat) (w : List Spec.Lexical.WsAtom) (line col : Nat)
    (lt : TokType) (pol : Model.Lexer.Policy) (log : List Model.Lexer.Report)
    (hchars : Spec.Lexical.okUnits .cif2 none s = true) (hnt : recommend s unq tri limit ≠ .text)
    (hok : ∀ a ∈ w, a.ok .cif2 = true)
    (hfirst : Model.Lexer.afterWsOf lt = true ∨ ∀ b rest, w ≠ Spec.Lexical.WsAtom.comment b :: rest)
    (hws : (Model.Lexer.afterWsOf lt || !w.isEmpty) = true)
    (hfitw : Spec.Lexical.linesFit col (Spec.Lexical.renderWs w) = true)
    (hfit : Spec.Lexical.linesFit (Spec.Lexical.posAfter line col (Spec.Lexical.renderWs w)).2
              ((recommend s unq tri limit).units ++ s ++ (recommend s unq tri limit).units) = true)
    (hctx : Spec.Lexical.followOk .cif2 ctx = true) :
    ∃ l c, Model.Lexer.nextToken .cif2
        ⟨Spec.Lexical.renderWs w ++ (((recommend s unq tri limit).units ++ s ++ (recommend s unq tri limit).units) ++ ctx), line, col, lt⟩ pol log
      = .ok (⟨if recommend s unq tri limit = .none then .value else .qvalue, s, l, c⟩,
             ⟨ctx, l, c, if recommend s unq tri limit = .none then .value else .qvalue⟩) log := by
  obtain ⟨hadm, hstart⟩ := C18_delim_lexically_admissible s unq tri limit hchars hnt
  rw [← render_presOf _ s hnt] at hfit ⊢
  have hty : (presOf (recommend s unq tri limit)).tokType = if recommend s unq tri limit = .none then .value else .qvalue := by
    cases hd : recommend s unq tri limit <;> simp [presOf, Spec.Lexical.Presentation.tokType] <;> exact absurd hd hnt
  refine ⟨(Spec.Lexical.posAfter line col (Spec.Lexical.renderWs w ++ Spec.Lexical.renderValue (presOf (recommend s unq tri limit)) s)).1,
    (Spec.Lexical.posAfter line col (Spec.Lexical.renderWs w ++ Spec.Lexical.renderValue (presOf (recommend s unq tri limit)) s)).2, ?_⟩
  rw [← hty]
  exact C01_lex_value_after_ws .cif2 w (presOf (recommend s unq tri limit)) s ctx line col lt pol log hok hfirst hws hfitw hadm hfit
    (hstart _) hctx

/-- **C18, "within the length limit".**  The hypothesis `hfit` of `C18_delim_reads_back` (no line ending inside the presentation is
    longer than the scanner's limit) follows from the `length_limit` ARGUMENT: if the limit passed to cif_analyze_string does not
    exceed `CIF_LINE_LENGTH` (re-extracted from cif.h: `Gen.NamesConsts.lineLength`; `Lemmas.Analyze.linesFit_limit_link` ties the
    2048 of Spec/Lexical.lean to it) and the presentation's first physical line fits behind the start column, then the
    recommended presentation `δ s δ` contains no over-long line.  (A single-line presentation ends no line itself; for a
    multi-line triple-quoted one the analysis has checked `length_max ≤ limit`, and `length_first + 3 < limit` makes
    the column condition true at the start of a line; `hcol` is asked only of multi-line strings.) -/
theorem C18_fits_limit (s : Str) (unq tri : Bool) (limit col : Nat)
    (hchars : Spec.Lexical.okUnits .cif2 none s = true) (hnt : recommend s unq tri limit ≠ .text)
    (hlim : limit ≤ Gen.NamesConsts.lineLength)
    (hcol : (counters s).numLines ≠ 1 →
      col + (recommend s unq tri limit).units.length + (counters s).firstLine ≤ Gen.NamesConsts.lineLength) :
    Spec.Lexical.linesFit col ((recommend s unq tri limit).units ++ s ++ (recommend s unq tri limit).units) = true := by
  have hu := okUnits_units .cif2 s none hchars
  have h0 : 0 ∉ s := fun h => (hu 0 h).1 rfl
  have h13 : ∀ c ∈ s, c ≠ 13 := fun c hc => (hu c hc).2
  have hll : Gen.NamesConsts.lineLength = 2048 := rfl
  obtain ⟨A1, A2, A3, A4, A5⟩ := C18_delim_admissible s unq tri limit h0
  cases hL : splitLines s with
  | nil => exact absurd hL (splitLines_ne_nil s)
  | cons l0 ls =>
    obtain ⟨_, h2, h3, _, h5, _⟩ := counters_stats s l0 ls hL
    have hδ : ∀ c ∈ (recommend s unq tri limit).units, c ≠ 10 ∧ c ≠ 13 := by
      cases hd : recommend s unq tri limit <;> simp [Delim.units] <;> exact absurd hd hnt
    refine linesFit_presentation _ s col l0 ls hδ h13 hL ?_ ?_
    · intro hne
      have hmulti : (counters s).numLines ≠ 1 := by
        rw [h2]; cases ls with
        | nil => exact absurd rfl hne
        | cons a b => simp
      have := hcol hmulti
      rw [← h3]; omega
    · intro hne
      rw [← h5]
      have hmulti : (counters s).numLines ≠ 1 := by
        rw [h2]; cases ls with
        | nil => exact absurd rfl hne
        | cons a b => simp
      cases hd : recommend s unq tri limit with
      | text => exact absurd hd hnt
      | none => exact absurd (A1 hd).2.2.2.2.2.2.1 hmulti
      | apos => exact absurd (A2 hd).2.1 hmulti
      | quot => exact absurd (A3 hd).2.1 hmulti
      | apos3 => have := (A4 hd).2; simp only [hmulti, if_false] at this; omega
      | quot3 => have := (A5 hd).2; simp only [hmulti, if_false] at this; omega

example : (analyze (a!"ab\r\ncd") true true 2048).lengthFirst = 2 := by decide
example : splitLines [97, 98, 13, 10, 99, 100, 13, 101, 10] = [[97, 98], [99, 100], [101], []] := by decide
example : (analyze [97, 98, 13, 10, 99, 100] true true 2048).lengthFirst = 2 ∧ (analyze [97, 98, 13, 10, 99, 100] true true 2048).numLines = 2 := by decide
example : recommend (a!"abc") true true 2048 = .none ∧ recommend (a!"a b") true true 2048 = .apos ∧
    recommend (a!"a'b") false true 2048 = .quot ∧ recommend (a!"a'\"b") false true 2048 = .apos3 ∧
    recommend [97, 10, 98] true false 2048 = .text := by decide
example : wsDelimitableAnywhere (a!"abc") := by
  refine ⟨⟨by simp, ?_, ?_, ?_⟩, by simp, by simp, by simp⟩
  · intro c hc; simp at hc; subst hc; simp [reservedLead]
  · intro c hc; simp at hc; rcases hc with rfl | rfl | rfl <;> simp [wsOrBracket]
  · simp [reservedWord, ciPrefix, ciEq, lowerAscii]
example : isReserved (a!"DaTa_x") = true ∧ isReserved (a!"loop_x") = false ∧ isReserved (a!"stop_") = true := by decide
example : setQuoted false (.chr true (a!"a b")) false = .error 6 ∧ setQuoted true (.chr true (a!"a[b")) false = .ok (.chr true (a!"a[b")) := by
  constructor <;> rfl

-- read-back: every hypothesis instantiated on a concrete case (`_x 'a b'⏎` behind a data name, and a plain text field)
example : ∃ l c, Model.Lexer.nextToken .cif2 ⟨[32] ++ (([39] ++ a!"a b" ++ [39]) ++ [10]), 1, 2, .name⟩ Model.Lexer.acceptAll []
    = .ok (⟨.qvalue, a!"a b", l, c⟩, ⟨[10], l, c, .qvalue⟩) [] :=
  C18_delim_reads_back (a!"a b") [10] true true 2048 [.blank 32] 1 2 .name Model.Lexer.acceptAll []
    (by decide) (by decide) (by decide) (Or.inr (by intro b rest h; cases h)) (by decide) (by decide) (by decide) (by decide)
example : (analyze [97, 10, 98] true false 2048).delimLength = 2 ∧ (analyze [97, 10, 98] true false 2048).containsTextDelim = false ∧
    (analyze [97, 10, 98] true false 2048).hasReservedStart = false ∧ Spec.Lexical.okUnits .cif2 none [97, 10, 98] = true := by decide

-- `C18_fits_limit` applied: the three-line string `ab⏎c'"d⏎e`, limit 40 ≤ CIF_LINE_LENGTH, triple-quoted, placed at column 2000
example : Spec.Lexical.linesFit 2000 ((recommend (a!"ab\nc'\"d\ne") true true 40).units ++ a!"ab\nc'\"d\ne" ++ (recommend (a!"ab\nc'\"d\ne") true true 40).units) = true :=
  C18_fits_limit (a!"ab\nc'\"d\ne") true true 40 2000 (by decide) (by decide) (by decide) (by intro _; decide)
example : recommend (a!"ab\nc'\"d\ne") true true 40 = .apos3 := by decide
example : setQuoted false (.chr false (a!"a b")) false = .ok (.chr false (a!"a b")) := (C18_set_quoted_all_kinds false (a!"a b") [] false [] none 0 false [] []).2.2.2.2.2.1

end CifModel
