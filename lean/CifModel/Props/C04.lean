import CifModel.Model.StoreStep
namespace CifModel
end CifModel
