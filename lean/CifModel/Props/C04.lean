import CifModel.Lemmas.StoreWorld
import CifModel.Model.StoreSchema
import CifModel.Spec.DataModel
import CifModel.Lemmas.StoreRefine
import CifModel.Lemmas.StoreRefineQ
import CifModel.Lemmas.StoreRefineS
import CifModel.Lemmas.StoreRefineR
import CifModel.Lemmas.StoreRefineC
import CifModel.Lemmas.StoreTotalS
import CifModel.Lemmas.StoreWOkQ
import CifModel.Lemmas.StoreRefineW
import CifModel.Lemmas.StoreSpecRefine
import CifModel.Lemmas.StoreSpecWorld
import CifModel.Lemmas.StoreSpecProps
import CifModel.Lemmas.StoreCodes
import CifModel.Lemmas.StoreTree
/-
  Property C04 — the managed CIF behaves as the documented data model under any API history.

  Invariant part (`C04_inv_step`, `C04_inv_reachable`: every op), corollaries about the scalar loop / uniqueness /
  destroy / independence proved directly on the model, refinement to Spec/DataModel stated (`C04_refines_full`) and proved
  for the ops listed at `C04_refines_partial`.  Open finding F30 is exhibited as a `decide`d counterexample (F34, fixed, as a statement about the pinned variant).
-/
namespace CifModel
open Store Store.World Gen.ErrCodes

/-- a fresh history: no CIF yet; and a fresh CIF satisfies the invariant -/
theorem C04_inv_init : WInv {} ∧ InvS {} := ⟨WInv.empty, InvS.empty⟩

/-- Every SQL statement of the model preserves `Inv` (unique loop keys; each normalised item name once per container;
    at most one scalar loop per container, whose row counter stays ≤ 1; positive row numbers). -/
theorem C04_inv_sql (d : Db) (h : Inv d) :
    (Inv d.insertContainer.1) ∧
    (∀ cid k o d', d.insertBlock cid k o = some d' → Inv d') ∧
    (∀ cid p k o d', p < cid → d.insertFrame cid p k o = some d' → Inv d') ∧
    (∀ id, Inv (d.deleteContainer id).1) ∧
    (∀ cid cat d', d.insertLoopUnnumbered cid cat = .ok d' → Inv d') ∧
    (∀ cid k o ln d', d.insertItem cid k o ln = some d' → Inv d') ∧
    (∀ cid k row v d', d.insertValue cid k row v = some d' → Inv d') ∧
    (∀ cid k row v d', d.replaceValue cid k row v = some d' → Inv d') ∧
    (∀ cid k v, Inv (d.setAllValues cid k v).1) ∧
    (∀ cid ln d', d.bumpRowNum cid ln = .ok d' → Inv d') ∧
    (∀ cid ln, Inv (d.resetRowNum cid ln)) ∧
    (∀ cid k, Inv (d.removeItem cid k)) ∧
    (∀ cid ln, Inv (d.destroyLoop cid ln).1) ∧
    (∀ cid, Inv (d.prune cid)) ∧
    (∀ cid ln row, Inv (d.removePacket cid ln row)) :=
  ⟨h.insertContainer, fun _ _ _ _ he => h.insertBlock _ _ _ he, fun _ _ _ _ _ ho he => h.insertFrame _ _ _ _ ho he,
   fun _ => h.deleteContainer _, fun _ _ _ he => h.insertLoopUnnumbered _ _ he, fun _ _ _ _ _ he => h.insertItem _ _ _ _ he,
   fun _ _ _ _ _ he => h.insertValue _ _ _ _ he, fun _ _ _ _ _ he => h.replaceValue _ _ _ _ he, fun _ _ _ => h.setAllValues _ _ _,
   fun _ _ _ he => h.bumpRowNum _ _ he, fun _ _ => h.resetRowNum _ _, fun _ _ => h.removeItem _ _, fun _ _ => h.destroyLoop _ _,
   fun _ => h.prune _, fun _ _ _ => h.removePacket _ _ _⟩

/-- Every op of a history — every argument (valid, invalid, duplicate names; NULL category; empty or foreign-item packets),
    live and stale handles, inside and outside an iterator's transaction — preserves the invariant of every CIF (content and
    every snapshot a rollback could restore). -/
theorem C04_inv_step (w : World) (op : Op) (h : WInv w) : WInv (step w op).1 := by
  cases op with
  | cifNew =>
    intro c s hs
    simp only [step] at hs
    by_cases hc : c < w.cifs.length
    · exact h c s (by simpa [List.getD, List.getElem?_append_left hc] using hs)
    · have hge : w.cifs.length ≤ c := by omega
      simp only [List.getD, List.getElem?_append_right hge] at hs
      cases hi : c - w.cifs.length with
      | zero => simp [hi] at hs; subst hs; exact InvS.empty
      | succ k => simp [hi] at hs
  | cifDel c =>
    simp only [step]
    split
    · exact h
    · intro c' s hs
      simp only [] at hs
      rcases getD_set_any _ _ _ _ _ hs with hx | hx
      · cases hx
      · exact h c' s hx
  | mkBlock c n len =>
    simp only [step]; split
    · exact h.of_cifs rfl
    · rename_i s hl; exact (h.setCif c _ (createBlock_invS (h.live hl) n len)).of_cifs rfl
  | getBlock c n =>
    simp only [step]; split
    · exact h.of_cifs rfl
    · rename_i s hl; exact (h.setCif c _ (by rw [getBlock_fst]; exact h.live hl)).of_cifs rfl
  | blocks c =>
    simp only [step]; split
    · exact h
    · rename_i s hl; exact h.setCif c _ (h.live hl)
  | mkFrame hh n len =>
    simp only [step]; split
    · exact h.of_cifs rfl
    · rename_i e s hl; exact (h.setCif _ _ (createFrame_invS (h.live (liveH_liveC hl)) e.h n len)).of_cifs rfl
  | getFrame hh n =>
    simp only [step]; split
    · exact h.of_cifs rfl
    · rename_i e s hl; exact (h.setCif _ _ (by rw [getFrame_fst]; exact h.live (liveH_liveC hl))).of_cifs rfl
  | frames hh =>
    simp only [step]; split
    · exact h
    · rename_i e s hl; exact h.setCif _ _ (h.live (liveH_liveC hl))
  | cdestroy hh =>
    simp only [step]; split
    · exact h
    · rename_i e s hl
      split
      · exact h
      · exact (h.setCif _ _ (destroyContainer_invS (h.live (liveH_liveC hl)) e.h)).of_cifs rfl
  | code hh => simp only [step]; split <;> exact h
  | isBlock hh => simp only [step]; split <;> exact h
  | mkLoop hh cat names =>
    simp only [step]; split
    · exact h.of_cifs rfl
    · rename_i e s hl; exact (h.setCif _ _ (createLoop_invS (h.live (liveH_liveC hl)) e.h cat names)).of_cifs rfl
  | catLoop hh cat =>
    simp only [step]; split
    · exact h.of_cifs rfl
    · rename_i e s hl; exact (h.setCif _ _ (by rw [getCategoryLoop_fst]; exact h.live (liveH_liveC hl))).of_cifs rfl
  | itemLoop hh n =>
    simp only [step]; split
    · exact h.of_cifs rfl
    · rename_i e s hl; exact (h.setCif _ _ (by rw [getItemLoop_fst]; exact h.live (liveH_liveC hl))).of_cifs rfl
  | loops hh =>
    simp only [step]; split
    · exact h
    · rename_i e s hl
      have h1 := allLoops_invS (h.live (liveH_liveC hl)) e.h
      split
      · rename_i s1 c1 he; rw [he] at h1; exact h.setCif _ _ h1
      · rename_i s1 ls he
        rw [he] at h1
        refine h.setCif _ _ ?_
        -- the caller's get_names on each returned handle
        have : ∀ (ls : List LH) (acc : Store × List (Option Str × Option (List Str))), InvS acc.1 →
            InvS (ls.foldl (fun (acc : Store × List (Option Str × Option (List Str))) l =>
              match getNames acc.1 l with
              | (s', .ok ns) => (s', acc.2 ++ [(l.category, some (ns.map (·.2)))])
              | (s', .error _) => (s', acc.2 ++ [(l.category, none)])) acc).1 := by
          intro ls
          induction ls with
          | nil => intro acc ha; exact ha
          | cons l ls ih =>
            intro acc ha
            simp only [List.foldl_cons]
            apply ih
            have hn := getNames_invS ha l
            split
            · rename_i he; rw [he] at hn; exact hn
            · rename_i he; rw [he] at hn; exact hn
        exact this ls (s1, []) h1
  | prune hh =>
    simp only [step]; split
    · exact h
    · rename_i e s hl; exact h.setCif _ _ (prune_invS (h.live (liveH_liveC hl)) e.h)
  | getVal hh n =>
    simp only [step]; split
    · exact h
    · rename_i e s hl
      split
      · exact h
      · rename_i nm
        have hf := getValue_fst s e.h (some nm)
        split
        · rename_i s1 v amb he; rw [he] at hf; simp only [] at hf; subst hf; exact h.setCif _ _ (h.live (liveH_liveC hl))
        · rename_i s1 c1 he; rw [he] at hf; simp only [] at hf; subst hf; exact h.setCif _ _ (h.live (liveH_liveC hl))
  | setVal hh n v =>
    simp only [step]; split
    · exact h
    · rename_i e s hl; exact h.setCif _ _ (setValue_invS (h.live (liveH_liveC hl)) e.h n v)
  | rmItem hh n =>
    simp only [step]; split
    · exact h
    · rename_i e s hl; exact h.setCif _ _ (removeItem_invS (h.live (liveH_liveC hl)) e.h n)
  | ldestroy l =>
    simp only [step]; split
    · exact h
    · rename_i e s hl
      split
      · exact h
      · exact (h.setCif _ _ (destroyLoop_invS (h.live (liveL_liveC hl)) e.h)).of_cifs rfl
  | getCat l => simp only [step]; split <;> exact h
  | setCat l cat =>
    simp only [step]; split
    · exact h
    · rename_i e s hl; exact (h.setCif _ _ (setCategory_invS (h.live (liveL_liveC hl)) e.h cat)).of_cifs rfl
  | names l =>
    simp only [step]; split
    · exact h
    · rename_i e s hl; exact h.setCif _ _ (getNames_invS (h.live (liveL_liveC hl)) e.h)
  | addItem l n v =>
    simp only [step]; split
    · exact h
    · rename_i e s hl
      split
      · exact h
      · exact h.setCif _ _ (addItem_invS (h.live (liveL_liveC hl)) e.h _ v)
  | addPkt l p =>
    simp only [step]; split
    · exact h
    · rename_i e s hl; exact h.setCif _ _ (addPacket_invS (h.live (liveL_liveC hl)) e.h p)
  | itOpen l =>
    simp only [step]; split
    · exact h.of_cifs rfl
    · rename_i e s hl; exact (h.setCif _ _ (getPackets_invS (h.live (liveL_liveC hl)) e.h)).of_cifs rfl
  | itNext i => simp only [step]; split <;> exact h.of_cifs rfl
  | itUpd i p =>
    simp only [step]; split
    · exact h
    · rename_i e s hl; exact h.setCif _ _ (updatePacket_invS (h.live (liveI_liveC hl)) e.it p)
  | itRem i =>
    simp only [step]; split
    · exact h
    · rename_i e s hl; exact (h.setCif _ _ (removePacket_invS (h.live (liveI_liveC hl)) e.it)).of_cifs rfl
  | itClose i =>
    simp only [step]; split
    · exact h
    · rename_i e s hl; exact (h.setCif _ _ (closeIter_invS (h.live (liveI_liveC hl)))).of_cifs rfl
  | itAbort i =>
    simp only [step]; split
    · exact h
    · rename_i e s hl; exact (h.setCif _ _ (abortIter_invS (h.live (liveI_liveC hl)))).of_cifs rfl

/-- hence every state reachable by any history satisfies the invariant … -/
theorem C04_inv_reachable : ∀ (ops : List Op) (w : World), WInv w → WInv (run w ops).1
  | [], w, h => h
  | op :: ops, w, h => by
    unfold run
    exact C04_inv_reachable ops _ (C04_inv_step w op h)

/-- … in particular the hypothesis of `C05_atomic` (unique loop keys) -/
theorem C04_inv_gives_loop_keys (w : World) (h : WInv w) : ∀ c s, w.cifs.getD c none = some s → LoopPK s.db :=
  fun c s hs => (h c s hs).db.toLoopPK


-- ---- corollaries named by the property, proved on the model ---------------------------------------------------------------

/-- CIFs are independent: EVERY op touches at most one managed CIF — all the others are, as whole stores, exactly what they were -/
theorem cifs_independent (w : World) (op : Op) :
    ∃ c, ∀ c', c' ≠ c → (step w op).1.cifs.getD c' none = w.cifs.getD c' none := by
  cases op <;> simp only [step]
  case cifNew =>
    refine ⟨w.cifs.length, fun c' hc => ?_⟩
    simp only [List.getD]
    by_cases h : c' < w.cifs.length
    · rw [List.getElem?_append_left h]
    · have hge : w.cifs.length ≤ c' := by omega
      rw [List.getElem?_append_right hge, List.getElem?_eq_none hge]
      have : c' - w.cifs.length ≠ 0 := by omega
      cases hk : c' - w.cifs.length with
      | zero => exact absurd hk this
      | succ k => simp
  case cifDel c =>
    cases hl : w.liveC c with
    | none => exact ⟨0, fun _ _ => rfl⟩
    | some s =>
      refine ⟨c, fun c' hc => ?_⟩
      try simp only []
      repeat' split
      all_goals first | rfl | exact getD_set_ne' _ _ _ _ hc
  case mkBlock c n len =>
    cases hl : w.liveC c with
    | none => exact ⟨0, fun _ _ => rfl⟩
    | some s =>
      refine ⟨c, fun c' hc => ?_⟩
      try simp only []
      repeat' split
      all_goals first | rfl | exact getD_set_ne' _ _ _ _ hc
  case getBlock c n =>
    cases hl : w.liveC c with
    | none => exact ⟨0, fun _ _ => rfl⟩
    | some s =>
      refine ⟨c, fun c' hc => ?_⟩
      try simp only []
      repeat' split
      all_goals first | rfl | exact getD_set_ne' _ _ _ _ hc
  case blocks c =>
    cases hl : w.liveC c with
    | none => exact ⟨0, fun _ _ => rfl⟩
    | some s =>
      refine ⟨c, fun c' hc => ?_⟩
      try simp only []
      repeat' split
      all_goals first | rfl | exact getD_set_ne' _ _ _ _ hc
  case mkFrame hh n len =>
    cases hl : w.liveH hh with
    | none => exact ⟨0, fun _ _ => rfl⟩
    | some p =>
      obtain ⟨e, s⟩ := p
      refine ⟨e.cif, fun c' hc => ?_⟩
      try simp only []
      repeat' split
      all_goals first | rfl | exact getD_set_ne' _ _ _ _ hc
  case getFrame hh n =>
    cases hl : w.liveH hh with
    | none => exact ⟨0, fun _ _ => rfl⟩
    | some p =>
      obtain ⟨e, s⟩ := p
      refine ⟨e.cif, fun c' hc => ?_⟩
      try simp only []
      repeat' split
      all_goals first | rfl | exact getD_set_ne' _ _ _ _ hc
  case frames hh =>
    cases hl : w.liveH hh with
    | none => exact ⟨0, fun _ _ => rfl⟩
    | some p =>
      obtain ⟨e, s⟩ := p
      refine ⟨e.cif, fun c' hc => ?_⟩
      try simp only []
      repeat' split
      all_goals first | rfl | exact getD_set_ne' _ _ _ _ hc
  case cdestroy hh =>
    cases hl : w.liveH hh with
    | none => exact ⟨0, fun _ _ => rfl⟩
    | some p =>
      obtain ⟨e, s⟩ := p
      refine ⟨e.cif, fun c' hc => ?_⟩
      try simp only []
      repeat' split
      all_goals first | rfl | exact getD_set_ne' _ _ _ _ hc
  case code hh =>
    cases hl : w.liveH hh with
    | none => exact ⟨0, fun _ _ => rfl⟩
    | some p =>
      obtain ⟨e, s⟩ := p
      refine ⟨e.cif, fun c' hc => ?_⟩
      try simp only []
      repeat' split
      all_goals first | rfl | exact getD_set_ne' _ _ _ _ hc
  case isBlock hh =>
    cases hl : w.liveH hh with
    | none => exact ⟨0, fun _ _ => rfl⟩
    | some p =>
      obtain ⟨e, s⟩ := p
      refine ⟨e.cif, fun c' hc => ?_⟩
      try simp only []
      repeat' split
      all_goals first | rfl | exact getD_set_ne' _ _ _ _ hc
  case mkLoop hh cat names =>
    cases hl : w.liveH hh with
    | none => exact ⟨0, fun _ _ => rfl⟩
    | some p =>
      obtain ⟨e, s⟩ := p
      refine ⟨e.cif, fun c' hc => ?_⟩
      try simp only []
      repeat' split
      all_goals first | rfl | exact getD_set_ne' _ _ _ _ hc
  case catLoop hh cat =>
    cases hl : w.liveH hh with
    | none => exact ⟨0, fun _ _ => rfl⟩
    | some p =>
      obtain ⟨e, s⟩ := p
      refine ⟨e.cif, fun c' hc => ?_⟩
      try simp only []
      repeat' split
      all_goals first | rfl | exact getD_set_ne' _ _ _ _ hc
  case itemLoop hh n =>
    cases hl : w.liveH hh with
    | none => exact ⟨0, fun _ _ => rfl⟩
    | some p =>
      obtain ⟨e, s⟩ := p
      refine ⟨e.cif, fun c' hc => ?_⟩
      try simp only []
      repeat' split
      all_goals first | rfl | exact getD_set_ne' _ _ _ _ hc
  case loops hh =>
    cases hl : w.liveH hh with
    | none => exact ⟨0, fun _ _ => rfl⟩
    | some p =>
      obtain ⟨e, s⟩ := p
      refine ⟨e.cif, fun c' hc => ?_⟩
      try simp only []
      repeat' split
      all_goals first | rfl | exact getD_set_ne' _ _ _ _ hc
  case prune hh =>
    cases hl : w.liveH hh with
    | none => exact ⟨0, fun _ _ => rfl⟩
    | some p =>
      obtain ⟨e, s⟩ := p
      refine ⟨e.cif, fun c' hc => ?_⟩
      try simp only []
      repeat' split
      all_goals first | rfl | exact getD_set_ne' _ _ _ _ hc
  case getVal hh n =>
    cases hl : w.liveH hh with
    | none => exact ⟨0, fun _ _ => rfl⟩
    | some p =>
      obtain ⟨e, s⟩ := p
      refine ⟨e.cif, fun c' hc => ?_⟩
      try simp only []
      repeat' split
      all_goals first | rfl | exact getD_set_ne' _ _ _ _ hc
  case setVal hh n v =>
    cases hl : w.liveH hh with
    | none => exact ⟨0, fun _ _ => rfl⟩
    | some p =>
      obtain ⟨e, s⟩ := p
      refine ⟨e.cif, fun c' hc => ?_⟩
      try simp only []
      repeat' split
      all_goals first | rfl | exact getD_set_ne' _ _ _ _ hc
  case rmItem hh n =>
    cases hl : w.liveH hh with
    | none => exact ⟨0, fun _ _ => rfl⟩
    | some p =>
      obtain ⟨e, s⟩ := p
      refine ⟨e.cif, fun c' hc => ?_⟩
      try simp only []
      repeat' split
      all_goals first | rfl | exact getD_set_ne' _ _ _ _ hc
  case ldestroy l =>
    cases hl : w.liveL l with
    | none => exact ⟨0, fun _ _ => rfl⟩
    | some p =>
      obtain ⟨e, s⟩ := p
      refine ⟨e.cif, fun c' hc => ?_⟩
      try simp only []
      repeat' split
      all_goals first | rfl | exact getD_set_ne' _ _ _ _ hc
  case getCat l =>
    cases hl : w.liveL l with
    | none => exact ⟨0, fun _ _ => rfl⟩
    | some p =>
      obtain ⟨e, s⟩ := p
      refine ⟨e.cif, fun c' hc => ?_⟩
      try simp only []
      repeat' split
      all_goals first | rfl | exact getD_set_ne' _ _ _ _ hc
  case setCat l cat =>
    cases hl : w.liveL l with
    | none => exact ⟨0, fun _ _ => rfl⟩
    | some p =>
      obtain ⟨e, s⟩ := p
      refine ⟨e.cif, fun c' hc => ?_⟩
      try simp only []
      repeat' split
      all_goals first | rfl | exact getD_set_ne' _ _ _ _ hc
  case names l =>
    cases hl : w.liveL l with
    | none => exact ⟨0, fun _ _ => rfl⟩
    | some p =>
      obtain ⟨e, s⟩ := p
      refine ⟨e.cif, fun c' hc => ?_⟩
      try simp only []
      repeat' split
      all_goals first | rfl | exact getD_set_ne' _ _ _ _ hc
  case addItem l n v =>
    cases hl : w.liveL l with
    | none => exact ⟨0, fun _ _ => rfl⟩
    | some p =>
      obtain ⟨e, s⟩ := p
      refine ⟨e.cif, fun c' hc => ?_⟩
      try simp only []
      repeat' split
      all_goals first | rfl | exact getD_set_ne' _ _ _ _ hc
  case addPkt l p =>
    cases hl : w.liveL l with
    | none => exact ⟨0, fun _ _ => rfl⟩
    | some p =>
      obtain ⟨e, s⟩ := p
      refine ⟨e.cif, fun c' hc => ?_⟩
      try simp only []
      repeat' split
      all_goals first | rfl | exact getD_set_ne' _ _ _ _ hc
  case itOpen l =>
    cases hl : w.liveL l with
    | none => exact ⟨0, fun _ _ => rfl⟩
    | some p =>
      obtain ⟨e, s⟩ := p
      refine ⟨e.cif, fun c' hc => ?_⟩
      try simp only []
      repeat' split
      all_goals first | rfl | exact getD_set_ne' _ _ _ _ hc
  case itNext i =>
    cases hl : w.liveI i with
    | none => exact ⟨0, fun _ _ => rfl⟩
    | some p =>
      obtain ⟨e, s⟩ := p
      refine ⟨e.cif, fun c' hc => ?_⟩
      try simp only []
      repeat' split
      all_goals first | rfl | exact getD_set_ne' _ _ _ _ hc
  case itUpd i p =>
    cases hl : w.liveI i with
    | none => exact ⟨0, fun _ _ => rfl⟩
    | some p =>
      obtain ⟨e, s⟩ := p
      refine ⟨e.cif, fun c' hc => ?_⟩
      try simp only []
      repeat' split
      all_goals first | rfl | exact getD_set_ne' _ _ _ _ hc
  case itRem i =>
    cases hl : w.liveI i with
    | none => exact ⟨0, fun _ _ => rfl⟩
    | some p =>
      obtain ⟨e, s⟩ := p
      refine ⟨e.cif, fun c' hc => ?_⟩
      try simp only []
      repeat' split
      all_goals first | rfl | exact getD_set_ne' _ _ _ _ hc
  case itClose i =>
    cases hl : w.liveI i with
    | none => exact ⟨0, fun _ _ => rfl⟩
    | some p =>
      obtain ⟨e, s⟩ := p
      refine ⟨e.cif, fun c' hc => ?_⟩
      try simp only []
      repeat' split
      all_goals first | rfl | exact getD_set_ne' _ _ _ _ hc
  case itAbort i =>
    cases hl : w.liveI i with
    | none => exact ⟨0, fun _ _ => rfl⟩
    | some p =>
      obtain ⟨e, s⟩ := p
      refine ⟨e.cif, fun c' hc => ?_⟩
      try simp only []
      repeat' split
      all_goals first | rfl | exact getD_set_ne' _ _ _ _ hc

/-- names are returned in the spelling with which they were created: a frame code comes back as given to create_frame … -/
theorem names_returned_as_created_frame (s : Store) (hd : CH) (n : Name) (h : CH) (hc : (createFrame s hd (some n)).2 = .ok h) : h.code = n.orig := by
  revert hc
  unfold createFrame
  split
  · intro h; cases h
  · split
    · intro h; cases h
    · split
      · intro h; cases h
      · simp only []
        split
        · intro h; cases h
        · rename_i heq _ _ _ _ _ _ _
          intro h; simp only [Except.ok.injEq] at h; rw [← h]; cases heq; rfl

/-- … and every item of a created loop is stored with the spelling given to create_loop (cif_loop_get_names reports
    `name_orig` of the loop's rows) -/
theorem names_returned_as_created_items : ∀ (ns : List Name) (d d' : Db) (cid ln : Nat), addItems d cid ln ns = .ok d' →
    ∀ n ∈ ns, ∃ i ∈ d'.items, i.cid = cid ∧ i.loopNum = ln ∧ i.name = n.key ∧ i.nameOrig = n.orig
  | [], _, _, _, _, _, n, hn => nomatch hn
  | m :: ms, d, d', cid, ln, he, n, hn => by
    unfold addItems at he
    split at he
    · cases he
    · rename_i d1 hi
      have hmono : ∀ (ns : List Name) (a b : Db), addItems a cid ln ns = .ok b → ∀ i ∈ a.items, i ∈ b.items := by
        intro ns
        induction ns with
        | nil => intro a b h i hi'; simp [addItems] at h; subst h; exact hi'
        | cons x xs ih =>
          intro a b h i hi'
          unfold addItems at h
          split at h
          · cases h
          · rename_i a1 ha
            apply ih a1 b h
            unfold Db.insertItem at ha
            split at ha; · cases ha
            split at ha; · cases ha
            cases ha; exact List.mem_append_left _ hi'
      rcases List.mem_cons.mp hn with rfl | hn'
      · refine ⟨{ cid := cid, name := n.key, nameOrig := n.orig, loopNum := ln }, ?_, rfl, rfl, rfl, rfl⟩
        apply hmono ms d1 d' he
        unfold Db.insertItem at hi
        split at hi; · cases hi
        split at hi; · cases hi
        cases hi; exact List.mem_append_right _ (List.mem_singleton.mpr rfl)
      · exact names_returned_as_created_items ms d1 d' cid ln he n hn'

/-- the scalar loop's category cannot be GIVEN to a loop: set_category with "" is always refused, whatever the loop -/
theorem scalar_category_cannot_be_given (s : Store) (l : LH) :
    setCategory s l (some []) = (s, l, .error CIF_RESERVED_LOOP) := by
  simp [setCategory, catReserved]

/-- … nor TAKEN: a handle that knows its loop as the scalar loop refuses every category, NULL included (fix 95b7b25) -/
theorem scalar_category_cannot_be_taken (s : Store) (l : LH) (cat : Option Str) (hl : l.category = some []) :
    setCategory s l cat = (s, l, .error CIF_RESERVED_LOOP) := by
  cases cat <;> simp [setCategory, catReserved, hl]

/-- removing a loop's last item removes the loop: with one item left, the statement executed is DESTROY_LOOP_SQL -/
theorem remove_last_item_sql (d : Db) (cid ln : Nat) (k : Str) (hsz : d.loopSize cid k = some (ln, 1)) :
    (if (d.loopSize cid k).map (·.2) == some 1 then (d.destroyLoop cid ln).1 else d.removeItem cid k) = d.deleteLoops (fun l => l.cid == cid && l.loopNum == ln) := by
  simp [hsz, Db.destroyLoop]

/-- names are returned in the spelling with which they were created: a block code comes back as given to create_block -/
theorem names_returned_as_created (s : Store) (n : Name) (h : CH) (hc : (createBlock s (some n)).2 = .ok h) : h.code = n.orig := by
  revert hc
  unfold createBlock
  split
  · intro h; cases h
  · split
    · intro h; cases h
    · split
      · intro h; cases h
      · simp only []
        split
        · intro h; cases h
        · rename_i heq _ _ _ _ _ _ _
          intro h; simp only [Except.ok.injEq] at h; rw [← h]; cases heq; rfl

/-- set_value on an existing item writes the value into every packet of its loop (SET_ALL_VALUES_SQL): afterwards the item
    has a value in exactly the rows of the loop -/
theorem set_value_all_packets_or_new_scalar (d : Db) (cid ln : Nat) (k : Str) (v : V) (hl : d.loopOfItem cid k = some ln) :
    ∀ r ∈ d.loopRows cid ln, { cid := cid, name := k, rowNum := r, val := v } ∈ (d.setAllValues cid k v).1.values := by
  intro r hr
  simp only [Db.setAllValues, hl]
  exact List.mem_append_right _ (List.mem_map.mpr ⟨r, hr, rfl⟩)

/-- destroying a container removes its loops (with their items and values), its data_block / save_frame rows and nothing
    of any other container: every loop, item and value row of another container stays -/
theorem destroy_removes_subtree_only (d : Db) (id : Nat) (l : LoopRow) (hl : l ∈ d.loops) (hne : l.cid ≠ id) :
    l ∈ (d.deleteContainer id).1.loops := by
  unfold Db.deleteContainer
  simp only []
  split
  · exact hl
  · simp only [Db.deleteLoops, Db.deleteItems]
    rw [List.mem_filter]
    exact ⟨hl, by simp [hne]⟩

-- ---- refinement to the documented data model -----------------------------------------------------------------------------------

/-- C04_refines, block level, proved: cif_get_block returns exactly the block the documented model finds (same container content,
    created spelling), or CIF_NOSUCH_BLOCK exactly when the model has none; the store is untouched. -/
theorem C04_refines_get_block (norm : Str → Str) (s : Store) (n : Name) (hn : BlocksNormOK norm s.db) :
    (getBlock s n).1 = s ∧
    (match (getBlock s n).2 with
     | .ok h => specGetBlock norm (abs s.db) n.key = .ok (absContainer s.db (s.db.frames.length + 1) h.id h.code)
     | .error c => specGetBlock norm (abs s.db) n.key = .error c) :=
  getBlock_refines norm s n hn

/-- C04_refines, block level, proved: cif_create_block commutes with `abs`: on success the documented model gains exactly one
    empty block under the given spelling and everything else is as before; it fails with the same code exactly when the
    documented model refuses (invalid code, duplicate after normalisation), leaving the store identical.
    Hypotheses: the store invariant (every reachable state) and block names stored normalised (`BlocksNormOK`; `norm` is C09's). -/
theorem C04_refines_create_block (norm : Str → Str) (s : Store) (n : Name) (hac : s.autocommit = true)
    (hn : BlocksNormOK norm s.db) (hinv : Inv s.db) :
    match (createBlock s (some n)).2 with
    | .ok h => specCreateBlock norm (abs s.db) n.key n.orig n.valid = .ok (abs (createBlock s (some n)).1.db) ∧ h.code = n.orig ∧
               (createBlock s (some n)).1.autocommit = true
    | .error c => specCreateBlock norm (abs s.db) n.key n.orig n.valid = .error c ∧ (createBlock s (some n)).1 = s :=
  createBlock_refines norm s n hac hn hinv.idFresh

/-- C04_refines, frame level, proved: cif_container_get_frame returns exactly the save frame the documented model finds among the
    container's frames (whatever nesting depth `fuel` the container is viewed at), CIF_NOSUCH_FRAME exactly when there is none,
    CIF_INVALID_FRAMECODE for an invalid code; the store is untouched. -/
theorem C04_refines_get_frame (norm : Str → Str) (s : Store) (hd : CH) (n : Name) (fuel : Nat) (hn : FramesNormOK norm s.db) :
    (getFrame s hd (some n)).1 = s ∧
    (match (getFrame s hd (some n)).2 with
     | .ok h => (absContainer s.db (fuel + 1) hd.id hd.code).specGetFrame norm n.key n.valid = .ok (absContainer s.db fuel h.id h.code)
     | .error c => (absContainer s.db (fuel + 1) hd.id hd.code).specGetFrame norm n.key n.valid = .error c) :=
  getFrame_refines norm s hd n fuel hn

/-- C04_refines, loop level, proved for create_loop (container-local form; `absLoops d cid` is exactly the loop list `abs` shows for
    container `cid`): in every state satisfying the invariant — so in every reachable state (`C04_inv_reachable`) — on success the
    container gains one loop — given category, given names in the given spelling and order, no packet — appended; every other
    loop of the CIF is what it was; blocks and frames untouched. -/
theorem C04_refines_create_loop (d d' : Db) (cid : Nat) (cat : Option Str) (names : List Name) (l : LH) (h : Inv d)
    (he : createLoopBody cid cat names d = .ok (d', l)) :
    absLoops d' cid = absLoops d cid ++ [{ category := cat, names := names.map (·.orig), packets := [] }] ∧
    (∀ cid', cid' ≠ cid → absLoops d' cid' = absLoops d cid') ∧
    d'.frames = d.frames ∧ d'.blocks = d.blocks ∧ l.cid = cid ∧ l.category = cat :=
  createLoop_refines d d' cid cat names l h (fun c hc hid x hx hxc => h.loopNumsBelow c hc x hx (by rw [hxc, hid])) he

/-- C04_refines, loop level, proved for add_packet (container-local form): on success the target loop gains exactly one packet at the
    end — the given values, the unknown value for the items the packet omits (`packetFor`, which is the packet of
    `Loop.specAddPacket`: `C04_add_packet_is_spec_packet`) — and every other loop of the CIF, blocks and frames are what they
    were.  Hypothesis beyond `Inv`: `RowsBelow` (stored row numbers ≤ last_row_num; not yet part of `Inv`).
    Since fix e266ec6 the omitted items are also STORED as unknown (`C04_add_packet_total`; before: `C04_cex_F30_pinned`). -/
theorem C04_refines_add_packet (d d' : Db) (l : LH) (pkt : List (Str × V)) (h : Inv d) (hrb : RowsBelow d l.cid l.loopNum)
    (hne : pkt ≠ []) (he : addPacketBody l pkt d = .ok (d', ())) :
    (∀ cid', absLoops d' cid' = (d.loops.filter (fun x => x.cid == cid')).map (fun x =>
        if x.cid == l.cid && x.loopNum == l.loopNum then
          { absLoop d x with packets := (absLoop d x).packets ++ [packetFor d l.cid l.loopNum pkt] }
        else absLoop d x)) ∧
    d'.frames = d.frames ∧ d'.blocks = d.blocks :=
  addPacket_refines d d' l pkt h hrb hne he

/-- since fix e266ec6 (F30): the packet cif_loop_add_packet adds is TOTAL over the loop's items — every item has a STORED value in the
    new row (the given one or the explicit unknown value), and that row is the loop's last_row_num -/
theorem C04_add_packet_total (d d' : Db) (l : LH) (pkt : List (Str × V)) (he : addPacketBody l pkt d = .ok (d', ())) :
    ∃ row, d'.lastRowNum l.cid l.loopNum = some row ∧ 0 < row ∧
      ∀ i ∈ d'.loopItems l.cid l.loopNum, d'.hasValue l.cid i.name row = true :=
  addPacket_total d d' l pkt he

theorem C04_add_packet_is_spec_packet (norm : Str → Str) (d : Db) (x : LoopRow) (pkt : List (Str × V)) (hn : ItemsNormOK norm d) :
    packetFor d x.cid x.loopNum pkt =
      (absLoop d x).names.map (fun n => ((pkt.find? (fun e => e.1 == norm n)).map (·.2)).getD .unk) :=
  packetFor_eq_spec norm d x pkt hn

/-- C04_refines, loop level, proved for the query get_value: provided every packet of the item's loop stores a value for the item
    (`hcomplete` — what the documentation promises and F30 breaks), the values cif_container_get_value sees (none: CIF_NOSUCH_ITEM,
    one: that value, several: CIF_AMBIGUOUS_ITEM with the first) are exactly the item's column of the loop's packets in the
    documented model, in packet order (`C04_get_value_column`: that column is the k-th entry of every packet). -/
theorem C04_refines_get_value (d : Db) (x : LoopRow) (i : ItemRow) (h : Inv d) (hi : i ∈ d.loopItems x.cid x.loopNum)
    (hcomplete : ∀ r ∈ d.loopRows x.cid x.loopNum, d.hasValue x.cid i.name r = true) :
    (d.valuesOf x.cid i.name).map (·.val) = absColumn d x i :=
  getValue_refines d x i h hi hcomplete

theorem C04_get_value_column (d : Db) (x : LoopRow) (i : ItemRow) (k : Nat) (hk : (d.loopItems x.cid x.loopNum)[k]? = some i) :
    (absLoop d x).packets.map (fun p => p.getD k .unk) = absColumn d x i :=
  absColumn_is_column d x i k hk

/-- C04_refines, loop level, proved for set_value of an EXISTING item (SET_ALL_VALUES_SQL; "setting an item's value changes every
    packet of its loop"): the item's loop keeps its names and its packets (same rows, same order); in every packet the item's
    cell is the new value, every other cell is what it was; every other loop of the CIF is what it was; the loop, item, block and
    frame tables are untouched.  No hypothesis beyond `Inv` (holds for packets with omitted items too). -/
theorem C04_refines_set_value (d : Db) (x : LoopRow) (i : ItemRow) (v : V) (h : Inv d) (hx : x ∈ d.loops)
    (hi : i ∈ d.loopItems x.cid x.loopNum) :
    let d' := (d.setAllValues x.cid i.name v).1
    absLoop d' x = { absLoop d x with packets := (d.loopRows x.cid x.loopNum).map (fun r =>
        (d.loopItems x.cid x.loopNum).map (fun j => if j.name == i.name then v else cell d x.cid j r)) } ∧
    (∀ y ∈ d.loops, ¬(y.cid = x.cid ∧ y.loopNum = x.loopNum) → absLoop d' y = absLoop d y) ∧
    d'.loops = d.loops ∧ d'.items = d.items ∧ d'.frames = d.frames ∧ d'.blocks = d.blocks :=
  setAllValues_refines d x i v h hx hi

/-- C04_refines, loop level, proved for remove_item when other items stay in the loop (REMOVE_ITEM_SQL): provided every packet of
    the loop stores a value for every item (`hcomplete` — what the documentation promises; F30 breaks it and then packets vanish
    here: `C04_cex_F30_pinned`), the loop keeps its category, loses the item's name and column and keeps every packet (same rows, same
    order, same other cells); every other loop of the CIF is what it was; loop, block and frame tables untouched. -/
theorem C04_refines_remove_item (d : Db) (x : LoopRow) (i j0 : ItemRow) (h : Inv d) (hx : x ∈ d.loops)
    (hi : i ∈ d.loopItems x.cid x.loopNum) (hj0 : j0 ∈ d.loopItems x.cid x.loopNum) (hne0 : j0.name ≠ i.name)
    (hcomplete : ∀ r ∈ d.loopRows x.cid x.loopNum, ∀ j ∈ d.loopItems x.cid x.loopNum, d.hasValue x.cid j.name r = true) :
    let d' := d.removeItem x.cid i.name
    let keep := (d.loopItems x.cid x.loopNum).filter (fun j => !(j.name == i.name))
    absLoop d' x = { category := x.category, names := keep.map (·.nameOrig),
                     packets := (d.loopRows x.cid x.loopNum).map (fun r => keep.map (fun j => cell d x.cid j r)) } ∧
    (∀ y ∈ d.loops, ¬(y.cid = x.cid ∧ y.loopNum = x.loopNum) → absLoop d' y = absLoop d y) ∧
    d'.loops = d.loops ∧ d'.frames = d.frames ∧ d'.blocks = d.blocks :=
  removeItem_refines d x i j0 h hx hi hj0 hne0 hcomplete

/-- C04_refines, loop level, proved for DESTROY_LOOP_SQL — cif_loop_destroy, and remove_item of a loop's LAST item ("removing a
    loop's last item removes the loop", with `remove_last_item_removes_loop`): exactly that loop disappears, every other loop of
    the CIF is what it was, block and frame tables untouched.  No hypothesis beyond `Inv`. -/
theorem C04_refines_destroy_loop (d : Db) (x : LoopRow) (h : Inv d) :
    let d' := (d.destroyLoop x.cid x.loopNum).1
    d'.loops = d.loops.filter (fun l => !(l.cid == x.cid && l.loopNum == x.loopNum)) ∧
    (∀ y ∈ d.loops, ¬(y.cid = x.cid ∧ y.loopNum = x.loopNum) → absLoop d' y = absLoop d y) ∧
    d'.frames = d.frames ∧ d'.blocks = d.blocks :=
  destroyLoop_refines d x h

/-- C04_refines, loop level, proved for set_category (the UPDATE matched the loop): the loop gets the category and keeps names and
    packets; every other loop of the CIF is what it was; item, value, block, frame tables untouched.  (That the reserved category
    "" is neither given nor taken: `scalar_category_cannot_be_given`, `scalar_category_cannot_be_taken`.) -/
theorem C04_refines_set_category (d d' : Db) (cid ln : Nat) (cat : Option Str) (he : d.setCategory cid ln cat = .ok (d', 1)) :
    d'.loops = d.loops.map (fun l => if l.cid == cid && l.loopNum == ln then { l with category := cat } else l) ∧
    (∀ x : LoopRow, x.cid = cid → x.loopNum = ln → absLoop d' { x with category := cat } = { absLoop d x with category := cat }) ∧
    (∀ y : LoopRow, absLoop d' y = absLoop d y) ∧
    d'.items = d.items ∧ d'.values = d.values ∧ d'.frames = d.frames ∧ d'.blocks = d.blocks :=
  setCategory_refines d d' cid ln cat he

/-- C04_refines, loop level, proved for add_item: on success the loop gains the name — given spelling, last position — and the given
    value as the last entry of EVERY packet; nothing else of the loop changes; every other loop of the CIF is what it was. -/
theorem C04_refines_add_item (d d' : Db) (l : LH) (key orig : Str) (v : V) (n : Nat) (x : LoopRow) (h : Inv d) (hx : x ∈ d.loops)
    (hxk : x.cid = l.cid ∧ x.loopNum = l.loopNum) (he : addItemBody l key orig v d = .ok (d', n)) :
    absLoop d' x = { category := x.category, names := (absLoop d x).names ++ [orig],
                     packets := (absLoop d x).packets.map (fun p => p ++ [v]) } ∧
    (∀ y ∈ d.loops, ¬(y.cid = x.cid ∧ y.loopNum = x.loopNum) → absLoop d' y = absLoop d y) ∧
    d'.loops = d.loops ∧ d'.frames = d.frames ∧ d'.blocks = d.blocks :=
  addItem_refines d d' l key orig v n x h hx hxk he

/-- C04_refines, loop level, proved for prune: exactly the loops of the container that have no packet in the documented model
    disappear (`prune_selects`); every other loop of the CIF is what it was; block and frame tables untouched. -/
theorem C04_refines_prune (d : Db) (cid : Nat) (h : Inv d) :
    (d.prune cid).loops = d.loops.filter (fun l => !(l.cid == cid && (absLoop d l).packets.isEmpty)) ∧
    (∀ y ∈ d.loops, ¬(y.cid = cid ∧ (absLoop d y).packets = []) → absLoop (d.prune cid) y = absLoop d y) ∧
    (d.prune cid).frames = d.frames ∧ (d.prune cid).blocks = d.blocks := by
  let p : LoopRow → Bool := fun l => l.cid == cid && !(d.items.any (fun i => i.cid == cid && i.loopNum == l.loopNum
      && d.values.any (fun v => v.cid == cid && v.name == i.name)))
  have hr := deleteLoops_refines d p h (fun a b hc hl => by simp only [p, hc, hl])
  have hsel : ∀ l : LoopRow, p l = (l.cid == cid && (absLoop d l).packets.isEmpty) := by
    intro l
    cases hc : (l.cid == cid) with
    | false => simp [p, hc]
    | true =>
      have hl : l.cid = cid := by simpa using hc
      have := prune_selects d cid l hl
      cases hp : p l with
      | true =>
        have h1 : (absLoop d l).packets = [] := this.mp (show p l = true from hp)
        simp [h1]
      | false =>
        cases he : (absLoop d l).packets with
        | nil =>
          have h2 : p l = true := this.mpr he
          rw [hp] at h2; cases h2
        | cons a as => simp
  refine ⟨?_, ?_, hr.2.2.1, hr.2.2.2⟩
  · show (d.deleteLoops p).loops = _
    rw [hr.1]
    apply List.filter_congr
    intro l _
    rw [hsel l]
  · intro y hy hne
    apply hr.2.1 y hy
    rw [hsel y]
    cases hc : (y.cid == cid) with
    | false => simp
    | true =>
      have hyc : y.cid = cid := by simpa using hc
      cases he : (absLoop d y).packets with
      | nil => exact absurd ⟨hyc, he⟩ hne
      | cons a as => simp

/-- C04_refines, loop level, set_value of a NEW item ("… or adds a new scalar"), the composition cif_container_add_scalar runs on the
    scalar loop `x` (found, or just created empty by create_loop_internal — `C04_refines_create_loop` with no names):
    (a) cif_loop_add_item_internal reports the number `n` of packets the scalar loop has;
    (b) after it the loop has the new name last and the value as last entry of every packet — so with one packet (n = 1) the job
        is done: the scalar loop's only packet now also holds the new item;
    (c) with no packet (n = 0) the following cif_loop_add_packet of {item ↦ value} gives the loop EXACTLY ONE packet, holding the
        value for the new item and the unknown value for every other scalar item — `RowsBelow` holds here because the loop has no
        packet, no extra hypothesis.  (The other scalar items get nothing STORED: the same omission as F30.) -/
theorem C04_refines_set_value_new (d d1 : Db) (l : LH) (key orig : Str) (v : V) (n : Nat) (x : LoopRow) (h : Inv d) (hx : x ∈ d.loops)
    (hxk : x.cid = l.cid ∧ x.loopNum = l.loopNum) (he : addItemBody l key orig v d = .ok (d1, n)) :
    n = (absLoop d x).packets.length ∧
    absLoop d1 x = { category := x.category, names := (absLoop d x).names ++ [orig],
                     packets := (absLoop d x).packets.map (fun p => p ++ [v]) } ∧
    (n = 0 → ∀ d2, addPacketBody l [(key, v)] d1 = .ok (d2, ()) →
      (∀ cid', absLoops d2 cid' = (d1.loops.filter (fun y => y.cid == cid')).map (fun y =>
          if y.cid == l.cid && y.loopNum == l.loopNum then
            { absLoop d1 y with packets := [packetFor d1 l.cid l.loopNum [(key, v)]] }
          else absLoop d1 y))) := by
  have hcount := addItemBody_count d d1 l key orig v n x h hxk he
  have hadd := addItem_refines d d1 l key orig v n x h hx hxk he
  refine ⟨hcount, hadd.1, ?_⟩
  intro hn d2 hp
  have hinv1 : Inv d1 := addItemBody_inv l key orig v d d1 n h he
  have hnil : (absLoop d x).packets = [] := by
    cases hps : (absLoop d x).packets with
    | nil => rfl
    | cons a as => rw [hps] at hcount; simp at hcount; omega
  have hnil1 : (absLoop d1 x).packets = [] := by rw [hadd.1, hnil]; rfl
  have hrb : RowsBelow d1 l.cid l.loopNum := by
    have := rowsBelow_of_no_packets d1 x hnil1
    rw [hxk.1, hxk.2] at this; exact this
  have hx1 : x ∈ d1.loops := by rw [hadd.2.2.1]; exact hx
  have href := (addPacket_refines d1 d2 l [(key, v)] hinv1 hrb (by simp) hp).1
  intro cid'
  rw [href cid']
  apply List.map_congr_left
  intro y hy
  cases hk : (y.cid == l.cid && y.loopNum == l.loopNum) with
  | false => rfl
  | true =>
    simp only [if_true]
    have hyk : y.cid = l.cid ∧ y.loopNum = l.loopNum := by simpa using hk
    have hym := (List.mem_filter.mp hy).1
    have : y = x := loopKey_unique d1.loops hinv1.loopPK y hym x hx1 (by rw [hyk.1, hxk.1]) (by rw [hyk.2, hxk.2])
    rw [this, hnil1]
    rfl

/-- `absLoops` is what `abs` shows as the loops of a container -/
theorem C04_absLoops_is_abs (d : Db) (fuel cid : Nat) (code : Str) : (absContainer d (fuel + 1) cid code).loops = absLoops d cid := by
  simp [absContainer, Container.loops, absLoops]

/-- C04_refines, block level, proved: cif_get_all_blocks reports the codes of the documented model's blocks, in created spelling -/
theorem C04_refines_all_blocks (s : Store) :
    (allBlocks s).1 = s ∧ ∃ hs, (allBlocks s).2 = .ok hs ∧ hs.map (·.code) = specBlockCodes (abs s.db) := by
  refine ⟨rfl, _, rfl, ?_⟩
  simp only [specBlockCodes, abs, List.map_map]
  apply List.map_congr_left
  intro b _
  simp [Function.comp, absContainer_code]

/-- set_value of an item the container does not have goes through cif_container_add_scalar — the loop it lands in is the
    one with category "" (the second half of `set_value_all_packets_or_new_scalar`; that this yields exactly one new packet
    is checked by the correspondence oracle, not proved) -/
theorem set_value_new_item_goes_to_scalar (s1 : Store) (hd : CH) (key orig : Str) (v : V)
    (h : itemLoopRows s1.db hd.id key = []) : setValueInner s1 hd key orig v = addScalar s1 hd key orig v := by
  simp [setValueInner, getItemLoopInternal, h]

/-- FULL for the loop level (not proved; the block level is proved above): with `PacketsComplete` (every packet stores a value for every item of its loop — what the documentation
    promises and F30 breaks) and names consistent with `norm`, every loop-level op of the model commutes with `abs` and the
    Spec operation of Spec/DataModel.lean, e.g. for add_packet: -/
def C04_refines_full : Prop :=
  ∀ (norm : Str → Str) (d d' : Db) (l : LH) (row : LoopRow) (pkt : List (Str × V)),
    Inv d → (∀ i ∈ d.items, i.name = norm i.nameOrig) →
    row ∈ d.loops → row.cid = l.cid → row.loopNum = l.loopNum →
    (∀ i ∈ d.loopItems l.cid l.loopNum, pkt.any (fun e => e.1 == i.name) = true) →
    addPacketBody l pkt d = .ok (d', ()) →
    ∃ row' ∈ d'.loops, row'.cid = l.cid ∧ row'.loopNum = l.loopNum ∧
      ((absLoop d row).specAddPacket norm pkt).toOption.map (·.packets.length) = some (absLoop d' row').packets.length

-- the two findings of this group (both repaired in /repo), as statements about the PINNED variants of the model
private def nm (k : Str) : Name := { key := k, orig := k, valid := true }
private def hist30 : List Op := [.cifNew, .mkBlock 0 (some (nm (a!"b"))), .mkLoop 0 (some (a!"cat")) [nm (a!"_a"), nm (a!"_b")],
  .addPkt 0 [(a!"_a", .na)], .rmItem 0 (some (nm (a!"_a")))]
/-- (loops, items, stored values) of the single CIF after a history -/
private def countsAfter (ops : List Op) : List (Nat × Nat × Nat) :=
  (run {} ops).1.cifs.map (fun c => match c with
    | some s => (s.db.loops.length, s.db.items.length, s.db.values.length)
    | none => (0, 0, 0))

/-- F30 (fixed by e266ec6), about the PINNED variant `addPacketBodyPinned`: create_loop(_a,_b); add_packet({_a}); remove_item(_a)
    ended with a loop `_b` WITHOUT packets (no stored value); the documented model keeps the packet (`_b` = unknown) — and so does
    the current model: one stored value is left (the unknown value FILL_PACKET_SQL recorded for `_b`) -/
theorem C04_cex_F30_pinned :
    (match (run {} [.cifNew, .mkBlock 0 (some (nm (a!"b"))), .mkLoop 0 (some (a!"cat")) [nm (a!"_a"), nm (a!"_b")]]).1.cifs with
     | [some s] => (match addPacketBodyPinned { cid := 1, loopNum := 0, category := some (a!"cat") } [(a!"_a", .na)] s.db with
        | .ok (d, _) => ((d.removeItem 1 (a!"_a")).values.length, (d.removeItem 1 (a!"_a")).items.length)
        | .error _ => (99, 99))
     | _ => (99, 99)) = (0, 1) ∧
    countsAfter hist30 = [(1, 1, 1)] ∧
    (((({ category := some (a!"cat"), names := [a!"_a", a!"_b"], packets := [] } : Loop).specAddPacket id [(a!"_a", .na)]).toOption.bind
        (fun l => l.specRemoveItem id (a!"_a"))).map (fun l => l.packets.length)) = some 1 := by decide

/-- F34 (fixed by 95b7b25), about the PINNED variant: set_category(scalar loop, NULL) succeeded and took the reserved category
    away; the documented model refuses it — and so does the current model -/
theorem C04_cex_F34_pinned :
    World.codeOf (setCategoryPinned (setValue (createBlock {} (some (nm (a!"b")))).1 { id := 1, code := a!"b", isBlock := true } (some (nm (a!"_s"))) (some .na)).1
        { cid := 1, loopNum := 0, category := some [] } none).2.2 = CIF_OK ∧
    (({ category := some [], names := [a!"_s"], packets := [[.na]] } : Loop).specSetCategory none).toOption.isNone = true ∧
    ((run {} [.cifNew, .mkBlock 0 (some (nm (a!"b"))), .setVal 0 (some (nm (a!"_s"))) (some .na), .itemLoop 0 (some (nm (a!"_s"))),
        .setCat 0 none]).2.map (·.rc)) = [some 0, some 0, some 0, some 0, some CIF_RESERVED_LOOP] := by decide

-- non-vacuity of the invariant theorems: a history with failing and succeeding ops reaches a non-trivial state
example : countsAfter [.cifNew, .mkBlock 0 (some (nm (a!"b"))), .mkLoop 0 none [nm (a!"_a"), nm (a!"_b")],
    .addPkt 0 [(a!"_a", .na), (a!"_b", .unk)], .addPkt 0 [(a!"_a", .na), (a!"_zz", .unk)], .setVal 0 (some (nm (a!"_s"))) none] = [(2, 3, 3)] := by decide


-- ---- the World-level invariant WOk and the documented contract ------------------------------------------------------------------------

theorem okC_busy {w : World} {c : Nat} {s : Store} (hin : okC w c = true) (hl : w.liveC c = some s) : w.cifBusy c = false := by
  unfold okC at hin; rw [hl] at hin; simpa using hin
theorem okH_busy {w : World} {hh : Nat} {e : CHE} {s : Store} (hin : okH w hh = true) (hl : w.liveH hh = some (e, s)) :
    w.cifBusy e.cif = false := by
  unfold okH at hin; rw [hl] at hin; simp only [Bool.and_eq_true, Bool.not_eq_true'] at hin; exact hin.1
theorem okL_busy {w : World} {l : Nat} {e : LHE} {s : Store} (hin : okL w l = true) (hl : w.liveL l = some (e, s)) :
    w.cifBusy e.cif = false ∧ e.h.validB s.db = true := by
  unfold okL LH.okB at hin; rw [hl] at hin; simp only [Bool.and_eq_true, Bool.not_eq_true'] at hin; exact ⟨hin.1, hin.2.1⟩

/-- (review rA, A.9) cif_container_destroy "removes the associated container and all its contents": a container whose row outlives
    the destroy of an ancestor (the store keeps the `container` rows of nested frames; only their save_frame rows cascade) is NOT part
    of the CIF (`Db.inCif`: the row exists and climbs through save_frame rows with existing parents to a data block) — and every call
    through a container handle on it, or through a loop handle on one of its loops, is OUT of contract: `C04_refines` says nothing
    about reads or writes inside a destroyed container (cif.h: such handles are invalid, their use is undefined). -/
theorem C04_handle_outside_cif (w : World) (hh : Nat) (e : CHE) (s : Store) (hl : w.liveH hh = some (e, s))
    (hno : s.db.inCif e.h.id = false) (n : Option Name) (v : Option V) (cat : Option Str) (names : List Name) :
    inContract w (.getVal hh n) = false ∧ inContract w (.setVal hh n v) = false ∧ inContract w (.rmItem hh n) = false ∧
    inContract w (.mkLoop hh cat names) = false ∧ inContract w (.mkFrame hh n) = false ∧ inContract w (.getFrame hh n) = false ∧
    inContract w (.frames hh) = false ∧ inContract w (.loops hh) = false ∧ inContract w (.catLoop hh cat) = false ∧
    inContract w (.itemLoop hh n) = false ∧ inContract w (.prune hh) = false ∧ inContract w (.cdestroy hh) = false := by
  have h0 : okH w hh = false := by unfold okH CH.okB; rw [hl]; simp [hno]
  exact ⟨h0, h0, h0, h0, h0, h0, h0, h0, h0, h0, h0, h0⟩

theorem C04_loop_handle_outside_cif (w : World) (l : Nat) (e : LHE) (s : Store) (hl : w.liveL l = some (e, s))
    (hno : s.db.inCif e.h.cid = false) (hb : w.cifBusy e.cif = false) (n : Option Name) (v : Option V) (cat : Option Str) (p : List (Str × V)) :
    inContract w (.addPkt l p) = false ∧ inContract w (.addItem l n v) = false ∧ inContract w (.setCat l cat) = false ∧
    inContract w (.names l) = false ∧ inContract w (.ldestroy l) = false ∧ inContract w (.itOpen l) = false := by
  have h0 : okL w l = false := by unfold okL LH.okB; rw [hl]; simp [hno]
  have h1 : okLOpen w l = false := by unfold okLOpen LH.okB; rw [hl]; simp [hno, hb]
  refine ⟨?_, h0, h0, h0, h0, h1⟩
  show (okL w l && keysDistinct p) = false
  rw [h0]; rfl

/-- Every op that keeps to the documented contract (`inContract`, Model/StoreContract: valid handles; while an iterator is open on a
    CIF only that iterator's calls work on it) keeps `WOk`: every managed CIF — content and every snapshot a rollback could restore —
    satisfies `Inv`, PacketsTotal (every packet has a stored value for every item of its loop: what fix e266ec6 of F30 established),
    RowsBelowAll (no stored row number above last_row_num) and ScalarCount (a scalar loop with last_row_num 1 has its packet); every
    open iterator is tied to its store (`IterOk`: names, scalar flag, current row, rows to come); a CIF has at most one open iterator;
    a CIF without open iterator is in autocommit mode (`Quiet`). -/
theorem C04_wok_step (w : World) (op : Op) (h : WOk w) (hin : inContract w op = true) : WOk (step w op).1 := by
  cases op with
  | cifNew => exact h.cifNew rfl rfl
  | cifDel c =>
    simp only [step]; split
    · exact h
    · rename_i s hl; exact h.cifDel c (okC_busy hin hl) rfl rfl
  | mkBlock c n len =>
    simp only [step]; split
    · exact h.same rfl rfl
    · rename_i s hl; exact h.setFree c _ (createBlock_goodS (h.good.live hl) n len) (createBlock_autocommit s n len (h.autocommit hl (okC_busy hin hl))) (okC_busy hin hl) rfl rfl
  | getBlock c n =>
    simp only [step]; split
    · exact h.same rfl rfl
    · rename_i s hl; exact h.setFree c _ (by rw [getBlock_fst]; exact h.good.live hl) (by rw [getBlock_fst]; exact h.autocommit hl (okC_busy hin hl)) (okC_busy hin hl) rfl rfl
  | blocks c =>
    simp only [step]; split
    · exact h
    · rename_i s hl; exact h.setFree c _ (h.good.live hl) (h.autocommit hl (okC_busy hin hl)) (okC_busy hin hl) rfl rfl
  | mkFrame hh n len =>
    simp only [step]; split
    · exact h.same rfl rfl
    · rename_i e s hl; exact h.setFree _ _ (createFrame_goodS (h.good.live (liveH_liveC hl)) e.h n len) (createFrame_autocommit s e.h n len (h.autocommit (liveH_liveC hl) (okH_busy hin hl))) (okH_busy hin hl) rfl rfl
  | getFrame hh n =>
    simp only [step]; split
    · exact h.same rfl rfl
    · rename_i e s hl; exact h.setFree _ _ (by rw [getFrame_fst]; exact h.good.live (liveH_liveC hl)) (by rw [getFrame_fst]; exact (h.autocommit (liveH_liveC hl) (okH_busy hin hl))) (okH_busy hin hl) rfl rfl
  | frames hh =>
    simp only [step]; split
    · exact h
    · rename_i e s hl; exact h.setFree _ _ (h.good.live (liveH_liveC hl)) (h.autocommit (liveH_liveC hl) (okH_busy hin hl)) (okH_busy hin hl) rfl rfl
  | cdestroy hh =>
    simp only [step]; split
    · exact h
    · rename_i e s hl
      split
      · exact h
      · exact h.setFree _ _ (destroyContainer_goodS (h.good.live (liveH_liveC hl)) e.h) (destroyContainer_autocommit s e.h (h.autocommit (liveH_liveC hl) (okH_busy hin hl))) (okH_busy hin hl) rfl rfl
  | code hh => simp only [step]; split <;> exact h
  | isBlock hh => simp only [step]; split <;> exact h
  | mkLoop hh cat names =>
    simp only [step]; split
    · exact h.same rfl rfl
    · rename_i e s hl; exact h.setFree _ _ (createLoop_goodS (h.good.live (liveH_liveC hl)) e.h cat names) (createLoop_autocommit s e.h cat names (h.autocommit (liveH_liveC hl) (okH_busy hin hl))) (okH_busy hin hl) rfl rfl
  | catLoop hh cat =>
    simp only [step]; split
    · exact h.same rfl rfl
    · rename_i e s hl; exact h.setFree _ _ (by rw [getCategoryLoop_fst]; exact h.good.live (liveH_liveC hl)) (by rw [getCategoryLoop_fst]; exact (h.autocommit (liveH_liveC hl) (okH_busy hin hl))) (okH_busy hin hl) rfl rfl
  | itemLoop hh n =>
    simp only [step]; split
    · exact h.same rfl rfl
    · rename_i e s hl; exact h.setFree _ _ (by rw [getItemLoop_fst]; exact h.good.live (liveH_liveC hl)) (by rw [getItemLoop_fst]; exact (h.autocommit (liveH_liveC hl) (okH_busy hin hl))) (okH_busy hin hl) rfl rfl
  | loops hh =>
    simp only [step]; split
    · exact h
    · rename_i e s hl
      have hb := okH_busy hin hl
      have h1 := allLoops_goodS (h.good.live (liveH_liveC hl)) e.h
      have q1 := allLoops_autocommit s e.h (h.autocommit (liveH_liveC hl) (okH_busy hin hl))
      -- the caller's get_names on each returned handle keeps both facts
      have fold : ∀ (P : Store → Prop), (∀ s l, P s → P (getNames s l).1) →
          ∀ (ls : List LH) (acc : Store × List (Option Str × Option (List Str))), P acc.1 →
            P (ls.foldl (fun (acc : Store × List (Option Str × Option (List Str))) l =>
              match getNames acc.1 l with
              | (s', .ok ns) => (s', acc.2 ++ [(l.category, some (ns.map (·.2)))])
              | (s', .error _) => (s', acc.2 ++ [(l.category, none)])) acc).1 := by
        intro P hP ls
        induction ls with
        | nil => intro acc ha; exact ha
        | cons l ls ih =>
          intro acc ha
          simp only [List.foldl_cons]
          apply ih
          have hn := hP acc.1 l ha
          split
          · rename_i he; rw [he] at hn; exact hn
          · rename_i he; rw [he] at hn; exact hn
      split
      · rename_i s1 c1 he; rw [he] at h1 q1; exact h.setFree _ _ h1 q1 hb rfl rfl
      · rename_i s1 ls he
        rw [he] at h1 q1
        exact h.setFree _ _ (fold GoodS (fun s l hs => getNames_goodS hs l) ls (s1, []) h1)
          (fold (fun s => s.autocommit = true) (fun s l hs => getNames_autocommit s l hs) ls (s1, []) q1) hb rfl rfl
  | prune hh =>
    simp only [step]; split
    · exact h
    · rename_i e s hl; exact h.setFree _ _ (prune_goodS (h.good.live (liveH_liveC hl)) e.h) (prune_autocommit s e.h (h.autocommit (liveH_liveC hl) (okH_busy hin hl))) (okH_busy hin hl) rfl rfl
  | getVal hh n =>
    simp only [step]; split
    · exact h
    · rename_i e s hl
      have hb := okH_busy hin hl
      split
      · exact h
      · rename_i nm
        have hf := getValue_fst s e.h (some nm)
        split
        · rename_i s1 v amb he; rw [he] at hf; simp only [] at hf; subst hf; exact h.setFree _ _ (h.good.live (liveH_liveC hl)) (h.autocommit (liveH_liveC hl) hb) hb rfl rfl
        · rename_i s1 c1 he; rw [he] at hf; simp only [] at hf; subst hf; exact h.setFree _ _ (h.good.live (liveH_liveC hl)) (h.autocommit (liveH_liveC hl) hb) hb rfl rfl
  | setVal hh n v =>
    simp only [step]; split
    · exact h
    · rename_i e s hl; exact h.setFree _ _ (setValue_goodS (h.good.live (liveH_liveC hl)) e.h n v) (setValue_autocommit s e.h n v (h.autocommit (liveH_liveC hl) (okH_busy hin hl))) (okH_busy hin hl) rfl rfl
  | rmItem hh n =>
    simp only [step]; split
    · exact h
    · rename_i e s hl; exact h.setFree _ _ (removeItem_goodS (h.good.live (liveH_liveC hl)) e.h n) (removeItem_autocommit s e.h n (h.autocommit (liveH_liveC hl) (okH_busy hin hl))) (okH_busy hin hl) rfl rfl
  | ldestroy l =>
    simp only [step]; split
    · exact h
    · rename_i e s hl
      split
      · exact h
      · exact h.setFree _ _ (destroyLoop_goodS (h.good.live (liveL_liveC hl)) e.h) (destroyLoop_autocommit s e.h (h.autocommit (liveL_liveC hl) (okL_busy hin hl).1)) (okL_busy hin hl).1 rfl rfl
  | getCat l => simp only [step]; split <;> exact h
  | setCat l cat =>
    simp only [step]; split
    · exact h
    · rename_i e s hl; exact h.setFree _ _ (setCategory_goodS (h.good.live (liveL_liveC hl)) e.h cat) (setCategory_autocommit s e.h cat (h.autocommit (liveL_liveC hl) (okL_busy hin hl).1)) (okL_busy hin hl).1 rfl rfl
  | names l =>
    simp only [step]; split
    · exact h
    · rename_i e s hl; exact h.setFree _ _ (getNames_goodS (h.good.live (liveL_liveC hl)) e.h) (getNames_autocommit s e.h (h.autocommit (liveL_liveC hl) (okL_busy hin hl).1)) (okL_busy hin hl).1 rfl rfl
  | addItem l n v =>
    simp only [step]; split
    · exact h
    · rename_i e s hl
      split
      · exact h
      · exact h.setFree _ _ (addItem_goodS (h.good.live (liveL_liveC hl)) e.h _ v) (addItem_autocommit s e.h _ v (h.autocommit (liveL_liveC hl) (okL_busy hin hl).1)) (okL_busy hin hl).1 rfl rfl
  | addPkt l p =>
    simp only [step]; split
    · exact h
    · rename_i e s hl
      have hin' : okL w l = true := by
        have : (okL w l && keysDistinct p) = true := hin
        simp only [Bool.and_eq_true] at this; exact this.1
      exact h.setFree _ _ (addPacket_goodS (h.good.live (liveL_liveC hl)) e.h p) (addPacket_autocommit s e.h p (h.autocommit (liveL_liveC hl) (okL_busy hin' hl).1)) (okL_busy hin' hl).1 rfl rfl
  | itOpen l =>
    simp only [step]; split
    · exact h.itNone rfl rfl
    · rename_i e s hl
      have hin' : (w.cifBusy e.cif || e.h.validB s.db) = true := by
        have : okLOpen w l = true := hin
        unfold okLOpen LH.okB at this; rw [hl] at this
        simp only [Bool.or_eq_true, Bool.and_eq_true] at this ⊢
        exact this.imp id (fun h => h.1)
      cases hb : w.cifBusy e.cif with
      | true => exact (h.itOpenBusy l e s hl hb rfl rfl).1
      | false =>
        rw [hb] at hin'
        exact h.itOpen l e s hl hb (by simpa using hin') rfl rfl
  | itNext i =>
    simp only [step]; split
    · exact h
    · rename_i e s hl; exact h.itNext i e s hl rfl rfl
  | itUpd i p =>
    simp only [step]; split
    · exact h
    · rename_i e s hl; exact h.itUpd i e s p hl rfl rfl
  | itRem i =>
    simp only [step]; split
    · exact h
    · rename_i e s hl; exact h.itRem i e s hl rfl rfl
  | itClose i =>
    simp only [step]; split
    · exact h
    · rename_i e s hl; exact h.itEnd i e s _ hl (closeIter_goodS (h.good.live (liveI_liveC hl))) (closeIter_autocommit s) rfl rfl
  | itAbort i =>
    simp only [step]; split
    · exact h
    · rename_i e s hl; exact h.itEnd i e s _ hl (abortIter_goodS (h.good.live (liveI_liveC hl))) (abortIter_autocommit s) rfl rfl

/-- a fresh history satisfies WOk -/
theorem C04_wok_init : WOk {} := WOk.empty

/-- WOk is an invariant of every history that keeps to the contract -/
theorem C04_wok_hist : ∀ (ops : List Op) (w : World), WOk w → inContractHist w ops = true → WOk (run w ops).1
  | [], w, h, _ => h
  | op :: ops, w, h, hc => by
    unfold run
    have hc' : (inContract w op && inContractHist (step w op).1 ops) = true := hc
    simp only [Bool.and_eq_true] at hc'
    exact C04_wok_hist ops _ (C04_wok_step w op h hc'.1) hc'.2

/-- what WOk says about one CIF: every packet of every loop has a stored value for every item of the loop … -/
theorem C04_packets_total (w : World) (h : WOk w) (c : Nat) (s : Store) (hs : w.cifs.getD c none = some s) :
    ∀ x ∈ s.db.loops, ∀ r ∈ s.db.loopRows x.cid x.loopNum, ∀ j ∈ s.db.loopItems x.cid x.loopNum, s.db.hasValue x.cid j.name r = true :=
  (h.good c s hs).db.total

/-- … no stored row number of a loop exceeds its last_row_num (the hypothesis `RowsBelow` of `C04_refines_add_packet` and
    `C04_code_add_packet`), and the scalar loop's last_row_num counts its packet (the other hypothesis of `C04_code_add_packet`) -/
theorem C04_rows_below (w : World) (h : WOk w) (c : Nat) (s : Store) (hs : w.cifs.getD c none = some s) :
    (∀ cid ln, RowsBelow s.db cid ln) ∧
    (∀ x ∈ s.db.loops, x.category = some [] → (1 ≤ x.lastRowNum ↔ s.db.loopRows x.cid x.loopNum ≠ [])) :=
  ⟨fun cid ln => (h.good c s hs).db.rows.rb.at cid ln, fun x hx hsx => (h.good c s hs).db.rows.scalar_count (h.good c s hs).db.inv x hx hsx⟩

/-- … and every live iterator stands on a packet its loop has (the side condition `Iter.Attached` that cif_pktitr_update_packet
    needs to keep PacketsTotal) with the item names of that loop and a `scalar` flag true to the stored category -/
theorem C04_iterator_tied (w : World) (h : WOk w) (i : Nat) (e : ITE) (s : Store) (hl : w.liveI i = some (e, s)) :
    IterOk e.it s.db := h.iters.of_liveI hl

/-- … and a CIF on which no iterator is open is in autocommit mode: the library leaves no transaction open -/
theorem C04_quiet (w : World) (h : WOk w) (c : Nat) (s : Store) (hs : w.liveC c = some s) (hb : w.cifBusy c = false) :
    s.autocommit = true := h.autocommit hs hb

-- ---- the loop-level theorems with their hypotheses discharged by WOk and the contract ------------------------------------------------

/-- cif_loop_add_packet in a world satisfying WOk, the op in contract: code and effect are the documented model's, and nothing about
    the history is assumed — RowsBelow, the scalar count and the handle's loop come from `WOk` / `inContract`.  (Remaining
    hypothesis: item names are stored normalised, `ItemsNormOK norm` — `norm` is C09's and the names come from the caller.) -/
theorem C04_add_packet_in_contract (norm : Str → Str) (w : World) (l : Nat) (p : List (Str × V)) (h : WOk w)
    (hin : inContract w (.addPkt l p) = true) (e : LHE) (s : Store) (hl : w.liveL l = some (e, s)) (hn : ItemsNormOK norm s.db) :
    ∃ x ∈ s.db.loops, x.cid = e.h.cid ∧ x.loopNum = e.h.loopNum ∧
      (addPacket s e.h p).2 = ((absLoop s.db x).specAddPacket norm p).map (fun _ => ()) ∧
      (match (addPacket s e.h p).2 with
       | .ok _ => (∀ cid', absLoops (addPacket s e.h p).1.db cid' = (s.db.loops.filter (fun y => y.cid == cid')).map (fun y =>
                    if y.cid == e.h.cid && y.loopNum == e.h.loopNum then
                      { absLoop s.db y with packets := (absLoop s.db y).packets ++ [packetFor s.db e.h.cid e.h.loopNum p] }
                    else absLoop s.db y)) ∧
                  (addPacket s e.h p).1.db.frames = s.db.frames ∧ (addPacket s e.h p).1.db.blocks = s.db.blocks
       | .error _ => (addPacket s e.h p).1.db = s.db) := by
  have hin' : (okL w l && keysDistinct p) = true := hin
  simp only [Bool.and_eq_true] at hin'
  exact addPacket_good norm s e.h p (h.good.live (liveL_liveC hl)).db (okL_busy hin'.1 hl).2 hin'.2 hn

/-- cif_loop_set_category in a world satisfying WOk, the op in contract: the documented model's code -/
theorem C04_set_category_in_contract (w : World) (l : Nat) (cat : Option Str) (h : WOk w)
    (hin : inContract w (.setCat l cat) = true) (e : LHE) (s : Store) (hl : w.liveL l = some (e, s)) :
    ∃ x ∈ s.db.loops, x.cid = e.h.cid ∧ x.loopNum = e.h.loopNum ∧
      (Store.setCategory s e.h cat).2.2 = ((absLoop s.db x).specSetCategory cat).map (fun _ => ()) :=
  setCategory_good s e.h cat (h.good.live (liveL_liveC hl)).db (okL_busy hin hl).2

/-- in every CIF of a world satisfying WOk, cif_container_get_value sees exactly the item's column of the documented model
    (`hcomplete` of `C04_refines_get_value` is PacketsTotal), and removing an item that is not its loop's last keeps every packet
    (`hcomplete` of `C04_refines_remove_item`) -/
theorem C04_get_value_in_wok (w : World) (h : WOk w) (c : Nat) (s : Store) (hs : w.cifs.getD c none = some s)
    (x : LoopRow) (hx : x ∈ s.db.loops) (i : ItemRow) (hi : i ∈ s.db.loopItems x.cid x.loopNum) :
    (s.db.valuesOf x.cid i.name).map (·.val) = absColumn s.db x i :=
  getValue_good s.db (h.good c s hs).db x hx i hi

theorem C04_remove_item_in_wok (w : World) (h : WOk w) (c : Nat) (s : Store) (hs : w.cifs.getD c none = some s)
    (x : LoopRow) (i j0 : ItemRow) (hx : x ∈ s.db.loops) (hi : i ∈ s.db.loopItems x.cid x.loopNum)
    (hj0 : j0 ∈ s.db.loopItems x.cid x.loopNum) (hne0 : j0.name ≠ i.name) :
    let d' := s.db.removeItem x.cid i.name
    let keep := (s.db.loopItems x.cid x.loopNum).filter (fun j => !(j.name == i.name))
    absLoop d' x = { category := x.category, names := keep.map (·.nameOrig),
                     packets := (s.db.loopRows x.cid x.loopNum).map (fun r => keep.map (fun j => cell s.db x.cid j r)) } ∧
    (∀ y ∈ s.db.loops, ¬(y.cid = x.cid ∧ y.loopNum = x.loopNum) → absLoop d' y = absLoop s.db y) ∧
    d'.loops = s.db.loops ∧ d'.frames = s.db.frames ∧ d'.blocks = s.db.blocks :=
  removeItem_good s.db (h.good c s hs).db x i j0 hx hi hj0 hne0

/-- "removing a loop's last item removes the loop" — about the API function cif_container_remove_item (review gB, C04 S1): in a `Good`
    store outside any transaction, removing through any container handle an item that is the only item of its loop returns CIF_OK and
    leaves the documented model without exactly that loop; every other loop, with its items and packets, is what it was. -/
theorem remove_last_item_removes_loop (s : Store) (hd : CH) (nm : Name) (hg : Good s.db) (hac : s.autocommit = true)
    (hv : nm.valid = true) (x : ALoop) (hx : (absS s.db).itemLoop hd.id nm.key = some x) (hlast : x.items.length = 1) :
    (Store.removeItem s hd (some nm)).2 = .ok () ∧
    absS (Store.removeItem s hd (some nm)).1.db =
      { absS s.db with loops := (absS s.db).loops.filter (fun y => !(y.cid == x.cid && y.num == x.num)) } := by
  obtain ⟨h1, h2⟩ := removeItem_spec s hd (some nm) hg hac
  have hs : specRemoveItem (absS s.db) hd (some nm) =
      ({ absS s.db with loops := (absS s.db).loops.filter (fun y => !(y.cid == x.cid && y.num == x.num)) }, .ok ()) := by
    unfold specRemoveItem
    simp [hv, hx, hlast]
  rw [hs] at h1 h2
  exact ⟨h2, h1⟩

/-- cif_loop_get_packets while an iterator is open on the same CIF (any loop): refused — no second iterator — and the world still
    satisfies WOk: the open iterator is tied to its store, its transaction is open, nothing of the CIF changed (seeded change C06_6) -/
theorem C04_second_get_packets_refused (w : World) (h : WOk w) (l : Nat) (e : LHE) (s : Store) (hl : w.liveL l = some (e, s))
    (hb : w.cifBusy e.cif = true) :
    (∃ c, (getPackets s e.h).2 = .error c) ∧ (getPackets s e.h).1.db = s.db ∧ (getPackets s e.h).1.txn = s.txn ∧
    WOk (step w (.itOpen l)).1 := by
  obtain ⟨d, ht⟩ := h.loud e.cif s (liveL_liveC hl) hb
  obtain ⟨hc, htx, hdb⟩ := getPackets_refused s e.h d ht
  refine ⟨hc, hdb, htx, ?_⟩
  have hin : inContract w (.itOpen l) = true := by
    show okLOpen w l = true
    unfold okLOpen; rw [hl]; simp [hb]
  exact C04_wok_step w (.itOpen l) h hin

-- ---- one refinement theorem over histories: all 31 ops ---------------------------------------------------------------------------------

/-- C04_refines: in a world satisfying WOk, an op that keeps to the documented contract does to the documented model with object
    identities (`absW`, Spec/StoreSpec: every managed CIF as container tree + loops of (category, items, packets); every open packet
    iterator as the abstract iterator `AIter`: its loop, the number of packets passed, "has a current packet", the CIF as it was at
    creation) exactly what `specStep` says, and returns the same result — with no further hypothesis, for EVERY op of the API
    (the `covered` hypothesis of earlier versions is gone, `Op.covered` is deleted): cif_create, cif_destroy,
    create_block, get_block, get_all_blocks, create_frame, get_frame, get_all_frames, get_code, is-block, container_destroy, prune,
    create_loop, get_category_loop, get_item_loop, loop_get_category, loop_set_category, loop_get_names, loop_add_item,
    loop_add_packet, loop_destroy, get_value, remove_item, get_all_loops (with the names of each loop), set_value (existing item: the
    value in every packet of its loop; new item: joins the scalar loop, which is created when absent and gets its one packet when it
    has none; invalid name; NULL value), and the six iterator calls get_packets (also the refused second one), next_packet,
    update_packet, remove_packet, close, abort. -/
theorem C04_refines (w : World) (op : Op) (h : WOk w) (hin : inContract w op = true) :
    specStep (absW w) op = some (absW (step w op).1, (step w op).2) :=
  specStep_refines w op h hin

/-- … and over whole histories: ANY history that keeps to the contract, started in a world satisfying WOk (the empty world does:
    `C04_wok_init`), runs on the documented model exactly as on the store model — same final state under `absW`, same result of
    every call -/
theorem C04_refines_hist : ∀ (ops : List Op) (w : World), WOk w → inContractHist w ops = true →
    specRun (absW w) ops = some (absW (run w ops).1, (run w ops).2)
  | [], _, _, _ => rfl
  | op :: ops, w, h, hc => by
    have hc' : (inContract w op && inContractHist (step w op).1 ops) = true := hc
    simp only [Bool.and_eq_true] at hc'
    unfold specRun run
    rw [C04_refines w op h hc'.1]
    simp only []
    rw [C04_refines_hist ops (step w op).1 (C04_wok_step w op h hc'.1) hc'.2]

/-- from the empty world: the documented model predicts every result of every in-contract history -/
theorem C04_refines_from_start (ops : List Op) (hc : inContractHist {} ops = true) :
    specRun {} ops = some (absW (run {} ops).1, (run {} ops).2) :=
  C04_refines_hist ops {} C04_wok_init hc

-- non-vacuity of C04_refines_hist: an in-contract history from the empty world through every kind of op that was not covered before —
-- set_value creating the scalar loop / joining it / on a two-packet loop / with an invalid name, and an iterator session (next,
-- update, remove, a refused second get_packets, a call on another CIF meanwhile) closed, then one aborted
private def histAll : List Op :=
  [.cifNew, .mkBlock 0 (some (nm (a!"b"))), .setVal 0 (some (nm (a!"_s"))) (some .na), .setVal 0 (some (nm (a!"_t"))) none,
   .mkLoop 0 (some (a!"cat")) [nm (a!"_a"), nm (a!"_b")], .addPkt 0 [(a!"_a", .na), (a!"_b", .unk)], .addPkt 0 [(a!"_a", .unk)],
   .setVal 0 (some (nm (a!"_b"))) (some .na), .setVal 0 (some { key := a!"x", orig := a!"x", valid := false }) (some .na),
   .cifNew, .mkBlock 1 (some (nm (a!"c"))),
   .itOpen 0, .itNext 0, .itUpd 0 [(a!"_a", .na)], .setVal 1 (some (nm (a!"_q"))) (some .na), .itOpen 0, .itNext 0, .itRem 0, .itNext 0,
   .itClose 0, .getVal 0 (some (nm (a!"_a"))), .itOpen 0, .itNext 2, .itRem 2, .itAbort 2, .loops 0]
example : inContractHist {} histAll = true := by decide
example : (run {} histAll).2.map (·.rc) =
    [some 0, some 0, some 0, some 0, some 0, some 0, some 0, some 0, some CIF_INVALID_ITEMNAME, some 0, some 0,
     some 0, some 0, some 0, some 0, some CIF_ERROR, some 0, some 0, some CIF_FINISHED, some 0, some 0, some 0, some 0, some 0, some 0, some 0] := by decide
example := C04_refines_from_start histAll (by decide)

/-- cif_container_set_value in a world satisfying WOk, the op in contract: content afterwards and code are the documented model's
    (`specSetValue`), with no assumption about the history -/
theorem C04_set_value_in_contract (w : World) (hh : Nat) (n : Option Name) (v : Option V) (h : WOk w)
    (hin : inContract w (.setVal hh n v) = true) (e : CHE) (s : Store) (hl : w.liveH hh = some (e, s)) :
    absS (Store.setValue s e.h n v).1.db = (specSetValue (absS s.db) e.h n v).1 ∧
    (Store.setValue s e.h n v).2 = (specSetValue (absS s.db) e.h n v).2 :=
  setValue_spec s e.h n v (h.good.live (liveH_liveC hl)) (h.autocommit (liveH_liveC hl) (okH_busy hin hl)) (okH_free hin hl).2

/-- `set_value_all_packets_or_new_scalar`, on the documented model, in closed form (what `specSetValue` amounts to; `C04_refines` /
    `C04_set_value_in_contract` carry it to the API function in every in-contract history):
    an item the container HAS — found by cif_container_get_item_loop — gets the value in EVERY packet of its loop (`ALoop.setColumn`:
    that cell in every packet, every other cell and every other loop untouched); -/
theorem C04_set_value_existing (a : AState) (h : CH) (n : Name) (v : Option V) (l : LH) (hv : n.valid = true)
    (hl : specGetItemLoop a h (some n) = .ok l) :
    specSetValue a h (some n) v = (a.onLoop l.cid l.loopNum (fun y => y.setColumn n.key (v.getD .unk)), .ok ()) :=
  specSetValue_existing a h n v l hv hl

/-- … in every packet: the cell of the item becomes the value, every other cell of the packet stays -/
theorem C04_set_value_cells (items : List (Str × Str)) (k : Str) (v : V) (p : List V) (hp : p.length = items.length) :
    ((items.zip p).map (fun e => if e.1.1 == k then v else e.2)).length = p.length ∧
    ∀ (j : Nat) (it : Str × Str) (c : V), items[j]? = some it → p[j]? = some c →
      ((items.zip p).map (fun e => if e.1.1 == k then v else e.2))[j]? = some (if it.1 == k then v else c) :=
  setColumn_packet items k v p hp

/-- … a NEW item in a container WITHOUT scalar loop: exactly one new loop — last, category "", the item under the spelling given,
    EXACTLY ONE packet holding the value; -/
theorem C04_set_value_creates_scalar_loop (a : AState) (h : CH) (n : Name) (v : Option V) (c : ContainerRow) (hv : n.valid = true)
    (hc : a.containers.find? (fun r => r.id == h.id) = some c)
    (hitem : a.loops.filter (fun y => y.cid == h.id && y.hasItem n.key) = [])
    (hscal : a.loops.filter (fun y => y.cid == h.id && y.category == some []) = [])
    (hfresh : a.findLoop h.id c.nextLoopNum = none) :
    specSetValue a h (some n) v =
      ({ a with containers := a.containers.map (fun r => if r.id == h.id then { r with nextLoopNum := r.nextLoopNum + 1 } else r),
                loops := a.loops ++ [{ cid := h.id, num := c.nextLoopNum, category := some [],
                                       items := [(n.key, n.orig)], packets := [[v.getD .unk]] }] }, .ok ()) :=
  specSetValue_creates a h n v c hv hc hitem hscal hfresh

/-- … a NEW item in a container that HAS its scalar loop `y`: `y` gains the item, last; its packet gains the value, or — when `y` has
    no packet — `y` gets EXACTLY ONE packet (the unknown value for the older items, the value for the new one); nothing else changes;
    an invalid or NULL name: CIF_INVALID_ITEMNAME and nothing changes -/
theorem C04_set_value_joins_scalar_loop (a : AState) (h : CH) (n : Name) (v : Option V) (y : ALoop) (hv : n.valid = true)
    (hitem : a.loops.filter (fun z => z.cid == h.id && z.hasItem n.key) = [])
    (hscal : a.loops.filter (fun z => z.cid == h.id && z.category == some []) = [y])
    (huniq : ∀ z ∈ a.loops, (z.cid == y.cid && z.num == y.num) = true → z = y) :
    specSetValue a h (some n) v =
      (a.onLoop y.cid y.num (fun _ => { y with
          items := y.items ++ [(n.key, n.orig)]
          packets := (if y.packets.isEmpty then [y.items.map (fun _ => V.unk) ++ [v.getD .unk]] else y.packets.map (· ++ [v.getD .unk])) }),
       .ok ()) :=
  specSetValue_joins a h n v y hv hitem hscal huniq

/-- the two hypotheses of `C04_set_value_creates_scalar_loop` / `C04_set_value_joins_scalar_loop` about the documented state hold for
    the abstraction of EVERY store satisfying `Inv` (so: of every reachable one): a loop is determined by (container, number), and the
    loop number a container hands out next is not in use -/
theorem C04_abs_loop_keys (d : Db) (hinv : Inv d) (y : ALoop) (hy : y ∈ (absS d).loops) :
    ∀ z ∈ (absS d).loops, (z.cid == y.cid && z.num == y.num) = true → z = y :=
  absS_keys_unique d hinv y hy

theorem C04_abs_fresh_loop_num (d : Db) (hinv : Inv d) (cid : Nat) (c : ContainerRow)
    (hc : (absS d).containers.find? (fun r => r.id == cid) = some c) : (absS d).findLoop cid c.nextLoopNum = none :=
  absS_fresh d hinv cid c hc

theorem C04_set_value_invalid_name (a : AState) (h : CH) (v : Option V) :
    specSetValue a h none v = (a, .error CIF_INVALID_ITEMNAME) ∧
    ∀ n : Name, n.valid = false → specSetValue a h (some n) v = (a, .error CIF_INVALID_ITEMNAME) :=
  specSetValue_invalid a h v

-- the hypotheses of the three closed forms are met by concrete states of the documented model
private def aEx : AState :=
  { containers := [{ id := 1, nextLoopNum := 1 }], blocks := [{ cid := 1, name := a!"b", nameOrig := a!"b" }], nextId := 2,
    loops := [{ cid := 1, num := 0, category := none, items := [(a!"_a", a!"_a")], packets := [[.na], [.unk]] }] }
private def hEx : CH := { id := 1, code := a!"b", isBlock := true }
private def yEx : ALoop := { cid := 1, num := 1, category := some [], items := [(a!"_s", a!"_s")], packets := [] }
example := C04_set_value_existing aEx hEx (nm (a!"_a")) (some .na) { cid := 1, loopNum := 0, category := none } rfl rfl
example := C04_set_value_creates_scalar_loop aEx hEx (nm (a!"_t")) (some .na) { id := 1, nextLoopNum := 1 } rfl rfl rfl rfl rfl
example := C04_set_value_joins_scalar_loop { aEx with loops := aEx.loops ++ [yEx] } hEx (nm (a!"_t")) (some .na) yEx rfl rfl rfl
  (by intro z hz hk
      have hz' : z = { cid := 1, num := 0, category := none, items := [(a!"_a", a!"_a")], packets := [[.na], [.unk]] } ∨ z = yEx := by
        simpa [aEx] using hz
      rcases hz' with h1 | h1
      · subst h1; simp [yEx] at hk
      · exact h1)
example : (specGetItemLoop { loops := [{ cid := 1, num := 0, category := none, items := [(a!"_a", a!"_a")], packets := [[.na], [.unk]] }] }
    { id := 1, code := [], isBlock := true } (some (nm (a!"_a")))).toOption.map (·.loopNum) = some 0 := by decide
example : ((({ containers := [{ id := 1, nextLoopNum := 0 }] } : AState).containers.find? (fun r => r.id == 1)).map (·.nextLoopNum)) = some 0 := by decide

/-- `names_returned_as_created`, as ops of a history, in ANY world (so inside any history): when cif_create_block succeeds, asking the handle it returned for
    its code gives exactly the spelling the block was created with -/
theorem C04_hist_names_returned_as_created (w : World) (c : Nat) (n : Name)
    (hok : (step w (.mkBlock c (some n))).2.rc = some CIF_OK) :
    (step (step w (.mkBlock c (some n))).1 (.code w.chs.length)).2.rc = some CIF_OK ∧
    (step (step w (.mkBlock c (some n))).1 (.code w.chs.length)).2.out = .str (some n.orig) := by
  simp only [step] at hok ⊢
  cases hl : w.liveC c with
  | none => rw [hl] at hok; cases hok
  | some s =>
    rw [hl] at hok
    simp only [] at hok ⊢
    cases hr : createBlock s (some n) with
    | mk s1 r =>
      rw [hr] at hok
      cases r with
      | error e =>
        exfalso
        have h0 : e = CIF_OK := by
          have : World.codeOf (Except.error e : Except Code CH) = e := rfl
          simpa [this] using hok
        subst h0
        -- cif_create_block fails with CIF_INVALID_BLOCKCODE, CIF_ERROR or CIF_DUP_BLOCKCODE only
        unfold createBlock at hr
        simp only [] at hr
        split at hr
        · simp only [Prod.mk.injEq, Except.error.injEq] at hr; exact absurd hr.2 (by decide)
        · split at hr
          · simp only [Prod.mk.injEq, Except.error.injEq] at hr; exact absurd hr.2 (by decide)
          · split at hr
            · simp only [Prod.mk.injEq, Except.error.injEq] at hr; exact absurd hr.2 (by decide)
            · simp only [Prod.mk.injEq] at hr; cases hr.2
      | ok hB =>
        have hcode := names_returned_as_created s n hB (by rw [hr])
        have hlive : (World.liveH { (w.setCif c s1) with chs := w.chs ++ [some { cif := c, h := hB }] } w.chs.length) =
            some ({ cif := c, h := hB }, s1) := by
          unfold World.liveH World.liveC World.setCif
          simp only [List.getD, List.getElem?_append_right (Nat.le_refl _), Nat.sub_self, List.getElem?_cons_zero, Option.getD_some]
          have := liveC_set_self w c s s1 hl
          simp only [List.getD] at this
          simp [this]
        simp only [hlive, hcode]
        exact ⟨by first | rfl | trivial, by first | rfl | trivial⟩

-- ---- failure-code agreement with Spec/DataModel (loop level) ---------------------------------------------------------------------

/-- cif_loop_set_category returns the documented model's code — CIF_RESERVED_LOOP exactly when the loop is the scalar loop or ""
    is asked for, CIF_OK otherwise, nothing else — for a handle that names an existing loop and carries its stored category -/
theorem C04_code_set_category (s : Store) (l : LH) (cat : Option Str) (x : LoopRow) (h : Inv s.db) (hx : x ∈ s.db.loops)
    (hk : x.cid = l.cid ∧ x.loopNum = l.loopNum) (hcat : l.category = x.category) :
    (Store.setCategory s l cat).2.2 = ((absLoop s.db x).specSetCategory cat).map (fun _ => ()) :=
  setCategory_code s l cat x h hx hk hcat

/-- cif_loop_add_packet returns the documented model's code: CIF_RESERVED_LOOP for the scalar loop that has its packet,
    CIF_WRONG_LOOP for an entry that is not an item of the loop, CIF_OK otherwise (CIF_INVALID_PACKET for the empty packet is
    decided before the body) — and no other code.  Hypotheses beyond `Inv`: the handle names an existing loop; `RowsBelow`; the
    scalar loop's last_row_num counts its packet; the packet's keys are distinct (a packet is a map); names stored normalised. -/
theorem C04_code_add_packet (norm : Str → Str) (d : Db) (l : LH) (pkt : List (Str × V)) (x : LoopRow) (h : Inv d) (hx : x ∈ d.loops)
    (hk : x.cid = l.cid ∧ x.loopNum = l.loopNum) (hrb : RowsBelow d l.cid l.loopNum)
    (hsc : x.category = some [] → (1 ≤ x.lastRowNum ↔ d.loopRows x.cid x.loopNum ≠ []))
    (hnd : pkt.Pairwise (fun a b => a.1 ≠ b.1)) (hn : ItemsNormOK norm d) (hne : pkt ≠ []) :
    (addPacketBody l pkt d).map (fun _ => ()) = ((absLoop d x).specAddPacket norm pkt).map (fun _ => ()) :=
  addPacketBody_code norm d l pkt x h hx hk hrb hsc hnd hn hne

/-- cif_container_remove_item (valid name, no transaction open) returns the documented model's code: CIF_NOSUCH_ITEM exactly when
    no loop of the container has the item, CIF_OK otherwise -/
theorem C04_code_remove_item (norm : Str → Str) (s : Store) (hd : CH) (n : Name) (code : Str) (fs : List Container) (h : Inv s.db)
    (hv : n.valid = true) (hac : s.autocommit = true) (hn : ItemsNormOK norm s.db) :
    (Store.removeItem s hd (some n)).2 = ((Container.mk code fs (absLoops s.db hd.id)).specRemoveItem norm n.key).map (fun _ => ()) :=
  removeItem_code norm s hd n code fs h hv hac hn


-- ---- the save-frame tree ---------------------------------------------------------------------------------------------------------------

/-- `abs` shows every container with everything below it: in every state satisfying the invariant the frame relation has no cycle
    (a frame's container is younger than its parent: `InvTree.frameOrder`, part of `Inv`), and any fuel from `frames.length + 1`
    on gives the same tree -/
theorem C04_abs_fuel_suffices (d : Db) (h : Inv d) (cid : Nat) (code : Str) (fuel : Nat) (hf : d.frames.length + 1 ≤ fuel) :
    absContainer d fuel cid code = absContainer d (d.frames.length + 1) cid code :=
  absContainer_full d h cid code fuel hf

/-- C04_refines, frame level, proved: cif_container_create_frame on an existing container, no transaction open: on success the
    container — viewed at any depth — gains exactly one empty save frame under the given spelling, last among its frames, its other
    frames and its loops are what they were (`Container.specCreateFrame`); the database is `withFrame`, in which every container
    younger than the parent shows what it showed (`C04_create_frame_elsewhere`).  It fails with the documented model's code
    (CIF_INVALID_FRAMECODE, CIF_DUP_FRAMECODE within this container only) and then leaves the store identical. -/
theorem C04_refines_create_frame (norm : Str → Str) (s : Store) (hd : CH) (n : Name) (fuel : Nat) (hac : s.autocommit = true)
    (hn : FramesNormOK norm s.db) (h : Inv s.db) (hhd : s.db.hasContainer hd.id = true) :
    match (createFrame s hd (some n)).2 with
    | .ok h' =>
      (absContainer s.db (fuel + 1) hd.id hd.code).specCreateFrame norm n.key n.orig n.valid =
        .ok (absContainer (createFrame s hd (some n)).1.db (fuel + 1) hd.id hd.code) ∧
      (createFrame s hd (some n)).1.db = withFrame s.db hd.id n.key n.orig ∧
      h'.code = n.orig ∧ h'.id = s.db.nextId ∧ (createFrame s hd (some n)).1.autocommit = true
    | .error c =>
      (absContainer s.db (fuel + 1) hd.id hd.code).specCreateFrame norm n.key n.orig n.valid = .error c ∧
      (createFrame s hd (some n)).1 = s :=
  createFrame_refines norm s hd n fuel hac hn h hhd

theorem C04_create_frame_elsewhere (d : Db) (h : Inv d) (par : Nat) (key orig : Str) (k c : Nat) (code : Str) (hlt : par < c) :
    absContainer (withFrame d par key orig) k c code = absContainer d k c code :=
  absContainer_withFrame d h par key orig k c code hlt

/-- C04_refines, container level, proved: cif_container_destroy of an existing container: every OTHER container shows afterwards,
    to any depth, what it showed before with the destroyed node cut off (`cutFrame`: the save_frame row of the destroyed container
    taken out) — same loops, same packets, same other frames; the block list loses the destroyed block and nothing else. -/
theorem C04_refines_destroy_container (d : Db) (h : Inv d) (id : Nat) (hex : d.hasContainer id = true) :
    (d.deleteContainer id).1.blocks = d.blocks.filter (fun b => !(b.cid == id)) ∧
    (∀ c, c ≠ id → absLoops (d.deleteContainer id).1 c = absLoops d c) ∧
    (∀ (k c : Nat) (code : Str), c ≠ id → absContainer (d.deleteContainer id).1 k c code = absContainer (cutFrame d id) k c code) :=
  destroyContainer_refines d h id hex

end CifModel
