import CifModel.Props.C15Layout
import CifModel.Props.C15Dup
import CifModel.Props.C15Events
/-
  Review rA, property C15 (group gQ: layout, duplicates under arbitrary programs, delivered-callback formula, recovery layer).
  Instances that APPLY the theorems to concrete data, and small witnesses for the findings of notes/review/rA-parts/C15.md.
  No theorem is re-proved here.
-/
namespace CifModel.ReviewRC15
open CifModel ParseCB Lemmas.ParseCB Spec.Doc

-- ---- 1. layout --------------------------------------------------------------------------------------------------------------

/-- frame_start (handler invocation 3) answers SKIP_SIBLINGS, loop_start would be invocation 6 -/
def pSkip : Prog := fun k _ => if k = 3 then SKIP_SIBLINGS else 0
/-- block_start continues, the item `_s` (invocation 2) answers the error code 7 -/
def pErr : Prog := C15_dev1 2 7

-- C15_layout_independent applied: laid-out demo tokens against the layout-free ones, a skipping and an aborting program
example : (parseCB pSkip true C15_demoToks).2.1 = (parseCB pSkip true (tokensOf C15_demo)).2.1
    ∧ (parseCB pSkip true C15_demoToks).2.2 = (parseCB pSkip true (tokensOf C15_demo)).2.2
    ∧ C15_structOf (parseCB pSkip true C15_demoToks).1 = C15_structOf (parseCB pSkip true (tokensOf C15_demo)).1 :=
  C15_layout_independent pSkip true (tokensOf C15_demo) C15_demoToks (C15_withLayout_skel _ _)
-- … the conclusion is not `0 = 0`: the aborting program's code comes back with layout as without
example : (parseCB pErr false C15_demoToks).2.1 = 7 := by
  rw [(C15_layout_independent pErr false (tokensOf C15_demo) C15_demoToks (C15_withLayout_skel _ _)).1]
  decide +kernel

-- C15_layout_free applied
example : C15_structOf (parseCB pSkip true C15_demoToks).1 = (parseCB pSkip true (C15_strip C15_demoToks)).1 :=
  (C15_layout_free pSkip true C15_demoToks).2.2

-- C15_layout_callbacks applied: the existential is met by the theorem; what it gives for a skipping program is ONLY "some marks"
example : ∃ marks : List Int, marks.length ≤ (tokensOf C15_demo).length
      ∧ C15_wsOf (parseCB pSkip true (tokensOf C15_demo)).1 = (List.zipWith segEvents marks ((tokensOf C15_demo).map (·.pre))).flatten
      ∧ C15_wsOf (parseCB pSkip true C15_demoToks).1 = (List.zipWith segEvents marks (C15_demoToks.map (·.pre))).flatten
      ∧ (NoSkipP pSkip → ∀ d ∈ marks, d ≤ 0) :=
  C15_layout_callbacks pSkip true (tokensOf C15_demo) C15_demoToks (C15_withLayout_skel _ _)

/-- FINDING L1 (interleaving).  The layout theorems speak of the two PROJECTIONS of the log (`C15_structOf`: everything but the
    whitespace callbacks; `C15_wsOf`: the whitespace callbacks).  Two logs with the same projections need not be the same log: the
    position of a whitespace callback relative to the handler callbacks ("delivered in document order") is in no statement. -/
def logA : List Ev := [.ws (a!" "), .cifStart true, .blockStart (some (a!"b"))]
def logB : List Ev := [.cifStart true, .blockStart (some (a!"b")), .ws (a!" ")]
example : C15_structOf logA = C15_structOf logB ∧ C15_wsOf logA = C15_wsOf logB
    ∧ logA.map C15_kind ≠ logB.map C15_kind := by
  refine ⟨rfl, rfl, ?_⟩
  decide

-- C15_layout_callbacks_doc / C15_layout_all_continue applied (document level)
example : ∃ marks : List Int, marks.length = C15_demoLayout.length
      ∧ C15_wsOf (parseCB pSkip true (C15_withLayout C15_demoLayout (tokensOf C15_demo))).1
          = (List.zipWith segEvents marks C15_demoLayout).flatten
      ∧ (NoSkipP pSkip → ∀ x ∈ marks, x ≤ 0) :=
  C15_layout_callbacks_doc pSkip (fun k e => by unfold pSkip CONTINUE SKIP_CURRENT SKIP_SIBLINGS; by_cases h : k = 3 <;> simp [h])
    true C15_demo (by decide +kernel) C15_demoLayout (by decide +kernel)
example : C15_wsOf (parseCB allContP false C15_demoToks).1 = C15_layoutEvents C15_demoLayout :=
  C15_layout_all_continue false C15_demo (by decide +kernel) C15_demoLayout (by decide +kernel)

-- C15_layout_all_continue_mirror / C15_layout_stop_semantics applied (norm := ASCII lower-casing)
example : C15_structOf (parseCB allContP true C15_demoToks).1 = docEvents true C15_demo
    ∧ (parseCB allContP true C15_demoToks).2.1 = OK ∧ (parseCB allContP true C15_demoToks).2.2 = denote C15_demo :=
  C15_layout_all_continue_mirror C15d_lower C15_demo (by decide +kernel) C15_demoToks (C15_withLayout_skel _ _)
example : (parseCB pErr true C15_demoToks).2.1 = 7 := by
  rw [(C15_layout_stop_semantics pErr C15d_lower C15_demo (by decide +kernel) C15_demoToks (C15_withLayout_skel _ _)).2.1]
  decide +kernel

-- C15_layout_rendered applied to the Grammar document of the Props file
example : C15_wsText (parseCB allContP true (C15_rendered .cif2 id C15_gdoc C15_glayout)).1
    = ((List.range (C15_sepCount (Spec.Grammar.docPieces C15_gdoc))).map (fun k => Spec.Lexical.renderWs (C15_glayout k))).flatten :=
  C15_layout_rendered .cif2 id C15_gdoc C15_glayout true (by decide +kernel) (by decide +kernel)

-- ---- 2. the delivered-callback formula ------------------------------------------------------------------------------------------

-- C15_callbacks_formula applied (the Props file only evaluates `gDoc`, it never applies the theorem): an item of the second packet
-- answers SKIP_SIBLINGS — the PARSE (not the formula) delivers no packet_end for that packet, then loop_end, block_end, cif_end
example : (parseCB (C15_dev1 13 SKIP_SIBLINGS) true (tokensOf C15_demo)).1.map C15_kind
    = [0, 2, 11, 10, 4, 11, 10, 5, 12, 11, 11, 6, 8, 10, 10, 9, 8, 10, 10, 7, 3, 1] := by
  rw [(C15_callbacks_formula (C15_dev1 13 SKIP_SIBLINGS) true C15d_lower C15_demo (by decide +kernel)).1]
  decide +kernel
-- … and the return value: frame_end (invocation 5) answers 7
example : (parseCB (C15_dev1 5 7) false (tokensOf C15_demo)).2.1 = 7 := by
  rw [(C15_callbacks_formula (C15_dev1 5 7) false C15d_lower C15_demo (by decide +kernel)).2]
  decide +kernel
-- with layout
example : (parseCB (C15_dev1 5 7) true C15_demoToks).2.1 = 7 := by
  rw [(C15_callbacks_formula_layout (C15_dev1 5 7) true C15d_lower C15_demo (by decide +kernel) C15_demoToks (C15_withLayout_skel _ _)).2]
  decide +kernel
-- C15_start_only_callbacks(_layout) applied
example : (parseCB (C15_startDev 3 SKIP_SIBLINGS) true (tokensOf C15_demo)).1.map C15_kind = [0, 2, 11, 10, 4, 3, 1] := by
  rw [(C15_start_only_callbacks (C15_startDev 3 SKIP_SIBLINGS) (C15_startDev_startOnly 3 _ (Or.inr (Or.inr (Or.inl rfl)))) true
    C15d_lower C15_demo (by decide +kernel)).1]
  decide +kernel
example : (C15_structOf (parseCB (C15_startDev 3 SKIP_SIBLINGS) true C15_demoToks).1).map C15_kind = [0, 2, 11, 10, 4, 3, 1] := by
  rw [(C15_start_only_callbacks_layout (C15_startDev 3 SKIP_SIBLINGS) (C15_startDev_startOnly 3 _ (Or.inr (Or.inr (Or.inl rfl)))) true
    C15d_lower C15_demo (by decide +kernel) C15_demoToks (C15_withLayout_skel _ _)).1]
  decide +kernel

/-- FINDING F1 (free `norm`).  `wfDocN norm d` is a hypothesis for an ARBITRARY `norm`; `parseCB` does not depend on `norm`.  With
    `norm := id` the document `data_b _a 1 _A 2` is "duplicate-free", the formula theorem applies and says: item handler for `_A`,
    result 0 — whereas the model the driver runs (`lowerAscii`) and the C make CIF_DUP_ITEMNAME and call no item handler. -/
def caseDoc : Doc := [{ code := a!"b", body := [.item (a!"_a") (.chr false (a!"1")), .item (a!"_A") (.chr false (a!"2"))] }]
example : wfDocN id caseDoc = true ∧ wfDocN C15d_lower caseDoc = false := by decide +kernel
example : (parseCB allContP true (tokensOf caseDoc)).1.map C15_kind = [0, 2, 11, 10, 11, 10, 3, 1] := by
  rw [(C15_callbacks_formula allContP true id caseDoc (by decide +kernel)).1]
  decide +kernel
example : (parseCBD allContP C15d_lower true (tokensOf caseDoc)).1.map C15_kind = [0, 2, 11, 10, 11, 12, 3, 1] := by decide +kernel

-- ---- 3. duplicates --------------------------------------------------------------------------------------------------------------

-- C15_dup_structural_any applied (document with duplicates, skipping program): the conclusion equates two MODELS
example : (parseCBD pSkip C15d_lower true (tokensOf C15d_doc)).2.1 = (xDocD pSkip C15d_lower true C15d_doc (St.init [])).1 := by
  rw [C15_dup_structural_any pSkip C15d_lower true C15d_doc (by decide +kernel) (by decide +kernel)]

-- C15_dup_is_plain_without_duplicates / C15_dup_stop_semantics_without_duplicates applied
example : parseCBD pSkip C15d_lower false (tokensOf C15_demo) = parseCB pSkip false (tokensOf C15_demo) :=
  C15_dup_is_plain_without_duplicates pSkip C15d_lower false C15_demo (by decide +kernel)
example : (parseCBD pErr C15d_lower true (tokensOf C15_demo)).2.1 = 7 := by
  rw [(C15_dup_stop_semantics_without_duplicates pErr C15d_lower C15_demo (by decide +kernel)).2]
  decide +kernel

-- C15_dup_stop_semantics_store applied: `hdom` is met (decided on the model's own output), the conclusion evaluates
example : (parseCBD (C15_dev2 2 (-1) 9 7) C15d_lower true (tokensOf C15d_doc)).2.1 = 7 := by
  rw [(C15_dup_stop_semantics_store (C15_dev2 2 (-1) 9 7) C15d_lower C15d_doc (by decide +kernel) (by decide +kernel)).2]
  decide +kernel

/-- FINDING D1 (`wfDoc` reaches outside the model's domain).  `data_b _a 1 loop_ _A 2`: well-formed in the sense of `wfDoc`; the only
    name of the header is a duplicate, so the model answers MALFORMED (= 1000) — parser.c goes on (loop_start with no name, packets).
    `C15_dup_structural_any`, `C15_dup_events_sublist`, `C15_rec_is_dup_on_wellformed` have no `hdom` hypothesis: they hold on this
    document, about a run that is not the C's. -/
def lostDoc : Doc := [{ code := a!"b", body := [.item (a!"_a") (.chr false (a!"1")), .loop [a!"_A"] [[.chr false (a!"2")]]] }]
example : wfDoc lostDoc = true ∧ (parseCBD allContP C15d_lower true (tokensOf lostDoc)).2.1 = MALFORMED
    ∧ (parseCBR allContP C15d_lower true (tokensOf lostDoc)).2.1 = MALFORMED := by decide +kernel
-- after the repair (gQ2): the four theorems carry `hdom` in their statements, and `hdom` FAILS on `lostDoc`, so they no longer speak
-- about it (the hypothesis-free equality survives only as the helper `parseCBR_is_parseCBD`, a fact about the two models)
example : ¬ ((parseCBD allContP C15d_lower true (tokensOf lostDoc)).2.1 ≠ MALFORMED) := by decide +kernel
example : parseCBR allContP C15d_lower true (tokensOf lostDoc) = parseCBD allContP C15d_lower true (tokensOf lostDoc) :=
  parseCBR_is_parseCBD allContP C15d_lower true lostDoc (by decide +kernel)

-- C15_dup_events_sublist applied; the conclusion is a SUBLIST of abstracted callbacks with the error callbacks removed
example : (view (parseCBD pSkip C15d_lower true (tokensOf C15d_doc)).1).Sublist ((docEvents true C15d_doc).map absEv) :=
  C15_dup_events_sublist pSkip C15d_lower C15d_doc (by decide +kernel) (by decide +kernel)
-- what `view` forgets: the error callbacks and the names of loop_start (here: two names dropped, `_x _y` retained of four)
example : view [errEv 53, .loopStart [a!"_x", a!"_y"]] = view [.loopStart [a!"_x", a!"_A", a!"_y", a!"_X"]] := by
  simp [view, absEv, isErr, errEv]

-- C15_dup_cut_extends_mirror applied
example : (cDocD allContP C15_lower C15_dupDoc).cif = dupDenote C15_lower C15_dupDoc :=
  C15_dup_cut_extends_mirror C15_lower C15_dupDoc (by decide +kernel) (by decide +kernel)

-- C15_dup_layout applied
example : (parseCBD pSkip C15d_lower true (C15_withLayout C15_demoLayout (tokensOf C15d_doc))).2.1
    = (parseCBD pSkip C15d_lower true (tokensOf C15d_doc)).2.1 :=
  (C15_dup_layout pSkip C15d_lower true (tokensOf C15d_doc) _ (C15_withLayout_skel C15_demoLayout _)).1

-- C15_dup_header_dropped_column: hypotheses met on the header of `C15d_doc` against a block holding `_a`, followed by the end of input
def heldA : Content := ⟨[], [{ category := some [], names := [a!"_a"], packets := [[.unk]] }]⟩
def hdrNames : List Str := [a!"_x", a!"_A", a!"_y", a!"_X"]
def hdrPks : List (List V) := [[.chr false (a!"1"), .chr false (a!"2"), .chr false (a!"3"), .chr false (a!"4")]]
example : (parseLoopD allContP C15d_lower 20 true heldA
      (atb (St.init []) (hdrNames.map (fun n => plain .name n) ++ ((hdrPks.map valuesToks).flatten ++ plain .end_ [] :: [])) false)).1 = OK :=
  by rw [C15_dup_header_dropped_column C15d_lower heldA hdrNames hdrPks (plain .end_ []) [] (St.init []) false 20 rfl rfl
    (by decide +kernel) (by decide +kernel) (by decide +kernel) (by decide +kernel) (by decide +kernel)]

-- ---- 4. the recovery layer the driver runs ------------------------------------------------------------------------------------

-- C15_rec_is_dup_on_wellformed(_layout) applied: document with duplicates, skipping program
example : parseCBR pSkip C15d_lower true (tokensOf C15d_doc) = parseCBD pSkip C15d_lower true (tokensOf C15d_doc) :=
  C15_rec_is_dup_on_wellformed pSkip C15d_lower true C15d_doc (by decide +kernel) (by decide +kernel)
example : (parseCBR pSkip C15d_lower false (C15_withLayout C15_demoLayout (tokensOf C15d_doc))).2.1
    = (parseCBD pSkip C15d_lower false (tokensOf C15d_doc)).2.1 :=
  (C15_rec_is_dup_on_wellformed_layout pSkip C15d_lower false C15d_doc (by decide +kernel) (by decide +kernel) _ (C15_withLayout_skel C15_demoLayout _)).1

/-- FINDING R1 (what "well-formed" excludes / the token-level theorems outside it).  `data_b loop_ _x _y 1` (truncated packet) is not
    `wfDoc`.  There the model the driver RUNS recovers (CIF_PARTIAL_PACKET, packet_end, result 0) while the models the token-level
    theorems "for ALL token sequences" are about (`parseCB`: C15_layout_independent / _free / _callbacks; `parseCBD`: C15_dup_layout)
    stop with 1000, a code cif_parse never returns: on such sequences those theorems are about runs no correspondence case shows. -/
def partialToks : List Tok :=
  [plain .blockHead (a!"b"), plain .loopKw [], plain .name (a!"_x"), plain .name (a!"_y"),
   { ty := .value, pre := [], text := [], v := .chr false (a!"1") }, plain .end_ []]
example : (parseCBR allContP C15d_lower true partialToks).2.1 = 0
    ∧ (parseCBD allContP C15d_lower true partialToks).2.1 = MALFORMED
    ∧ (parseCB allContP true partialToks).2.1 = MALFORMED
    ∧ ((parseCBR allContP C15d_lower true partialToks).1.map C15_kind).length
        = ((parseCB allContP true partialToks).1.map C15_kind).length + 5 := by decide +kernel

end CifModel.ReviewRC15
