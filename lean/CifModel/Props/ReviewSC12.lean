import CifModel.Props.C12Die
import CifModel.Props.C12Bare
import CifModel.Props.C12ScanMulti
/-
  Review rB, property C12, part of group gW (Props/C12Two, C12Frames, C12Die, C12Bare, C12ScanMulti); notes/review/rB-parts/C12.md.

    (I1) `C12_die_dup_itemname` APPLIED to a text of its own (`data_a ⏎ _y 1 ⏎ _Y 2 ⏎ _z ⏎`): the abort-on-error parse returns
         CIF_DUP_ITEMNAME, ONE report, the block holds `_y 1` only — although another defect (`_z` without value) stands behind.
    (I2) finding M3: CIF_INVALID_BARE_VALUE is reachable through `parse` (evaluated; there is no `_chars_` theorem for this class
         and Props/C12Bare shows no state that `Feeds` such a VALUE token).
-/
namespace CifModel.ReviewSC12
open CifModel CifModel.Model CifModel.Model.Lexer CifModel.Model.Parser CifModel.Spec.Lexical CifModel.Spec.Grammar
open CifModel.Gen.ErrCodes CifModel.Lemmas.LexGlue CifModel.Lemmas.DefectChars CifModel.Props

/-- `data_a ⏎ _y 1 ⏎ _Y 2 ⏎ _z ⏎` -/
def csD : List Chunk :=
  [.tk (.data (a!"a")), .ws [.eol], .tk (.name (a!"_y")), .ws [.blank 32], .tk (.val .bare (a!"1")), .ws [.eol],
   .tk (.name (a!"_Y")), .ws [.blank 32], .tk (.val .bare (a!"2")), .ws [.eol], .tk (.name (a!"_z")), .ws [.eol]]

theorem okD : okC .cif2 .end_ [] csD := by
  simp only [csD, okC, List.nil_append]
  repeat' apply And.intro
  all_goals first | decide | (intro h; cases h) | exact Or.inl rfl | (right; intro b rest h; cases h) | exact List.all_eq_true.mp (by decide)

theorem hostD : DieHost C12.opts2 csD [] (a!"a") (itemsToks [.item (a!"_y") (.str (a!"1") .bare)] ++ [(.name, a!"_Y")])
    [(.value, a!"2"), (.name, a!"_z")] where
  store := rfl
  utf := rfl
  ok := okD
  fit := by decide
  first := ⟨100, _, rfl, by decide, by decide⟩
  mfd := by decide
  wfPreB := rfl
  wfBc := by decide
  fresh := by intro b hb; cases hb
  hToks := by decide

/-- (I1) rc = CIF_DUP_ITEMNAME, one report (4 tokens into the text: `data_a _y 1 _Y`), content = block `a` with `_y 1` -/
theorem I1 : DieOutcome C12.opts2 csD CIF_DUP_ITEMNAME
    [.mk (a!"a") [] [{ category := some [], names := [a!"_y"], packets := [[.chr false (a!"1")]] }]] 4 :=
  C12_die_dup_itemname C12.opts2 csD [] (a!"a") [.item (a!"_y") (.str (a!"1") .bare)] (a!"_Y") _ hostD (by decide) (by decide)
    (by decide)

/-- … read off: the observable return value and the number of callbacks -/
example : ∃ r, parse C12.opts2 dieAll [] (renderChunks csD)
    = { rc := (CIF_DUP_ITEMNAME : Int), log := [r],
        cif := [.mk (a!"a") [] [{ category := some [], names := [a!"_y"], packets := [[.chr false (a!"1")]] }]] } :=
  let ⟨r, h, _, _⟩ := I1; ⟨r, h⟩

/-- (I2) `data_a ⏎ _x $abc ⏎`: exactly one report, CIF_INVALID_BARE_VALUE, rc 0 — the branch of `C12_invalid_bare_value` is
    reachable in `parse` (the scanner hands over `$abc` as a VALUE token without a report) -/
example : ((parse C12.opts2 acceptAll [] (a!"data_a" ++ [10] ++ a!"_x $abc" ++ [10])).log.map (·.code),
           (parse C12.opts2 acceptAll [] (a!"data_a" ++ [10] ++ a!"_x $abc" ++ [10])).rc)
    = ([CIF_INVALID_BARE_VALUE], 0) := by decide +kernel

end CifModel.ReviewSC12
