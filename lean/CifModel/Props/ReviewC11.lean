import CifModel.Props.C11
/-
  Review of property C11 (group gA, independent review): instances of theorem HYPOTHESES that the property file does not
  instantiate.  Core Lean; kernel evaluation on `List Nat` / enumerations only.
-/
namespace CifModel.ReviewC11
open CifModel Model.Dialect Spec.Dialect

/-- a UTF-16LE file with BOM and a UTF-8 file with BOM holding the same text `#\#CIF_2.0 …`: all hypotheses of
    `C11_same_version_any_signature` (formerly `C11_same_text_any_signature`), and the theorem applied -/
def h16 : Header := ⟨some .utf16le, false, false, none, false, .v2, true, false⟩
def h8 : Header := ⟨some .utf8, false, true, some 10, true, .v2, true, false⟩

example (prefer : Int) (cfg : Cfg) :
    (select prefer false cfg h16).version = (select prefer false cfg h8).version ∧
    (select prefer false cfg h16).bomDisallowed = (select prefer false cfg h8).bomDisallowed :=
  C11_same_version_any_signature prefer cfg h16 h8 .utf16le .utf8 rfl rfl rfl rfl rfl

/-- … while CIF_WRONG_ENCODING differs between the two (the property's "reported as CIF_WRONG_ENCODING") -/
example : (select 0 false (treeCfg false true true) h16).wrongEncoding = true ∧
    (select 0 false (treeCfg false true true) h8).wrongEncoding = false := by decide

/-- `C11_table_tree` applied: all hypotheses hold for "no signature, raw CIF 2.0 magic followed by LF, text present" -/
def hMagic : Header := ⟨none, false, true, some 10, true, .v2, false, false⟩
example : (select 0 false (treeCfg true false true) hMagic).version = 2 ∧
    (select 0 false (treeCfg true false true) hMagic).encoding = .utf8 := by
  have h := C11_table_tree 0 false true false true hMagic (by decide) rfl
  exact ⟨by rw [h.2.1]; decide, by rw [h.1]; decide⟩

/-- the excluded case `noText = true` (an input that is empty after its optional BOM): no version is resolved — `C11_table`,
    `C11_version`, `C11_wrong_encoding`, `C11_bom_only_first` say nothing about it (hypothesis `ht`) -/
example : (select 0 false (treeCfg false true true) ⟨none, true, false, none, false, .none, false, true⟩).version = 1 ∧
    (select 5 false (treeCfg false true true) ⟨some .utf8, true, false, none, false, .none, true, true⟩).version = -2 := by decide

end CifModel.ReviewC11
