import CifModel.Props.C18Text
/-
  Review examples for C18 (group gB, independent review).

  * `C18_delim_reads_back_text` has an empty non-vacuity section; it is instantiated here for a three-line string with both
    quote characters, a `;` not at a line start and trailing blanks.
  * `C18_delim_reads_back` for a string that needs triple quotes, behind a comment + newline.
  * `?` and `.`: NOT_QUOTED turns them into unknown / not applicable; a `.chr false` value is accepted by
    set_quoted(NOT_QUOTED) whatever its text (the model returns ok for `quoted = false`; `C18_set_unquoted_iff` speaks about
    `.chr true` only — review finding C18 M4).
-/
namespace CifModel.ReviewC18
open CifModel Model Spec Lemmas.Analyze

/-- `a'b"` ⏎ `c ;d  ` ⏎ `e` -/
def s1 : Str := a!"a'b\"" ++ [10] ++ a!"c ;d  " ++ [10] ++ a!"e"

example : recommend s1 true false 2048 = .text ∧ recommend s1 true true 2048 = .apos3 := by decide +kernel
example (pol : Model.Lexer.Policy) (log : List Model.Lexer.Report) :
    (∃ l c, Model.Lexer.nextToken .cif2 ⟨(59 :: (s1 ++ [10, 59])) ++ [32, 95, 120], 4, 0, .end_⟩ pol log
        = .ok (⟨.tvalue, s1, l, c⟩, ⟨[32, 95, 120], l, c, .tvalue⟩) log) ∧ Model.Decode.decodeText true true s1 = s1 :=
  C18_delim_reads_back_text s1 [32, 95, 120] true false 2048 4 .end_ pol log
    (by decide +kernel) (by decide +kernel) (by decide +kernel) (by decide +kernel) (by decide +kernel) (by decide +kernel) (by decide +kernel)

/-- one line with a blank, `"`, `'''` and a final `'`: only `"""` is left -/
def s2 : Str := a!"a'''b\"c d'"
example : recommend s2 true true 2048 = .quot3 := by decide +kernel
example (pol : Model.Lexer.Policy) (log : List Model.Lexer.Report) :
    ∃ l c, Model.Lexer.nextToken .cif2
        ⟨Spec.Lexical.renderWs [.comment (a!"x"), .eol] ++ (((recommend s2 true true 2048).units ++ s2 ++ (recommend s2 true true 2048).units) ++ [10]), 1, 7, .end_⟩ pol log
      = .ok (⟨if recommend s2 true true 2048 = .none then .value else .qvalue, s2, l, c⟩,
             ⟨[10], l, c, if recommend s2 true true 2048 = .none then .value else .qvalue⟩) log :=
  C18_delim_reads_back s2 [10] true true 2048 [.comment (a!"x"), .eol] 1 7 .end_ pol log
    (by decide +kernel) (by decide +kernel) (by decide +kernel) (Or.inl (by decide)) (by decide +kernel)
    (by decide +kernel) (by decide +kernel) (by decide +kernel)

-- the multi-line string s1 with triple quotes allowed: `'''` … `'''`, read back as one quoted value
example (pol : Model.Lexer.Policy) (log : List Model.Lexer.Report) :
    ∃ l c, Model.Lexer.nextToken .cif2
        ⟨Spec.Lexical.renderWs [.blank 32] ++ (((recommend s1 true true 2048).units ++ s1 ++ (recommend s1 true true 2048).units) ++ []), 1, 2040, .value⟩ pol log
      = .ok (⟨if recommend s1 true true 2048 = .none then .value else .qvalue, s1, l, c⟩,
             ⟨[], l, c, if recommend s1 true true 2048 = .none then .value else .qvalue⟩) log :=
  C18_delim_reads_back s1 [] true true 2048 [.blank 32] 1 2040 .value pol log
    (by decide +kernel) (by decide +kernel) (by decide +kernel) (Or.inr (by intro b rest h; cases h)) (by decide +kernel)
    (by decide +kernel) (by decide +kernel) (by decide +kernel)

private def isOk (r : Except Code V) (v : V) : Bool := match r with | .ok w => w == v | .error _ => false
example : isOk (setQuoted false (.chr true [63]) false) .unk = true ∧ isOk (setQuoted false (.chr true [46]) false) .na = true := by decide +kernel
-- a value that is already unquoted stays so whatever its text (here: a blank inside)
example : isOk (setQuoted false (.chr false (a!"a b")) false) (.chr false (a!"a b")) = true := by decide +kernel

end CifModel.ReviewC18
