import CifModel.Model.Ladder
import CifModel.Spec.HeapTrace
import CifModel.Lemmas.LadderSummary
/-
  Property C17 (clean-up-ladder part) — "a failed memory allocation yields an error code, not a crash or corruption …
  nothing leaks".

  The ladder model (Model/Ladder.lean, tied to the real functions by correspondence family `ladder`) abstracts one call
  of dup_ustrings / cif_value_clone / cif_value_insert_element_at to the sequence of its allocation events under a
  fault position `failAt` (the `failAt`-th allocation request of the call fails; 0 = no fault).  The specification
  (Spec/HeapTrace.lean) replays such a sequence over the set of live blocks and rejects double and invalid frees;
  `Balanced evs owned` = the sequence is accepted and afterwards exactly `owned` is live.

  Every theorem quantifies over ALL sizes / shapes (any nesting depth and width) and ALL fault positions; the proofs
  are inductions (Lemmas/Ladder*.lean), generalised over the start state with the invariant "events so far are
  balanced, every live id ≤ request counter".
-/
namespace CifModel
open Model.Ladder Spec.HeapTrace Lemmas.Ladder

/-- dup_ustrings, every number of strings `n`, every fault position: the event sequence never releases a block that is
    not live (no double / invalid free); afterwards exactly the blocks handed to the caller are live — nothing on
    failure (no leak), the array and the `n` strings on success; the result is CIF_OK or CIF_MEMORY_ERROR, and it is
    CIF_OK exactly when no request failed. -/
theorem C17_dup_ustrings_balanced (n failAt : Nat) :
    let (rc, owned, st) := dupUstrings failAt n
    Balanced st.evs owned ∧ (rc = OK ∨ rc = MEMORY_ERROR) ∧ (rc ≠ OK → owned = []) ∧ (rc = OK ↔ NoFail st.evs) ∧
    (rc = OK → owned.length = n + 1) :=
  dup_summary failAt n

/-- cif_value_clone into a fresh target, every value shape (scalar, character, number, list of any nesting depth and
    width), every fault position: no double / invalid free; afterwards exactly the blocks of the returned clone are
    live (nothing at all when the call failed); the call fails exactly when a request failed. -/
theorem C17_clone_balanced (sh : Shape) (failAt : Nat) :
    let (r, st) := clone failAt sh
    Balanced st.evs (match r with | some o => o.ids | none => []) ∧ (r.isNone ↔ ¬ NoFail st.evs) :=
  clone_summary failAt sh

/-- …and what a successful clone owns is a value of the SOURCE's shape (same kinds, same nesting, elements in index
    order — `shapeOf` reads the shape back from the ownership tree), from any start state and for any fault position;
    and a balanced run never owns a block twice (so the ids of the clone are pairwise distinct). -/
theorem C17_clone_shape (sh : Shape) (failAt : Nat) (s : St) (o : Owned) (h : (clone failAt sh s).1 = some o) :
    shapeOf o = sh :=
  clone_shape failAt sh s o h

theorem C17_balanced_nodup (evs : List Ev) (owned : List Nat) (h : Balanced evs owned) : owned.Nodup :=
  balanced_nodup h

/-- cif_value_insert_element_at, array full or not, every element shape, every fault position: no double / invalid
    free; on failure nothing allocated in the call stays live; on success exactly the cloned element and — iff the
    array was full — the new element array are live; CIF_OK exactly when no request failed. -/
theorem C17_insert_balanced (full : Bool) (sh : Shape) (failAt : Nat) :
    let (rc, gained, st) := insertElement failAt full sh
    Balanced st.evs (match gained with | some (o, arr) => o.ids ++ arr.toList | none => []) ∧
    (rc = OK ∨ rc = MEMORY_ERROR) ∧ (rc = OK ↔ gained.isSome) ∧ (rc = OK ↔ NoFail st.evs) ∧
    (∀ o arr, gained = some (o, arr) → arr.isSome = full) :=
  insert_summary failAt full sh

/-- cif_value_set_element_at (cif_value_clone onto the EXISTING element object; since /repo f1b092b the copy is built in
    a scratch object first), every target `old`, every source shape, every fault position, from ANY state `s` in which
    the events so far are balanced with the target's blocks `old.ids` (and any other blocks `rest`) live and no live id
    exceeds the request counter:  no double / invalid free;  on failure nothing allocated in the call stays live and
    EVERY block of the target is still live — the target is untouched (a released id can never become live again, ids
    being fresh);  on success exactly the target object with the new components is live: the old components and the
    scratch object have been released, each once;  CIF_OK exactly when no request of the call failed. -/
theorem C17_set_element_balanced (sh : Shape) (failAt : Nat) (s : St) (old : Owned) (rest : List Nat)
    (hb : Balanced s.evs (old.ids ++ rest)) (hc : ∀ i ∈ old.ids ++ rest, i ≤ s.count) :
    let (rc, gained, st) := setElement failAt old sh s
    (rc = OK ∨ rc = MEMORY_ERROR) ∧ (rc = OK ↔ gained.isSome) ∧
    Balanced st.evs (match gained with | some g => old.obj :: g ++ rest | none => old.ids ++ rest) ∧
    (rc = OK ↔ failIds st.evs = failIds s.evs) :=
  set_summary failAt old sh s rest hb hc

/-- cif_loop_get_names (cif_loop_get_names_internal without normalisation, stored loop with `n` item names) WITH THE
    PROPOSED ONE-LINE REPAIR (notes/agents/gI-fixes.diff), every `n`, every fault position: no double / invalid free;
    nothing stays live on failure; on success exactly the array and the `n` strings; CIF_OK exactly when no request
    failed (for n = 0 — not constructible through the API — the code returns CIF_INVALID_HANDLE without any request). -/
theorem C17_get_names_balanced (n failAt : Nat) :
    let (rc, owned, st) := getNames failAt n
    Balanced st.evs owned ∧ (rc = OK ∨ rc = MEMORY_ERROR ∨ (n = 0 ∧ rc = INVALID_HANDLE)) ∧ (rc ≠ OK → owned = []) ∧
    (0 < n → (rc = OK ↔ NoFail st.evs)) ∧ (rc = OK → owned.length = n + 1) :=
  names_summary failAt n

/-- cif_loop_get_names AS THE CODE IS (open finding F31/ladder/names/node-leak; the pinned model is the one compared with
    the real function by family `ladder`): for every `n` and every fault position, exactly `namesLeak failAt n` stays live
    beyond what the caller owns — the list node obtained by request `failAt - 1` whenever the failed request is the
    allocation of a name string (an even request among the first 2n) — and in those cases the run is NOT balanced:
    the call returns CIF_MEMORY_ERROR, hands nothing to the caller and leaks that node.  (At every other fault position
    `namesLeak` is empty: the ladder is balanced there.) -/
theorem C17_cex_get_names_leak (n failAt : Nat) :
    let (rc, owned, st) := getNamesPinned failAt n
    Balanced st.evs (owned ++ namesLeak failAt n) ∧
    (namesLeak failAt n ≠ [] → rc = MEMORY_ERROR ∧ owned = [] ∧ ¬ Balanced st.evs owned) :=
  names_pinned_summary failAt n

/-- cif_value_copy_char onto any value `old` (cif_u_strdup, then cif_value_init_char = clean + take ownership), every
    fault position, from any state in which `old` is live (hypotheses as for C17_set_element_balanced): on failure the
    value is untouched (all its blocks still live) and nothing of the call is live; on success the value object owns
    exactly the copy — its old components have been released, each once. -/
theorem C17_copy_char_balanced (failAt : Nat) (s : St) (old : Owned) (rest : List Nat)
    (hb : Balanced s.evs (old.ids ++ rest)) (hc : ∀ i ∈ old.ids ++ rest, i ≤ s.count) :
    let (rc, gained, st) := copyChar failAt old s
    (rc = OK ∨ rc = MEMORY_ERROR) ∧ (rc = OK ↔ gained.isSome) ∧
    Balanced st.evs (match gained with | some g => old.obj :: g ++ rest | none => old.ids ++ rest) ∧
    (rc = OK ↔ failIds st.evs = failIds s.evs) :=
  copyChar_summary failAt old s rest hb hc

/-- cif_value_deserialize of the blob of a list value (elements: unknown/na, character values, numbers — whose
    cif_value_parse_numb allocates su_digits and digits and, since /repo fe019d6, no longer loses the text —, lists of such,
    any nesting and width; table blobs: C17_deserialize_table_balanced in Props/C17Map.lean) onto an existing value object,
    every fault position: no double / invalid free; on failure every element object, text, digit string and element array
    obtained so far is released exactly once and nothing stays live; on success exactly the blocks the destination gained
    are live; CIF_OK exactly when no request failed, otherwise CIF_MEMORY_ERROR (since /repo 2b403f6; the correspondence
    compares the code itself). -/
theorem C17_deserialize_balanced (elems : List DShape) (failAt : Nat) :
    let (rc, gained, st) := deserialize failAt elems
    Balanced st.evs (match gained with | some g => g | none => []) ∧
    (rc = OK ∨ rc = MEMORY_ERROR) ∧ (rc = OK ↔ gained.isSome) ∧ (rc = OK ↔ NoFail st.evs) :=
  deser_summary failAt elems

/-- cif_packet_create WITH THE PROPOSED REPAIR of cif_packet_create_norm's failure handler (notes/agents/gI-fixes.diff),
    for every list of (distinct, valid, ASCII) item names — `respelled` says for each name whether its spelling differs
    from the normalised one — and every fault position, uthash's table and bucket-array requests included (no bucket
    expansion: at most 9 names in the correspondence runs):  no double / invalid free;  on failure nothing stays live;
    on success exactly the packet, the hash table and bucket array, the entries, their normalised keys and the copies of
    the respelled names are live (the name array and all normalisation buffers are released);  CIF_OK exactly when no
    request failed.  (`PacketRunOk` spells these four conjuncts out.) -/
theorem C17_packet_create_balanced (respelled : List Bool) (failAt : Nat) :
    let (rc, p, st) := packetCreate failAt respelled
    Balanced st.evs (match p with | some p => p.ids | none => []) ∧
    (rc = OK ∨ rc = MEMORY_ERROR) ∧ (rc = OK ↔ p.isSome) ∧ (rc = OK ↔ NoFail st.evs) :=
  (packet_gen_summary true failAt respelled).2.2
    (fun h => by have := ((packet_gen_summary true failAt respelled).1.mp h).1; cases this)

/-- cif_packet_create AS THE CODE IS (open finding F31/ladder/packet/null-table-deref; `packetCreatePinned` is what the
    correspondence family runs): the model reaches undefined behaviour of the C — cif_map_clean applies HASH_DEL to a
    head entry whose `hh.tbl` is NULL — exactly when the packet has at least one name and the failed request is number
    3n + 4, uthash's table for the first entry (then that is the only `fail` event); at EVERY other fault position the
    run satisfies everything C17_packet_create_balanced states. -/
theorem C17_cex_packet_create_undefined (respelled : List Bool) (failAt : Nat) :
    let r := packetCreatePinned failAt respelled
    (r.1 = UNDEFINED ↔ respelled ≠ [] ∧ failAt = 3 * respelled.length + 4) ∧
    (r.1 = UNDEFINED → failIds r.2.2.evs = [failAt]) ∧
    (r.1 ≠ UNDEFINED → PacketRunOk r) := by
  have h := packet_gen_summary false failAt respelled
  exact ⟨⟨fun hu => (h.1.mp hu).2, fun hp => h.1.mpr ⟨rfl, hp⟩⟩, h.2.1, h.2.2⟩

/-- the fault position is reached iff it is one of the allocation requests of the fault-free run
    (1 ≤ failAt ≤ their number); then exactly one `fail` event occurs — the request number `failAt` — and it is the
    last request of the call (the ladders only release afterwards); otherwise the run makes the same number of
    requests as the fault-free run.  For all eight ladders (get_names and packet_create: pinned and repaired; set_element_at and copy_char: from any
    consistent start state, requests numbered on from `s.count`). -/
theorem C17_fault_reached_iff (failAt : Nat) :
    (∀ n, let st := (dupUstrings failAt n).2.2
          (¬ NoFail st.evs ↔ 1 ≤ failAt ∧ failAt ≤ (dupUstrings 0 n).2.2.count) ∧
          (¬ NoFail st.evs → failIds st.evs = [failAt] ∧ st.count = failAt) ∧
          (NoFail st.evs → st.count = (dupUstrings 0 n).2.2.count)) ∧
    (∀ sh, let st := (clone failAt sh).2
          (¬ NoFail st.evs ↔ 1 ≤ failAt ∧ failAt ≤ (clone 0 sh).2.count) ∧
          (¬ NoFail st.evs → failIds st.evs = [failAt] ∧ st.count = failAt) ∧
          (NoFail st.evs → st.count = (clone 0 sh).2.count)) ∧
    (∀ full sh, let st := (insertElement failAt full sh).2.2
          (¬ NoFail st.evs ↔ 1 ≤ failAt ∧ failAt ≤ (insertElement 0 full sh).2.2.count) ∧
          (¬ NoFail st.evs → failIds st.evs = [failAt] ∧ st.count = failAt) ∧
          (NoFail st.evs → st.count = (insertElement 0 full sh).2.2.count)) ∧
    (∀ sh s old rest, Balanced s.evs (old.ids ++ rest) → (∀ i ∈ old.ids ++ rest, i ≤ s.count) →
          let st := (setElement failAt old sh s).2.2          -- requests are numbered on from s.count
          (failIds st.evs ≠ failIds s.evs ↔ s.count < failAt ∧ failAt ≤ (setElement 0 old sh s).2.2.count) ∧
          (failIds st.evs ≠ failIds s.evs → failIds st.evs = failIds s.evs ++ [failAt] ∧ st.count = failAt) ∧
          (failIds st.evs = failIds s.evs → st.count = (setElement 0 old sh s).2.2.count)) ∧
    (∀ s old rest, Balanced s.evs (old.ids ++ rest) → (∀ i ∈ old.ids ++ rest, i ≤ s.count) →
          let st := (copyChar failAt old s).2.2
          (failIds st.evs ≠ failIds s.evs ↔ s.count < failAt ∧ failAt ≤ (copyChar 0 old s).2.2.count) ∧
          (failIds st.evs ≠ failIds s.evs → failIds st.evs = failIds s.evs ++ [failAt] ∧ st.count = failAt) ∧
          (failIds st.evs = failIds s.evs → st.count = (copyChar 0 old s).2.2.count)) ∧
    (∀ fixed respelled, let st := (packetCreateGen fixed failAt respelled).2.2
          (¬ NoFail st.evs ↔ 1 ≤ failAt ∧ failAt ≤ (packetCreateGen fixed 0 respelled).2.2.count) ∧
          (¬ NoFail st.evs → failIds st.evs = [failAt] ∧ st.count = failAt) ∧
          (NoFail st.evs → st.count = (packetCreateGen fixed 0 respelled).2.2.count)) ∧
    (∀ elems, let st := (deserialize failAt elems).2.2
          (¬ NoFail st.evs ↔ 1 ≤ failAt ∧ failAt ≤ (deserialize 0 elems).2.2.count) ∧
          (¬ NoFail st.evs → failIds st.evs = [failAt] ∧ st.count = failAt) ∧
          (NoFail st.evs → st.count = (deserialize 0 elems).2.2.count)) ∧
    (∀ fixed n, let st := (getNamesGen fixed failAt n).2.2
          (¬ NoFail st.evs ↔ 1 ≤ failAt ∧ failAt ≤ (getNamesGen fixed 0 n).2.2.count) ∧
          (¬ NoFail st.evs → failIds st.evs = [failAt] ∧ st.count = failAt) ∧
          (NoFail st.evs → st.count = (getNamesGen fixed 0 n).2.2.count)) :=
  ⟨fun n => fault_of_outcomes (dup_outcome 0 n) (dup_outcome failAt n),
   fun sh => fault_of_outcomes (clone_outcome 0 sh) (clone_outcome failAt sh),
   fun full sh => fault_of_outcomes (insert_outcome 0 full sh) (insert_outcome failAt full sh),
   fun sh s old rest hb hc => fault_of_outcomes_from (set_outcome 0 old sh s rest hb hc) (set_outcome failAt old sh s rest hb hc),
   fun s old rest hb hc => fault_of_outcomes_from (copyChar_outcome 0 old s rest hb hc) (copyChar_outcome failAt old s rest hb hc),
   fun fixed fl => fault_of_outcomes (packet_outcome fixed 0 fl) (packet_outcome fixed failAt fl),
   fun elems => fault_of_outcomes (deser_outcome 0 elems) (deser_outcome failAt elems),
   fun fixed n => fault_of_outcomes (names_outcome fixed 0 n) (names_outcome fixed failAt n)⟩

-- ---------------------------------------------------------------------------------------------------------------
-- non-vacuity: concrete runs in which a request really fails and blocks really are released

/-- dup_ustrings on 3 strings, 3rd request (the 2nd string) fails: the string copied so far and the array are
    released, each once, and nothing stays live -/
example : (dupUstrings 3 3).1 = MEMORY_ERROR ∧
    (dupUstrings 3 3).2.2.evs = [.alloc 1, .alloc 2, .fail 3, .free 2, .free 1] ∧
    final (dupUstrings 3 3).2.2.evs = some [] ∧ ¬ NoFail (dupUstrings 3 3).2.2.evs := by
  refine ⟨by decide, by decide, by decide, fun h => h 3 (by decide)⟩

/-- …and without a fault the array and the three strings stay live -/
example : (dupUstrings 0 3).1 = OK ∧ final (dupUstrings 0 3).2.2.evs = some [4, 3, 2, 1] := by decide

/-- the value `[ 1.5(2)  [ 'a' ? ]  'b' ]` (13 requests without a fault); the 10th request — the text of the
    character element of the inner list — fails: the inner element's object (9), the inner array (8) and inner list
    object (7), then the already cloned number (4,5,6,3), the outer array (2) and the outer object (1) are released -/
example :
    let sh : Shape := .lst [.numb true, .lst [.chr, .scalar], .chr]
    (clone 0 sh).2.count = 13 ∧ (clone 10 sh).1.isNone ∧
    (clone 10 sh).2.evs = [.alloc 1, .alloc 2, .alloc 3, .alloc 4, .alloc 5, .alloc 6, .alloc 7, .alloc 8, .alloc 9,
      .fail 10, .free 9, .free 8, .free 7, .free 4, .free 5, .free 6, .free 3, .free 2, .free 1] ∧
    final (clone 10 sh).2.evs = some [] := by decide +kernel

/-- the same value cloned without a fault: 13 blocks live, all owned by the clone -/
example :
    let sh : Shape := .lst [.numb true, .lst [.chr, .scalar], .chr]
    ((clone 0 sh).1.map (·.ids.length)) = some 13 ∧ ((final (clone 0 sh).2.evs).map (·.length)) = some 13 := by decide +kernel

/-- insertion of `[ 'a' ]` into a full list, the 5th request (the realloc of the element array) fails: the complete
    clone (4 blocks) is released again -/
example : (insertElement 5 true (.lst [.chr])).1 = MEMORY_ERROR ∧
    (insertElement 5 true (.lst [.chr])).2.2.evs =
      [.alloc 1, .alloc 2, .alloc 3, .alloc 4, .fail 5, .free 4, .free 3, .free 2, .free 1] ∧
    final (insertElement 5 true (.lst [.chr])).2.2.evs = some [] := by decide

/-- the fault position 5 is beyond the 4 requests of the non-full insertion: not reached, CIF_OK -/
example : (insertElement 5 false (.lst [.chr])).1 = OK ∧ (insertElement 0 false (.lst [.chr])).2.2.count = 4 := by decide

/-- the element `[ 'x' ]` (object 1, array 2, element object 3, text 4 — built by a fault-free clone from the empty
    state, so the hypotheses of C17_set_element_balanced hold) is replaced by `[ 1.5(2) 'a' ]` (8 requests: scratch
    object, array, two element objects, 3 + 1 component blocks).  Request 4 + 6 (su_digits of the number) fails: digits,
    text, the element object, the new array and the scratch object are released and NO block of the target is. -/
example :
    let old : Owned := .lst 1 2 [.chr 3 4]
    let s0 := (clone 0 (.lst [.chr])).2
    (clone 0 (.lst [.chr])).1.map (·.ids) = some old.ids ∧ final s0.evs = some [4, 3, 2, 1] ∧ s0.count = 4 ∧
    (setElement 0 old (.lst [.numb true, .chr]) s0).2.2.count = 4 + 8 ∧
    (setElement 10 old (.lst [.numb true, .chr]) s0).1 = MEMORY_ERROR ∧
    (setElement 10 old (.lst [.numb true, .chr]) s0).2.2.evs.drop 4 =
      [.alloc 5, .alloc 6, .alloc 7, .alloc 8, .alloc 9, .fail 10, .free 9, .free 8, .free 7, .free 6, .free 5] ∧
    final (setElement 10 old (.lst [.numb true, .chr]) s0).2.2.evs = some [4, 3, 2, 1] := by decide +kernel

/-- …and without a fault: the old text 4, old element object 3, old array 2 and the scratch object 5 are released;
    the target object 1 now owns the blocks 6 … 12 -/
example :
    let old : Owned := .lst 1 2 [.chr 3 4]
    let s0 := (clone 0 (.lst [.chr])).2
    (setElement 0 old (.lst [.numb true, .chr]) s0).1 = OK ∧
    (setElement 0 old (.lst [.numb true, .chr]) s0).2.2.evs.drop (4 + 8) = [.free 4, .free 3, .free 2, .free 5] ∧
    (final (setElement 0 old (.lst [.numb true, .chr]) s0).2.2.evs).map (·.length) = some 8 := by decide +kernel

/-- cif_loop_get_names on 2 names, the 4th request (the 2nd name's string) fails.  As the code is: the first entry is
    released (string 2, node 1) but node 3 stays live — the checker reports the leak; repaired: node 3 is released. -/
example : (getNamesPinned 4 2).1 = MEMORY_ERROR ∧
    (getNamesPinned 4 2).2.2.evs = [.alloc 1, .alloc 2, .alloc 3, .fail 4, .free 2, .free 1] ∧
    final (getNamesPinned 4 2).2.2.evs = some [3] ∧ namesLeak 4 2 = [3] ∧
    (getNames 4 2).2.2.evs = [.alloc 1, .alloc 2, .alloc 3, .fail 4, .free 3, .free 2, .free 1] ∧
    final (getNames 4 2).2.2.evs = some [] := by decide

/-- …and without a fault: nodes 1, 3 released, the strings 2, 4 and the array 5 owned by the caller -/
example : (getNames 0 2).1 = OK ∧ (getNames 0 2).2.1 = [5, 4, 2] ∧ final (getNames 0 2).2.2.evs = some [5, 4, 2] := by
  decide

/-- cif_packet_create for the names `_a0` (already normalised) and `_A1` (respelled): 13 requests.  Request 10 is
    uthash's table.  As the code is: undefined behaviour (the events stop at `fail 10`).  Repaired: entry 9, packet 8,
    both normalised names 7, 4 and the array 1 are released.  Request 13 (the copy of `_A1`) fails: the packet is
    released as a stand-alone one (keys 4, 7; entries 9, 12; buckets 11, table 10; packet 8), then the array. -/
example :
    (packetCreate 0 [false, true]).2.2.count = 13 ∧
    (packetCreate 0 [false, true]).2.1.map (·.ids) = some [8, 10, 11, 9, 4, 12, 7, 13] ∧
    final (packetCreate 0 [false, true]).2.2.evs = some [13, 12, 11, 10, 9, 8, 7, 4] ∧
    (packetCreatePinned 10 [false, true]).1 = UNDEFINED ∧
    (packetCreatePinned 10 [false, true]).2.2.evs = [.alloc 1, .alloc 2, .alloc 3, .free 2, .alloc 4, .free 3, .alloc 5,
      .alloc 6, .free 5, .alloc 7, .free 6, .alloc 8, .alloc 9, .fail 10] ∧
    (packetCreate 10 [false, true]).1 = MEMORY_ERROR ∧
    (packetCreate 10 [false, true]).2.2.evs.drop 14 = [.free 9, .free 8, .free 7, .free 4, .free 1] ∧
    final (packetCreate 10 [false, true]).2.2.evs = some [] ∧
    (packetCreate 13 [false, true]).2.2.evs.drop 16 =
      [.fail 13, .free 4, .free 9, .free 11, .free 10, .free 7, .free 12, .free 8, .free 1] ∧
    final (packetCreate 13 [false, true]).2.2.evs = some [] := by decide +kernel

/-- cif_value_copy_char onto the number 1.5(2) (object 1, text 2, digits 3, su_digits 4): on success the three old
    components are released and the object owns the copy 5; when the copy fails nothing at all is released -/
example :
    let old : Owned := .numb 1 2 3 (some 4)
    let s0 := (clone 0 (.numb true)).2
    (copyChar 0 old s0).2.2.evs.drop 4 = [.alloc 5, .free 2, .free 3, .free 4] ∧
    final (copyChar 0 old s0).2.2.evs = some [5, 1] ∧
    (copyChar 5 old s0).1 = MEMORY_ERROR ∧ (copyChar 5 old s0).2.2.evs.drop 4 = [.fail 5] ∧
    final (copyChar 5 old s0).2.2.evs = some [4, 3, 2, 1] := by decide +kernel

/-- deserialising the blob of `[ 'a' [ 'b' ? ] ]` (8 requests: array 1; element object 2 and its text 3; element
    object 4, inner array 5, inner element object 6 with text 7, inner element object 8); the 7th request (text of
    'b') fails: inner object 6, inner array 5, list object 4, then the first element (text 3, object 2)
    and the outer array 1 are released -/
example :
    (deserialize 0 [.chr, .lst [.chr, .scalar]]).2.2.count = 8 ∧
    (deserialize 7 [.chr, .lst [.chr, .scalar]]).1 = MEMORY_ERROR ∧
    (deserialize 7 [.chr, .lst [.chr, .scalar]]).2.2.evs = [.alloc 1, .alloc 2, .alloc 3, .alloc 4, .alloc 5, .alloc 6,
      .fail 7, .free 6, .free 5, .free 4, .free 3, .free 2, .free 1] ∧
    final (deserialize 7 [.chr, .lst [.chr, .scalar]]).2.2.evs = some [] := by decide +kernel

/-- the specification is not trivially satisfiable: a double free, a free of a block never obtained and a leak are
    all rejected -/
example : final [.alloc 1, .free 1, .free 1] = none ∧ final [.alloc 1, .free 2] = none ∧
    final [.alloc 1, .alloc 2, .fail 3, .free 1] = some [2] ∧ ¬ Balanced [.alloc 1, .alloc 2, .fail 3, .free 1] [] := by
  refine ⟨by decide, by decide, by decide, ?_⟩
  rintro ⟨L, hL, hp⟩
  have : L = [2] := by
    have h : final [.alloc 1, .alloc 2, .fail 3, .free 1] = some [2] := by decide
    rw [h] at hL; exact (Option.some.inj hL).symm
  subst this
  exact absurd hp.length_eq (by decide)

end CifModel
