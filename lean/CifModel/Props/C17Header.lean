import CifModel.Model.LadderHeader
import CifModel.Spec.HeapTrace
import CifModel.Lemmas.LadderHeader
/-
  Property C17 (clean-up ladders, part 5: the loop header of the parser) — parse_loop_header (parser.c: list node, copy of
  the name, find_header_name's normalised forms of the new name and of every earlier name) and parse_loop's release of the
  header's name list, for a syntax-only parse of a header of n distinct ASCII names followed by a repetition of the first
  that the error callback refuses.  Model: Model/LadderHeader.lean, tied to the real parse_loop() by family `ladder`
  (`loophdr`: the real static function on a hand-initialised scanner, every fault position).  Not covered: the loop
  creation (cif_container_create_loop) and the loop body (parse_loop_packets).
-/
namespace CifModel
open Model.Ladder Spec.HeapTrace Lemmas.Ladder

/-- for every number of names n ≥ 1 and every fault position, from any state in which `rest` is live: the events are
    balanced and afterwards exactly `rest` is live (every node and string of the header list, every normalised form, is
    released exactly once — also the node whose string could not be obtained); the result is the refused
    CIF_DUP_ITEMNAME or CIF_MEMORY_ERROR, the latter IFF the fault position is one of the call's `loopHeaderAllocs n`
    requests (5 + 3·i for the i-th name, 8 for the repetition); the failing request is the last and only failed one. -/
theorem C17_loop_header_balanced (n : Nat) (hn : 0 < n) (failAt : Nat) (s : St) (rest : List Nat)
    (hb : Balanced s.evs rest) (hc : ∀ i ∈ rest, i ≤ s.count) :
    let r := loopHeaderAbort failAt n s
    Balanced r.2.evs rest ∧ (r.1 = DUP_ITEMNAME ∨ r.1 = MEMORY_ERROR) ∧
    (r.1 = MEMORY_ERROR ↔ s.count < failAt ∧ failAt ≤ s.count + loopHeaderAllocs n) ∧
    (r.1 = MEMORY_ERROR → failIds r.2.evs = failIds s.evs ++ [failAt] ∧ r.2.count = failAt) ∧
    (r.1 = DUP_ITEMNAME → failIds r.2.evs = failIds s.evs ∧ r.2.count = s.count + loopHeaderAllocs n) :=
  loopHeader_summary failAt n hn s rest hb hc

-- non-vacuity: three names (5 + 8 + 11 requests) and the repetition (8): 32 requests
example : loopHeaderAllocs 3 = 32 ∧ (loopHeaderAbort 0 3).1 = DUP_ITEMNAME ∧ (loopHeaderAbort 0 3).2.count = 32 ∧
    final (loopHeaderAbort 0 3).2.evs = some [] := by decide +kernel

-- the string of the second name (request 7) cannot be obtained: its node (request 6) is in the list and is released
example : (loopHeaderAbort 7 3).1 = MEMORY_ERROR ∧ Ev.free 6 ∈ (loopHeaderAbort 7 3).2.evs ∧
    final (loopHeaderAbort 7 3).2.evs = some [] := by decide +kernel

-- a normalisation buffer of an EARLIER name fails while the third name is compared (request 20)
example : (loopHeaderAbort 20 3).1 = MEMORY_ERROR ∧ failIds (loopHeaderAbort 20 3).2.evs = [20] ∧
    final (loopHeaderAbort 20 3).2.evs = some [] := by decide +kernel

/-- cif_container_get_all_loops (container.c; the most-used ladder of the fault census that had no model: 21 library-class
    fault sites over the operations of family `oom`), for every list of loops (with / without category) and every fault
    position, from any state: balanced; CIF_OK or CIF_MEMORY_ERROR; on success the caller owns exactly the array, the
    loop objects and their category strings; on failure every node and category obtained so far is released — also the
    node whose category could not be copied; CIF_MEMORY_ERROR IFF the fault position is one of the call's requests. -/
theorem C17_get_all_loops_balanced (cats : List Bool) (failAt : Nat) (s : St) (rest : List Nat)
    (hb : Balanced s.evs rest) (hc : ∀ i ∈ rest, i ≤ s.count) :
    let r := getAllLoops failAt cats s
    Balanced r.2.2.evs ((match r.2.1 with | some (arr, nodes) => arr :: hdrIds nodes | none => []) ++ rest) ∧
    (r.1 = OK ∨ r.1 = MEMORY_ERROR) ∧ (r.1 = OK ↔ r.2.1.isSome) ∧
    (r.1 = MEMORY_ERROR ↔ s.count < failAt ∧ failAt ≤ s.count + getAllLoopsAllocs cats) ∧
    (r.1 = MEMORY_ERROR → failIds r.2.2.evs = failIds s.evs ++ [failAt] ∧ r.2.2.count = failAt) ∧
    (r.1 = OK → failIds r.2.2.evs = failIds s.evs ∧ r.2.2.count = s.count + getAllLoopsAllocs cats) :=
  getAllLoops_summary failAt cats s rest hb hc

-- three loops, the second without category: 3 nodes + 2 categories + the array = 6 requests
example : getAllLoopsAllocs [true, false, true] = 6 ∧ (getAllLoops 0 [true, false, true]).1 = OK ∧
    ((final (getAllLoops 0 [true, false, true]).2.2.evs).map List.length) = some 6 := by decide +kernel

-- the category of the third loop (request 5) cannot be copied: its node (request 4) is linked and is released
example : (getAllLoops 5 [true, false, true]).1 = MEMORY_ERROR ∧ Ev.free 4 ∈ (getAllLoops 5 [true, false, true]).2.2.evs ∧
    final (getAllLoops 5 [true, false, true]).2.2.evs = some [] := by decide +kernel

end CifModel
