import CifModel.Props.C11
import CifModel.Model.Parser
/-
  Review rA, property C11, clause "a byte-order mark is accepted only as the very first character" (group gO's theorems
  `C11_bom_between_tokens`, `C11_bom_token_start`): instances the property file does not have —
  U+FEFF at the start of a line behind a comment, U+FEFF alone between blanks, U+FEFF glued to a keyword / a data name (the token
  becomes a bare VALUE), the `cif_parse_error_die` conjunct, a policy that rejects the second report (`C11_bom_token_start`), and the same
  inputs through the tied whole parser `Model.Parser.parse` (kernel-evaluated).
  Core Lean; kernel evaluation on `List Nat` only.
-/
namespace CifModel.ReviewRC11
open CifModel CifModel.Model CifModel.Model.Lexer CifModel.Spec.Lexical

/-- (a) previous token a data name, then ` #c⏎<U+FEFF>x y`: the mark is the first character of the NEXT LINE, behind a comment.
    Value `<U+FEFF>x`, one CIF_DISALLOWED_CHAR at line 4 column 1 (CIF 2.0). -/
example :
    nextToken .cif2 ⟨32 :: 35 :: 99 :: 10 :: 0xFEFF :: 120 :: 32 :: 121 :: [], 3, 2, .name⟩ acceptAll []
      = .ok (⟨.value, [0xFEFF, 120], 4, 2⟩, ⟨[32, 121], 4, 2, .value⟩) [⟨Gen.ErrCodes.CIF_DISALLOWED_CHAR, 4, 1⟩] :=
  (C11_bom_between_tokens .cif2 [.blank 32, .comment [99]] [120] [32, 121] 3 2 .name [] (by decide) (by decide)
    (Or.inr (by intro b rest h; cases h)) (by decide) (by decide) (by intro _; decide) (by decide)).1

/-- (b) U+FEFF alone between blanks (`s2 = []`): it is NOT swallowed as whitespace — a one-character VALUE token -/
example :
    nextToken .cif2 ⟨9 :: 0xFEFF :: 32 :: 49 :: [], 1, 7, .value⟩ acceptAll []
      = .ok (⟨.value, [0xFEFF], 1, 9⟩, ⟨[32, 49], 1, 9, .value⟩) [⟨Gen.ErrCodes.CIF_DISALLOWED_CHAR, 1, 9⟩] :=
  (C11_bom_between_tokens .cif2 [.blank 9] [] [32, 49] 1 7 .value [] (by decide) (by decide)
    (Or.inr (by intro b rest h; cases h)) (by decide) (by decide) (by intro _; decide) (by decide)).1

/-- (c) U+FEFF glued to a block header / a data name (`s2 = data_b`, `_x`): the theorem DOES cover these token types (PARTIAL says
    "not spelled out per token type"): the keyword / name is lost, the token is the bare value `<U+FEFF>data_b` -/
example :
    nextToken .cif2 ⟨10 :: 0xFEFF :: (a!"data_b") ++ [10], 1, 4, .value⟩ acceptAll []
      = .ok (⟨.value, 0xFEFF :: (a!"data_b"), 2, 7⟩, ⟨[10], 2, 7, .value⟩) [⟨Gen.ErrCodes.CIF_DISALLOWED_CHAR, 2, 1⟩] :=
  (C11_bom_between_tokens .cif2 [.eol] (a!"data_b") [10] 1 4 .value [] (by decide) (by decide)
    (Or.inr (by intro b rest h; cases h)) (by decide) (by decide) (by intro _; decide) (by decide)).1
example :
    nextToken .cif1 ⟨32 :: 0xFEFF :: (a!"_x") ++ [32], 1, 4, .value⟩ acceptAll []
      = .ok (⟨.value, 0xFEFF :: (a!"_x"), 1, 8⟩, ⟨[32], 1, 8, .value⟩)
          [⟨Gen.ErrCodes.CIF_DISALLOWED_CHAR, 1, 6⟩, ⟨Gen.ErrCodes.CIF_DISALLOWED_CHAR, 1, 6⟩] :=
  (C11_bom_between_tokens .cif1 [.blank 32] (a!"_x") [32] 1 4 .value [] (by decide) (by decide)
    (Or.inr (by intro b rest h; cases h)) (by decide) (by decide) (by intro h; cases h) (by decide)).1

/-- (d) the `cif_parse_error_die` conjunct: the scan ends with CIF_DISALLOWED_CHAR as return value after that one report (both dialects:
    CIF 1.1 does not get to its second report) -/
example :
    nextToken .cif1 ⟨32 :: 0xFEFF :: 120 :: [], 1, 0, .name⟩ dieAll []
      = .abort Gen.ErrCodes.CIF_DISALLOWED_CHAR [⟨Gen.ErrCodes.CIF_DISALLOWED_CHAR, 1, 2⟩] :=
  (C11_bom_between_tokens .cif1 [.blank 32] [120] [] 1 0 .name [] (by decide) (by decide)
    (Or.inr (by intro b rest h; cases h)) (by decide) (by decide) (by intro h; cases h) (by decide)).2.2.2

/-- (e) no whitespace needed behind an opening bracket (`lt = .olist`, `w = []`): `[<U+FEFF>x ` -/
example :
    nextToken .cif2 ⟨0xFEFF :: 120 :: 32 :: [], 1, 1, .olist⟩ acceptAll []
      = .ok (⟨.value, [0xFEFF, 120], 1, 3⟩, ⟨[32], 1, 3, .value⟩) [⟨Gen.ErrCodes.CIF_DISALLOWED_CHAR, 1, 2⟩] :=
  (C11_bom_between_tokens .cif2 [] [120] [32] 1 1 .olist [] (by intro a h; cases h) (by decide)
    (Or.inl (by decide)) (by decide) (by decide) (by intro _; decide) (by decide)).1

/-! `C11_bom_token_start` applied under a policy that is neither accept-all nor die: `rejectAt 1` (accept the first report, answer the
    second with its code), U+FEFF directly behind a token (`afterWs = false`): CIF_MISSING_SPACE is accepted, the CIF_DISALLOWED_CHAR
    for the mark ends the scan. -/
private def abortView {α} : Res α → Option (Int × List Report)
  | .abort rv log => some (rv, log)
  | .ok _ _ => none

example : abortView (stepTok .cif2 false 0xFEFF [120, 32] 3 4 (rejectAt 1) [])
    = some (((Gen.ErrCodes.CIF_DISALLOWED_CHAR : Nat) : Int), [⟨Gen.ErrCodes.CIF_DISALLOWED_CHAR, 3, 5⟩, ⟨Gen.ErrCodes.CIF_MISSING_SPACE, 3, 4⟩]) := by
  rw [C11_bom_token_start .cif2 false [120, 32] 3 4]
  decide +kernel

/-- … and under accept-all the same step yields the token, the two reports in that order -/
private def okView : Res Step → Option (TokType × Str × List Report)
  | .ok (.tok t _) log => some (t.ty, t.text, log)
  | _ => none
example : okView (stepTok .cif2 false 0xFEFF [120, 32] 3 4 acceptAll [])
    = some (.value, [0xFEFF, 120], [⟨Gen.ErrCodes.CIF_DISALLOWED_CHAR, 3, 5⟩, ⟨Gen.ErrCodes.CIF_MISSING_SPACE, 3, 4⟩]) := by
  rw [C11_bom_token_start .cif2 false [120, 32] 3 4]
  decide +kernel

/-- (f) OUTSIDE every C11 theorem: U+FEFF inside a COMMENT (`WsAtom.ok (.comment body)` demands `okUnits`; `C11_bom_only_first` names
    quoted string, data name, bare value, text field, triple-quoted string).  The tied model (scan_to_eol uses SCAN_UCHAR) reports it
    once there too — evaluated, not a theorem: ` #a<U+FEFF>b⏎x ` -/
private def tokView : Res (Tok × Scan) → Option (TokType × Str × List Report)
  | .ok (t, _) log => some (t.ty, t.text, log)
  | _ => none
example : tokView (nextToken .cif2 ⟨32 :: 35 :: 97 :: 0xFEFF :: 98 :: 10 :: 120 :: 32 :: [], 1, 2, .name⟩ acceptAll [])
    = some (.value, [120], [⟨Gen.ErrCodes.CIF_DISALLOWED_CHAR, 1, 6⟩]) := by decide +kernel

/-! ### the same through the whole parser the driver family `parse` runs (`Model.Parser.parse`, kernel-evaluated — not an application of
    the theorems, but it shows that the scanner-level statement is what the parser sees): a leading U+FEFF is silent in CIF 2.0 and
    reported once in CIF 1.1; one between tokens is reported and KEPT in the stored value. -/
open CifModel.Model.Parser in
def opts (dia : Dialect) : Opts :=
  { dia := dia, maxFrameDepth := 1, unfold := true, prem := true, notUtf8 := false, store := true, norm := id, normKey := id }

open CifModel.Model.Parser in
private def valuesOf (c : Cif) : List (List (List V)) := c.map fun b => b.loops.map fun l => l.packets.flatten
private def chrView : V → Option (Bool × Str) | .chr q t => some (q, t) | _ => none

set_option maxRecDepth 100000 in
open CifModel.Model.Parser in
example :
    let out := parse (opts .cif2) acceptAll [] (0xFEFF :: (a!"data_a _x ") ++ 0xFEFF :: (a!"1 "))
    out.rc = 0 ∧ out.log.map (fun r => (r.code, r.line, r.col)) = [(Gen.ErrCodes.CIF_DISALLOWED_CHAR, 1, 11)] ∧
    (valuesOf out.cif).map (·.map (·.map chrView)) = [[[some (false, [0xFEFF, 49])]]] := by
  decide +kernel

set_option maxRecDepth 100000 in
open CifModel.Model.Parser in
example :
    let out := parse (opts .cif1) acceptAll [] (0xFEFF :: (a!"data_a _x 1 "))
    out.rc = 0 ∧ out.log.map (fun r => (r.code, r.line, r.col)) = [(Gen.ErrCodes.CIF_DISALLOWED_CHAR, 1, 0)] := by
  decide +kernel

end CifModel.ReviewRC11
