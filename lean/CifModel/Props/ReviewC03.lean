import CifModel.Props.C03
import CifModel.Props.C03Extra
/-
  Review of property C03: hypotheses instantiated on concrete inputs; the trivial conjuncts pointed out.
-/
namespace CifModel.ReviewC03
open CifModel Model.Parser Model.Lexer

/-- `C03_reported` applied: the die handler on `data_a _x _y` fails with 133 (≠ 0, 1001), hence has reported -/
example : (parse C03.opts2 dieAll [] (a!"data_a _x _y")).log ≠ [] :=
  C03_reported C03.opts2 dieAll [] (a!"data_a _x _y") (by decide +kernel) (by decide +kernel)

/-- `C03_reported_full` needs the failure only -/
example : (parse C03.opts2 dieAll [] (a!"data_a _x _y")).log ≠ [] :=
  C03_reported_full C03.opts2 dieAll [] (a!"data_a _x _y") (by decide +kernel)

/-- `C03_fuel_suffices` applied to a policy that rejects the second report with a code of its own -/
example : (parse C03.opts2 (fun i _ => if i = 1 then 77 else 0) [] (a!"data_a _x _y [ ' {")).rc ≠ NOFUEL :=
  C03_fuel_suffices _ _ _ _ (by intro i r; by_cases h : i = 1 <;> simp [h, NOFUEL])

/-- `C03_consistent_after` with a NON-EMPTY consistent pre-existing target (block `a` holding `_x`), parsed into with a
    defective document that redefines `_X` in block `A` under the die handler: the hypothesis `OkCif o pre` is provable
    for a concrete CIF, and the result is consistent -/
def pre : Cif := [.mk (a!"a") [] [{ category := some [], names := [a!"_x"], packets := [[.unk]] }]]

theorem pre_ok : OkCif C03.opts2 pre := by
  rw [C03_consistent_iff]
  refine ⟨by decide, ?_⟩
  intro c hc
  simp only [pre, List.mem_singleton] at hc
  subst hc
  rw [C03_consistent_container]
  refine ⟨⟨by decide, by decide, ?_⟩, by decide, by intro c hc; cases hc⟩
  intro l hl _
  simp only [List.mem_singleton] at hl
  subst hl; decide

example : OkCif C03.opts2 (parse C03.opts2 dieAll pre (a!"data_A _X 1 _y")).cif :=
  (C03_consistent_after _ _ _ _ pre_ok).1

/-- … and rectangular, the pre-existing content being rectangular -/
example : Model.Parser.RectCif (parse C03.opts2 dieAll pre (a!"data_A _X 1 _y")).cif :=
  (C03_consistent_after _ _ _ _ pre_ok).2 (by simp [pre, Model.Parser.RectCif, Model.Parser.RectCs, Model.Parser.RectC,
    Model.Parser.LoopsRect, Model.Parser.LoopRect])

/-- what the second conjunct of `C03_callback_lines` (`0 ≤ r.col`) says: nothing — it holds of every natural number -/
example (r : Report) : 0 ≤ r.col := Nat.zero_le _

/-- `C03_total` is `∃ out, f x = out`, true of every function; the content of "terminates" is Lean's termination check of
    `parse` plus `C03_fuel_suffices` -/
example (f : Nat → Nat) (x : Nat) : ∃ out, f x = out := ⟨_, rfl⟩

end CifModel.ReviewC03
