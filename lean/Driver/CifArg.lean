import Driver.Proto
import CifModel.Model.Types
/-
  Driver.CifArg — the value / CIF token language of harness/cifio.h on the model side (parse and show).
  See the grammar at the top of harness/cifio.h.  Numbers travel as their text only: `numbOf` says how a family
  wants the remaining fields of `V.numb` filled in (default: zeroed — families that model number parsing pass their
  own function).  Table keys travel in their original spelling only: `normKey` supplies the normalised key
  (default: identity — exact for keys that are already NFC).
-/
namespace Driver.CifArg
open CifModel

structure Cfg where
  numbOf : Bool → Str → V := fun q t => .numb q t false [] none 0
  normKey : Str → Str := id

/-- split `"X:rest"` after the two-character head -/
def after2 (t : String) : String := String.ofList (t.toList.drop 2)
def after3 (t : String) : String := String.ofList (t.toList.drop 3)

mutual
  /-- one value from the token list; fuel bounds the nesting depth + length (callers pass `toks.length + 1`) -/
  def parseValue (cfg : Cfg) : Nat → List String → Option (V × List String)
    | 0, _ => none
    | fuel + 1, t :: rest =>
      if t == "U" then some (.unk, rest)
      else if t == "N" then some (.na, rest)
      else if t == "[" then (parseElems cfg fuel rest).map (fun (vs, r) => (.lst vs, r))
      else if t == "{" then (parseEntries cfg fuel rest).map (fun (es, r) => (.tbl es, r))
      else match t.toList with
        | 'C' :: q :: ':' :: _ => do
            let qb ← parseBool (String.ofList [q]); let s ← unhex (after3 t); pure (.chr qb s, rest)
        | 'M' :: q :: ':' :: _ => do
            let qb ← parseBool (String.ofList [q]); let s ← unhex (after3 t); pure (cfg.numbOf qb s, rest)
        | _ => none
    | _ + 1, [] => none
  def parseElems (cfg : Cfg) : Nat → List String → Option (List V × List String)
    | 0, _ => none
    | fuel + 1, toks =>
      match toks with
      | [] => none
      | t :: rest =>
        if t == "]" then some ([], rest) else
        match parseValue cfg fuel toks with
        | none => none
        | some (v, r) => (parseElems cfg fuel r).map (fun (vs, r') => (v :: vs, r'))
  def parseEntries (cfg : Cfg) : Nat → List String → Option (List (Str × Str × V) × List String)
    | 0, _ => none
    | fuel + 1, toks =>
      match toks with
      | [] => none
      | t :: rest =>
        if t == "}" then some ([], rest) else
        match t.toList with
        | 'K' :: ':' :: _ =>
          match unhex (after2 t) with
          | none => none
          | some k =>
            match parseValue cfg fuel rest with
            | none => none
            | some (v, r) => (parseEntries cfg fuel r).map (fun (es, r') => ((cfg.normKey k, k, v) :: es, r'))
        | _ => none
end

/-- `n` values -/
def parseValues (cfg : Cfg) : Nat → List String → Option (List V × List String)
  | 0, toks => some ([], toks)
  | n + 1, toks => do
      let (v, r) ← parseValue cfg (toks.length + 1) toks
      let (vs, r') ← parseValues cfg n r
      pure (v :: vs, r')

def parseNames : Nat → List String → Option (List Str × List String)
  | 0, toks => some ([], toks)
  | n + 1, t :: rest => do
      let s ← unhex t
      let (ns, r) ← parseNames n rest
      pure (s :: ns, r)
  | _ + 1, [] => none

/-- packets `P v…` until `Z` -/
def parsePackets (cfg : Cfg) (n : Nat) : Nat → List String → Option (List (List V) × List String)
  | 0, _ => none
  | fuel + 1, t :: rest =>
    if t == "Z" then some ([], rest)
    else if t == "P" then do
      let (vs, r) ← parseValues cfg n rest
      let (ps, r') ← parsePackets cfg n fuel r
      pure (vs :: ps, r')
    else none
  | _ + 1, [] => none

/-- `L:<cat>:<n>` head -/
def parseLoopHead (t : String) : Option (Option Str × Nat) :=
  match (after2 t).splitOn ":" with
  | [c, n] => do let cat ← unhexOpt c; let k ← n.toNat?; pure (cat, k)
  | _ => none

mutual
  /-- body of a container up to and including its `E` -/
  def parseBody (cfg : Cfg) : Nat → List String → Option (List Container × List Loop × List String)
    | 0, _ => none
    | fuel + 1, t :: rest =>
      if t == "E" then some ([], [], rest)
      else match t.toList with
        | 'F' :: ':' :: _ =>
          match unhex (after2 t) with
          | none => none
          | some code =>
            match parseBody cfg fuel rest with
            | none => none
            | some (fs, ls, r) =>
              match parseBody cfg fuel r with
              | none => none
              | some (fs', ls', r') => some (Container.mk code fs ls :: fs', ls', r')
        | 'L' :: ':' :: _ =>
          match parseLoopHead t with
          | none => none
          | some (cat, n) =>
            match parseNames n rest with
            | none => none
            | some (names, r) =>
              match parsePackets cfg n (r.length + 1) r with
              | none => none
              | some (ps, r') =>
                match parseBody cfg fuel r' with
                | none => none
                | some (fs, ls, r'') => some (fs, { category := cat, names := names, packets := ps } :: ls, r'')
        | _ => none
    | _ + 1, [] => none
end

/-- blocks `B:<code> body E` while the next token starts a block -/
def parseCif (cfg : Cfg) : Nat → List String → Option (Cif × List String)
  | 0, toks => some ([], toks)
  | fuel + 1, t :: rest =>
    match t.toList with
    | 'B' :: ':' :: _ => do
        let code ← unhex (after2 t)
        let (fs, ls, r) ← parseBody cfg (rest.length + 1) rest
        let (bs, r') ← parseCif cfg fuel r
        pure (Container.mk code fs ls :: bs, r')
    | _ => some ([], t :: rest)
  | _ + 1, [] => some ([], [])

-- ---- showing (same canonical form as dump_value / dump_cif in harness/cifio.h) -------------------------------

mutual
  def showValue : V → String
    | .unk => "U"
    | .na => "N"
    | .chr q s => "C" ++ boolStr q ++ ":" ++ hex s
    | .numb q t _ _ _ _ => "M" ++ boolStr q ++ ":" ++ hex t
    | .lst vs => "[" ++ showElems vs ++ " ]"
    | .tbl es => "{" ++ showEntries es ++ " }"
  def showElems : List V → String
    | [] => ""
    | v :: vs => " " ++ showValue v ++ showElems vs
  def showEntries : List (Str × Str × V) → String
    | [] => ""
    | (_, ko, v) :: es => " K:" ++ hex ko ++ " " ++ showValue v ++ showEntries es
end

def showLoop (l : Loop) : String :=
  " L:" ++ hexOpt l.category ++ ":" ++ toString l.names.length
    ++ String.join (l.names.map (fun n => " " ++ hex n))
    ++ String.join (l.packets.map (fun p => " P" ++ String.join (p.map (fun v => " " ++ showValue v))))
    ++ " Z"

mutual
  def showContainer (isBlock : Bool) : Container → String
    | .mk code fs ls =>
      (if isBlock then " B:" else " F:") ++ hex code ++ showContainers fs ++ String.join (ls.map showLoop) ++ " E"
  def showContainers : List Container → String
    | [] => ""
    | c :: cs => showContainer false c ++ showContainers cs
end

def showCif (c : Cif) : String := String.join (c.map (showContainer true))

-- ---- canonical form (same as the `canon` mode of harness/cifio.h): independent of enumeration orders -------------

/-- insertion sort by a Bool "less or equal" (small lists) -/
def isort {α} (le : α → α → Bool) : List α → List α
  | [] => []
  | x :: xs => ins x (isort le xs)
where ins (x : α) : List α → List α
  | [] => [x]
  | y :: ys => if le x y then x :: y :: ys else y :: ins x ys

/-- lexicographic ≤ on code-unit lists (what `u_strcmp` and `strcmp` on equal-width hex text compute) -/
def strLe : List Nat → List Nat → Bool
  | [], _ => true
  | _ :: _, [] => false
  | a :: as, b :: bs => if a < b then true else if b < a then false else strLe as bs

def textLe (a b : String) : Bool := strLe (a.toList.map Char.toNat) (b.toList.map Char.toNat)

/-- item names sorted by code units, packet values permuted accordingly -/
def canonLoop (l : Loop) : Loop :=
  let idx := isort (fun (a b : Nat × Str) => strLe a.2 b.2) (List.zip (List.range l.names.length) l.names)
  { category := l.category
    names := idx.map (·.2)
    packets := l.packets.map (fun p => idx.map (fun (i, _) => p.getD i .unk)) }

mutual
  def showCanonContainer (isBlock : Bool) : Container → String
    | .mk code fs ls =>
      (if isBlock then " B:" else " F:") ++ hex code
        ++ String.join (isort textLe (showCanonContainers fs))
        ++ String.join (isort textLe (ls.map (fun l => showLoop (canonLoop l)))) ++ " E"
  def showCanonContainers : List Container → List String
    | [] => []
    | c :: cs => showCanonContainer false c :: showCanonContainers cs
end

def showCanonCif (c : Cif) : String := String.join (isort textLe (c.map (showCanonContainer true)))

end Driver.CifArg
