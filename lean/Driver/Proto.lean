/-
  Driver.Proto — wire format shared by the model driver and the C executors.
  One request per line: `<family> <arg> <arg> …`; one answer line per request.
  Strings are lower-case hex of UTF-16 code units, 4 hex digits per unit; `-` is the empty string, `~` is NULL.
-/
namespace Driver

def hexDigit (c : Char) : Option Nat :=
  if '0' ≤ c ∧ c ≤ '9' then some (c.toNat - '0'.toNat)
  else if 'a' ≤ c ∧ c ≤ 'f' then some (c.toNat - 'a'.toNat + 10)
  else none

/-- decode `4·n` hex digits into `n` code units -/
def unhexList : List Char → Option (List Nat)
  | [] => some []
  | a :: b :: c :: d :: rest => do
      let x ← hexDigit a; let y ← hexDigit b; let z ← hexDigit c; let w ← hexDigit d
      let r ← unhexList rest
      pure ((x * 4096 + y * 256 + z * 16 + w) :: r)
  | _ => none

/-- `-` = empty string; otherwise hex -/
def unhex (s : String) : Option (List Nat) :=
  if s == "-" then some [] else unhexList s.toList

def hexChar (n : Nat) : Char :=
  if n < 10 then Char.ofNat (n + '0'.toNat) else Char.ofNat (n - 10 + 'a'.toNat)

def hexUnit (u : Nat) : String :=
  String.ofList [hexChar (u / 4096 % 16), hexChar (u / 256 % 16), hexChar (u / 16 % 16), hexChar (u % 16)]

def hex (s : List Nat) : String :=
  if s.isEmpty then "-" else String.join (s.map hexUnit)

def hexOpt : Option (List Nat) → String
  | none => "~"
  | some s => hex s

def unhexOpt (s : String) : Option (Option (List Nat)) :=
  if s == "~" then some none else (unhex s).map some

def boolStr (b : Bool) : String := if b then "1" else "0"

def parseBool (s : String) : Option Bool :=
  if s == "1" then some true else if s == "0" then some false else none

/-- a family handler: the arguments after the family word ↦ the answer line (`none` = `bad-op`) -/
abbrev Handler := List String → Option String

end Driver
