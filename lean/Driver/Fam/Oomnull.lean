import Driver.Proto
/- family `oomnull`: the allocation-fault census of C17 is an implementation-only run (see tools/gen/oom.py); the driver
   answers a fixed token so that the line protocol stays uniform. -/
namespace Driver.Fam.Oomnull
def name : String := "oomnull"
def handle : Driver.Handler := fun _ => some "-"
end Driver.Fam.Oomnull
