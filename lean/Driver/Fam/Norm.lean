import Driver.Proto
import CifModel.Model.Normalize
import CifModel.Model.NormalizeBuf
import CifModel.Model.Serialize
import CifModel.Model.NamesApi
import CifModel.Gen.ErrCodes
/- family `norm` (C09).  The request the model sees is the executor's request followed by ` | g:<x>:<NFD x>:<fold NFD x>:<NFC fold NFD x>:<NFC x> …`
   (tools/gen/norm.py `model_request`): the graph of ICU's functions on the strings involved, which instantiates the model's
   `UnicodeOps` parameter.  Tokens after `|` that do not start with `g:` are ignored.
     norm cp <x> | g…                         ↦ nm rc=0 out=<cifNormalize U x>
     norm match <block|frame|item> <a> <b> | g… ↦ nm ca= cb= gb=
     norm map <tbl|pkt> <op>… | g…            ↦ nm <result>…      (ops S / P: the table goes through the model of
                                                 cif_value_serialize / cif_value_deserialize (Model/Serialize.lean: normalised key AND
                                                 original spelling of every entry are written and read); a packet read back through a
                                                 packet iterator carries its NORMALISED names as spellings (cif_loop_get_names_internal
                                                 with normalize = TRUE))
   buffer level (Model/NormalizeBuf.lean; the ICU calls are `icuOf` of the functions given by `n:<x>:<NFD x>`, `f:<y>:<fold y>`,
   `c:<z>:<NFC z>` tokens; first-buffer guess `cGuess`, fuel 8):
     norm buf <fn> <z|n> <srclen> <mem> | n… f… c… ↦ nb rc= len= cap= out= term= tr=<trace>
     norm icu <nfd|nfc|fold> <cap> <x> | <t>:<x>:<f x> ↦ ic len= st= w= nul= guard=                                  -/
namespace Driver.Fam.Norm
open Driver CifModel CifModel.Model CifModel.Gen.ErrCodes

def name : String := "norm"

structure Graph where
  nfd : List (Str × Str) := []
  fold : List (Str × Str) := []
  nfc : List (Str × Str) := []

def look (t : List (Str × Str)) (x : Str) : Str :=
  match t.find? (fun p => p.1 == x) with
  | some p => p.2
  | none => x

def Graph.ops (g : Graph) : UnicodeOps := { nfd := look g.nfd, fold := look g.fold, nfc := look g.nfc }

def addToken (g : Graph) (tok : String) : Option Graph :=
  match tok.splitOn ":" with
  | ["g", x, d, f, c, nx] => do
      let x ← unhex x; let d ← unhex d; let f ← unhex f; let c ← unhex c; let nx ← unhex nx
      pure { nfd := (x, d) :: g.nfd, fold := (d, f) :: g.fold, nfc := (f, c) :: (x, nx) :: g.nfc }
  | "g" :: _ => none
  | ["n", x, y] => do let x ← unhex x; let y ← unhex y; pure { g with nfd := (x, y) :: g.nfd }
  | ["f", x, y] => do let x ← unhex x; let y ← unhex y; pure { g with fold := (x, y) :: g.fold }
  | ["c", x, y] => do let x ← unhex x; let y ← unhex y; pure { g with nfc := (x, y) :: g.nfc }
  | _ => some g

def parseGraph (toks : List String) : Option Graph := toks.foldlM addToken {}

def rcOf {α} : Except Code α → Nat
  | .ok _ => 0
  | .error c => c

def runMatch (U : UnicodeOps) (kind : String) (a b : Str) : Option String := do
  let (norm, invalid, dup, noSuch) ← match kind with
    | "block" => some (fun n => normalizeName U n CIF_INVALID_BLOCKCODE, CIF_INVALID_BLOCKCODE, CIF_DUP_BLOCKCODE, CIF_NOSUCH_BLOCK)
    | "frame" => some (fun n => normalizeName U n CIF_INVALID_FRAMECODE, CIF_INVALID_FRAMECODE, CIF_DUP_FRAMECODE, CIF_NOSUCH_FRAME)
    | "item" => some (fun n => normalizeItemName U n CIF_INVALID_ITEMNAME, CIF_INVALID_ITEMNAME, CIF_DUP_ITEMNAME, CIF_NOSUCH_ITEM)
    | _ => none
  let _ := invalid
  let r1 := createNamed norm [] a dup
  let present := match r1 with | .ok p => p | .error _ => []
  -- look-up entry points report an invalid name as "no such …" for items (cif_container_get_value) and as INVALID for codes
  let lookNorm : Option Str → Except Code Str := if kind == "item" then (fun n => normalizeItemName U n CIF_NOSUCH_ITEM) else norm
  let g := findNamed lookNorm present b noSuch
  let r2 := createNamed norm present b dup
  pure s!"nm ca={rcOf r1} cb={rcOf r2} gb={rcOf g}"

/-- insertion sort of hex strings (the executor sorts keys as C strings of lower-case hex) -/
def sortStrings (l : List String) : List String := (l.toArray.qsort (· < ·)).toList

/-- the character value a map history stores under a tag -/
def tagV (t : Str) : V := .chr true t

/-- a value of a map history as the executor prints it: the text of a character value, `~` for anything else (the unknown value
    of cif_packet_create) -/
def showTag : V → String
  | .chr _ t => hex t
  | _ => "~"

/-- a table through `cif_value_serialize` and `cif_value_deserialize` (what storing it in a managed CIF and reading it back does) -/
def throughBlob (es : List Value.Entry) : Option (List Value.Entry) :=
  match CifModel.Model.Serialize.deserialize (fun _ => none) (CifModel.Model.Serialize.ser (.tbl es)) with
  | some (.tbl es', []) => some es'
  | _ => none

/-- table / packet histories run on the entry-point models of Model/Value.lean INSTANTIATED with the C09 normalisers
    (`tableNorm U`, `itemNorm U` of Model/NamesApi.lean): `Value.tableSet / tableGet / tableRemove / tableKeys`,
    `Value.packetSet / packetGet / packetRemove / packetNames / packetCreate` — the very terms `C09_entry_points` and
    `C09_code_table` are about; every refusal code printed comes out of those functions -/
def runMap (U : UnicodeOps) (isTbl : Bool) (ops : List String) : Option String := do
  let step (acc : List Value.Entry × List String) (op : String) : Option (List Value.Entry × List String) :=
    let (es, out) := acc
    match op.splitOn ":" with
    | ["k"] =>
        let ks := if isTbl then (match Value.tableKeys (.tbl es) with | .ok ks => ks | .error _ => []) else Value.packetNames es
        some (es, s!"k=[{",".intercalate (sortStrings (ks.map hex))}]" :: out)
    | ["s", k, t] => do
        let k ← unhex k; let t ← unhex t
        if isTbl then
          match Value.tableSet (tableNorm U) (.tbl es) k (some (tagV t)) with
          | .ok (.tbl es') => pure (es', "s=0" :: out)
          | .ok _ => none
          | .error c => pure (es, s!"s={c}" :: out)
        else
          match Value.packetSet (itemNorm U) es k (some (tagV t)) with
          | .ok es' => pure (es', "s=0" :: out)
          | .error c => pure (es, s!"s={c}" :: out)
    | ["g", k] => do
        let k ← unhex k
        match (if isTbl then Value.tableGet (tableNorm U) (.tbl es) k else Value.packetGet (itemNorm U) es k) with
        | .ok v => pure (es, s!"g=0/{showTag v}" :: out)
        | .error c => pure (es, s!"g={c}/~" :: out)
    | ["r", k] => do
        let k ← unhex k
        if isTbl then
          match Value.tableRemove (tableNorm U) (.tbl es) k with
          | .ok (.tbl es', _) => pure (es', "r=0" :: out)
          | .ok _ => none
          | .error c => pure (es, s!"r={c}" :: out)
        else
          match Value.packetRemove (itemNorm U) es k with
          | .ok (es', _) => pure (es', "r=0" :: out)
          | .error c => pure (es, s!"r={c}" :: out)
    | ["C"] => if isTbl then some (es, "C=0" :: out) else none
    | ["N", names] =>
        if isTbl then none else do
          let ns ← (names.splitOn ",").mapM unhex
          match Value.packetCreate (itemNorm U) ns with
          | .ok p => pure (p, "N=0" :: out)
          | .error c => pure (es, s!"N={c}" :: out)
    | ["S"] => if isTbl then (match throughBlob es with | some es' => some (es', "S=0/0" :: out) | none => some (es, "S=MODEL:deserialize" :: out)) else none
    | ["P"] =>
        if isTbl then (match throughBlob es with | some es' => some (es', "P=0/0" :: out) | none => some (es, "P=MODEL:deserialize" :: out))
        else if es.isEmpty then some (es, "P=skip" :: out)
        else some (es.map (fun e => (e.1, e.1, e.2.2)), "P=0/0" :: out)
    | _ => none
  let (_, out) ← ops.foldlM step (([] : List Value.Entry), ([] : List String))
  pure (" ".intercalate ("nm" :: out.reverse))

/-! ### buffer level -/
open CifModel.Model.NormBuf in
def showStatus : IcuStatus → String
  | .zero => "z" | .notTerminated => "w" | .overflow => "o" | .failure => "e"

open CifModel.Model.NormBuf in
def showEv : Ev → String
  | .malloc n => s!"m{n}" | .realloc n => s!"r{n}" | .free => "f" | .icu cap len st => s!"i{cap}:{len}:{showStatus st}"

open CifModel.Model.NormBuf in
def showTrace (t : List Ev) : String := if t.isEmpty then "-" else ",".intercalate (t.map showEv)

open CifModel.Model.NormBuf in
def showErr : Err → String
  | .oobWrite => "MODEL:oobWrite" | .oobRead => "MODEL:oobRead" | .fuel => "MODEL:fuel" | .code c => s!"rc={c} len=- cap=- out=~ term=-"

open CifModel.Model.NormBuf in
def runBuf (U : UnicodeOps) (fn mode lenArg : String) (units : Str) : Option String := do
  let srclen ← lenArg.toInt?
  let z ← if mode == "z" then some true else if mode == "n" then some false else none
  let mem := if z then units ++ [0] else units
  -- the preconditions the executor enforces as well
  if srclen ≥ 0 then (if srclen.toNat > mem.length then none else some ()) else (if mem.contains 0 then some () else none)
  let I := IcuOps.of U
  let fuel := 8
  let stage (r : Res (Buf × Nat)) : String :=
    match r with
    | (t, .ok (b, n)) =>
      let term := decide (n < b.data.length) && (b.data.getD n 1 == 0)
      s!"nb rc=0 len={n} cap={b.cap} out={hex (b.data.take n)} term={boolStr term} tr={showTrace t}"
    | (t, .error e) => s!"nb {showErr e} tr={showTrace t}"
  let whole (want : Bool) (r : Res Buf) : String :=
    match r with
    | (t, .ok b) => if want then s!"nb rc=0 len=- cap={b.cap} out={hex b.cstr} term=- tr={showTrace t}"
                    else s!"nb rc=0 len=- cap=- out=~ term=- tr={showTrace t}"
    | (t, .error e) => s!"nb {showErr e} tr={showTrace t}"
  match fn with
  | "nfd0" => pure (stage (unicodeNormalize I.nfd cGuess mem srclen false fuel))
  | "nfd1" => pure (stage (unicodeNormalize I.nfd cGuess mem srclen true fuel))
  | "nfc0" => pure (stage (unicodeNormalize I.nfc cGuess mem srclen false fuel))
  | "nfc1" => pure (stage (unicodeNormalize I.nfc cGuess mem srclen true fuel))
  | "fold" => pure (stage (foldCase I.fold cGuess mem srclen fuel))
  | "norm" => pure (whole true (cifNormalizeBuf I cGuess mem srclen true fuel))
  | "norm0" => pure (whole false (cifNormalizeBuf I cGuess mem srclen false fuel))
  | "name" => if mem.contains 0 then pure (whole true (normalizeNameBuf I cGuess false (some mem) srclen CIF_INVALID_BLOCKCODE true fuel)) else none
  | "item" => if mem.contains 0 then pure (whole true (normalizeNameBuf I cGuess true (some mem) srclen CIF_INVALID_ITEMNAME true fuel)) else none
  | "tbl" => if mem.contains 0 then pure (whole true (normalizeTableIndexBuf I cGuess (some mem) srclen CIF_INVALID_INDEX true fuel)) else none
  | _ => none

open CifModel.Model.NormBuf in
def runIcu (U : UnicodeOps) (fn capArg : String) (x : Str) : Option String := do
  let cap ← capArg.toNat?
  let f ← match fn with | "nfd" => some U.nfd | "nfc" => some U.nfc | "fold" => some U.fold | _ => none
  let r := icuOf f x cap
  let w := if r.status == .overflow || r.status == .failure then "*" else hex (r.written.take r.len)
  let nul := if r.status == .zero then boolStr (r.written.getD r.len 1 == 0) else "-"
  pure s!"ic len={r.len} st={showStatus r.status} w={w} nul={nul} guard={boolStr (decide (r.written.length ≤ cap))}"

def handle : Handler := fun args =>
  let (req, rest) := args.span (· != "|")
  match parseGraph (rest.drop 1) with
  | none => none
  | some g =>
    let U := g.ops
    match req with
    | ["cp", h] => do
        let x ← unhex h
        pure s!"nm rc=0 out={hex (cifNormalize U x)}"
    | ["match", kind, a, b] => do
        let a ← unhex a; let b ← unhex b
        runMatch U kind a b
    | "map" :: "tbl" :: ops => runMap U true ops
    | "map" :: "pkt" :: ops => runMap U false ops
    | ["buf", fn, mode, len, h] => do
        let m ← unhex h
        runBuf U fn mode len m
    | ["icu", fn, cap, h] => do
        let x ← unhex h
        runIcu U fn cap x
    | _ => none

end Driver.Fam.Norm
