import Driver.CifArg
import CifModel.Model.Walk
/-
  family `walk` (C14):   walk <cif tokens> prog <k>:<resp>… [ord <listing>]   ↦   wk rc=<rc> n=<calls> log=<events>
  The CIF walked is the listing when present (the enumeration orders the executor observed, see harness/x_walk.c),
  otherwise the description read in its own order.
-/
namespace Driver.Fam.Walk
open Driver CifModel CifModel.Walk

def name : String := "walk"

/-- `m` pairs `<name> <value>` -/
def parsePairs (cfg : CifArg.Cfg) : Nat → List String → Option (List (Str × V) × List String)
  | 0, toks => some ([], toks)
  | m + 1, t :: rest => do
      let nm ← unhex t
      let (v, r) ← CifArg.parseValue cfg (rest.length + 1) rest
      let (ps, r') ← parsePairs cfg m r
      pure ((nm, v) :: ps, r')
  | _ + 1, [] => none

/-- packets `P <m> pairs` until `Z` -/
def parsePkts (cfg : CifArg.Cfg) : Nat → List String → Option (List (List (Str × V)) × List String)
  | 0, _ => none
  | fuel + 1, t :: rest =>
    if t == "Z" then some ([], rest)
    else if t == "P" then
      match rest with
      | m :: rest' => do
        let k ← m.toNat?
        let (pk, r) ← parsePairs cfg k rest'
        let (ps, r') ← parsePkts cfg fuel r
        pure (pk :: ps, r')
      | [] => none
    else none
  | _ + 1, [] => none

/-- body of a listed container up to and including its `E` -/
def parseBody (cfg : CifArg.Cfg) : Nat → List String → Option (List WCont × List WLoop × List String)
  | 0, _ => none
  | fuel + 1, t :: rest =>
    if t == "E" then some ([], [], rest)
    else match t.toList with
      | 'F' :: ':' :: _ => do
          let code ← unhex (CifArg.after2 t)
          let (fs, ls, r) ← parseBody cfg fuel rest
          let (fs', ls', r') ← parseBody cfg fuel r
          pure (WCont.mk code fs ls :: fs', ls', r')
      | 'L' :: ':' :: _ => do
          let (cat, n) ← CifArg.parseLoopHead t
          let (names, r) ← CifArg.parseNames n rest
          let (ps, r') ← parsePkts cfg (r.length + 1) r
          let (fs, ls, r'') ← parseBody cfg fuel r'
          pure (fs, { category := cat, names := names, packets := ps } :: ls, r'')
      | _ => none
  | _ + 1, [] => none

def parseListing (cfg : CifArg.Cfg) : Nat → List String → Option WCif
  | 0, _ => none
  | _ + 1, [] => some []
  | fuel + 1, t :: rest =>
    match t.toList with
    | 'B' :: ':' :: _ => do
        let code ← unhex (CifArg.after2 t)
        let (fs, ls, r) ← parseBody cfg (rest.length + 1) rest
        let bs ← parseListing cfg fuel r
        pure (WCont.mk code fs ls :: bs)
    | _ => none

/-- `<k>:<resp>` -/
def parseProgEntry (t : String) : Option (Nat × Int) :=
  match t.splitOn ":" with
  | [k, r] => do let k' ← k.toNat?; let r' ← r.toInt?; pure (k', r')
  | _ => none

def progOf (tbl : List (Nat × Int)) : Prog := fun k _ =>
  -- the last listed entry for k wins (as in the executor)
  match (tbl.reverse.find? (·.1 == k)) with
  | some (_, r) => r
  | none => 0

def showPairs (ps : List (Str × V)) : String :=
  " " ++ toString ps.length ++ String.join (ps.map (fun (n, v) => " " ++ hex n ++ " " ++ CifArg.showValue v))

def showLoopId (cat : Option Str) (names : List Str) : String :=
  " " ++ hexOpt cat ++ " " ++ toString names.length ++ String.join (names.map (fun n => " " ++ hex n))

def showEv : Ev → String
  | .cifStart => " @cs"
  | .cifEnd => " @ce"
  | .blockStart c => " @bs " ++ hex c
  | .blockEnd c => " @be " ++ hex c
  | .frameStart c => " @fs " ++ hex c
  | .frameEnd c => " @fe " ++ hex c
  | .loopStart c ns => " @ls" ++ showLoopId c ns
  | .loopEnd c ns => " @le" ++ showLoopId c ns
  | .pktStart ps => " @ps" ++ showPairs ps
  | .pktEnd ps => " @pe" ++ showPairs ps
  | .item n v => " @it " ++ hex n ++ " " ++ CifArg.showValue v

/-- what the container handle answers inside its start / end callback (harness/x_walk.c `log_queries`); `isBlock`: the model
    knows which kind of container each handle is -/
def showQueries (isBlock : Bool) : WCont → String
  | .mk _ frames loops =>
    let cf := match frames with
      | .mk fc _ _ :: _ => "0," ++ hex fc
      | [] => "-"
    let il := match loops with
      | l :: _ => (match l.names with
          | n :: _ => hex n ++ ",0," ++ hexOpt l.category
          | [] => "-")
      | [] => "-"
    s!" q:{if isBlock then 0 else 6}:{frames.length}:{loops.length}:{cf}:{il}"

mutual
  /-- the container callbacks of the full traversal, in order, each with the answers of its handle -/
  def annotCont (depth : Nat) : WCont → List (String × String)
    | .mk code frames loops =>
      let q := showQueries (depth == 0) (.mk code frames loops)
      (showEv (if depth = 0 then .blockStart code else .frameStart code), q)
        :: (annotConts (depth + 1) frames ++ [(showEv (if depth = 0 then .blockEnd code else .frameEnd code), q)])
  def annotConts (depth : Nat) : List WCont → List (String × String)
    | [] => []
    | c :: cs => annotCont depth c ++ annotConts depth cs
end

/-- the delivered callbacks are a sublist of the full traversal (C14_visits_sublist) and codes are unique among siblings: every
    container callback of the log is the next one with the same text in the annotated traversal -/
def attach : List String → List (String × String) → List String
  | [], _ => []
  | e :: es, ann =>
    if e.startsWith " @bs " || e.startsWith " @be " || e.startsWith " @fs " || e.startsWith " @fe " then
      match ann.dropWhile (fun a => a.1 != e) with
      | a :: rest => (e ++ a.2) :: attach es rest
      | [] => (e ++ " q:?") :: attach es []
    else e :: attach es ann

def splitAt (sep : String) (xs : List String) : List String × Option (List String) :=
  match xs.span (· != sep) with
  | (a, []) => (a, none)
  | (a, _ :: b) => (a, some b)

def handle : Handler := fun args =>
  if args == ["consts"] then
    some s!"wk consts {CONTINUE} {SKIP_CURRENT} {SKIP_SIBLINGS} {END} {OK} {FINISHED} {EMPTY_LOOP}"
  else
  let (cifToks, rest) := splitAt "prog" args
  match rest with
  | none => none
  | some rest =>
    let (progToks, ord) := splitAt "ord" rest
    do
      let tbl ← progToks.mapM parseProgEntry
      let cif ← match ord with
        | some l => parseListing {} (l.length + 1) l
        | none =>
          match CifArg.parseCif {} (cifToks.length + 1) cifToks with
          | some (c, []) => some (WCif.ofCif c)
          | _ => none
      let (log, rc) := walk (progOf tbl) cif
      pure (s!"wk rc={rc} n={log.length} log=" ++ String.join (attach (log.map showEv) (annotConts 0 cif)))

end Driver.Fam.Walk
