import Driver.CifArg
import CifModel.Model.WalkH
/-
  family `walk` (C14):   walk <cif tokens> prog <k>:<resp>… [ord <listing>]   ↦   wk rc=<rc> n=<calls> log=<events>
  The CIF walked is the listing when present (the enumeration orders the executor observed, see harness/x_walk.c),
  otherwise the description read in its own order.
-/
namespace Driver.Fam.Walk
open Driver CifModel CifModel.Walk

def name : String := "walk"

/-- `m` pairs `<name> <value>` -/
def parsePairs (cfg : CifArg.Cfg) : Nat → List String → Option (List (Str × V) × List String)
  | 0, toks => some ([], toks)
  | m + 1, t :: rest => do
      let nm ← unhex t
      let (v, r) ← CifArg.parseValue cfg (rest.length + 1) rest
      let (ps, r') ← parsePairs cfg m r
      pure ((nm, v) :: ps, r')
  | _ + 1, [] => none

/-- packets `P <m> pairs` until `Z` -/
def parsePkts (cfg : CifArg.Cfg) : Nat → List String → Option (List (List (Str × V)) × List String)
  | 0, _ => none
  | fuel + 1, t :: rest =>
    if t == "Z" then some ([], rest)
    else if t == "P" then
      match rest with
      | m :: rest' => do
        let k ← m.toNat?
        let (pk, r) ← parsePairs cfg k rest'
        let (ps, r') ← parsePkts cfg fuel r
        pure (pk :: ps, r')
      | [] => none
    else none
  | _ + 1, [] => none

/-- body of a listed container up to and including its `E` -/
def parseBody (cfg : CifArg.Cfg) : Nat → List String → Option (List WCont × List WLoop × List String)
  | 0, _ => none
  | fuel + 1, t :: rest =>
    if t == "E" then some ([], [], rest)
    else match t.toList with
      | 'F' :: ':' :: _ => do
          let code ← unhex (CifArg.after2 t)
          let (fs, ls, r) ← parseBody cfg fuel rest
          let (fs', ls', r') ← parseBody cfg fuel r
          pure (WCont.mk code fs ls :: fs', ls', r')
      | 'L' :: ':' :: _ => do
          let (cat, n) ← CifArg.parseLoopHead t
          let (names, r) ← CifArg.parseNames n rest
          let (ps, r') ← parsePkts cfg (r.length + 1) r
          let (fs, ls, r'') ← parseBody cfg fuel r'
          pure (fs, { category := cat, names := names, packets := ps } :: ls, r'')
      | _ => none
  | _ + 1, [] => none

def parseListing (cfg : CifArg.Cfg) : Nat → List String → Option WCif
  | 0, _ => none
  | _ + 1, [] => some []
  | fuel + 1, t :: rest =>
    match t.toList with
    | 'B' :: ':' :: _ => do
        let code ← unhex (CifArg.after2 t)
        let (fs, ls, r) ← parseBody cfg (rest.length + 1) rest
        let bs ← parseListing cfg fuel r
        pure (WCont.mk code fs ls :: bs)
    | _ => none

/-- `<k>:<resp>` -/
def parseProgEntry (t : String) : Option (Nat × Int) :=
  match t.splitOn ":" with
  | [k, r] => do let k' ← k.toNat?; let r' ← r.toInt?; pure (k', r')
  | _ => none

def progOf (tbl : List (Nat × Int)) : Prog := fun k _ =>
  -- the last listed entry for k wins (as in the executor)
  match (tbl.reverse.find? (·.1 == k)) with
  | some (_, r) => r
  | none => 0

def showPairs (ps : List (Str × V)) : String :=
  " " ++ toString ps.length ++ String.join (ps.map (fun (n, v) => " " ++ hex n ++ " " ++ CifArg.showValue v))

def showLoopId (cat : Option Str) (names : List Str) : String :=
  " " ++ hexOpt cat ++ " " ++ toString names.length ++ String.join (names.map (fun n => " " ++ hex n))

def showEv : Ev → String
  | .cifStart => " @cs"
  | .cifEnd => " @ce"
  | .blockStart c => " @bs " ++ hex c
  | .blockEnd c => " @be " ++ hex c
  | .frameStart c => " @fs " ++ hex c
  | .frameEnd c => " @fe " ++ hex c
  | .loopStart c ns => " @ls" ++ showLoopId c ns
  | .loopEnd c ns => " @le" ++ showLoopId c ns
  | .pktStart ps => " @ps" ++ showPairs ps
  | .pktEnd ps => " @pe" ++ showPairs ps
  | .item n v => " @it " ++ hex n ++ " " ++ CifArg.showValue v

/-- what the container handle `path` answers inside its start / end callback (harness/x_walk.c `log_queries`): every answer is
    obtained THROUGH THE HANDLE the model's walker passed (Model/WalkH.lean `q…`: the handle is looked up in the CIF) —
    cif_container_assert_block, the numbers of frames / loops listed, cif_container_get_frame with the code of the first frame listed
    (handle `path ++ [0]`) and the code of the handle it returns, cif_container_get_item_loop with the first name of the first loop
    listed (handle `.loop path 0`) and the category of the loop handle it returns -/
def showQueries (c : WCif) (path : Path) : String :=
  let nf := match qNumFrames c path with | some n => toString n | none => "-1"
  let nl := match qNumLoops c path with | some n => toString n | none => "-1"
  let cf := match qCode c (path ++ [0]) with
    | none => "-"
    | some fc =>
      match qGetFrame c path fc with
      | some (.cont p') => "0," ++ (match qCode c p' with | some c' => hex c' | none => "!")
      | _ => "23,!"
  let il := match qLoopNames c path 0 with
    | some (nm :: _) =>
      (match qItemLoop c path nm with
       | some (.loop p' i) => hex nm ++ ",0," ++ (match qLoopCategory c p' i with | some cat => hexOpt cat | none => "!")
       | _ => hex nm ++ ",43,!")
    | _ => "-"
  s!" q:{qAssertBlock path}:{nf}:{nl}:{cf}:{il}"

/-- bit 1 of the `lq` mask: a handler's own pass over the packets through the loop handle (harness/x_walk.c `log_loop`) -/
def showLoopIter (c : WCif) (path : Path) (i : Nat) : String :=
  match qLoopPackets c path i with
  | some 0 => " i:36:0:0:-1"
  | some n => s!" i:0:{n}:1:0"
  | none => " i:?"

/-- bit 2 of the `lq` mask: category and names through the handle of the loop the packet / item belongs to (the handle passed to
    loop_start: container `path`, position `i`) -/
def showLoopOf (c : WCif) (path : Path) (i : Nat) : String :=
  match qLoopCategory c path i, qLoopNames c path i with
  | some cat, some names => " l:" ++ hexOpt cat ++ ":" ++ toString names.length ++ ":" ++ ",".intercalate (names.map hex)
  | _, _ => " l:?"

/-- a callback with the answers of the handle it was given -/
def showEvH (mask : Nat) (c : WCif) : Ev × Handle → String
  | (e, .cont path) => showEv e ++ showQueries c path
  | (e, .loop path i) => showEv e ++ (if mask % 2 = 1 then showLoopIter c path i else "")
  | (e, .packet path i _) => showEv e ++ (if mask / 2 % 2 = 1 then showLoopOf c path i else "")
  | (e, .item path i _ _) => showEv e ++ (if mask / 2 % 2 = 1 then showLoopOf c path i else "")
  | (e, _) => showEv e

def splitAt (sep : String) (xs : List String) : List String × Option (List String) :=
  match xs.span (· != sep) with
  | (a, []) => (a, none)
  | (a, _ :: b) => (a, some b)

def handle : Handler := fun args =>
  if args == ["consts"] then
    some s!"wk consts {CONTINUE} {SKIP_CURRENT} {SKIP_SIBLINGS} {END} {OK} {FINISHED} {EMPTY_LOOP}"
  else
  let (mask, args) := match args with
    | a :: r => if a.startsWith "lq" then ((a.drop 2).toNat?.getD 0, r) else (0, args)
    | [] => (0, args)
  let (cifToks, rest) := splitAt "prog" args
  match rest with
  | none => none
  | some rest =>
    let (progToks, ord) := splitAt "ord" rest
    do
      let tbl ← progToks.mapM parseProgEntry
      let cif ← match ord with
        | some l => parseListing {} (l.length + 1) l
        | none =>
          match CifArg.parseCif {} (cifToks.length + 1) cifToks with
          | some (c, []) => some (WCif.ofCif c)
          | _ => none
      let (log, rc) := walkH (progOf tbl) cif
      -- cross-check of the two models on every case: forgetting the handles must give Model/Walk.lean's walk (C14_handles_refine)
      let (log0, rc0) := walk (progOf tbl) cif
      if rc0 != rc || (log0.map showEv) != (log.map (fun x => showEv x.1)) then pure "wk MODELS-DIFFER" else
      pure (s!"wk rc={rc} n={log.length} log=" ++ String.join (log.map (showEvH mask cif)))

end Driver.Fam.Walk
