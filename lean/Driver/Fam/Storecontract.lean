import Driver.Fam.Store
/- family `storecontract`: the `store` request language; the answer says whether the history keeps to the documented contract
   (`ic`) or which op is the first that does not (`oc <index>`).  Used by tools/gen/store.py and iter.py to label every compared
   history in the evidence. -/
namespace Driver.Fam.Storecontract
def name : String := "storecontract"
def handle : Driver.Handler := fun args =>
  (Driver.Fam.Store.parseOps (args.length + 1) args).map Driver.Fam.Store.contractOf
end Driver.Fam.Storecontract
