import Driver.Fam.Ser
import CifModel.Model.Columns
/-
  family `storeval` (property C07): `storeval <route> <mutation> <value tokens>`.
  The model of storing and reading back is the column mapping: `fromColumns (toColumns v)` (for lists and tables that
  includes the serialisation through the 512-byte buffer and the deserialisation that re-parses number texts).  Every
  route binds the value with SET_VALUE_PROPS and reads it with GET_VALUE_PROPS, so the route does not change the answer;
  the caller's object is immutable here, so neither does the mutation.
      ↦ `sv rc=0 m=<field-level dump>` | `sv rc=2` (CHECK constraint / serialisation failure)
  `storeval bigparse <len> <t|q> <seed>`: a character value of <len> units read by the parser is the text written
      ↦ `sv rc=0 m=same`
  `storeval parseloop 0 <value> | <value> | …`: one column of a parsed loop holding the values packet by packet; every packet
  reads back as the image of its own value
      ↦ `sv rc=0 m=<dump>,<dump>,…`
  `storeval itsession 0 <value tokens>`: one iterator, update of packet 1, a rejected update at packet 2, update of packet 3;
  the rows of the accepted updates hold `fromColumns (toColumns v)`, the row of the rejected one still holds the unknown value
      ↦ `sv rc=0 u=0,rej,0 m=<dump>,U,<dump>` | `sv rc=0 u=2,rej,2 m=U,U,U` (value refused by the columns)
-/
namespace Driver.Fam.Storeval
open Driver CifModel CifModel.Model.Columns
open Driver.Fam.Ser (showV parseNumb)

def name : String := "storeval"

/-- the images of the values of a `|`-separated sequence, comma-joined (`none` = a value the codec refuses) -/
def imagesOf (nf : Str → Str) (groups : List (List String)) : Option (Option (List String)) :=
  groups.foldr (fun toks acc =>
    match acc, CifArg.parseValue (Ser.cfg nf) (toks.length + 1) toks with
    | some r, some (v, []) =>
      match toColumns v with
      | none => some none
      | some row =>
        if !checks row then some none else
        match r with
        | none => some none
        | some ds =>
          match fromColumns parseNumb row with
          | some v' => some (some (showV v' :: ds))
          | none => some (some ("~" :: ds))
    | _, _ => none) (some (some []))

def splitBar (toks : List String) : List (List String) :=
  toks.foldr (fun t acc => if t == "|" then [] :: acc else match acc with | g :: r => (t :: g) :: r | [] => [[t]]) [[]]

def handle : Handler
  | "parseloop" :: "0" :: toks0 =>
    match Ser.takeNormPairs toks0 with
    | none => none
    | some (nf, toks) =>
      match imagesOf nf (splitBar toks) with
      | none => none
      | some none => some "sv rc=2"
      | some (some ds) => some ("sv rc=0 m=" ++ ",".intercalate ds)
  | ["bigparse", len, style, seed] =>
    match len.toNat?, seed.toNat? with
    | some n, some _ => if n = 0 || !(["t", "q"].contains style) then none else some "sv rc=0 m=same"
    | _, _ => none
  | "itsession" :: "0" :: toks0 =>
    match Ser.takeNormPairs toks0 with
    | none => none
    | some (nf, toks) =>
    match CifArg.parseValue (Ser.cfg nf) (toks.length + 1) toks with
    | some (v, []) =>
      let refused := "sv rc=0 u=2,rej,2 m=U,U,U"
      match toColumns v with
      | none => some refused
      | some row =>
        if !checks row then some refused else
        let d := match fromColumns parseNumb row with
          | some v' => showV v'
          | none => "~"
        some ("sv rc=0 u=0,rej,0 m=" ++ d ++ ",U," ++ d)
    | _ => none
  | route :: mode :: toks0 =>
    if !(["set", "additem", "addpkt", "update", "parse"].contains route) || !(["0", "1", "2"].contains mode) then none else
    match Ser.takeNormPairs toks0 with
    | none => none
    | some (nf, toks) =>
    match CifArg.parseValue (Ser.cfg nf) (toks.length + 1) toks with
    | some (v, []) =>
      match toColumns v with
      | none => some "sv rc=2"
      | some row =>
        if !checks row then some "sv rc=2" else
        match fromColumns parseNumb row with
        | some v' => some ("sv rc=0 m=" ++ showV v')
        | none => some "sv rc=0 m=~"
    | _ => none
  | _ => none

end Driver.Fam.Storeval
