import Driver.Fam.Ser
import Driver.Fam.Numb
import CifModel.Model.Columns
import CifModel.Model.StoreCodec
import CifModel.Model.StoreRead
import CifModel.Model.Numb
/-
  family `storeval` (property C07): `storeval <route> <mutation> <value tokens>`.

  The model runs the SAME calls the executor makes (harness/x_storeval.c), on the store model of group gF composed with the column codec
  (Model/StoreCodec: every value enters the table through `image` = bind with SET_VALUE_PROPS, CHECK constraints, rebuild with
  GET_VALUE_PROPS — for lists and tables that includes the serialisation through the 512-byte buffer and the deserialisation that
  re-parses number texts):
      set      createBlock; setValueC
      additem  createBlock; createLoop (_k); addPacketC ×2; addItemC
      addpkt   createBlock; createLoop (_k, _x); addPacketC
      update   createBlock; createLoop (_k, _x); addPacketC; getPackets; nextPacket; updatePacketC; closeIter | abortIter
      frameset createBlock; createLoop (_k) + packet; createFrame f; setValueC f _k; createFrame g in f; setValueC g _x v; read from g
               (the walker reaches g through all_frames twice: `wcontOf`)
      parse    as `set` (the parser stores an item outside a loop through cif_container_set_value: Props/C07Parser, family `parse`;
               cif_write ∘ cif_parse on the text is property C02/C03's business — the request gives the value as the parser makes it)
  and reads back through the three read paths the C07 theorems are about (Props/C07Read.lean):
      m=   getValue (Model/Store)                      — the value, and f= its code (0 | CIF_AMBIGUOUS_ITEM for several packets)
      mi=  getItemLoop; readLoop = getPackets + nextPacket until it stops (Model/PktItr via Model/StoreRead); pktGet _x of each packet
      mw=  walkStore with the all-continue program (Model/Walk on `wcifOf`: all_blocks, all_loops, get_packets, next_packet, Model/StoreRead);
           the values of the `item _x` callbacks
      d=   Model/Numb.getNumber / getSu of a number read back by get_value (the doubles as sign, 53-bit mantissa, exponent)
      ↦ `sv rc=0 m=<dump> f=<code> mi=<dumps> mw=<dumps> d=<val>#<su>|-` | `sv rc=2` (CHECK constraint / serialisation failure)
  `storeval bigparse <len> <t|q> <seed>`: a character value of <len> units read by the parser is the text written
      ↦ `sv rc=0 m=same`
  `storeval parseloop 0 <value> | <value> | …`: createLoop (_k, _x); one addPacketC per value (what the parser does for a loop); the same
  three read paths, every packet
      ↦ `sv rc=0 m=<first> f=<code> mi=<dump>,<dump>,… mw=<dump>,<dump>,…`
  `storeval itsession 0 <value tokens>`: loop A (_k, _x) of three key-only packets, loop B (_y); one iterator over A: next, updatePacketC
  {_x: v}; next, updatePacketC {_y: v} (refused: CIF_WRONG_LOOP, or CIF_ERROR when the codec refuses v); next, updatePacketC {_x: v};
  closeIter; then a fresh `readLoop`
      ↦ `sv rc=<close> u=<c1>,<0|rej>,<c3> m=<dump>,<dump>,<dump>`
-/
namespace Driver.Fam.Storeval
open Driver CifModel CifModel.Model.Columns CifModel.Store CifModel.Store.Codec
open Driver.Fam.Ser (showV parseNumb)

def name : String := "storeval"

def nm (k : Str) : Name := { key := k, orig := k, valid := true }
def kB : Str := [98]            -- b
def kK : Str := [95, 107]       -- _k
def kX : Str := [95, 120]       -- _x
def kY : Str := [95, 121]       -- _y
def keyVal (n : Nat) : V := .chr false [48 + n]

/-- the all-continue handler program (only handle_item is installed and it answers CIF_TRAVERSE_CONTINUE) — `Lemmas.Walk.allCont` -/
def allCont : Walk.Prog := fun _ _ => Walk.CONTINUE

def showOpt : Option V → String
  | some v => showV v
  | none => "!"

/-- the doubles as the executor prints them: frexp's 53-bit mantissa and exponent -/
def normDbl (m : Nat) (e : Int) : Nat → Nat × Int
  | 0 => (m, e)
  | fuel + 1 => if m < 2 ^ 52 then normDbl (m * 2) (e - 1) fuel else (m, e)

def showDblC : Model.Numb.Dbl → String
  | .fin n m e =>
    if m = 0 then (if n then "-0" else "+0")
    else let (m', e') := normDbl m e 1100; (if n then "-" else "+") ++ toString m' ++ ":" ++ toString e'
  | .inf n => if n then "-inf" else "+inf"
  | .nan => "nan"

def showDoubles (v : V) : String :=
  match v with
  | .numb .. =>
    (match Model.Numb.getNumber v with | .ok (_, d) => showDblC d | .error _ => "!") ++ "#" ++
    (match Model.Numb.getSu v with | .ok (_, d) => showDblC d | .error _ => "!")
  | _ => "-"

/-- the three read paths on the final state; `all` = print every packet (else the same, it is the whole answer anyway) -/
def readBack (s : Store) (hB : CH) (withDoubles : Bool) : String :=
  let g := (getValue s hB (some (nm kX))).2
  let gtxt := match g with | .ok (v, _) => showV v | .error _ => "~"
  let f : Nat := match g with | .ok (_, false) => 0 | .ok (_, true) => Gen.ErrCodes.CIF_AMBIGUOUS_ITEM | .error c => c
  let mi :=
    match (getItemLoop s hB (some (nm kX))).2 with
    | .error c => "!" ++ toString c
    | .ok l =>
      match readLoop s l (readFuel s) with
      | .error c => "!" ++ toString c
      | .ok (ps, fin) =>
        ",".intercalate (ps.map (fun p => showOpt (pktGet p kX)))
          ++ (if fin == some Gen.ErrCodes.CIF_FINISHED then "" else "!iter" ++ (match fin with | some c => toString c | none => "?"))
  let w := walkStore allCont s
  let mw := ",".intercalate (w.1.filterMap (fun e => match e with | .item k v => if k == kX then some (showV v) else none | _ => none))
              ++ (if w.2 == 0 then "" else "!walk" ++ toString w.2)
  let d := match g with | .ok (v, _) => showDoubles v | .error _ => "-"
  "m=" ++ gtxt ++ " f=" ++ toString f ++ " mi=" ++ mi ++ " mw=" ++ mw ++ (if withDoubles then " d=" ++ d else "")

def withBlock (k : Store → CH → Option String) : Option String :=
  match createBlock {} (some (nm kB)) with
  | (s, .ok hB) => k s hB
  | _ => some "sv setup-failed"

/-- `rc` of a chain of calls: the first that is not CIF_OK -/
def code : Except Code Unit → Nat
  | .ok _ => 0
  | .error c => c

/-- key-only packets (cif_loop_add_packet records the unknown value for the omitted _x) -/
def addKeys (s : Store) (l : LH) : List Nat → Store × Nat
  | [] => (s, 0)
  | n :: ns =>
    match addPacketC s l [(kK, keyVal n)] with
    | (s1, .ok _) => addKeys s1 l ns
    | (s1, .error c) => (s1, c)

def storeRoute (route : String) (v : V) : Option String :=
  withBlock fun s hB =>
    let fin (s : Store) (rc : Nat) : Option String :=
      if rc != 0 then some ("sv rc=" ++ toString rc) else some ("sv rc=0 " ++ readBack s hB true)
    match route with
    | "set" | "parse" =>
      let (s1, r) := setValueC s hB (nm kX) v
      fin s1 (code r)
    | "additem" =>
      match createLoop s hB none [nm kK] with
      | (s1, .ok l) =>
        let (s3, r12) := addKeys s1 l [1, 2]
        if r12 != 0 then fin s3 r12 else
        let (s4, r) := addItemC s3 l (nm kX) v
        fin s4 (code r)
      | (s1, .error c) => fin s1 c
    | "addpkt" =>
      match createLoop s hB none [nm kK, nm kX] with
      | (s1, .ok l) =>
        let (s2, r) := addPacketC s1 l [(kK, keyVal 1), (kX, v)]
        fin s2 (code r)
      | (s1, .error c) => fin s1 c
    | "update" =>
      match createLoop s hB none [nm kK, nm kX] with
      | (s1, .ok l) =>
        let (s2, r1) := addPacketC s1 l [(kK, keyVal 1)]
        if code r1 != 0 then fin s2 (code r1) else
        match getPackets s2 l with
        | (s3, .error c) => fin s3 c
        | (s3, .ok it) =>
          match nextPacket s3 it with
          | (_, .error c) => fin (abortIter s3).1 c
          | (it1, .ok cur) =>
            -- cif_packet_set_item(cur, "_x", v): the entry keeps its place
            let upd := cur.map (fun e => if e.1 == kX then (kX, v) else e)
            match updatePacketC s3 it1 upd with
            | (s4, .ok _) => let (s5, r) := closeIter s4; fin s5 (code r)
            | (s4, .error c) => fin (abortIter s4).1 c
      | (s1, .error c) => fin s1 c
    | "frameset" =>
      -- block b: loop (_k) with one packet; save frame f in b: _k; save frame g in f: _x := v; read from g
      match createLoop s hB none [nm kK] with
      | (s1, .ok l) =>
        let (s2, r1) := addKeys s1 l [1]
        match createFrame s2 hB (some (nm [102])) with
        | (s3, .ok hF) =>
          let (s4, r2) := setValueC s3 hF (nm kK) (keyVal 1)
          match createFrame s4 hF (some (nm [103])) with
          | (s5, .ok hG) =>
            let (s6, r) := setValueC s5 hG (nm kX) v
            let rc := if r1 != 0 then r1 else if code r2 != 0 then code r2 else code r
            if rc != 0 then some ("sv rc=" ++ toString rc) else some ("sv rc=0 " ++ readBack s6 hG true)
          | (_, .error c) => some ("sv rc=" ++ toString c)
        | (_, .error c) => some ("sv rc=" ++ toString c)
      | (s1, .error c) => fin s1 c
    | _ => none

def parseVal (toks0 : List String) : Option V :=
  match Ser.takeNormPairs toks0 with
  | none => none
  | some (nf, toks) =>
    match CifArg.parseValue (Ser.cfg nf) (toks.length + 1) toks with
    | some (v, []) => some v
    | _ => none

def splitBar (toks : List String) : List (List String) :=
  toks.foldr (fun t acc => if t == "|" then [] :: acc else match acc with | g :: r => (t :: g) :: r | [] => [[t]]) [[]]

def parseVals (toks0 : List String) : Option (List V) :=
  match Ser.takeNormPairs toks0 with
  | none => none
  | some (nf, toks) =>
    (splitBar toks).foldr (fun g acc =>
      match acc, CifArg.parseValue (Ser.cfg nf) (g.length + 1) g with
      | some vs, some (v, []) => some (v :: vs)
      | _, _ => none) (some [])

/-- add one packet (_k, _x) per value -/
def addAll (s : Store) (l : LH) : Nat → List V → Store × Nat
  | _, [] => (s, 0)
  | n, v :: vs =>
    match addPacketC s l [(kK, keyVal (1 + n % 9)), (kX, v)] with
    | (s1, .ok _) => addAll s1 l (n + 1) vs
    | (s1, .error c) => (s1, c)

def parseLoop (vs : List V) : Option String :=
  withBlock fun s hB =>
    match createLoop s hB none [nm kK, nm kX] with
    | (s1, .ok l) =>
      let (s2, rc) := addAll s1 l 0 vs
      if rc != 0 then some ("sv rc=" ++ toString rc) else some ("sv rc=0 " ++ readBack s2 hB false)
    | (_, .error c) => some ("sv rc=" ++ toString c)

/-- the next / update steps of the session (packet numbers `ns`); returns the store, the update codes and the code that stopped the
    loop (0: all steps done) -/
def session (v : V) : List Nat → Store → Iter → Store × List (Option Nat) × Nat
  | [], s, _ => (s, [], 0)
  | n :: ns, s, it =>
    match nextPacket s it with
    | (_, .error c) => (s, [], c)
    | (it1, .ok _) =>
      let upd := if n == 1 then [(kY, v)] else [(kX, v)]
      let (s1, r) := updatePacketC s it1 upd
      let (s2, us, rc) := session v ns s1 it1
      (s2, some (code r) :: us, rc)

def itSession (v : V) : Option String :=
  withBlock fun s hB =>
    match createLoop s hB none [nm kK, nm kX] with
    | (s1, .ok la) =>
      let (s2, rc2) := addKeys s1 la [1, 2, 3]
      match createLoop s2 hB none [nm kY] with
      | (s3, .ok lb) =>
        let (s4, r4) := addPacketC s3 lb [(kY, .unk)]
        if rc2 != 0 || code r4 != 0 then some "sv setup-failed" else
        match getPackets s4 la with
        | (_, .error _) => some "sv setup-failed"
        | (s5, .ok it) =>
          let (s6, us, rc) := session v [0, 1, 2] s5 it
          let (s7, rcl) := closeIter s6
          let rcFinal := if rc == 0 || rc == Gen.ErrCodes.CIF_FINISHED then code rcl else rc
          let u (i : Nat) : Option Nat := (us.getD i none)
          let showU (o : Option Nat) : String := match o with | some c => toString c | none => "-1"
          let u1 := match u 1 with | some 0 => "0" | some _ => "rej" | none => "none"
          let rows :=
            match readLoop s7 la (readFuel s7) with
            | .ok (ps, _) => ",".intercalate (ps.map (fun p => showOpt (pktGet p kX)))
            | .error _ => "!nopackets"
          some ("sv rc=" ++ toString rcFinal ++ " u=" ++ showU (u 0) ++ "," ++ u1 ++ "," ++ showU (u 2) ++ " m=" ++ rows)
      | _ => some "sv setup-failed"
    | _ => some "sv setup-failed"

def handle : Handler
  | "parseloop" :: "0" :: toks0 =>
    match parseVals toks0 with
    | none => none
    | some vs => if vs.isEmpty then none else parseLoop vs
  | ["bigparse", len, style, seed] =>
    match len.toNat?, seed.toNat? with
    | some n, some _ => if n = 0 || !(["t", "q"].contains style) then none else some "sv rc=0 m=same"
    | _, _ => none
  | "itsession" :: "0" :: toks0 =>
    match parseVal toks0 with
    | some v => itSession v
    | none => none
  | route :: mode :: toks0 =>
    if !(["set", "additem", "addpkt", "update", "parse", "frameset"].contains route) || !(["0", "1", "2"].contains mode) then none else
    match parseVal toks0 with
    | some v => storeRoute route v
    | none => none
  | _ => none

end Driver.Fam.Storeval
