import Driver.Fam.Ser
import CifModel.Model.Columns
/-
  family `storeval` (property C07): `storeval <route> <mutation> <value tokens>`.
  The model of storing and reading back is the column mapping: `fromColumns (toColumns v)` (for lists and tables that
  includes the serialisation through the 512-byte buffer and the deserialisation that re-parses number texts).  Every
  route binds the value with SET_VALUE_PROPS and reads it with GET_VALUE_PROPS, so the route does not change the answer;
  the caller's object is immutable here, so neither does the mutation.
      ↦ `sv rc=0 m=<field-level dump>` | `sv rc=2` (CHECK constraint / serialisation failure)
-/
namespace Driver.Fam.Storeval
open Driver CifModel CifModel.Model.Columns
open Driver.Fam.Ser (showV parseNumb)

def name : String := "storeval"

def handle : Handler
  | route :: mode :: toks0 =>
    if !(["set", "additem", "addpkt", "update", "parse"].contains route) || !(["0", "1", "2"].contains mode) then none else
    match Ser.takeNormPairs toks0 with
    | none => none
    | some (nf, toks) =>
    match CifArg.parseValue (Ser.cfg nf) (toks.length + 1) toks with
    | some (v, []) =>
      match toColumns v with
      | none => some "sv rc=2"
      | some row =>
        if !checks row then some "sv rc=2" else
        match fromColumns parseNumb row with
        | some v' => some ("sv rc=0 m=" ++ showV v')
        | none => some "sv rc=0 m=~"
    | _ => none
  | _ => none

end Driver.Fam.Storeval
