import Driver.Proto
import CifModel.Model.Analyze
/- family `reserved`: `reserved <hex>` ↦ `rs <0|1>` -/
namespace Driver.Fam.Reserved
open Driver CifModel CifModel.Model

def name : String := "reserved"

def handle : Handler
  | [h] => do
      let s ← unhex h
      if s.contains 0 then none
      pure ("rs " ++ boolStr (isReserved s))
  | _ => none

end Driver.Fam.Reserved
