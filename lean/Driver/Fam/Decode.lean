import Driver.Proto
import CifModel.Model.Decode
/- family `decode`: `decode <unfold 0|1> <prem 0|1> <rawhex> [<expectedhex>]` ↦ `dc rc=0 text=<hex>` -/
namespace Driver.Fam.Decode
open Driver CifModel

def name : String := "decode"

def run (u p raw : String) : Option String := do
  let ub ← parseBool u
  let pb ← parseBool p
  let r ← unhex raw
  pure ("dc rc=0 text=" ++ hex (Model.Decode.decodeText ub pb r))

def handle : Handler
  | [u, p, raw] => run u p raw
  | [u, p, raw, _] => run u p raw
  | _ => none

end Driver.Fam.Decode
