import Driver.Proto
import CifModel.Model.Analyze
/- family `setq`: `setq <value> <quoted> <lenient>` ↦ `sq rc= kind= q= text=<hex|~>`;
   <value>: unk | na | lst | tbl | numb:<0|1>:<hex> | chr:<0|1>:<hex> -/
namespace Driver.Fam.Setq
open Driver CifModel CifModel.Model

def name : String := "setq"

def parseVal (spec : String) : Option V :=
  match spec.splitOn ":" with
  | ["unk"] => some .unk
  | ["na"] => some .na
  | ["lst"] => some (.lst [])
  | ["tbl"] => some (.tbl [])
  | ["chr", q, h] => do
      let q ← parseBool q
      let s ← unhex h
      if s.contains 0 then none
      pure (.chr q s)
  | ["numb", q, h] => do
      let q ← parseBool q
      let s ← unhex h
      if s.contains 0 then none
      pure (.numb q s false [] none 0)          -- only kind, flag and text are observed
  | _ => none

def textOf : V → Option Str
  | .chr _ t => some t
  | .numb _ t _ _ _ _ => some t
  | _ => none

def quotedOf : V → Bool
  | .chr q _ => q
  | .numb q _ _ _ _ _ => q
  | _ => false

def handle : Handler
  | [spec, q, l] => do
      let v ← parseVal spec
      let q ← parseBool q
      let l ← parseBool l
      let (rc, v') := match setQuoted l v q with
        | .ok v' => (0, v')
        | .error c => (c, v)
      pure s!"sq rc={rc} kind={v'.kindCode} q={boolStr (quotedOf v')} text={hexOpt (textOf v')}"
  | _ => none

end Driver.Fam.Setq
