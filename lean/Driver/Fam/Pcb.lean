import Driver.CifArg
import CifModel.Model.ParseCBRec
/-
  family `pcb` (C15):  pcb doc <hex> toks <T…>* prog <k>:<resp>…
     ↦ pc S rc= n= log= <events> cif= <canonical dump> N rc= n= log= <events>
  (formats: harness/x_pcb.c, tools/gen/pcb.py).  The document text is ignored here: the model works on the tokens.
-/
namespace Driver.Fam.Pcb
open Driver CifModel CifModel.ParseCB

def name : String := "pcb"

def parseTy (s : String) : Option TokType :=
  match s with
  | "bh" => some .blockHead | "fh" => some .frameHead | "ft" => some .frameTerm | "lk" => some .loopKw
  | "nm" => some .name | "ot" => some .otable | "ct" => some .ctable | "ol" => some .olist | "cl" => some .clist
  | "key" => some .key | "val" => some .value | "qval" => some .qvalue | "tval" => some .tvalue | "end" => some .end_
  | _ => none

def parseSeg (s : String) : Option Seg :=
  match s.toList with
  | 'w' :: r => (unhex (String.ofList r)).map .ws
  | 'c' :: r => (unhex (String.ofList r)).map .comment
  | _ => none

/-- `T<ty>;<segs>;<payload>` -/
def parseTok (w : String) : Option Tok :=
  match (String.ofList (w.toList.drop 1)).splitOn ";" with
  | [ty, segs, pay] => do
    let t ← parseTy ty
    let ss ← ((segs.splitOn ",").filter (· ≠ "")).mapM parseSeg
    match t with
    | .value | .qvalue | .tvalue =>
      let (v, _) ← CifArg.parseValue {} 2 [pay]
      pure { ty := t, pre := ss, text := [], v := v }
    | _ =>
      let tx ← unhex pay
      pure { ty := t, pre := ss, text := tx, v := .unk }
  | _ => none

def parseProgEntry (t : String) : Option (Nat × Int) :=
  match t.splitOn ":" with
  | [k, r] => do let k' ← k.toNat?; let r' ← r.toInt?; pure (k', r')
  | _ => none

def lowerAscii (s : Str) : Str := s.map fun c => if 65 ≤ c ∧ c ≤ 90 then c + 32 else c

def progOf (tbl : List (Nat × Int)) : Prog := fun k _ =>
  match (tbl.reverse.find? (·.1 == k)) with
  | some (_, r) => r
  | none => 0

def showPairs (ps : List (Str × V)) : String :=
  " " ++ toString ps.length ++ String.join (ps.map (fun (n, v) => " " ++ hex n ++ " " ++ CifArg.showValue v))

def showNames (ns : List Str) : String :=
  " " ++ toString ns.length ++ String.join (ns.map (fun n => " " ++ hex n))

/-- what cif_container_assert_block answers on the handle inside the callback: CIF_OK for a data block, CIF_ARGUMENT_ERROR for a
    save frame (the model knows which kind each handle is); `~` for a NULL handle -/
def qKind (c : Option Str) (ab : Nat) : String := match c with | some _ => s!" q:{ab}" | none => " q:~"

def showEv : Ev → String
  | .cifStart h => " @cs " ++ boolStr h
  | .cifEnd h => " @ce " ++ boolStr h
  | .blockStart c => " @bs " ++ hexOpt c ++ qKind c 0
  | .blockEnd c => " @be " ++ hexOpt c ++ qKind c 0
  | .frameStart c => " @fs " ++ hexOpt c ++ qKind c 6
  | .frameEnd c => " @fe " ++ hexOpt c ++ qKind c 6
  | .loopStart ns => " @ls" ++ showNames ns
  | .loopEnd none => " @le ~"
  | .loopEnd (some ns) => " @le" ++ showNames (CifArg.isort CifArg.strLe ns)
  | .pktStart => " @ps 0"
  | .pktEnd ps => " @pe" ++ showPairs ps
  | .item n v => " @it " ++ hex n ++ " " ++ CifArg.showValue v
  | .dataname n => " @dn " ++ hex n
  | .keyword (0 :: code :: _) => " @er " ++ toString code          -- `errEv`: the accepting error callback
  | .keyword t => " @kw " ++ hex t
  | .ws t => " @ws " ++ hex t

/-- adjacent whitespace callbacks concatenated, empty ones dropped (as the executor logs them) -/
def mergeWs : List Ev → List Str → List Ev
  | [], pend => flush pend
  | .ws t :: r, pend => mergeWs r (if t.isEmpty then pend else pend ++ [t])
  | e :: r, pend => flush pend ++ e :: mergeWs r []
where flush (pend : List Str) : List Ev := if pend.isEmpty then [] else [.ws pend.flatten]

def showRun (log : List Ev) (rc : Int) : String :=
  s!"rc={rc} n={(log.filter Ev.isHandler).length} log=" ++ String.join ((mergeWs log []).map showEv)

def splitAt (sep : String) (xs : List String) : List String × Option (List String) :=
  match xs.span (· != sep) with
  | (a, []) => (a, none)
  | (a, _ :: b) => (a, some b)

def handle : Handler := fun args =>
  match args with
  | "doc" :: _ :: "toks" :: rest =>
    let (tokWords, progPart) := splitAt "prog" rest
    match progPart with
    | none => none
    | some pw => do
      let toks ← tokWords.mapM parseTok
      let tbl ← pw.mapM parseProgEntry
      let p := progOf tbl
      -- the model with the duplicate diagnostics and the token-level recoveries (Model/ParseCBRec.lean); names and codes compared
      -- after ASCII case folding
      let (logS, rcS, cif) := parseCBR p lowerAscii true toks
      let (logN, rcN, _) := parseCBR p lowerAscii false toks
      let isErr : Ev → Bool := fun e => match e with | .keyword (0 :: _) => true | _ => false
      let isRec : Ev → Bool := fun e => match e with
        | .keyword (0 :: code :: _) => !(code == Gen.ErrCodes.CIF_DUP_ITEMNAME || code == Gen.ErrCodes.CIF_DUP_BLOCKCODE
            || code == Gen.ErrCodes.CIF_DUP_FRAMECODE)
        | _ => false
      -- cross-check 1: without a recovery diagnostic it must be the model with the duplicate diagnostics only
      let (logSD, rcSD, cifD) := parseCBD p lowerAscii true toks
      let (logND, rcND, _) := parseCBD p lowerAscii false toks
      let sameSD := logS.any isRec || (showRun logS rcS ++ CifArg.showCanonCif cif == showRun logSD rcSD ++ CifArg.showCanonCif cifD)
      let sameND := logN.any isRec || (showRun logN rcN == showRun logND rcND)
      -- cross-check 2: without any diagnostic it must be the model the C15 theorems are about
      let (logS0, rcS0, cif0) := parseCB p true toks
      let (logN0, rcN0, _) := parseCB p false toks
      let sameS := logS.any isErr || (showRun logS rcS ++ CifArg.showCanonCif cif == showRun logS0 rcS0 ++ CifArg.showCanonCif cif0)
      let sameN := logN.any isErr || (showRun logN rcN == showRun logN0 rcN0)
      if !(sameS && sameN && sameSD && sameND) then pure "pc MODELS-DIFFER"
      else pure ("pc S " ++ showRun logS rcS ++ " cif=" ++ CifArg.showCanonCif cif ++ " N " ++ showRun logN rcN)
  | _ => none

end Driver.Fam.Pcb
