import Driver.Fam.Store
/- family `iter` (C06): the same request language and the same model entry point as family `store`; the generator
   (tools/gen/iter.py) enumerates iterator call sequences exhaustively and its oracle states C06. -/
namespace Driver.Fam.Iter
def name : String := "iter"
def handle : Driver.Handler := Driver.Fam.Store.handle
end Driver.Fam.Iter
