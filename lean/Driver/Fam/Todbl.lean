import Driver.Fam.Numb
import CifModel.Model.NumbLimbs
/- family `todbl` (C10): `todbl <hex digit string> <scale>` ↦ `td <dbl>` — the file-static to_double() -/
namespace Driver.Fam.Todbl
open Driver CifModel CifModel.Model.Numb

def name : String := "todbl"

def handle : Handler
  | [ds, sc] => do
      let chars ← unhex ds
      let scale ← sc.toInt?
      if chars.all isDigit then
        -- both levels of the model must agree: the exact-arithmetic level and the base-10^9 limb level
        let big := toDoubleBig (digitVals chars) scale
        match CifModel.Model.NumbLimbs.toDoubleLimbs (digitVals chars) scale with
        | some l => if l = big then pure ("td " ++ Driver.Fam.Numb.showDbl big)
                    else pure ("td LIMB-LEVEL " ++ Driver.Fam.Numb.showDbl l ++ " BIG-LEVEL " ++ Driver.Fam.Numb.showDbl big)
        | none => pure ("td LIMB-LEVEL array-overrun BIG-LEVEL " ++ Driver.Fam.Numb.showDbl big)
      else none
  | _ => none

end Driver.Fam.Todbl
