import Driver.Fam.Numb
/- family `todbl` (C10): `todbl <hex digit string> <scale>` ↦ `td <dbl>` — the file-static to_double() -/
namespace Driver.Fam.Todbl
open Driver CifModel CifModel.Model.Numb

def name : String := "todbl"

def handle : Handler
  | [ds, sc] => do
      let chars ← unhex ds
      let scale ← sc.toInt?
      if chars.all isDigit then pure ("td " ++ Driver.Fam.Numb.showDbl (toDoubleBig (digitVals chars) scale)) else none
  | _ => none

end Driver.Fam.Todbl
