import Driver.Proto
import CifModel.Model.Ladder
/-
  family `ladder` (C17): allocation/free pattern of three library functions under one failed allocation.
    ladder dup <n> <k>                      dup_ustrings on n strings, k-th allocation fails (0 = none)
    ladder clone <shape…> <k>               cif_value_clone of a value of the given shape into a fresh target
    ladder insert <full 0|1> <shape…> <k>   cif_value_insert_element_at, array full or not
    ladder set <shape…> <k>                 cif_value_set_element_at: clone into the existing element object
    ladder names <n> <k>                    cif_loop_get_names on a stored loop with n item names (the code as it is:
                                            getNamesPinned)
  shape tokens: S (unknown/na) | C (char) | M0 | M1 (number without / with su) | [ shape* ]
  answer: `ld rc=<code> allocs=<n> fails=<ids> frees=<sorted ids> live=<sorted ids>` — order-insensitive on purpose:
  the order in which a clean-up ladder releases blocks is not constrained by any property.
-/
namespace Driver.Fam.Ladder
open Driver CifModel.Model.Ladder

def name : String := "ladder"

mutual
  def parseShape : Nat → List String → Option (Shape × List String)
    | 0, _ => none
    | fuel + 1, t :: rest =>
      if t == "S" then some (.scalar, rest)
      else if t == "C" then some (.chr, rest)
      else if t == "M0" then some (.numb false, rest)
      else if t == "M1" then some (.numb true, rest)
      else if t == "[" then (parseShapes fuel rest).map (fun (es, r) => (.lst es, r))
      else none
    | _ + 1, [] => none
  def parseShapes : Nat → List String → Option (List Shape × List String)
    | 0, _ => none
    | fuel + 1, toks =>
      match toks with
      | [] => none
      | t :: rest =>
        if t == "]" then some ([], rest) else
        match parseShape fuel toks with
        | none => none
        | some (sh, r) => (parseShapes fuel r).map (fun (es, r') => (sh :: es, r'))
end

def isort (l : List Nat) : List Nat := l.foldr ins []
where ins (x : Nat) : List Nat → List Nat
  | [] => [x]
  | y :: ys => if x ≤ y then x :: y :: ys else y :: ins x ys

def showIds (l : List Nat) : String := if l.isEmpty then "-" else ",".intercalate ((isort l).map toString)

def summary (rc : Nat) (evs : List Ev) : String :=
  let allocs := evs.filterMap (fun e => match e with | .alloc i => some i | _ => none)
  let fails := evs.filterMap (fun e => match e with | .fail i => some i | _ => none)
  let frees := evs.filterMap (fun e => match e with | .free i => some i | _ => none)
  let live := allocs.filter (fun i => !frees.contains i)
  s!"ld rc={if rc == OK then "0" else "E"} allocs={allocs.length} fails={showIds fails} frees={showIds frees} live={showIds live}"

def handle : Handler
  | ["dup", n, k] => do
      let n ← n.toNat?; let k ← k.toNat?
      let (rc, _, st) := dupUstrings k n
      pure (summary rc st.evs)
  | ["names", n, k] => do                      -- the code as repaired by /repo commit 0850ab1
      let n ← n.toNat?; let k ← k.toNat?
      let (rc, _, st) := getNames k n
      pure (summary rc st.evs)
  | ["namespinned", n, k] => do                -- the pinned behaviour (node leak), kept for the counterexample theorem
      let n ← n.toNat?; let k ← k.toNat?
      let (rc, _, st) := getNamesPinned k n
      pure (summary rc st.evs)
  | "clone" :: rest => do
      let (sh, r) ← parseShape (rest.length + 1) rest
      match r with
      | [k] => do
          let k ← k.toNat?
          let (o, st) := clone k sh
          pure (summary (if o.isSome then OK else MEMORY_ERROR) st.evs)
      | _ => none
  | "insert" :: full :: rest => do
      let full ← parseBool full
      let (sh, r) ← parseShape (rest.length + 1) rest
      match r with
      | [k] => do
          let k ← k.toNat?
          let (rc, _, st) := insertElement k full sh
          pure (summary rc st.evs)
      | _ => none
  | "set" :: rest => do
      let (sh, r) ← parseShape (rest.length + 1) rest
      match r with
      | [k] => do
          let k ← k.toNat?
          let (rc, _, st) := setElement k sh
          pure (summary rc st.evs)
      | _ => none
  | _ => none

end Driver.Fam.Ladder
