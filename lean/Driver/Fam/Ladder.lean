import Driver.Proto
import CifModel.Model.Ladder
/-
  family `ladder` (C17): allocation/free pattern of three library functions under one failed allocation.
    ladder dup <n> <k>                      dup_ustrings on n strings, k-th allocation fails (0 = none)
    ladder clone <shape…> <k>               cif_value_clone of a value of the given shape into a fresh target
    ladder insert <full 0|1> <shape…> <k>   cif_value_insert_element_at, array full or not
    ladder set <tshape…> <shape…> <k>       cif_value_set_element_at: replace an element of shape <tshape> (built before the
                                            window) by a clone of a value of shape <shape>
    ladder packet <flags|-> <k>             cif_packet_create, one name per flag character: n = already normalised,
                                            r = respelled (original spelling kept in a copy); the code as it is
    ladder copychar <tshape…> <k>           cif_value_copy_char onto a value of shape <tshape> (built before the window)
    ladder deser [ <shape…> ] <k>           cif_value_deserialize of the blob of a list value (shapes without M0/M1)
    ladder names <n> <k>                    cif_loop_get_names on a stored loop with n item names (the code as it is:
                                            getNamesPinned)
  shape tokens: S (unknown/na) | C (char) | M0 | M1 (number without / with su) | [ shape* ]
  answer: `ld rc=<code> allocs=<n> fails=<ids> frees=<sorted ids> live=<sorted ids> pfrees=<n>` (pfrees = number of
  releases of blocks that existed before the call) — order-insensitive on purpose:
  the order in which a clean-up ladder releases blocks is not constrained by any property.
-/
namespace Driver.Fam.Ladder
open Driver CifModel.Model.Ladder

def name : String := "ladder"

mutual
  def parseShape : Nat → List String → Option (Shape × List String)
    | 0, _ => none
    | fuel + 1, t :: rest =>
      if t == "S" then some (.scalar, rest)
      else if t == "C" then some (.chr, rest)
      else if t == "M0" then some (.numb false, rest)
      else if t == "M1" then some (.numb true, rest)
      else if t == "[" then (parseShapes fuel rest).map (fun (es, r) => (.lst es, r))
      else none
    | _ + 1, [] => none
  def parseShapes : Nat → List String → Option (List Shape × List String)
    | 0, _ => none
    | fuel + 1, toks =>
      match toks with
      | [] => none
      | t :: rest =>
        if t == "]" then some ([], rest) else
        match parseShape fuel toks with
        | none => none
        | some (sh, r) => (parseShapes fuel r).map (fun (es, r') => (sh :: es, r'))
end

mutual
  def toD : Shape → Option DShape
    | .scalar => some .scalar
    | .chr => some .chr
    | .numb _ => none
    | .lst es => (toDs es).map .lst
  def toDs : List Shape → Option (List DShape)
    | [] => some []
    | e :: es =>
      match toD e, toDs es with
      | some a, some b => some (a :: b)
      | _, _ => none
end

def isort (l : List Nat) : List Nat := l.foldr ins []
where ins (x : Nat) : List Nat → List Nat
  | [] => [x]
  | y :: ys => if x ≤ y then x :: y :: ys else y :: ins x ys

def showIds (l : List Nat) : String := if l.isEmpty then "-" else ",".intercalate ((isort l).map toString)

/-- summary of the events of the window; ids are renumbered relative to `base` (= number of requests made before the
    window); releases of blocks obtained before the window are only counted (`pfrees`) -/
def summaryW (rc : Nat) (base : Nat) (evs : List Ev) : String :=
  let allocs := evs.filterMap (fun e => match e with | .alloc i => some (i - base) | _ => none)
  let fails := evs.filterMap (fun e => match e with | .fail i => some (i - base) | _ => none)
  let frees := evs.filterMap (fun e => match e with | .free i => if i > base then some (i - base) else none | _ => none)
  let pfrees := (evs.filter (fun e => match e with | .free i => i ≤ base | _ => false)).length
  let live := allocs.filter (fun i => !frees.contains i)
  s!"ld rc={if rc == OK then "0" else if rc == UNDEFINED then "U" else "E"} allocs={allocs.length} fails={showIds fails} frees={showIds frees} live={showIds live} pfrees={pfrees}"

def summary (rc : Nat) (evs : List Ev) : String := summaryW rc 0 evs

/-- `-` = no names; otherwise one character per name: n = already normalised, r = respelled -/
def parseFlags (fl : String) : Option (List Bool) :=
  if fl == "-" then some [] else
  fl.toList.mapM (fun c => if c == 'n' then some false else if c == 'r' then some true else none)

def handle : Handler
  | ["dup", n, k] => do
      let n ← n.toNat?; let k ← k.toNat?
      let (rc, _, st) := dupUstrings k n
      pure (summary rc st.evs)
  | ["names", n, k] => do                      -- the code as repaired by /repo commit 0850ab1
      let n ← n.toNat?; let k ← k.toNat?
      let (rc, _, st) := getNames k n
      pure (summary rc st.evs)
  | ["namespinned", n, k] => do                -- the pinned behaviour (node leak), kept for the counterexample theorem
      let n ← n.toNat?; let k ← k.toNat?
      let (rc, _, st) := getNamesPinned k n
      pure (summary rc st.evs)
  | "clone" :: rest => do
      let (sh, r) ← parseShape (rest.length + 1) rest
      match r with
      | [k] => do
          let k ← k.toNat?
          let (o, st) := clone k sh
          pure (summary (if o.isSome then OK else MEMORY_ERROR) st.evs)
      | _ => none
  | "insert" :: full :: rest => do
      let full ← parseBool full
      let (sh, r) ← parseShape (rest.length + 1) rest
      match r with
      | [k] => do
          let k ← k.toNat?
          let (rc, _, st) := insertElement k full sh
          pure (summary rc st.evs)
      | _ => none
  | ["packet", fl, k] => do                    -- the code as repaired by /repo commit 07fe35a
      let k ← k.toNat?
      let flags ← parseFlags fl
      let (rc, _, st) := packetCreate k flags
      pure (summary rc st.evs)
  | ["packetpinned", fl, k] => do              -- the pinned behaviour (rc=U: undefined behaviour when uthash's table request fails)
      let k ← k.toNat?
      let flags ← parseFlags fl
      let (rc, _, st) := packetCreatePinned k flags
      pure (summary rc st.evs)
  | "copychar" :: rest => do
      let (tsh, r) ← parseShape (rest.length + 1) rest
      match r with
      | [k] => do
          let k ← k.toNat?
          match clone 0 tsh with
          | (none, _) => none
          | (some old, s0) =>
            let (rc, _, st) := copyChar (if k = 0 then 0 else s0.count + k) old s0
            pure (summaryW rc s0.count (st.evs.drop s0.evs.length))
      | _ => none
  | "deser" :: rest => do                       -- top level must be a list; no numbers
      let (sh, r) ← parseShape (rest.length + 1) rest
      match sh, r with
      | .lst es, [k] => do
          let k ← k.toNat?
          let ds ← toDs es
          let (rc, _, st) := deserialize k ds
          pure (summary rc st.evs)
      | _, _ => none
  | "set" :: rest => do
      -- the target element is built first (fault-free clone of <tshape> from the empty state); the window starts after it
      let (tsh, r0) ← parseShape (rest.length + 1) rest
      let (sh, r) ← parseShape (r0.length + 1) r0
      match r with
      | [k] => do
          let k ← k.toNat?
          match clone 0 tsh with
          | (none, _) => none
          | (some old, s0) =>
            let (rc, _, st) := setElement (if k = 0 then 0 else s0.count + k) old sh s0
            pure (summaryW rc s0.count (st.evs.drop s0.evs.length))
      | _ => none
  | _ => none

end Driver.Fam.Ladder
