import Driver.Proto
import CifModel.Model.Ladder
import CifModel.Model.LadderMap
import CifModel.Model.LadderTree
import CifModel.Model.LadderIter
import CifModel.Model.LadderHeader
/-
  family `ladder` (C17): allocation/free pattern of three library functions under one failed allocation.
    ladder dup <n> <k>                      dup_ustrings on n strings, k-th allocation fails (0 = none)
    ladder clone <shape…> <k>               cif_value_clone of a value of the given shape into a fresh target
    ladder insert <full 0|1> <shape…> <k>   cif_value_insert_element_at, array full or not
    ladder set <tshape…> <shape…> <k>       cif_value_set_element_at: replace an element of shape <tshape> (built before the
                                            window) by a clone of a value of shape <shape>
    ladder packet <flags|-> <k>             cif_packet_create, one name per flag character: n = already normalised,
                                            r = respelled (original spelling kept in a copy); the code as it is
    ladder copychar <tshape…> <k>           cif_value_copy_char onto a value of shape <tshape> (built before the window)
    ladder deser [ <shape…> ] <k>           cif_value_deserialize of the blob of a list value (shapes without M0/M1)
    ladder mapset <T|P> <n> <key>*n <key> <shape…|~> <k>   cif_value_set_item_by_key / cif_packet_set_item on a map that
                                            holds the n keys (each with the value 'hi'), built before the window
    ladder mapdel <T|P> <n> <key>*n <key> <keep 0|1> <k>   cif_value_remove_item_by_key / cif_packet_remove_item
    ladder tclone T <n> <key>*n <shape…> <k>  cif_value_clone of a table whose n entries all have a value of <shape>
                                            <key> = <orig-hex>[:<norm-hex>]; answers carry ` items=<n>` (entries afterwards)
    ladder deser { <key-hex> <shape> … } <k>  cif_value_deserialize of the blob of a table value (entry values without tables)
    ladder namesnorm <n> <k>                cif_loop_get_names_internal(normalize = 1) on a stored loop with n item names
    ladder vclone <vshape…> <k>             cif_value_clone of ANY value (Model/LadderTree `cloneV`): tables at any depth
    ladder vdeser <vshape…> <k>             cif_value_deserialize of the blob of ANY list / table value (`deserV`)
                                            vshape tokens: S | C | M0 | M1 | [ vshape* ] | { (<key-hex> vshape)* }
    ladder getpackets <n> <name-hex>*n <k>  cif_loop_get_packets on a stored loop with the n (normalised) item names and one packet
    ladder nextpacket <keep 0|1> <n> (<name-hex> <vshape…>)*n <k>   cif_pktitr_next_packet: the loop's only packet has the given
                                            values; keep = 1: handed to the caller (*packet == NULL), 0: dropped (packet == NULL)
    ladder loophdr <n> <k>                  parse_loop (syntax-only) on a header of n distinct names and a refused repetition of the first
    ladder allloops <flags> <k>             cif_container_get_all_loops on a block with one loop per flag character (c = with category, n = without)
    ladder names <n> <k>                    cif_loop_get_names on a stored loop with n item names (the code as it is:
                                            getNamesPinned)
  shape tokens: S (unknown/na) | C (char) | M0 | M1 (number without / with su) | [ shape* ]
  answer: `ld rc=<code> allocs=<n> fails=<ids> frees=<sorted ids> live=<sorted ids> pfrees=<n>` (pfrees = number of
  releases of blocks that existed before the call) — order-insensitive on purpose:
  the order in which a clean-up ladder releases blocks is not constrained by any property.
-/
namespace Driver.Fam.Ladder
open Driver CifModel.Model.Ladder

def name : String := "ladder"

mutual
  def parseShape : Nat → List String → Option (Shape × List String)
    | 0, _ => none
    | fuel + 1, t :: rest =>
      if t == "S" then some (.scalar, rest)
      else if t == "C" then some (.chr, rest)
      else if t == "M0" then some (.numb false, rest)
      else if t == "M1" then some (.numb true, rest)
      else if t == "[" then (parseShapes fuel rest).map (fun (es, r) => (.lst es, r))
      else none
    | _ + 1, [] => none
  def parseShapes : Nat → List String → Option (List Shape × List String)
    | 0, _ => none
    | fuel + 1, toks =>
      match toks with
      | [] => none
      | t :: rest =>
        if t == "]" then some ([], rest) else
        match parseShape fuel toks with
        | none => none
        | some (sh, r) => (parseShapes fuel r).map (fun (es, r') => (sh :: es, r'))
end

mutual
  def toD : Shape → Option DShape
    | .scalar => some .scalar
    | .chr => some .chr
    | .numb b => some (.numb b)
    | .lst es => (toDs es).map .lst
  def toDs : List Shape → Option (List DShape)
    | [] => some []
    | e :: es =>
      match toD e, toDs es with
      | some a, some b => some (a :: b)
      | _, _ => none
end

mutual
  /-- value trees: as `parseShape`, plus tables `{ <key-hex> <vshape> … }` at any depth -/
  def parseV : Nat → List String → Option (VShape × List String)
    | 0, _ => none
    | fuel + 1, t :: rest =>
      if t == "S" then some (.scalar, rest)
      else if t == "C" then some (.chr, rest)
      else if t == "M0" then some (.numb false, rest)
      else if t == "M1" then some (.numb true, rest)
      else if t == "[" then (parseVs fuel rest).map (fun (es, r) => (.lst es, r))
      else if t == "{" then (parseVEntries fuel rest).map (fun (es, r) => (.tbl es, r))
      else none
    | _ + 1, [] => none
  def parseVs : Nat → List String → Option (List VShape × List String)
    | 0, _ => none
    | fuel + 1, toks =>
      match toks with
      | [] => none
      | t :: rest =>
        if t == "]" then some ([], rest) else
        match parseV fuel toks with
        | none => none
        | some (sh, r) => (parseVs fuel r).map (fun (es, r') => (sh :: es, r'))
  def parseVEntries : Nat → List String → Option (List (List Nat × VShape) × List String)
    | 0, _ => none
    | fuel + 1, toks =>
      match toks with
      | [] => none
      | t :: rest =>
        if t == "}" then some ([], rest) else
        match unhex t with
        | none => none
        | some key =>
          match parseV fuel rest with
          | none => none
          | some (sh, r) => (parseVEntries fuel r).map (fun (es, r') => ((key, sh) :: es, r'))
end

def isort (l : List Nat) : List Nat := l.foldr ins []
where ins (x : Nat) : List Nat → List Nat
  | [] => [x]
  | y :: ys => if x ≤ y then x :: y :: ys else y :: ins x ys

def showIds (l : List Nat) : String := if l.isEmpty then "-" else ",".intercalate ((isort l).map toString)

/-- summary of the events of the window; ids are renumbered relative to `base` (= number of requests made before the
    window); releases of blocks obtained before the window are only counted (`pfrees`) -/
def summaryW (rc : Nat) (base : Nat) (evs : List Ev) : String :=
  let allocs := evs.filterMap (fun e => match e with | .alloc i => some (i - base) | _ => none)
  let fails := evs.filterMap (fun e => match e with | .fail i => some (i - base) | _ => none)
  let frees := evs.filterMap (fun e => match e with | .free i => if i > base then some (i - base) else none | _ => none)
  let pfrees := (evs.filter (fun e => match e with | .free i => i ≤ base | _ => false)).length
  let live := allocs.filter (fun i => !frees.contains i)
  s!"ld rc={if rc == OK then "0" else if rc == UNDEFINED then "U" else if rc == MEMORY_ERROR || rc == ERROR then "E" else toString rc} allocs={allocs.length} fails={showIds fails} frees={showIds frees} live={showIds live} pfrees={pfrees}"

def summary (rc : Nat) (evs : List Ev) : String := summaryW rc 0 evs

/-- `-` = no names; otherwise one character per name: n = already normalised, r = respelled -/
def parseFlags (fl : String) : Option (List Bool) :=
  if fl == "-" then some [] else
  fl.toList.mapM (fun c => if c == 'n' then some false else if c == 'r' then some true else none)

/-- `<orig-hex>[:<norm-hex>]` ↦ (original spelling, normalised key) -/
def parseKey (t : String) : Option (List Nat × List Nat) :=
  match t.splitOn ":" with
  | [a] => do let k ← unhex a; pure (k, k)
  | [a, b] => do let k ← unhex a; let n ← unhex b; pure (k, n)
  | _ => none

/-- the map that exists before the window: built from the empty state by the model's own (fault-free) cif_map_set_item,
    every entry with a value of shape `sh` -/
def buildMap (kind : MapKind) (sh : Shape) : List (List Nat × List Nat) → MapSt → St → Option (MapSt × St)
  | [], m, s => some (m, s)
  | (k, n) :: rest, m, s =>
    let (r, s') := mapSet true 0 kind m k n (some sh) s
    if r.rc == OK then buildMap kind sh rest r.map s' else none

def parseKind (t : String) : Option MapKind := if t == "T" then some .table else if t == "P" then some .packet else none

/-- rc=U: the map is left corrupt (undefined behaviour on its next use) -/
def mapSummary (r : MapRes) (base : Nat) (evs : List Ev) : String :=
  if r.corrupt then summaryW UNDEFINED base evs else summaryW r.rc base evs ++ s!" items={r.map.entries.length}"

def handleMap (fixed : Bool) (op : String) (kindT : String) (nT : String) (rest : List String) : Option String := do
  let kind ← parseKind kindT
  let n ← nT.toNat?
  if rest.length < n + 2 then none
  let keys ← (rest.take n).mapM parseKey
  let rest := rest.drop n
  match op with
  | "mapset" =>
    match rest with
    | keyT :: more => do
      let (k, kn) ← parseKey keyT
      let (val, r) ← (if more.head? == some "~" then some (none, more.drop 1)
                      else (parseShape (more.length + 1) more).map (fun (sh, r) => (some sh, r)))
      match r with
      | [kT] => do
        let f ← kT.toNat?
        let (m0, s0) ← buildMap kind .chr keys {} {}
        let (res, st) := mapSet fixed (if f = 0 then 0 else s0.count + f) kind m0 k kn val s0
        pure (mapSummary res s0.count (st.evs.drop s0.evs.length))
      | _ => none
    | _ => none
  | "mapdel" =>
    match rest with
    | [keyT, keepT, kT] => do
      let (_, kn) ← parseKey keyT
      let keep ← parseBool keepT
      let f ← kT.toNat?
      let (m0, s0) ← buildMap kind .chr keys {} {}
      let (res, st) := mapRemove (if f = 0 then 0 else s0.count + f) kind m0 kn keep s0
      pure (mapSummary res s0.count (st.evs.drop s0.evs.length))
    | _ => none
  | "tclone" => do
    let (sh, r) ← parseShape (rest.length + 1) rest
    match r with
    | [kT] => do
      let f ← kT.toNat?
      -- the source table is not part of the window at all: only its entries' keys and shapes matter
      let (res, _, st) := cloneTable fixed f (keys.map (fun (k, kn) => { keyStr := kn, origStr := k, shape := sh }))
      pure (mapSummary res 0 st.evs)
    | _ => none
  | _ => none

/-- `<key-hex> <shape> … }` -/
def parseBlobEntries : Nat → List String → Option (List BlobEntry × List String)
  | 0, _ => none
  | _ + 1, [] => none
  | fuel + 1, t :: rest =>
    if t == "}" then some ([], rest) else do
      let k ← unhex t
      let (sh, r) ← parseShape (rest.length + 1) rest
      let d ← toD sh
      let (es, r') ← parseBlobEntries fuel r
      pure ({ keyStr := k, shape := d } :: es, r')

def handle : Handler
  | ["dup", n, k] => do
      let n ← n.toNat?; let k ← k.toNat?
      let (rc, _, st) := dupUstrings k n
      pure (summary rc st.evs)
  | ["names", n, k] => do                      -- the code as repaired by /repo commit 0850ab1
      let n ← n.toNat?; let k ← k.toNat?
      let (rc, _, st) := getNames k n
      pure (summary rc st.evs)
  | ["namespinned", n, k] => do                -- the pinned behaviour (node leak), kept for the counterexample theorem
      let n ← n.toNat?; let k ← k.toNat?
      let (rc, _, st) := getNamesPinned k n
      pure (summary rc st.evs)
  | "clone" :: rest => do
      let (sh, r) ← parseShape (rest.length + 1) rest
      match r with
      | [k] => do
          let k ← k.toNat?
          let (o, st) := clone k sh
          pure (summary (if o.isSome then OK else MEMORY_ERROR) st.evs)
      | _ => none
  | "vclone" :: rest => do                      -- any value tree (Model/LadderTree)
      let (sh, r) ← parseV (rest.length + 1) rest
      match r with
      | [k] => do
          let k ← k.toNat?
          let (o, st) := cloneV k sh
          pure (summary (if o.isSome then OK else MEMORY_ERROR) st.evs)
      | _ => none
  | "vdeser" :: rest => do                      -- the blob of any list / table value
      let (sh, r) ← parseV (rest.length + 1) rest
      match r with
      | [k] => do
          let k ← k.toNat?
          let b ← (match sh with | .lst es => some (VBlob.lst es) | .tbl es => some (VBlob.tbl es) | _ => none)
          let (rc, _, st) := deserV k b
          pure (summary rc st.evs ++ s!" code={rc}")
      | _ => none
  | ["loophdr", n, k] => do
      let n ← n.toNat?; let k ← k.toNat?
      if n = 0 then none
      let (rc, st) := loopHeaderAbort k n
      pure (summary rc st.evs)
  | ["allloops", fl, k] => do
      let k ← k.toNat?
      let cats ← fl.toList.mapM (fun c => if c == 'c' then some true else if c == 'n' then some false else none)
      let (rc, _, st) := getAllLoops k cats
      pure (summary rc st.evs)
  | "getpackets" :: nT :: rest => do
      let n ← nT.toNat?
      if rest.length ≠ n + 1 then none
      let names ← (rest.take n).mapM unhex
      let k ← (rest.drop n).head?.bind String.toNat?
      let (rc, _, st) := getPackets k (names.map (fun nm => hashJen (keyBytes nm)))
      pure (summary rc st.evs)
  | "nextpacket" :: keepT :: nT :: rest => do
      let keep ← parseBool keepT
      let n ← nT.toNat?
      let rec items (fuel : Nat) (toks : List String) (acc : List (Nat × ItemVal)) : Option (List (Nat × ItemVal) × List String) :=
        match fuel with
        | 0 => some (acc.reverse, toks)
        | fuel + 1 =>
          match toks with
          | [] => none
          | t :: r => do
            let nm ← unhex t
            let (sh, r') ← parseV (r.length + 1) r
            let iv : ItemVal := match sh with
              | .scalar => .unk | .chr => .chr | .numb b => .numb b | .lst es => .blob (.lst es) | .tbl es => .blob (.tbl es)
            items fuel r' ((hashJen (keyBytes nm), iv) :: acc)
      let (its, r) ← items n rest []
      match r with
      | [kT] => do
          let k ← kT.toNat?
          let (rc, _, st) := nextPacket k keep its
          pure (summary rc st.evs)
      | _ => none
  | "insert" :: full :: rest => do
      let full ← parseBool full
      let (sh, r) ← parseShape (rest.length + 1) rest
      match r with
      | [k] => do
          let k ← k.toNat?
          let (rc, _, st) := insertElement k full sh
          pure (summary rc st.evs)
      | _ => none
  | ["packet", fl, k] => do                    -- the code as repaired by /repo commit 07fe35a
      let k ← k.toNat?
      let flags ← parseFlags fl
      let (rc, _, st) := packetCreate k flags
      pure (summary rc st.evs)
  | ["packetpinned", fl, k] => do              -- the pinned behaviour (rc=U: undefined behaviour when uthash's table request fails)
      let k ← k.toNat?
      let flags ← parseFlags fl
      let (rc, _, st) := packetCreatePinned k flags
      pure (summary rc st.evs)
  | "copychar" :: rest => do
      let (tsh, r) ← parseShape (rest.length + 1) rest
      match r with
      | [k] => do
          let k ← k.toNat?
          match clone 0 tsh with
          | (none, _) => none
          | (some old, s0) =>
            let (rc, _, st) := copyChar (if k = 0 then 0 else s0.count + k) old s0
            pure (summaryW rc s0.count (st.evs.drop s0.evs.length))
      | _ => none
  | "deser" :: "{" :: rest => do                -- the blob of a table: { <key-hex> <shape> … } <k>
      let (es, r) ← parseBlobEntries (rest.length + 1) rest
      match r with
      | [k] => do
          let k ← k.toNat?
          let (rc, _, st) := deserTable k es
          pure (summary rc st.evs ++ s!" code={rc}")
      | _ => none
  | "deser" :: rest => do                       -- the blob of a list
      let (sh, r) ← parseShape (rest.length + 1) rest
      match sh, r with
      | .lst es, [k] => do
          let k ← k.toNat?
          let ds ← toDs es
          let (rc, _, st) := deserialize k ds
          pure (summary rc st.evs ++ s!" code={rc}")
      | _, _ => none
  | ["namesnorm", n, k] => do                  -- cif_loop_get_names_internal with normalisation
      let n ← n.toNat?; let k ← k.toNat?
      let (rc, _, st) := getNamesNorm k n
      pure (summary rc st.evs)
  | "mapset" :: kind :: n :: rest => handleMap true "mapset" kind n rest        -- the code as repaired by /repo commit 7285a53
  | "mapsetpinned" :: kind :: n :: rest => handleMap false "mapset" kind n rest -- the pinned behaviour (C17_cex_map_set_corrupt)
  | "mapsetfixed" :: kind :: n :: rest => handleMap true "mapset" kind n rest
  | "mapdel" :: kind :: n :: rest => handleMap true "mapdel" kind n rest
  | "tclone" :: kind :: n :: rest => handleMap true "tclone" kind n rest        -- repaired by /repo commit 7285a53
  | "tclonepinned" :: kind :: n :: rest => handleMap false "tclone" kind n rest
  | "tclonefixed" :: kind :: n :: rest => handleMap true "tclone" kind n rest
  | "set" :: rest => do
      -- the target element is built first (fault-free clone of <tshape> from the empty state); the window starts after it
      let (tsh, r0) ← parseShape (rest.length + 1) rest
      let (sh, r) ← parseShape (r0.length + 1) r0
      match r with
      | [k] => do
          let k ← k.toNat?
          match clone 0 tsh with
          | (none, _) => none
          | (some old, s0) =>
            let (rc, _, st) := setElement (if k = 0 then 0 else s0.count + k) old sh s0
            pure (summaryW rc s0.count (st.evs.drop s0.evs.length))
      | _ => none
  | _ => none

end Driver.Fam.Ladder
