import Driver.Fam.Numb
/- family `todig` (C10): `todig <dbl> <scale>` ↦ `tg <hex digit string> rnd=0` — the file-static to_digits() -/
namespace Driver.Fam.Todig
open Driver CifModel CifModel.Model.Numb

def name : String := "todig"

def handle : Handler
  | [d, sc] => do
      let v ← Driver.Fam.Numb.parseBin d
      let scale ← sc.toInt?
      if -scale < LEAST_DBL_10_DIGIT ∨ -scale > DBL_MAX_10_EXP then none
      else pure s!"tg {Driver.Fam.Numb.hexDigits (toDigitsBig v.m v.e scale)} rnd=0"
  | _ => none

end Driver.Fam.Todig
