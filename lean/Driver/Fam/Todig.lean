import Driver.Fam.Numb
import CifModel.Model.NumbLimbs
/- family `todig` (C10): `todig <dbl> <scale>` ↦ `tg <hex digit string> rnd=0` — the file-static to_digits() -/
namespace Driver.Fam.Todig
open Driver CifModel CifModel.Model.Numb

def name : String := "todig"

def handle : Handler
  | [d, sc] => do
      let v ← Driver.Fam.Numb.parseBin d
      let scale ← sc.toInt?
      if -scale < LEAST_DBL_10_DIGIT ∨ -scale > DBL_MAX_10_EXP then none
      else
        let big := toDigitsBig v.m v.e scale
        match CifModel.Model.NumbLimbs.toDigitsLimbs v.m v.e scale with
        | some l => if l = big then pure s!"tg {Driver.Fam.Numb.hexDigits big} rnd=0"
                    else pure s!"tg LIMB-LEVEL {Driver.Fam.Numb.hexDigits l} BIG-LEVEL {Driver.Fam.Numb.hexDigits big}"
        | none => pure s!"tg LIMB-LEVEL array-overrun BIG-LEVEL {Driver.Fam.Numb.hexDigits big}"
  | _ => none

end Driver.Fam.Todig
