import Driver.Fam.Val
import CifModel.Model.Heap
import CifModel.Model.HeapClone
import CifModel.Model.HeapHist
/-
  family `valheap` (properties C19 / C16): the same operation sequences as family `val`, executed on the HEAP model
  (Model/Heap.lean) by the heap interpretation of the history op language, `CifModel.Model.Hist.traceH` (Model/HeapHist.lean) —
  the function the theorems `C19_history_heap` / `C19_history_release` are about.  Every request op is translated to one
  `HOp` (`Driver.Fam.Val.parseOp`, shared with family val).  The answer is, per operation, the change in the number of live
  heap blocks the model predicts — live cells of the model heap plus two blocks (uthash's table and bucket array) for every
  non-empty map — and, at the end, the number of blocks still live after every slot has been released (`Hist.releaseAll`: 0).
  The executor reports the same numbers from the allocation tracker of harness/alloc.h, so the model's malloc/free protocol
  is tied to the C call by call.

    valheap <ops as in family val>   ↦   vh <delta>:<n>:<sum> … # end=<live blocks after releasing every slot>
  `<n>` = number of live string blocks (texts, digit strings, su digit strings, keys, original spellings) after the
  operation, `<sum>` = sum mod 2^64 of the FNV-1a hashes of their contents: the executor's dump hook computes the same from the
  real blocks, so the CONTENTS of the string blocks are compared as a multiset after every operation.
  (an operation that does not resolve — the executor skips it — leaves the state as it is and counts 0.)
-/
namespace Driver.Fam.Valheap
open Driver CifModel CifModel.Model.Heap
open Driver.Fam.Val (parseOp splitOps)
open CifModel.Model.Hist (HState traceH releaseAll)

/-- live blocks: model cells + 2 per non-empty uthash map -/
def total (h : Heap) : Nat :=
  (List.range h.next).foldl (fun n a =>
    match h.cell a with
    | none => n
    | some c =>
      n + 1 + (match c with
        | .val (.tbl (_ :: _)) => 2
        | .entry (.tbl (_ :: _)) _ _ => 2
        | .pkt (_ :: _) _ => 2
        | _ => 0)) 0

/-- FNV-1a over the units of a string block (what the executor's dump hook computes over the block's contents) -/
def fnv (s : Str) : UInt64 :=
  s.foldl (fun h u => (h ^^^ u.toUInt64) * 1099511628211) 14695981039346656037

/-- summary of the contents of the live string blocks: how many, and the sum (mod 2^64) of their hashes -/
def strSummary (h : Heap) : Nat × UInt64 :=
  (List.range h.next).foldl (fun (acc : Nat × UInt64) a =>
    match h.cell a with
    | some (.str s) => (acc.1 + 1, acc.2 + fnv s)
    | _ => acc) (0, 0)

def hex16 (x : UInt64) : String :=
  let ds := (Nat.toDigits 16 x.toNat)
  String.mk (List.replicate (16 - ds.length) '0' ++ ds)

def summaryStr (h : Heap) : String :=
  let (n, s) := strSummary h
  ":" ++ toString n ++ ":" ++ hex16 s

def run (ops : List (List String)) : String :=
  let hops := ops.map parseOp
  let states := traceH hops HState.empty
  let (out, last) := states.foldl (fun (acc : List String × HState) st' =>
      let d : Int := (total st'.h : Int) - (total acc.2.h : Int)
      ((toString d ++ summaryStr st'.h) :: acc.1, st')) (([] : List String), HState.empty)
  let fin := match releaseAll last with
    | some h => toString (total h)
    | none => "fault"
  "vh " ++ " ".intercalate out.reverse ++ " # end=" ++ fin

def name : String := "valheap"

def handle : Handler := fun args => some (run (splitOps args))

end Driver.Fam.Valheap
