import Driver.Fam.Val
import CifModel.Model.Heap
import CifModel.Model.HeapClone
/-
  family `valheap` (properties C19 / C16): the same operation sequences as family `val`, executed on the HEAP model
  (Model/Heap.lean).  The answer is, per operation, the change in the number of live heap blocks the model predicts —
  live cells of the model heap plus two blocks (uthash's table and bucket array) for every non-empty map — and, at the
  end, the number of blocks still live after every slot has been released (0).  The executor reports the same numbers
  from the allocation tracker of harness/alloc.h, so the model's malloc/free protocol is tied to the C call by call.

    valheap <ops as in family val>   ↦   vh <delta>:<n>:<sum> … # end=<live blocks after releasing every slot>
  `<n>` = number of live string blocks (texts, digit strings, su digit strings, keys, original spellings) after the
  operation, `<sum>` = sum mod 2^64 of the FNV-1a hashes of their contents: the executor's dump hook computes the same from the
  real blocks, so the CONTENTS of the string blocks are compared as a multiset after every operation.
  (an operation that does not resolve — the executor skips it — counts 0.)
-/
namespace Driver.Fam.Valheap
open Driver CifModel CifModel.Model.Heap
open Driver.Fam.Val (Root Ref parseRef parseKey parseSlot parseSrc splitOps)
open CifModel.Model.Value (Step)

structure St where
  h : Heap
  vals : List (Option Nat)        -- address of the object a value slot holds (a `val` block, or a detached `entry`)
  pkts : List (Option Nat)        -- address of the packet block

def St.init : St := { h := Heap.empty, vals := List.replicate 8 none, pkts := List.replicate 4 none }

/-- the same heap with its cell map tabulated (the model heap is a function; every alloc / free / write wraps it once more,
    so the driver flattens it after each operation to keep look-ups cheap) -/
def compact (h : Heap) : Heap :=
  let arr : Array (Option Cell) := (Array.range h.next).map h.cell
  { cell := fun a => if hlt : a < arr.size then arr[a] else none, next := h.next }

/-- live blocks: model cells + 2 per non-empty uthash map -/
def total (h : Heap) : Nat :=
  (List.range h.next).foldl (fun n a =>
    match h.cell a with
    | none => n
    | some c =>
      n + 1 + (match c with
        | .val (.tbl (_ :: _)) => 2
        | .entry (.tbl (_ :: _)) _ _ => 2
        | .pkt (_ :: _) _ => 2
        | _ => 0)) 0

/-- FNV-1a over the units of a string block (what the executor's dump hook computes over the block's contents) -/
def fnv (s : Str) : UInt64 :=
  s.foldl (fun h u => (h ^^^ u.toUInt64) * 1099511628211) 14695981039346656037

/-- summary of the contents of the live string blocks: how many, and the sum (mod 2^64) of their hashes -/
def strSummary (h : Heap) : Nat × UInt64 :=
  (List.range h.next).foldl (fun (acc : Nat × UInt64) a =>
    match h.cell a with
    | some (.str s) => (acc.1 + 1, acc.2 + fnv s)
    | _ => acc) (0, 0)

def hex16 (x : UInt64) : String :=
  let ds := (Nat.toDigits 16 x.toNat)
  String.mk (List.replicate (16 - ds.length) '0' ++ ds)

def summaryStr (h : Heap) : String :=
  let (n, s) := strSummary h
  ":" ++ toString n ++ ":" ++ hex16 s

def getHV (h : Heap) (a : Nat) : Option HVal :=
  match h.cell a with
  | some (.val hv) => some hv
  | some (.entry hv _ _) => some hv
  | _ => none

def putHV (h : Heap) (a : Nat) (hv : HVal) : Option Heap :=
  match h.cell a with
  | some (.val _) => write h a (.val hv)
  | some (.entry _ k ko) => write h a (.entry hv k ko)
  | _ => none

def strOf (h : Heap) (a : Nat) : Option Str :=
  match h.cell a with
  | some (.str s) => some s
  | _ => none

mutual
  /-- the pure value an object represents (reads the heap; fuel bounds the depth) -/
  def absHV : Nat → Heap → HVal → Option V
    | 0, _, _ => none
    | _ + 1, _, .unk => some .unk
    | _ + 1, _, .na => some .na
    | _ + 1, h, .chr q a => (strOf h a).map (fun t => .chr q t)
    | _ + 1, h, .numb q neg sc a b su => do
        let t ← strOf h a
        let d ← strOf h b
        let s ← match su with
          | none => some none
          | some c => (strOf h c).map some
        pure (.numb q t neg d s sc)
    | _ + 1, _, .lst none _ => some (.lst [])
    | fuel + 1, h, .lst (some arr) _ =>
        match h.cell arr with
        | some (.arr xs _) => (absElems fuel h xs).map V.lst
        | _ => none
    | fuel + 1, h, .tbl ents => (absEntries fuel h ents).map V.tbl
  def absElems : Nat → Heap → List Nat → Option (List V)
    | 0, _, _ => none
    | _ + 1, _, [] => some []
    | fuel + 1, h, x :: xs => do
        let hv ← getHV h x
        let v ← absHV fuel h hv
        let vs ← absElems fuel h xs
        pure (v :: vs)
  def absEntries : Nat → Heap → List Nat → Option (List (Str × Str × V))
    | 0, _, _ => none
    | _ + 1, _, [] => some []
    | fuel + 1, h, e :: es =>
        match h.cell e with
        | some (.entry hv k ko) => do
            let ks ← strOf h k
            let kos ← strOf h ko
            let v ← absHV fuel h hv
            let rest ← absEntries fuel h es
            pure ((ks, kos, v) :: rest)
        | _ => none
end

def FUEL : Nat := 100000

def absAt (h : Heap) (a : Nat) : Option V := (getHV h a).bind (absHV FUEL h)

/-- address of the object a reference designates -/
def stepH (h : Heap) (a : Nat) (s : Step) : Option Nat :=
  match getHV h a, s with
  | some (.lst (some arr) _), .idx i =>
    match h.cell arr with
    | some (.arr xs _) => xs[i]?
    | _ => none
  | some (.tbl ents), .key nk => (findEntry h ents nk).bind id
  | _, _ => none

def resolveFrom (h : Heap) : Nat → List Step → Option Nat
  | a, [] => some a
  | a, s :: p => (stepH h a s).bind (fun b => resolveFrom h b p)

def resolveRef (st : St) (r : Ref) : Option Nat :=
  match r.root with
  | .val k => (st.vals.getD k none).bind (fun a => resolveFrom st.h a r.path)
  | .pkt k =>
    match st.pkts.getD k none, r.path with
    | some p, .key nk :: rest =>
      match st.h.cell p with
      | some (.pkt ents _) => ((findEntry st.h ents nk).bind id).bind (fun e => resolveFrom st.h e rest)
      | _ => none
    | _, _ => none

/-- cif_value_create -/
def createVal (h : Heap) (kind : Nat) : Option (Nat × Heap) :=
  if kind = 2 then some (alloc h (.val (.lst none 0)))
  else if kind = 3 then some (alloc h (.val (.tbl [])))
  else (CifModel.Model.Value.defaultOf kind).map (buildNew h)

/-- the fields cif_value_init gives an existing object (after cleaning it) -/
def initFields (h : Heap) (kind : Nat) : Option (HVal × Heap) :=
  if kind = 2 then some (.lst none 0, h)
  else if kind = 3 then some (.tbl [], h)
  else (CifModel.Model.Value.defaultOf kind).map (buildVal h)

/-- the entries of the map held at object `a` (a table value) -/
def tableEnts (h : Heap) (a : Nat) : Option (List Nat) :=
  match getHV h a with
  | some (.tbl ents) => some ents
  | _ => none

/-- build_value of harness/cifio.h: through the API — lists by successive inserts, tables by successive sets -/
partial def apiBuild (h : Heap) (v : V) : Option (Nat × Heap) :=
  match v with
  | .lst vs => do
      let (a, h1) := alloc h (.val (.lst none 0))
      let mut g := h1
      let mut n := 0
      for x in vs do
        let hv ← getHV g a
        let (hv', g') ← listInsertH g hv n (some x)
        g ← (putHV g' a hv').map compact
        n := n + 1
      pure (a, g)
  | .tbl es => do
      let (a, h1) := alloc h (.val (.tbl []))
      let mut g := h1
      for (k, ko, x) in es do
        let ents ← tableEnts g a
        let (ents', g') ← mapSetItemH FUEL g ents k ko (some x)
        g ← (putHV g' a (.tbl ents')).map compact
      pure (a, g)
  | _ => some (buildNew h v)

/-- release whatever a value slot holds: a free-standing object, or an entry handed out by a remove -/
def freeObj (h : Heap) (a : Nat) : Option Heap :=
  match h.cell a with
  | some (.val _) => freeVal FUEL h a
  | some (.entry _ _ _) => freeDetached FUEL h a
  | _ => none

/-- cif_value_clone(src, &dst) onto the existing object at `t` (fields inline in a `val` or `entry` block): the scratch copy
    is made by READING the source object at `sa` (`cloneNewH`), then clean, move, release the scratch object -/
def cloneOntoAt (h : Heap) (t : Nat) (sa : Nat) : Option Heap := do
  let (c, h1) ← cloneNewH FUEL h sa
  let new ← getHV h1 c
  let old ← getHV h1 t
  let h2 ← cleanVal FUEL h1 old
  let h3 ← putHV h2 t new
  free h3 c

def cleanAt (h : Heap) (t : Nat) : Option Heap := do
  let old ← getHV h t
  let h1 ← cleanVal FUEL h old
  putHV h1 t .unk

/-- the entries and owner of the map a reference designates: a table value object, or a packet -/
inductive MapAt | tbl (a : Nat) (ents : List Nat) | pkt (p : Nat) (ents : List Nat) | notMap

def mapAt (st : St) (r : Ref) : Option MapAt :=
  match r.root, r.path with
  | .pkt k, [] =>
    match st.pkts.getD k none with
    | some p =>
      match st.h.cell p with
      | some (.pkt ents _) => some (.pkt p ents)
      | _ => none
    | none => none
  | _, _ =>
    match resolveRef st r with
    | none => none
    | some a =>
      match getHV st.h a with
      | some (.tbl ents) => some (.tbl a ents)
      | some _ => some .notMap
      | none => none

def putEnts (h : Heap) (m : MapAt) (ents : List Nat) : Option Heap :=
  match m with
  | .tbl a _ => putHV h a (.tbl ents)
  | .pkt p _ =>
    match h.cell p with
    | some (.pkt _ sa) => write h p (.pkt ents sa)
    | _ => none
  | .notMap => none

def setSlot (st : St) (k : Nat) (a : Option Nat) : St := { st with vals := st.vals.set k a }

/-- one operation on the heap model; `none` = does not resolve -/
def step (st : St) (op : List String) : Option St :=
  match op with
  | ["new", s, k] => do
      let r ← parseSlot s; let kind ← k.toNat?
      match r with
      | .val i =>
        if (st.vals.getD i none).isSome then none
        else match createVal st.h kind with
          | some (a, h') => pure { (setSlot st i (some a)) with h := h' }
          | none => pure st
      | _ => none
  | "bld" :: s :: toks => do
      let r ← parseSlot s
      match r, CifArg.parseValue (Ser.cfg) (toks.length + 1) toks with
      | .val i, some (v, []) =>
        if (st.vals.getD i none).isSome then none
        else do
          let (a, h') ← apiBuild st.h v
          pure { (setSlot st i (some a)) with h := h' }
      | _, _ => none
  | ["free", s] => do
      let r ← parseSlot s
      match r with
      | .val i => do
          let a ← st.vals.getD i none
          let h' ← freeObj st.h a
          pure { (setSlot st i none) with h := h' }
      | _ => none
  | ["cln", a, b] => do
      let src ← parseRef a; let dst ← parseRef b
      let sa ← resolveRef st src
      match dst.root, dst.path with
      | .val i, [] =>
        match st.vals.getD i none with
        | none => do
          let (c, h') ← cloneNewH FUEL st.h sa
          pure { (setSlot st i (some c)) with h := h' }
        | some t => if t = sa then pure st else do
            let h' ← cloneOntoAt st.h t sa
            pure { st with h := h' }
      | _, _ => do
          let t ← resolveRef st dst
          if t = sa then pure st else do
            let h' ← cloneOntoAt st.h t sa
            pure { st with h := h' }
  | ["init", a, k] => do
      let r ← parseRef a; let kind ← k.toNat?; let t ← resolveRef st r
      if kind = 1 then do
        -- cif_value_init_numb builds the number first and cleans the object afterwards
        let (hv, h1) := buildVal st.h (.numb false [48] false [0] none 0)
        let old ← getHV h1 t
        let h2 ← cleanVal FUEL h1 old
        let h3 ← putHV h2 t hv
        pure { st with h := h3 }
      else do
        let h1 ← cleanAt st.h t
        match initFields h1 kind with
        | some (hv, h2) => do let h3 ← putHV h2 t hv; pure { st with h := h3 }
        | none => pure { st with h := h1 }
  | ["ichr", a, hx] => do
      let r ← parseRef a; let txt ← unhex hx; let t ← resolveRef st r
      let (ta, h1) := alloc st.h (.str txt)
      let old ← getHV h1 t
      let h2 ← cleanVal FUEL h1 old
      let h3 ← putHV h2 t (.chr true ta)
      pure { st with h := h3 }
  | ["cchr", a, hx] => do
      let r ← parseRef a; let txt ← unhexOpt hx; let t ← resolveRef st r
      match txt with
      | none => pure st
      | some s => do
        let (ta, h1) := alloc st.h (.str s)
        let old ← getHV h1 t
        let h2 ← cleanVal FUEL h1 old
        let h3 ← putHV h2 t (.chr true ta)
        pure { st with h := h3 }
  | ["kind", a] => do let r ← parseRef a; let _ ← resolveRef st r; pure st
  | ["text", a] => do let r ← parseRef a; let _ ← resolveRef st r; pure st
  | ["cnt", a] => do let r ← parseRef a; let _ ← resolveRef st r; pure st
  | ["lget", a, _] => do let r ← parseRef a; let _ ← resolveRef st r; pure st
  | ["tkeys", a] => do let r ← parseRef a; let _ ← resolveRef st r; pure st
  | ["lset", a, i, s] => do
      let r ← parseRef a; let idx ← i.toNat?; let src ← parseSrc s; let la ← resolveRef st r
      match getHV st.h la with
      | some (.lst elems size) =>
        if idx ≥ size then
          match src with
          | none => pure st
          | some sr => do let _ ← resolveRef st sr; pure st
        else do
          let t ← stepH st.h la (.idx idx)
          let _ := elems
          match src with
          | none => do let h' ← cleanAt st.h t; pure { st with h := h' }
          | some sr => do
            let sa ← resolveRef st sr
            if sa = t then pure st else do
              let h' ← cloneOntoAt st.h t sa
              pure { st with h := h' }
      | some _ =>
        match src with
        | none => pure st
        | some sr => do let _ ← resolveRef st sr; pure st
      | none => none
  | ["lins", a, i, s] => do
      let r ← parseRef a; let idx ← i.toNat?; let src ← parseSrc s; let la ← resolveRef st r
      let x : Option Nat ← match src with
        | none => some none
        | some sr => do let sa ← resolveRef st sr; pure (some sa)
      match getHV st.h la with
      | some (.lst elems size) =>
        if idx > size then pure st
        else do
          let (hv', h1) ← listInsertAddrH FUEL st.h (.lst elems size) idx x
          let h2 ← putHV h1 la hv'
          pure { st with h := h2 }
      | some _ => pure st
      | none => none
  | ["lrem", a, i, d] => do
      let r ← parseRef a; let idx ← i.toNat?; let la ← resolveRef st r
      match getHV st.h la with
      | some (.lst elems size) =>
        if idx ≥ size then pure st
        else do
          let toCaller := d != "~"
          let (hv', x, h1) ← listRemoveH FUEL st.h (.lst elems size) idx toCaller
          let h2 ← putHV h1 la hv'
          if toCaller then
            match parseSlot d, x with
            | some (.val k), some xa =>
              if (st.vals.getD k none).isSome then none else pure { (setSlot st k (some xa)) with h := h2 }
            | _, _ => none
          else pure { st with h := h2 }
      | some _ => pure st
      | none => none
  | ["tget", a, k] => do let r ← parseRef a; let _ ← parseKey k; let _ ← resolveRef st r; pure st
  | ["pget", p, k] => do let r ← parseSlot p; let _ ← parseKey k; let _ ← mapAt st { root := r, path := [] }; pure st
  | ["pnames", p] => do let r ← parseSlot p; let _ ← mapAt st { root := r, path := [] }; pure st
  | "pnew" :: p :: n :: names => do
      let r ← parseSlot p; let cnt ← n.toNat?
      if names.length != cnt then none
      let keys ← names.mapM parseKey
      match r with
      | .pkt i =>
        if (st.pkts.getD i none).isSome then none
        else if keys.any (fun k => k.2.isNone) then pure st
        else do
          let (res, h') ← packetCreateH st.h (keys.map (fun k => (k.1, k.2.getD [])))
          match res with
          | none => pure { st with h := h' }
          | some (pa, _) => pure { st with h := h', pkts := st.pkts.set i (some pa) }
      | _ => none
  | [opn, a, k, s] =>
    if opn == "tset" || opn == "pset" then do
      let r ← if opn == "pset" then (parseSlot a).map (fun rt => ({ root := rt, path := [] } : Ref)) else parseRef a
      let key ← parseKey k; let src ← parseSrc s
      let m ← mapAt st r
      let srcAddr : Option Nat ← match src with
        | none => some none
        | some sr => (resolveRef st sr).map some
      match m with
      | .notMap => pure st
      | _ =>
        let ents := match m with | .tbl _ e => e | .pkt _ e => e | .notMap => []
        match key.2 with
        | none => pure st
        | some nk =>
          match (findEntry st.h ents nk) with
          | none => none
          | some (some e) =>
            -- existing entry: spelling first, then the value unless it is the very object
            if srcAddr = some e then do
              let (kn, h0) := alloc st.h (.str nk)
              let h1 ← entryRespell false h0 e key.1
              let h2 ← free h1 kn
              pure { st with h := h2 }
            else
              -- the C's order: new spelling, then cif_value_clone(src, &entry value) — scratch copy read from the source
              -- first (it may lie inside the entry), clean, move — resp. clean + unknown for NULL; normalised key released.
              -- For a source outside the map this is `mapSetItemAddrH` (= `mapSetItemH` on the value represented:
              -- mapSetItemAddrH_eq), which the driver uses when it succeeds.
              match mapSetItemAddrH FUEL FUEL st.h ents nk key.1 srcAddr with
              | some (ents', h1) => do
                let h2 ← putEnts h1 m ents'
                pure { st with h := h2 }
              | none => do
                let (kn, h0) := alloc st.h (.str nk)
                let h1 ← entryRespell false h0 e key.1
                let h2 ← match srcAddr with
                  | none => entrySetValue FUEL h1 e none
                  | some sa => cloneOntoAt h1 e sa
                let h3 ← free h2 kn
                pure { st with h := h3 }
          | some none => do
              let (ents', h1) ← mapSetItemAddrH FUEL FUEL st.h ents nk key.1 srcAddr
              let h2 ← putEnts h1 m ents'
              pure { st with h := h2 }
    else if opn == "trem" || opn == "prem" then do
      let r ← if opn == "prem" then (parseSlot a).map (fun rt => ({ root := rt, path := [] } : Ref)) else parseRef a
      let key ← parseKey k
      let m ← mapAt st r
      match m with
      | .notMap => pure st
      | _ =>
        let ents := match m with | .tbl _ e => e | .pkt _ e => e | .notMap => []
        match key.2 with
        | none => pure st
        | some nk => do
          let (res, h1) ← mapRemoveItemH st.h ents nk
          match res with
          | none => pure { st with h := h1 }
          | some (e, ents') => do
            let h2 ← putEnts h1 m ents'
            if s == "~" then do
              let h3 ← freeDetached FUEL h2 e
              pure { st with h := h3 }
            else match parseSlot s with
              | some (.val kslot) =>
                if (st.vals.getD kslot none).isSome then none else pure { (setSlot st kslot (some e)) with h := h2 }
              | _ => none
    else none
  | ["pfree", p] => do
      let r ← parseSlot p
      match r with
      | .pkt i => do
          let pa ← st.pkts.getD i none
          let h' ← packetFreeH FUEL st.h pa
          pure { st with h := h', pkts := st.pkts.set i none }
      | _ => none
  | _ => none

def releaseAll (st : St) : Option Heap := do
  let mut h := st.h
  for a in st.vals.filterMap id do
    h ← freeObj h a
  for p in st.pkts.filterMap id do
    h ← packetFreeH FUEL h p
  pure h

def run (ops : List (List String)) : String := Id.run do
  let mut st := St.init
  let mut out : List String := []
  for op in ops do
    match step st op with
    | none => out := ("0" ++ summaryStr st.h) :: out
    | some st1 =>
      let st' := { st1 with h := compact st1.h }
      let d : Int := (total st'.h : Int) - (total st.h : Int)
      out := (toString d ++ summaryStr st'.h) :: out
      st := st'
  let fin := match releaseAll st with
    | some h => toString (total h)
    | none => "fault"
  "vh " ++ " ".intercalate out.reverse ++ " # end=" ++ fin

def name : String := "valheap"

def handle : Handler := fun args => some (run (splitOps args))

end Driver.Fam.Valheap
