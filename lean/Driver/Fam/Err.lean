import Driver.Proto
import CifModel.Model.ErrList
/- family `err`: `err <code>` ↦ `er <hex message | ~>` ;  `err nerr` ↦ `er n=<cif_nerr>` -/
namespace Driver.Fam.Err
open Driver CifModel

def name : String := "err"

def handle : Handler
  | ["nerr"] => some s!"er n={Gen.ErrCodes.nerr}"
  | [c] => do
      let n ← c.toNat?
      pure ("er " ++ hexOpt (Model.ErrList.message n))
  | _ => none

end Driver.Fam.Err
