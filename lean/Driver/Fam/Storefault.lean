import Driver.Fam.Store
/- family `storefault` (C17, store part): the `store` request language with fault markers (see Driver/Fam/Store.lean `Mark`) -/
namespace Driver.Fam.Storefault
def name : String := "storefault"
def handle : Driver.Handler := Driver.Fam.Store.handle
end Driver.Fam.Storefault
