import Driver.Proto
import CifModel.Model.Numb
/- family `numb` (C10): cif_value_parse_numb and the char→numb coercion of cif_value_get_number / cif_value_get_su.
     numb p <hextext>          ↦ nb rc=72 unchanged=1 | nb rc=0 neg= digits= scale= su= q= text= val= suv=
     numb c <q> <hextext>
   Also the helpers shared by the other C10 families (doubles on the wire as `<sign><mantissa>:<exponent>`). -/
namespace Driver.Fam.Numb
open Driver CifModel CifModel.Model.Numb

def name : String := "numb"

def showDbl : Dbl → String
  | .fin n m e => (if n then "-" else "+") ++ toString m ++ ":" ++ toString e
  | .inf n => if n then "-inf" else "+inf"
  | .nan => "nan"

/-- `<sign><m>:<e>` ↦ a finite double argument -/
def parseBin (s : String) : Option Bin :=
  match s.toList with
  | c :: rest =>
    if c ≠ '+' ∧ c ≠ '-' then none else
    match (String.ofList rest).splitOn ":" with
    | [ms, es] => do
        let m ← ms.toNat?
        let e ← es.toInt?
        pure { neg := c == '-', m := m, e := e }
    | _ => none
  | [] => none

def hexDigits (ds : List Nat) : String := hex (digitChars ds)

def showFields (neg : Bool) (digits : List Nat) (su : Option (List Nat)) (scale : Int) : String :=
  s!"neg={boolStr neg} digits={hexDigits digits} scale={scale} su={hexOpt (su.map digitChars)}"

def showNumb (rc : Nat) (w : V) : Option String :=
  match w with
  | .numb q t neg digits su scale =>
    match getNumber w, getSu w with
    | .ok (_, d), .ok (_, s) =>
      some s!"nb rc={rc} {showFields neg digits su scale} q={boolStr q} text={hex t} val={showDbl d} suv={showDbl s}"
    | _, _ => none
  | _ => none

def handle : Handler
  | ["p", t] => do
      let text ← unhex t
      match parseNumb text with
      | none => pure s!"nb rc={CIF_INVALID_NUMBER} unchanged=1"
      | some f => showNumb 0 (V.numb false (cstr text) f.neg f.digits f.su f.scale)
  | ["c", q, t] => do
      let text ← unhex t
      let qb ← parseBool q
      match getNumber (V.chr qb text) with
      | .error c => pure s!"nb rc={c} unchanged=1"
      | .ok (w, _) => showNumb 0 w
  | _ => none

end Driver.Fam.Numb
