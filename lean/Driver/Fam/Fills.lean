import Driver.Proto
import CifModel.Model.Fill
import CifModel.Model.ScanBuf
/- family `fills` (C08):  `fills <mode> <dochex> <cuts> [counts=<c1,c2,…>]`  — see harness/x_fills.c.
   The `counts=` argument (the number of units every `read_func` call of the real run asked for) is appended by
   `model_request` of tools/gen/fills.py from the implementation's observation: the scan buffer's bookkeeping, which
   determines those numbers, is not modelled. -/
namespace Driver.Fam.Fills
open Driver CifModel CifModel.Model.Fill CifModel.Model.ScanBuf

def name : String := "fills"

def splitChunks (doc : Str) (sizes : List Nat) : List Str :=
  let rec go (fuel : Nat) (d : Str) (sz : List Nat) (acc : List Str) : List Str :=
    match fuel with
    | 0 => acc.reverse
    | fuel + 1 =>
      if d = [] then acc.reverse
      else match sz with
        | [] => (d :: acc).reverse
        | k :: ks => if k < d.length then go fuel (d.drop k) ks (d.take k :: acc) else (d :: acc).reverse
  go (doc.length + 1) doc sizes []

def parseNats (s : String) : Option (List Nat) :=
  (s.splitOn ",").mapM (·.toNat?)

def parseCuts (doc : Str) (spec : String) : Option (List Str) :=
  if spec == "-" then some (if doc = [] then [] else [doc])
  else if spec.startsWith "*" then do
    let k ← (String.ofList (spec.toList.drop 1)).toNat?
    if k = 0 then none else some (splitChunks doc (List.replicate (doc.length / k + 1) k))
  else do
    let ks ← parseNats spec
    if ks.any (· == 0) then none else some (splitChunks doc ks)

def parseCounts (args : List String) : Option (List Nat) :=
  match args with
  | [] => some []
  | [a] => if a.startsWith "counts=" then
             let t := String.ofList (a.toList.drop 7)
             if t == "-" then some [] else parseNats t
           else none
  | _ => none

def isWsDefault (c : Nat) : Bool := c == 32 || c == 9 || c == 10 || c == 13
def simpleDoc (d : Str) : Bool := d.all (fun c => isWsDefault c || (97 ≤ c && c ≤ 122))

/-- the counts of the reads issued by get_first_char must be the literal 1s of the model -/
def stripFirstCounts (doc : Str) (counts : List Nat) : Option (List Nat) :=
  match counts with
  | [] => some []
  | c1 :: r =>
    if c1 ≠ 1 then none
    else if doc.head? = some 13 then
      match r with
      | [] => some []
      | c2 :: r2 => if c2 ≠ 1 then none else some r2
    else some r

def checksum (l : Str) : Nat :=
  (l.foldl (fun (acc : Nat × Nat) u => (acc.1 + 1, (acc.2 + (acc.1 + 1) * u) % 1000003)) (0, 0)).2

/-- the consumer of mode `o`: drop the first a/8 of what is buffered behind text_start, tvalue_start b units further, everything scanned -/
def consume (a bv : Nat) (b : SB) : SB :=
  let ts := b.textStart + (b.limit - b.textStart) * a / 8
  { b with textStart := ts, tvalueStart := ts + min bv (b.limit - ts), next := b.limit }

/-- mode `o`: scan buffer (Model.ScanBuf) and fill functions (Model.Fill) together; one record per successful refill.
    The request size of every read is the model's own (`room` after `makeRoom`). -/
def runOffsets (a bv : Nat) : Nat → SB → FillSt → Src → List String → List String × Bool
  | 0, _, st, _, recs => (recs.reverse, st.atEof)
  | fuel + 1, b, st, src, recs =>
    let b1 := consume a bv b
    if st.atEof then (recs.reverse, true)
    else
      let b2 := makeRoom Gen.ParseConsts.bufMinFill b1
      let r := getMoreChars st b2.room src
      if r.1 = [] then (recs.reverse, r.2.1.atEof)
      else
        let b3 := append b2 r.1
        let rec_ := s!"{b3.size}:{b3.limit}:{b3.next}:{b3.textStart}:{b3.tvalueStart}:{checksum b3.tokenText}"
        runOffsets a bv fuel b3 r.2.1 r.2.2 (rec_ :: recs)

def handleOffsets (mode : String) (doc : Str) (chunks : List Str) : Option String := do
  let ds := mode.toList.drop 1
  let a ← (String.ofList (ds.take 1)).toNat?
  let bv ← (String.ofList (ds.drop 1)).toNat?
  match getFirstChar Gen.ParseConsts.firstCharFoldsSecondCR ⟨chunks⟩ with
  | none => pure "fl recs=- n=0 eof=1"
  | some r =>
    let b0 := append (SB.init Gen.ParseConsts.bufSizeInitial) r.1
    let res := runOffsets a bv (doc.length + 2) b0 r.2.1 r.2.2 []
    let recs := if res.1.isEmpty then "-" else "/".intercalate res.1
    pure s!"fl recs={recs} n={res.1.length} eof={boolStr res.2}"

def handle : Handler
  | mode :: docHex :: cuts :: more => do
      let doc ← unhex docHex
      if mode == "e" then
        pure s!"fl lines={lineCount isEolDefault doc}"
      else
        let chunks ← parseCuts doc cuts
        if mode.startsWith "o" then handleOffsets mode doc chunks else
        let counts ← parseCounts more
        let cs ← stripFirstCounts doc counts
        let r := seenBy Gen.ParseConsts.firstCharFoldsSecondCR cs ⟨chunks⟩
        let lines := lineCount isEolDefault r.1
        if mode == "d" || mode == "k" || mode == "h" then
          pure s!"fl {hex r.1} eof={boolStr (r.2.1.atEof && r.2.2.rest.isEmpty)}"
        else if mode == "p" || mode == "q" then
          let ws := if simpleDoc doc then
                      let runs := wsRuns isWsDefault r.1 [] []
                      if runs.isEmpty then "-" else "/".intercalate (runs.map hex)
                    else "?"
          pure s!"fl ws={ws} lines={lines}"
        else if mode == "P" then
          pure s!"fl lines={lines}"
        else none
  | _ => none

end Driver.Fam.Fills
