import Driver.Proto
import CifModel.Model.Fill
/- family `fills` (C08):  `fills <mode> <dochex> <cuts> [counts=<c1,c2,…>]`  — see harness/x_fills.c.
   The `counts=` argument (the number of units every `read_func` call of the real run asked for) is appended by
   `model_request` of tools/gen/fills.py from the implementation's observation: the scan buffer's bookkeeping, which
   determines those numbers, is not modelled. -/
namespace Driver.Fam.Fills
open Driver CifModel CifModel.Model.Fill

def name : String := "fills"

def splitChunks (doc : Str) (sizes : List Nat) : List Str :=
  let rec go (fuel : Nat) (d : Str) (sz : List Nat) (acc : List Str) : List Str :=
    match fuel with
    | 0 => acc.reverse
    | fuel + 1 =>
      if d = [] then acc.reverse
      else match sz with
        | [] => (d :: acc).reverse
        | k :: ks => if k < d.length then go fuel (d.drop k) ks (d.take k :: acc) else (d :: acc).reverse
  go (doc.length + 1) doc sizes []

def parseNats (s : String) : Option (List Nat) :=
  (s.splitOn ",").mapM (·.toNat?)

def parseCuts (doc : Str) (spec : String) : Option (List Str) :=
  if spec == "-" then some (if doc = [] then [] else [doc])
  else if spec.startsWith "*" then do
    let k ← (String.ofList (spec.toList.drop 1)).toNat?
    if k = 0 then none else some (splitChunks doc (List.replicate (doc.length / k + 1) k))
  else do
    let ks ← parseNats spec
    if ks.any (· == 0) then none else some (splitChunks doc ks)

def parseCounts (args : List String) : Option (List Nat) :=
  match args with
  | [] => some []
  | [a] => if a.startsWith "counts=" then
             let t := String.ofList (a.toList.drop 7)
             if t == "-" then some [] else parseNats t
           else none
  | _ => none

def isWsDefault (c : Nat) : Bool := c == 32 || c == 9 || c == 10 || c == 13
def simpleDoc (d : Str) : Bool := d.all (fun c => isWsDefault c || (97 ≤ c && c ≤ 122))

/-- the counts of the reads issued by get_first_char must be the literal 1s of the model -/
def stripFirstCounts (doc : Str) (counts : List Nat) : Option (List Nat) :=
  match counts with
  | [] => some []
  | c1 :: r =>
    if c1 ≠ 1 then none
    else if doc.head? = some 13 then
      match r with
      | [] => some []
      | c2 :: r2 => if c2 ≠ 1 then none else some r2
    else some r

def handle : Handler
  | mode :: docHex :: cuts :: more => do
      let doc ← unhex docHex
      if mode == "e" then
        pure s!"fl lines={lineCount isEolDefault doc}"
      else
        let chunks ← parseCuts doc cuts
        let counts ← parseCounts more
        let cs ← stripFirstCounts doc counts
        let r := seenBy Gen.ParseConsts.firstCharFoldsSecondCR cs ⟨chunks⟩
        let lines := lineCount isEolDefault r.1
        if mode == "d" || mode == "k" || mode == "h" then
          pure s!"fl {hex r.1} eof={boolStr (r.2.1.atEof && r.2.2.rest.isEmpty)}"
        else if mode == "p" || mode == "q" then
          let ws := if simpleDoc doc then
                      let runs := wsRuns isWsDefault r.1 [] []
                      if runs.isEmpty then "-" else "/".intercalate (runs.map hex)
                    else "?"
          pure s!"fl ws={ws} lines={lines}"
        else if mode == "P" then
          pure s!"fl lines={lines}"
        else none
  | _ => none

end Driver.Fam.Fills
