import Driver.Proto
import CifModel.Model.Dialect
/- family `dialect` (C11): `dialect <prefer> <force> <enc> <sig> <dflt> <texthex> sys8=<b> named8=<b> dec=<b>` — see
   harness/x_dialect.c.  The last three arguments are appended by `model_request` of tools/gen/dialect.py: what ICU resolves
   the system / named default converter to, and whether the converter cif_parse opened decodes the file's bytes back to the
   text (ICU's converters are not modelled). -/
namespace Driver.Fam.Dialect
open Driver CifModel CifModel.Spec.Dialect CifModel.Model.Dialect CifModel.Gen

def name : String := "dialect"

def encOf (s : String) : Option (Enc × Bool × Nat) :=   -- (signature encoding, ASCII-compatible bytes, bytes per BMP unit)
  if s == "utf8" then some (.utf8, true, 1)
  else if s == "latin1" then some (.utf8, true, 1)       -- its "signature" is the UTF-8 one
  else if s == "utf16le" then some (.utf16le, false, 2)
  else if s == "utf16be" then some (.utf16be, false, 2)
  else if s == "utf32le" then some (.utf32le, false, 4)
  else if s == "utf32be" then some (.utf32be, false, 4)
  else none

def icuName (s : String) : String :=
  if s == "utf8" then "UTF-8" else if s == "latin1" then "ISO-8859-1" else if s == "utf16le" then "UTF-16LE"
  else if s == "utf16be" then "UTF-16BE" else if s == "utf32le" then "UTF-32LE" else "UTF-32BE"

def sigName : Enc → String
  | .utf8 => "UTF-8" | .utf16le => "UTF-16LE" | .utf16be => "UTF-16BE" | .utf32le => "UTF-32LE" | .utf32be => "UTF-32BE"
  | .otherSig => "?"

def isWs (c : Nat) : Bool := c == 32 || c == 9 || c == 10 || c == 13

/-- number of bytes of the text in the file's encoding (utf8: by code unit, a surrogate counting 2) -/
def byteCount (encName : String) (per : Nat) (text : List Nat) : Nat :=
  if encName == "utf8" then (text.map (fun u => if u < 128 then 1 else if u < 2048 then 2 else if 0xD800 ≤ u ∧ u < 0xE000 then 2 else 3)).sum
  else if per == 4 then text.length * 4 - 4 * (text.filter (fun u => 0xDC00 ≤ u ∧ u < 0xE000)).length
  else text.length * per

def firstToken (t : List Nat) : List Nat := t.takeWhile (fun c => !isWs c)

def decodedMagic (t : List Nat) : Magic :=
  if t.head? = some 35 then
    let tok := firstToken t
    if tok.length = ParseConsts.magicLengthDecoded then
      if tok = ParseConsts.magic2 then .v2
      else if tok.take (ParseConsts.magicLengthDecoded - 3) = ParseConsts.magic1.take (ParseConsts.magicLengthDecoded - 3) then .other
      else .none
    else .none
  else .none

def kvArg (key : String) (args : List String) : Option String :=
  (args.find? (·.startsWith (key ++ "="))).map (fun a => String.ofList (a.toList.drop (key.length + 1)))

def handle : Handler
  | preferS :: forceS :: encS :: sigS :: dfltS :: textHex :: more => do
      let prefer ← preferS.toInt?
      let force ← parseBool forceS
      let (sigEnc, asciiCompat, per) ← encOf encS
      let sigFlag ← parseBool sigS
      let text ← unhex textHex
      -- the Unicode encodings write a leading U+FEFF as their signature
      let hasSig := sigFlag || (text.head? = some ParseConsts.ucharBom && encS != "latin1")
      let sys8 := (kvArg "sys8" more) == some "1"
      let named8 := (kvArg "named8" more) == some "1"
      let dec := (kvArg "dec" more) != some "0"
      let namedGiven := dfltS != "~"
      let nbytes := byteCount encS per text + (if sigFlag then (if per == 1 then 3 else per) else 0)
      -- an empty file, not forced: cif_parse returns before opening a converter
      if nbytes = 0 && !force then pure "dl enc=- ver=? nu8=0 wrongenc=0 bom104=0"
      else
        let total := ParseConsts.magicLengthRaw + ParseConsts.magicExtraRaw
        let raw := asciiCompat && !hasSig
        let body := if !sigFlag && text.head? = some ParseConsts.ucharBom then text.drop 1 else text
        let h : Header := {
          sig := if hasSig then some sigEnc else none
          rawShort := nbytes < total
          rawMagic2 := raw && text.take total == ParseConsts.magic2Raw
          rawNext := match text.drop total with | [] => none | c :: _ => some (if c < 128 then c else 255)
          rawMagic7 := raw && text.take ParseConsts.magicLengthRaw == ParseConsts.magic2Raw.take ParseConsts.magicLengthRaw
          decoded := decodedMagic body
          bomFirst := sigFlag || text.head? = some ParseConsts.ucharBom
          noText := body.isEmpty }
        let cfg := treeCfg namedGiven named8 sys8
        let o := select prefer force cfg h
        let s1 := stage1 prefer force cfg h
        let encStr := match o.encoding with
          | .signature e => sigName e
          | .utf8 => "UTF-8"
          | .named => if dfltS == "=" then icuName encS else dfltS
          | .system => "~"
        -- the model only knows the decoded text if the converter decodes the bytes correctly
        let known := dec || s1.2 > 0
        if h.noText && dec then pure s!"dl enc={encStr} ver=? nu8={boolStr o.notUtf8} wrongenc=0 bom104=0"
        else if known && dec then
          pure s!"dl enc={encStr} ver={o.version} nu8={boolStr o.notUtf8} wrongenc={boolStr o.wrongEncoding} bom104={boolStr o.bomDisallowed}"
        else if known then
          pure s!"dl enc={encStr} ver={o.version} nu8={boolStr o.notUtf8} wrongenc=? bom104=?"
        else pure s!"dl enc={encStr} ver=? nu8={boolStr o.notUtf8} wrongenc=? bom104=?"
  | _ => none

end Driver.Fam.Dialect
