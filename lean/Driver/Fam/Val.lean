import Driver.Fam.Ser
import CifModel.Model.Value
import CifModel.Model.HeapHist
/-
  family `val` (property C19): one request = one sequence of value / list / table / packet operations on a pool of
  8 value slots (`s0`…`s7`) and 4 packet slots (`p0`…`p3`); ops are separated by `|` tokens.

  references   s<k>[/<step>…]  |  p<k>/<keystep>[/<step>…]      step = <index> | k<orig hex>=<norm hex or !>
  keys         <orig hex>=<normalised hex | !>        (`!` = the normaliser rejects the key / name)

    new <slot> <kind>            cif_value_create                     bld <slot> <value tokens>    build through the API
    free <slot>                  cif_value_free                       cln <src ref> <dst ref>      cif_value_clone
    init <ref> <kind>            cif_value_init                       ichr <ref> <hex>  cchr <ref> <hex|~>
    kind <ref>   text <ref>   cnt <ref>
    lget <ref> <i>    lset <ref> <i> <src ref|~>    lins <ref> <i> <src ref|~>    lrem <ref> <i> <dst slot|~>
    tget <ref> <key>  tset <ref> <key> <src ref|~>  trem <ref> <key> <dst slot|~>  tkeys <ref>
    pnew <p> <n> <key>{n}   pget <p> <key>   pset <p> <key> <src ref|~>   prem <p> <key> <dst slot|~>   pnames <p>   pfree <p>

  answer: `vl <result> | <result> … # <s0> ; … ; <s7> ; <p0> ; … ; <p3>` — per op the return code and the dump of the
  objects it touched, at the end the dump of every slot (`_` = empty).
-/
namespace Driver.Fam.Val
open Driver CifModel CifModel.Model.Value
open Driver.Fam.Ser (showV numbOf)
open CifModel.Model.Hist (Root Ref HOp PState stepP)

structure St where
  vals : List (Option V)
  pkts : List (Option V)          -- a packet is held as `.tbl entries`
deriving Inhabited

def St.init : St := { vals := List.replicate 8 none, pkts := List.replicate 4 none }

/- `Root` / `Ref` are those of Model/HeapHist.lean (the op language of the history theorems) -/

def getRoot (st : St) : Root → Option V
  | .val k => (st.vals.getD k none)
  | .pkt k => (st.pkts.getD k none)

def setRoot (st : St) (r : Root) (v : Option V) : St :=
  match r with
  | .val k => { st with vals := st.vals.set k v }
  | .pkt k => { st with pkts := st.pkts.set k v }

/-- `<orig>=<norm|!>` -/
def parseKey (t : String) : Option (Str × Option Str) :=
  match t.splitOn "=" with
  | [o, n] => do
      let orig ← unhex o
      if n == "!" then pure (orig, none) else do
        let nk ← unhex n
        pure (orig, some nk)
  | _ => none

def parseStep (t : String) : Option Step :=
  match t.toList with
  | 'k' :: rest =>
    match parseKey (String.ofList rest) with
    | some (_, some nk) => some (.key nk)
    | _ => none
  | _ => t.toNat?.map Step.idx

def parseSlot (t : String) : Option Root :=
  match t.toList with
  | 's' :: rest => (String.ofList rest).toNat?.bind (fun k => if k < 8 then some (Root.val k) else none)
  | 'p' :: rest => (String.ofList rest).toNat?.bind (fun k => if k < 4 then some (Root.pkt k) else none)
  | _ => none

def parseRef (t : String) : Option Ref :=
  match t.splitOn "/" with
  | [] => none
  | r :: steps => do
      let root ← parseSlot r
      let path ← steps.mapM parseStep
      pure { root := root, path := path }

def showRoot (st : St) (r : Root) : String :=
  match getRoot st r with
  | some v => showV v
  | none => "_"

def resolveRef (st : St) (r : Ref) : Option V :=
  match getRoot st r.root with
  | some v => resolve v r.path
  | none => none

/-- write `x` at the reference (the root must exist) -/
def updateRef (st : St) (r : Ref) (x : V) : Option St :=
  match getRoot st r.root with
  | some v => (update v r.path x).map (fun v' => setRoot st r.root (some v'))
  | none => none

inductive Copy where
  | done (st : St)
  | bad

/-- copy the object at `src` onto the EXISTING object at `dst`, as cif_value_clone(src, &dst) does -/
def copyOnto (st : St) (src dst : Ref) : Copy :=
  if src.root = dst.root then
    match getRoot st dst.root with
    | none => .bad
    | some root =>
      match cloneOnto root src.path dst.path with
      | some root' => .done (setRoot st dst.root (some root'))
      | none => .bad
  else
    match resolveRef st src with
    | none => .bad
    | some s =>
      match updateRef st dst s with
      | some st' => .done st'
      | none => .bad

def codeStr (c : Code) : String := toString c

def keysStr (ks : List Str) : String := String.join (ks.map (fun k => " " ++ hex k))

/-- source argument of set/insert: `~` = NULL -/
def parseSrc (t : String) : Option (Option Ref) :=
  if t == "~" then some none else (parseRef t).map some

def normOf (k : Str × Option Str) : Str → Option Str := fun _ => k.2

/-- the table (or packet) member designated by `ref/key`, as a reference -/
def memberRef (r : Ref) (s : Step) : Ref := { r with path := r.path ++ [s] }

/-- `cif_value_set_item_by_key` of Model/Value.lean on a value, with the request's normaliser -/
def tableSetFn (key : Str × Option Str) : V → Str → Option V → Except Code V := fun v k x => tableSet (normOf key) v k x

/-- `cif_packet_set_item` of Model/Value.lean (a packet is held as `.tbl es` in its slot) -/
def packetSetFn (key : Str × Option Str) : V → Str → Option V → Except Code V := fun v k x =>
  match v with
  | .tbl es => (packetSet (normOf key) es k x).map .tbl
  | _ => .error ARGUMENT_ERROR

/-- set on a map held at `r` (a table value or a packet): shared by tset and pset.  `setFn` is the entry-point model of
    Model/Value.lean (`Value.tableSet` / `Value.packetSet` with the request's normaliser): the VERDICT (which refusal code, or
    acceptance) and the result for a new entry are what that function answers; only the by-reference treatment of an existing entry
    (spelling replaced first, then the value copied onto the member object) is spelled out here. -/
def mapSetOp (st : St) (r : Ref) (key : Str × Option Str) (src : Option Ref) (setFn : V → Str → Option V → Except Code V) :
    Option (St × String) :=
  match resolveRef st r with
  | some (.tbl es) =>
    match setFn (.tbl es) key.1 none with
    | .error c => some (st, codeStr c)
    | .ok _ =>
    match key.2 with
    | none => none                      -- accepted although the request carries no normal form: not a request of this family
    | some nk =>
      match mapFind es nk with
      | none =>
        -- new entry: the value is cloned into a fresh object, then the entry is appended
        let x : Option (Option V) := match src with
          | none => some none
          | some s => (resolveRef st s).map some
        match x with
        | none => none
        | some xv =>
          match setFn (.tbl es) key.1 xv with
          | .ok v' => (updateRef st r v').map (fun st' => (st', "0"))
          | .error _ => none
      | some e =>
        -- existing entry: the spelling is replaced first, then the value (unless it is the very same object)
        match updateRef st r (.tbl (mapReplace es nk key.1 e.2.2)) with
        | none => none
        | some st1 =>
          let target := memberRef r (.key nk)
          match src with
          | none => (updateRef st1 target .unk).map (fun st' => (st', "0"))
          | some s =>
            if s = target then some (st1, "0")
            else match copyOnto st1 s target with
              | .done st' => some (st', "0")
              | .bad => none
  | some v =>
    match setFn v key.1 none with
    | .error c => some (st, codeStr c)
    | .ok _ => none
  | none => none

def mapGetOp (st : St) (r : Ref) (key : Str × Option Str) : Option String :=
  match resolveRef st r with
  | some v =>
    match tableGet (normOf key) v key.1 with
    | .ok x => some ("0 " ++ showV x)
    | .error c => some (codeStr c ++ " ~")
  | none => none

def mapRemOp (st : St) (r : Ref) (key : Str × Option Str) (dst : String) : Option (St × String) :=
  match resolveRef st r with
  | some v =>
    match tableRemove (normOf key) v key.1 with
    | .error c => some (st, codeStr c)
    | .ok (v', x) =>
      match updateRef st r v' with
      | none => none
      | some st1 =>
        if dst == "~" then some (st1, "0")
        else match parseSlot dst with
          | some (.val k) =>
            if (getRoot st1 (.val k)).isSome then none
            else some (setRoot st1 (.val k) (some x), "0 => " ++ showV x)
          | _ => none
  | none => none

/-- one operation: new state and the result text (without the trailing root dump) together with the roots to dump -/
def step (st : St) (op : List String) : Option (St × String × List Root) :=
  match op with
  | ["new", s, k] => do
      let r ← parseSlot s; let kind ← k.toNat?
      match r with
      | .val _ =>
        if (getRoot st r).isSome then none
        else match create kind with
          | .ok v => pure (setRoot st r (some v), "0", [r])
          | .error c => pure (st, codeStr c, [r])
      | _ => none
  | "bld" :: s :: toks => do
      let r ← parseSlot s
      match r, CifArg.parseValue (Ser.cfg) (toks.length + 1) toks with
      | .val _, some (v, []) => if (getRoot st r).isSome then none else pure (setRoot st r (some v), "0", [r])
      | _, _ => none
  | ["free", s] => do
      let r ← parseSlot s
      match r with
      | .val _ => if (getRoot st r).isNone then none else pure (setRoot st r none, "0", [r])
      | _ => none
  | ["cln", a, b] => do
      let src ← parseRef a; let dst ← parseRef b
      let sv ← resolveRef st src
      if dst.path.isEmpty && (getRoot st dst.root).isNone then
        match dst.root with
        | .val _ => pure (setRoot st dst.root (some (clone sv)), "0", [dst.root])
        | _ => none
      else match copyOnto st src dst with
        | .done st' => pure (st', "0", [dst.root])
        | .bad => none
  | ["init", a, k] => do
      let r ← parseRef a; let kind ← k.toNat?; let v ← resolveRef st r
      let (c, v') := Model.Value.init v kind
      let st' ← updateRef st r v'
      pure (st', codeStr c, [r.root])
  | ["ichr", a, h] => do
      let r ← parseRef a; let t ← unhex h; let v ← resolveRef st r
      let (c, v') := initChar v (some t)
      let st' ← updateRef st r v'
      pure (st', codeStr c, [r.root])
  | ["cchr", a, h] => do
      let r ← parseRef a; let t ← unhexOpt h; let v ← resolveRef st r
      let (c, v') := initChar v t
      let st' ← updateRef st r v'
      pure (st', codeStr c, [r.root])
  | ["kind", a] => do
      let r ← parseRef a; let v ← resolveRef st r
      pure (st, s!"k{kind v} q{boolStr (isQuoted v)}", [])
  | ["text", a] => do
      let r ← parseRef a; let v ← resolveRef st r
      pure (st, "0 " ++ hexOpt (getText v), [])
  | ["cnt", a] => do
      let r ← parseRef a; let v ← resolveRef st r
      match elementCount v with
      | .ok n => pure (st, s!"0 {n}", [])
      | .error c => pure (st, codeStr c, [])
  | ["lget", a, i] => do
      let r ← parseRef a; let idx ← i.toNat?; let v ← resolveRef st r
      match listGet v idx with
      | .ok x => pure (st, "0 " ++ showV x, [])
      | .error c => pure (st, codeStr c ++ " ~", [])
  | ["lset", a, i, s] => do
      let r ← parseRef a; let idx ← i.toNat?; let src ← parseSrc s; let v ← resolveRef st r
      match listSet v idx none with                  -- kind and bounds checks
      | .error c => pure (st, codeStr c, [r.root])
      | .ok cleaned =>
        let target := memberRef r (.idx idx)
        match src with
        | none => do let st' ← updateRef st r cleaned; pure (st', "0", [r.root])
        | some sr =>
          if sr = target then pure (st, "0", [r.root])
          else match copyOnto st sr target with
            | .done st' => pure (st', "0", [r.root])
            | .bad => none
  | ["lins", a, i, s] => do
      let r ← parseRef a; let idx ← i.toNat?; let src ← parseSrc s; let v ← resolveRef st r
      let x : Option V ← match src with
        | none => some none
        | some sr => (resolveRef st sr).map some
      match listInsert v idx x with
      | .error c => pure (st, codeStr c, [r.root])
      | .ok v' => do let st' ← updateRef st r v'; pure (st', "0", [r.root])
  | ["lrem", a, i, d] => do
      let r ← parseRef a; let idx ← i.toNat?; let v ← resolveRef st r
      match listRemove v idx with
      | .error c => pure (st, codeStr c, [r.root])
      | .ok (v', x) => do
        let st1 ← updateRef st r v'
        if d == "~" then pure (st1, "0", [r.root])
        else match parseSlot d with
          | some (.val k) =>
            if (getRoot st1 (.val k)).isSome then none
            else pure (setRoot st1 (.val k) (some x), "0 => " ++ showV x, [r.root])
          | _ => none
  | ["tget", a, k] => do
      let r ← parseRef a; let key ← parseKey k
      let out ← mapGetOp st r key
      pure (st, out, [])
  | ["tset", a, k, s] => do
      let r ← parseRef a; let key ← parseKey k; let src ← parseSrc s
      let (st', out) ← mapSetOp st r key src (tableSetFn key)
      pure (st', out, [r.root])
  | ["trem", a, k, d] => do
      let r ← parseRef a; let key ← parseKey k
      let (st', out) ← mapRemOp st r key d
      pure (st', out, [r.root])
  | ["tkeys", a] => do
      let r ← parseRef a; let v ← resolveRef st r
      match tableKeys v with
      | .ok ks => pure (st, "0" ++ keysStr ks, [])
      | .error c => pure (st, codeStr c, [])
  | "pnew" :: p :: n :: names => do
      let r ← parseSlot p; let cnt ← n.toNat?
      if names.length != cnt then none
      let keys ← names.mapM parseKey
      match r with
      | .pkt _ =>
        if (getRoot st r).isSome then none
        else
          -- the names travel with their normalised forms: look the normalisation up by position
          let norm : Str → Option Str := fun s => (keys.find? (fun k => k.1 == s)).bind (·.2)
          match packetCreate norm (keys.map (·.1)) with
          | .ok es => pure (setRoot st r (some (.tbl es)), "0", [r])
          | .error c => pure (st, codeStr c, [r])
      | _ => none
  | ["pget", p, k] => do
      let r ← parseSlot p; let key ← parseKey k
      match r with
      | .pkt _ => do let out ← mapGetOp st { root := r, path := [] } key; pure (st, out, [])
      | _ => none
  | ["pset", p, k, s] => do
      let r ← parseSlot p; let key ← parseKey k; let src ← parseSrc s
      match r with
      | .pkt _ => do
        let (st', out) ← mapSetOp st { root := r, path := [] } key src (packetSetFn key)
        pure (st', out, [r])
      | _ => none
  | ["prem", p, k, d] => do
      let r ← parseSlot p; let key ← parseKey k
      match r with
      | .pkt _ => do let (st', out) ← mapRemOp st { root := r, path := [] } key d; pure (st', out, [r])
      | _ => none
  | ["pnames", p] => do
      let r ← parseSlot p
      match r, getRoot st r with
      | .pkt _, some (.tbl es) => pure (st, "0" ++ keysStr (packetNames es), [])
      | _, _ => none
  | ["pfree", p] => do
      let r ← parseSlot p
      match r with
      | .pkt _ => if (getRoot st r).isNone then none else pure (setRoot st r none, "0", [r])
      | _ => none
  | _ => none

def splitOps (toks : List String) : List (List String) :=
  let rec go (cur : List String) (acc : List (List String)) : List String → List (List String)
    | [] => (cur.reverse :: acc).reverse
    | t :: ts => if t == "|" then go [] (cur.reverse :: acc) ts else go (t :: cur) acc ts
  (go [] [] toks).filter (fun o => !o.isEmpty)

/-! ### the op language of the history theorems (Model/HeapHist.lean): one request op ↦ one `HOp`

  `parseOp` is shared with family `valheap`, whose driver executes `Hist.stepC` on the result.  Here the PURE interpretation
  `Hist.stepP` is run next to the interpreter above: after every operation the two states must be equal (`!hist` in the
  answer otherwise, which the C library's answer never contains) — so `runP`, the pure side of `C19_history_heap`, is tied to
  the library through this family's per-operation dumps. -/

def parseDst (d : String) : Option (Option Nat) :=
  if d == "~" then some none
  else match parseSlot d with
    | some (.val k) => some (some k)
    | _ => none

def slotRef (t : String) : Option Ref := (parseSlot t).map (fun rt => { root := rt, path := [] })

def parseOp? (op : List String) : Option HOp :=
  match op with
  | ["new", s, k] => do
      let r ← parseSlot s; let kind ← k.toNat?
      match r with
      | .val i => pure (.new i kind)
      | _ => none
  | "bld" :: s :: toks => do
      let r ← parseSlot s
      match r, CifArg.parseValue (Ser.cfg) (toks.length + 1) toks with
      | .val i, some (v, []) => pure (.bld i v)
      | _, _ => none
  | ["free", s] => do
      let r ← parseSlot s
      match r with
      | .val i => pure (.free i)
      | _ => none
  | ["cln", a, b] => do let src ← parseRef a; let dst ← parseRef b; pure (.cln src dst)
  | ["init", a, k] => do let r ← parseRef a; let kind ← k.toNat?; pure (.init r kind)
  | ["ichr", a, h] => do let r ← parseRef a; let t ← unhex h; pure (.ichr r t)
  | ["cchr", a, h] => do
      let r ← parseRef a; let t ← unhexOpt h
      match t with
      | some s => pure (.ichr r s)
      | none => none
  | ["lget", a, i] => do let r ← parseRef a; let idx ← i.toNat?; pure (.lget r idx)
  | ["lset", a, i, s] => do let r ← parseRef a; let idx ← i.toNat?; let src ← parseSrc s; pure (.lset r idx src)
  | ["lins", a, i, s] => do let r ← parseRef a; let idx ← i.toNat?; let src ← parseSrc s; pure (.lins r idx src)
  | ["lrem", a, i, d] => do let r ← parseRef a; let idx ← i.toNat?; let dst ← parseDst d; pure (.lrem r idx dst)
  | ["tget", a, k] => do let r ← parseRef a; let key ← parseKey k; pure (.mget r key.2)
  | ["pget", p, k] => do let r ← slotRef p; let key ← parseKey k; pure (.mget r key.2)
  | ["tset", a, k, s] => do let r ← parseRef a; let key ← parseKey k; let src ← parseSrc s; pure (.mset r key.1 key.2 src)
  | ["pset", p, k, s] => do let r ← slotRef p; let key ← parseKey k; let src ← parseSrc s; pure (.mset r key.1 key.2 src)
  | ["trem", a, k, d] => do let r ← parseRef a; let key ← parseKey k; let dst ← parseDst d; pure (.mrem r key.2 dst)
  | ["prem", p, k, d] => do let r ← slotRef p; let key ← parseKey k; let dst ← parseDst d; pure (.mrem r key.2 dst)
  | "pnew" :: p :: n :: names => do
      let r ← parseSlot p; let cnt ← n.toNat?
      if names.length != cnt then none
      let keys ← names.mapM parseKey
      match r with
      | .pkt i => pure (.pnew i keys)
      | _ => none
  | ["pfree", p] => do
      let r ← parseSlot p
      match r with
      | .pkt i => pure (.pfree i)
      | _ => none
  | _ => none

def parseOp (op : List String) : HOp := (parseOp? op).getD .nop

/-- the state of this interpreter equals the state of `Hist.runP` -/
def sameState (st : St) (ps : PState) : Bool :=
  (List.range 8).all (fun k => getRoot st (.val k) == ps.get (.val k)) && (List.range 4).all (fun k => getRoot st (.pkt k) == ps.get (.pkt k))

def run (ops : List (List String)) : Option String := do
  let mut st := St.init
  let mut ps : PState := CifModel.Model.Hist.PState.empty
  let mut out : List String := []
  for op in ops do
    ps := stepP ps (parseOp op)
    match step st op with
    | none => out := (if sameState st ps then "bad" else "bad !hist") :: out
    | some (st', res, roots) =>
      st := st'
      out := (res ++ String.join (roots.map (fun r => " : " ++ showRoot st' r)) ++ (if sameState st' ps then "" else " !hist")) :: out
  let final := (List.range 8).map (fun k => showRoot st (.val k)) ++ (List.range 4).map (fun k => showRoot st (.pkt k))
  pure ("vl " ++ " | ".intercalate out.reverse ++ " # " ++ " ; ".intercalate final)

def name : String := "val"

def handle : Handler := fun args => run (splitOps args)

end Driver.Fam.Val
