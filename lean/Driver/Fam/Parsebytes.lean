import Driver.Proto
/-
  family `parsebytes` (C03, byte level): the real cif_parse on raw bytes.  Byte decoding (ICU) is not modelled: this family is
  judged by its implementation-level oracle alone (tools/gen/parsebytes.py); the model side only acknowledges the request.
-/
namespace Driver.Fam.Parsebytes
open Driver

def name : String := "parsebytes"

def handle : Handler
  | [_, _, _, _] => some "pb nomodel"
  | _ => none

end Driver.Fam.Parsebytes
