import Driver.Proto
import Driver.CifArg
import CifModel.Model.StoreStep
import CifModel.Model.StoreFault
import CifModel.Model.StoreContract
import CifModel.Spec.StoreSpec
/-
  family `store` (C04, C05) — and, through Driver/Fam/Iter.lean, family `iter` (C06): one request = one whole history.
  Request / answer formats: see harness/x_store.c (the executor of the real code); this file produces the same text from
  `CifModel.Store.step`.

  THREE-WAY comparison: beside the store model (`step`) the driver runs the documented model with object identities (`specStep`,
  Spec/StoreSpec) on the same history, from the empty world.  As long as the history keeps to the contract (`inContract`) the
  documented model's prediction — result of the call, every CIF as a canonical dump (`AState.tree`), autocommit = "no iterator open",
  liveness of every handle-table entry — is compared with the store model's; a difference is printed into the answer
  (` !spec-result[…]`, ` !spec-cif:<slot>[…]`, ` !spec-handles`) with the documented model's text, and so becomes a disagreement with
  the real code's observation (which check.py compares with the answer as a whole).  It is the executable double check of
  `C04_refines_hist`; spec = store model = real code on every compared in-contract history.
-/
namespace Driver.Fam.Store
open Driver CifModel CifModel.Store Driver.CifArg

def name : String := "store"

/-- NAME ::= <orighex>/<normhex>/<0|1> | ~ -/
def parseName (t : String) : Option (Option Name) :=
  if t == "~" then some none else
  match t.splitOn "/" with
  | [o, k, v] => do
      let orig ← unhex o; let key ← unhex k; let valid ← parseBool v
      pure (some { key := key, orig := orig, valid := valid })
  | _ => none

/-- NAME of mkblock / mkframe: `<orighex>/<normhex>/<0|1>/L` = the lenient call (cif_create_block_internal /
    cif_container_create_frame_internal with lenient = 1) -/
def parseNameL (t : String) : Option (Option Name × Bool) :=
  match t.splitOn "/" with
  | [o, k, v, "L"] => (parseName s!"{o}/{k}/{v}").map (·, true)
  | _ => (parseName t).map (·, false)

def parseNat (t : String) : Option Nat := t.toNat?

/-- VALUE | ~ -/
def parseOptValue (toks : List String) : Option (Option V × List String) :=
  match toks with
  | "~" :: rest => some (none, rest)
  | _ => (parseValue {} (toks.length + 1) toks).map (fun (v, r) => (some v, r))

/-- n (NAME VALUE){n}; the packet is a map keyed by normalised name: a repeated key overwrites in place -/
def parsePairs : Nat → List String → Option (List (Str × V) × List String)
  | 0, toks => some ([], toks)
  | n + 1, t :: rest => do
      let nm ← parseName t
      let nm ← nm
      let (v, r) ← parseOptValue rest
      let v ← v
      let (ps, r') ← parsePairs n r
      pure ((nm.key, v) :: ps, r')
  | _ + 1, [] => none

def mapPut (m : List (Str × V)) (k : Str) (v : V) : List (Str × V) :=
  if m.any (fun e => e.1 == k) then m.map (fun e => if e.1 == k then (k, v) else e) else m ++ [(k, v)]

def parsePacket (toks : List String) : Option (List (Str × V) × List String) :=
  match toks with
  | n :: rest => do
      let k ← parseNat n
      let (ps, r) ← parsePairs k rest
      pure (ps.foldl (fun m e => mapPut m e.1 e.2) [], r)
  | [] => none

def parseNames : Nat → List String → Option (List Name × List String)
  | 0, toks => some ([], toks)
  | n + 1, t :: rest => do
      let nm ← parseName t
      let nm ← nm
      let (ns, r) ← parseNames n rest
      pure (nm :: ns, r)
  | _ + 1, [] => none

/-- one op from the token list -/
def parseOp : List String → Option (Op × List String)
  | "cif+" :: r => some (.cifNew, r)
  | "cif-" :: c :: r => do pure (.cifDel (← parseNat c), r)
  | "mkblock" :: c :: n :: r => do let (nm, len) ← parseNameL n; pure (.mkBlock (← parseNat c) nm len, r)
  | "getblock" :: c :: n :: r => do let nm ← parseName n; pure (.getBlock (← parseNat c) (← nm), r)
  | "blocks" :: c :: r => do pure (.blocks (← parseNat c), r)
  | "mkframe" :: h :: n :: r => do let (nm, len) ← parseNameL n; pure (.mkFrame (← parseNat h) nm len, r)
  | "getframe" :: h :: n :: r => do pure (.getFrame (← parseNat h) (← parseName n), r)
  | "frames" :: h :: r => do pure (.frames (← parseNat h), r)
  | "cdestroy" :: h :: r => do pure (.cdestroy (← parseNat h), r)
  | "code" :: h :: r => do pure (.code (← parseNat h), r)
  | "isblock" :: h :: r => do pure (.isBlock (← parseNat h), r)
  | "mkloop" :: h :: cat :: n :: r => do
      let (ns, r') ← parseNames (← parseNat n) r
      pure (.mkLoop (← parseNat h) (← unhexOpt cat) ns, r')
  | "catloop" :: h :: cat :: r => do pure (.catLoop (← parseNat h) (← unhexOpt cat), r)
  | "itemloop" :: h :: n :: r => do pure (.itemLoop (← parseNat h) (← parseName n), r)
  | "loops" :: h :: r => do pure (.loops (← parseNat h), r)
  | "prune" :: h :: r => do pure (.prune (← parseNat h), r)
  | "getval" :: h :: n :: r => do pure (.getVal (← parseNat h) (← parseName n), r)
  | "setval" :: h :: n :: r => do
      let (v, r') ← parseOptValue r
      pure (.setVal (← parseNat h) (← parseName n) v, r')
  | "rmitem" :: h :: n :: r => do pure (.rmItem (← parseNat h) (← parseName n), r)
  | "ldestroy" :: l :: r => do pure (.ldestroy (← parseNat l), r)
  | "getcat" :: l :: r => do pure (.getCat (← parseNat l), r)
  | "setcat" :: l :: cat :: r => do pure (.setCat (← parseNat l) (← unhexOpt cat), r)
  | "names" :: l :: r => do pure (.names (← parseNat l), r)
  | "additem" :: l :: n :: r => do
      let (v, r') ← parseOptValue r
      pure (.addItem (← parseNat l) (← parseName n) v, r')
  | "addpkt" :: l :: r => do
      let (p, r') ← parsePacket r
      pure (.addPkt (← parseNat l) p, r')
  | "itopen" :: l :: r => do pure (.itOpen (← parseNat l), r)
  | "itnext" :: i :: r => do pure (.itNext (← parseNat i), r)
  | "itupd" :: i :: r => do
      let (p, r') ← parsePacket r
      pure (.itUpd (← parseNat i) p, r')
  | "itrem" :: i :: r => do pure (.itRem (← parseNat i), r)
  | "itclose" :: i :: r => do pure (.itClose (← parseNat i), r)
  | "itabort" :: i :: r => do pure (.itAbort (← parseNat i), r)
  | _ => none

/-- family `storefault`: what tools/gen/storefault.py's `model_request` writes in front of an op after looking at the
    implementation's observation — `mark:<f>`: the op ran to its normal end (the injected fault did not fire, f = 0, or was
    absorbed, f = 1); `faulted:<rc>`: the fault fired and the call returned the error code rc -/
inductive Mark where
  | plain
  | mark (f : Nat)
  | faulted (rc : Nat)

/-- `itnextp`: cif_pktitr_next_packet with a caller-supplied packet (its entries: key, spelling) and the names the harness then
    asks the packet for -/
structure Caller where
  entries : List (Str × Str)
  probes : List Name

def parseMark (t : String) : Option Mark :=
  match t.splitOn ":" with
  | ["mark", f] => f.toNat?.map Mark.mark
  | ["faulted", rc] => rc.toNat?.map Mark.faulted
  | _ => none

/-- n (NAME VALUE){n} of a caller-supplied packet: only key and spelling matter (the values are replaced) -/
def parseCallerEntries : Nat → List String → Option (List (Str × Str) × List String)
  | 0, toks => some ([], toks)
  | n + 1, t :: rest => do
      let nm ← parseName t
      let nm ← nm
      let (_, r) ← parseOptValue rest
      let (es, r') ← parseCallerEntries n r
      pure ((nm.key, nm.orig) :: es, r')
  | _ + 1, [] => none

/-- one op, possibly `itnextp I n (NAME VALUE){n} m NAME{m}` -/
def parseOpX : List String → Option (Option Caller × Op × List String)
  | "itnextp" :: i :: n :: rest => do
      let idx ← parseNat i
      let k ← parseNat n
      let (entries, r1) ← parseCallerEntries k rest
      match r1 with
      | m :: r2 => do
          let (probes, r3) ← parseNames (← parseNat m) r2
          -- the packet is a map keyed by normalised name: a repeated key keeps its first position (and takes the later spelling)
          let ents := entries.foldl (fun (acc : List (Str × Str)) e =>
            if acc.any (fun a => a.1 == e.1) then acc.map (fun a => if a.1 == e.1 then e else a) else acc ++ [e]) []
          pure (some { entries := ents, probes := probes }, Op.itNext idx, r3)
      | [] => none
  | toks => (parseOp toks).map (fun (op, r) => (none, op, r))

def parseOps : Nat → List String → Option (List (Mark × Option Caller × Op))
  | _, [] => some []
  | 0, _ => none
  | fuel + 1, t :: rest =>
    match parseMark t with
    | some m => do
        let (c, op, r) ← parseOpX rest
        let ops ← parseOps fuel r
        pure ((m, c, op) :: ops)
    | none => do
        let (c, op, r) ← parseOpX (t :: rest)
        let ops ← parseOps fuel r
        pure ((Mark.plain, c, op) :: ops)

/-- the harness appends one (dead) entry to the handle table of an op that can return a handle, also when the call failed -/
def pushDead (w : World) : Op → World
  | .mkBlock .. | .getBlock .. | .mkFrame .. | .getFrame .. => { w with chs := w.chs ++ [none] }
  | .mkLoop .. | .catLoop .. | .itemLoop .. => { w with lhs := w.lhs ++ [none] }
  | .itOpen _ => { w with its := w.its ++ [none] }
  | _ => w

-- ---- showing ---------------------------------------------------------------------------------------------------------

/-- as fdump_loop: a loop without item names cannot be asked for its names -/
def showLoopX (l : Loop) : String := if l.names.isEmpty then " L:!names" else showLoop (canonLoop l)

mutual
  def showCont (isBlock : Bool) : Container → String
    | .mk code fs ls =>
      (if isBlock then " B:" else " F:") ++ hex code
        ++ String.join (isort textLe (showConts fs))
        ++ String.join (isort textLe (ls.map showLoopX)) ++ " E"
  def showConts : List Container → List String
    | [] => []
    | c :: cs => showCont false c :: showConts cs
end

def showDump (s : Store.Store) : String := String.join (isort textLe ((abs s.db).map (showCont true)))

def showOut : Out → String
  | .unit => ""
  | .strs l => String.join ((isort strLe l).map (fun s => " " ++ hex s))
  | .str s => " " ++ hexOpt s
  | .loops l => String.join (isort textLe (l.map (fun (c, ns) =>
      " " ++ hexOpt c ++ (match ns with
        | some ns => String.join ((isort strLe ns).map (fun n => "," ++ hex n))
        | none => ",!"))))
  | .value v => " " ++ showValue v
  | .packet p => String.join ((isort (fun (a b : Str × V) => strLe a.1 b.1) p).map (fun (k, v) => " " ++ hex k ++ "=" ++ showValue v))

def showResult (op : Op) (r : Result) : String :=
  match r.rc with
  | none => " | rc=-"
  | some c =>
    let pad := match op with          -- `code` and `getcat` print "rc=<n> <text>"
      | .code _ | .getCat _ => true
      | _ => false
    " | rc=" ++ toString c ++ (if pad && c != 0 then " " else "") ++
      (match op, r.out with
       | .itemLoop .., .str s => if c == 0 then " " ++ hexOpt s else ""
       | .getVal .., .value v => if c == 0 || c == 44 then " " ++ showValue v else ""
       | _, o => showOut o)

/-- ` ; ac=<bits> <slot>:<dump|=> …`; `last` = previous dump text of each slot -/
def observe (w : World) (last : List (Option String)) (ic : Bool := true) : String × List (Option String) :=
  let bits := String.join (w.cifs.map (fun c => match c with | some s => if s.autocommit then "1" else "0" | none => "x"))
  let (txt, last') := (List.range w.cifs.length).foldl (fun (acc : String × List (Option String)) i =>
      match w.cifs.getD i none with
      | none => (acc.1, acc.2 ++ [none])
      | some s =>
        -- executable double check of `C04_wok_hist`: as long as the history keeps to the contract the two invariants hold
        let d := showDump s ++ (if !ic || s.db.rowsBelowB then "" else " !rows-above-last_row_num")
          ++ (if !ic || s.db.packetsTotalB then "" else " !packet-not-total")
        if (last.getD i none) == some d then (acc.1 ++ " " ++ toString i ++ ":=", acc.2 ++ [some d])
        else (acc.1 ++ " " ++ toString i ++ ":" ++ d, acc.2 ++ [some d])) ("", [])
  (" ; ac=" ++ bits ++ txt, last')

/-- the result text of a step; with a caller-supplied packet and CIF_OK: the names the packet holds afterwards and the probes -/
def showStep (c : Option Caller) (op : Op) (r : Result) : String :=
  match c, r.rc, r.out with
  | some cl, some 0, .packet p =>
    let mp := mergeCallerPacket cl.entries p
    " | rc=0" ++ String.join ((isort strLe (mp.map (fun e => e.2.1))).map (fun n => " N:" ++ hex n))
      ++ String.join (cl.probes.map (fun q => " " ++ hex q.orig ++ "=" ++
          (match mp.find? (fun e => e.1 == q.key) with
           | some e => showValue e.2.2
           | none => "!43")))
  | _, _, _ => showResult op r

/-- a CIF of the documented model as the canonical dump text -/
def showDumpA (st : AState) : String := String.join (isort textLe (st.tree.map (showCont true)))

/-- the documented model's prediction (`a1`, `rs`: what `specStep` made of the op) against the store model's (`w1`, `r`):
    "" when they agree in the result text, in every CIF's dump and autocommit flag, and in the liveness of every handle-table entry -/
def specDiff (a1 : AWorld) (rs : Result) (w1 : World) (r : Result) (c : Option Caller) (op : Op) : String :=
  let t1 := showStep c op rs
  let m1 := if t1 == showStep c op r then "" else " !spec-result[" ++ t1 ++ " ]"
  let bad := (List.range (max w1.cifs.length a1.cifs.length)).filter (fun i =>
    match w1.cifs.getD i none, a1.cifs.getD i none with
    | none, none => false
    | some s, some st => !(showDump s == showDumpA st && s.autocommit == !a1.cifBusy i)
    | _, _ => true)
  let m2 := String.join (bad.map (fun i => " !spec-cif:" ++ toString i ++ "[" ++
    (match a1.cifs.getD i none with | some st => (if a1.cifBusy i then "ac=0" else "ac=1") ++ showDumpA st | none => "x") ++ " ]"))
  let m3 := if a1.chs.map Option.isSome == w1.chs.map Option.isSome && a1.lhs.map Option.isSome == w1.lhs.map Option.isSome
      && a1.its.map Option.isSome == w1.its.map Option.isSome then "" else " !spec-handles"
  m1 ++ m2 ++ m3

def runOps (ops : List (Mark × Option Caller × Op)) : String :=
  let (_, _, out, _, _) := ops.foldl (fun (acc : World × List (Option String) × String × Bool × AWorld) mo =>
      let (w, last, out, ic0, a) := acc
      let (m, c, op) := mo
      let ic := ic0 && inContract w op
      match m with
      | .faulted rc =>
        -- the model of the documented failure path (Model/StoreFault.lean); an op that is not executed at all stays skipped
        match target w op with
        | some _ =>
          let (w1, _) := stepFaultAt w op (.inside false)
          let w2 := pushDead w1 op
          let (obs, last1) := observe w2 last ic
          (w2, last1, out ++ " | rc=" ++ toString rc ++ " !fault1" ++ obs, ic, absW w2)
        | none =>
          let (w1, r) := step w op
          let (obs, last1) := observe w1 last ic
          (w1, last1, out ++ showStep c op r ++ " !fault1" ++ obs, ic, absW w1)
      | _ =>
        let (w1, r) := step w op
        let (obs, last1) := observe w1 last ic
        let tag := match m with | .mark f => " !fault" ++ toString f | _ => ""
        -- the documented model on the same op (in-contract histories only: `C04_refines_hist` speaks about those)
        let (a1, sd) := if ic then
            (match specStep a op with
             | some (a1, rs) => (a1, specDiff a1 rs w1 r c op)
             | none => (absW w1, " !spec-none"))
          else (absW w1, "")
        (w1, last1, out ++ showStep c op r ++ tag ++ sd ++ obs, ic, a1)) (({} : World), [], "st", true, ({} : AWorld))
  out

/-- what an in-contract op exercises, for the evidence histogram (letters, see `contractOf`) -/
def featureOf (w : World) (op : Op) : String :=
  let a := absW w
  match op with
  | .setVal h (some nm) _ =>
    (match a.liveH h with
     | none => ""
     | some (e, st) =>
       if !nm.valid then "i" else
       match specGetItemLoop st e.h (some nm) with
       | .ok l => (match st.findLoop l.cid l.loopNum with
                   | some x => if x.packets.length ≥ 2 then "M" else if x.packets.length == 1 then "S" else "Z"
                   | none => "")
       | .error _ =>
         (match st.loops.filter (fun y => y.cid == e.h.id && y.category == some []) with
          | [] => "C"
          | y :: _ => if y.packets.isEmpty then "P" else "J"))
  | .setVal _ none _ => "i"
  | .itOpen l => (match a.liveL l with
                  | some (e, _) => if a.cifBusy e.cif then "R" else "O"
                  | none => "")
  | .itClose i | .itAbort i => if (a.liveI i).isSome then "E" else ""
  | .cifNew | .itNext _ | .itUpd _ _ | .itRem _ => ""
  | _ =>
    -- an executed call on a CIF while an iterator is open on ANOTHER CIF of the history
    if (step w op).2.rc.isSome && a.its.any Option.isSome then "X" else ""

/-- family `storecontract`: `ic` when every op of the history is in contract (Model/StoreContract `inContract`) in the world it
    meets, else `oc <index of the first op that is not>`; then the set of features the in-contract part exercises:
    set_value of an existing item in a loop with >= 2 packets (M), with one packet (S), with none (Z); set_value of a new item
    creating the scalar loop (C), joining it (J), joining a scalar loop that has no packet (P); invalid / NULL name (i);
    get_packets granted (O), refused because an iterator is open (R); close / abort (E); a call on another CIF while an iterator is
    open (X); a call after an iterator session of the history ended (A) -/
def contractOf (ops : List (Mark × Option Caller × Op)) : String :=
  let (_, first, _, feats, _) := ops.foldl (fun (acc : World × Option Nat × Nat × List String × Bool) mo =>
      let (w, first, idx, feats, ended) := acc
      let op := mo.2.2
      let first' := if first.isNone && !inContract w op then some idx else first
      let f := if first'.isNone then featureOf w op else ""
      let f := if first'.isNone && ended && f != "E" && (step w op).2.rc.isSome then f ++ "A" else f
      let feats' := (f.toList.map (fun ch => String.singleton ch)).foldl (fun fs x => if fs.contains x then fs else fs ++ [x]) feats
      (((step w op).1), first', idx + 1, feats', ended || f.startsWith "E")) (({} : World), none, 0, [], false)
  (match first with
   | none => "ic"
   | some k => "oc " ++ toString k) ++ " f=" ++ String.join (isort (fun a b => decide (a ≤ b)) feats)

def handle : Handler := fun args =>
  (parseOps (args.length + 1) args).map runOps

end Driver.Fam.Store
