import Driver.Fam.Write
/-
  family `writeval`: `writeval <ver> <namehex> <value tokens>` ↦ `w rc=<code> out=<hex units>`:
  block `b` holding the one scalar item `name value`.  (Data names are generated in normalised form, so the name the
  walker hands to the item handler is the name given.)
-/
namespace Driver.Fam.Writeval
open Driver CifModel CifModel.Model.Writer

def name : String := "writeval"

def handle : Handler
  | ver :: nm :: toks => do
      let v ← ver.toNat?
      let n ← unhex nm
      let (val, rest) ← CifArg.parseValue {} (toks.length + 1) toks
      if rest ≠ [] then none
      else pure (Write.answer v [WContainer.mk [98] [] [{ category := some [], header := [n], packets := [[(n, val)]] }]])
  | _ => none

end Driver.Fam.Writeval
