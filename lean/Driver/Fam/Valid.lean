import Driver.Proto
import CifModel.Model.Normalize
import CifModel.Gen.ErrCodes
/- family `valid`: `valid fn <hex>` ↦ `va name= code= dis= ws= n32=`;  `valid api <hex>` ↦ the creation result codes -/
namespace Driver.Fam.Valid
open Driver CifModel CifModel.Model CifModel.Gen.ErrCodes

def name : String := "valid"

def handle : Handler
  | ["fn", h] => do
      let s ← unhex h
      if s.contains 0 then none
      pure s!"va name={boolStr (isValidName true s)} code={boolStr (isValidName false s)} dis={boolStr (hasDisallowed s)} ws={boolStr (hasWhitespace s)} n32={countChar32 s}"
  | ["api", h] => do
      let s ← unhex h
      if s.contains 0 then none
      let code (ok : Bool) (c : Nat) : Nat := if ok then 0 else c
      let vc := isValidName false s
      let vi := isValidName true s
      pure (s!"va block={code vc CIF_INVALID_BLOCKCODE} frame={code vc CIF_INVALID_FRAMECODE} item={code vi CIF_INVALID_ITEMNAME} " ++
            s!"loop={code vi CIF_INVALID_ITEMNAME} pkt={code vi CIF_INVALID_ITEMNAME} pktset={code vi CIF_INVALID_ITEMNAME} " ++
            s!"tkey={code (!hasDisallowed s) CIF_INVALID_INDEX}")
  | _ => none

end Driver.Fam.Valid
