import Driver.CifArg
import CifModel.Model.Writer
/-
  family `wstatic`: the file-static writer functions called directly (harness/x_wstatic.c), with `last_column` observed.
    fold <do_fold> <target> <window> <for_prefix> <linehex>        ↦ ws len=<n>
    text <ver> <col> <fold> <prefix> <texthex>                      ↦ ws rc=<code> col=<last_column> out=<hex units>
    char <ver> <col> <quoted> <allow_text> <texthex>                ↦ ws rc=… col=… out=…
    item <ver> <col> <names> <sep> <namehex|~> <value tokens>       ↦ ws rc=… col=… names=… sep=… out=…
    lit  <col> <wrap> <asciihex>                                    ↦ ws n=<return value> col=… out=…
    ulit <col> <wrap> <length|-1> <texthex>                         ↦ ws n=… col=… out=…
    valid11 <texthex>                                               ↦ ws rc=<code> at=<index of the first refused unit | ->
-/
namespace Driver.Fam.Wstatic
open Driver CifModel CifModel.Model.Writer

def name : String := "wstatic"

def ctxOf (ver col : Nat) : Ctx := { version := if ver = 1 then 1 else 0, lastColumn := col }

def showW (r : W) (extra : Ctx → String) : String :=
  match r with
  | .ok (o, c) => s!"ws rc=0 col={c.lastColumn}" ++ extra c ++ " out=" ++ hex o
  | .error e => s!"ws rc={e} col=- out=-"

def showN (r : Option (Str × Ctx)) (n : Nat) : String :=
  match r with
  | some (o, c) => s!"ws n={n} col={c.lastColumn} out=" ++ hex o
  | none => s!"ws n=-{Gen.ErrCodes.CIF_OVERLENGTH_LINE} col=- out=-"

def handle : Handler
  | ["fold", df, tg, wd, fp, line] => do
      let d ← parseBool df
      let t ← tg.toNat?
      let w ← wd.toNat?
      let p ← parseBool fp
      let l ← unhex line
      if t ≤ w then none else pure s!"ws len={foldLine l d t w p}"
  | ["text", ver, col, fo, pr, text] => do
      let v ← ver.toNat?
      let k ← col.toNat?
      let f ← parseBool fo
      let p ← parseBool pr
      let t ← unhex text
      if t.isEmpty then none else pure (showW (writeText (ctxOf v k) t f p) fun _ => "")
  | ["char", ver, col, q, atx, text] => do
      let v ← ver.toNat?
      let k ← col.toNat?
      let qd ← parseBool q
      let a ← parseBool atx
      let t ← unhex text
      if qd then pure (showW (writeChar (ctxOf v k) t true a) fun _ => "")
      else match Model.setQuoted false (.chr true t) false with
        | .ok (.chr false t') => if t' == t then pure (showW (writeChar (ctxOf v k) t false a) fun _ => "") else pure "ws unquotable"
        | _ => pure "ws unquotable"
  | "item" :: ver :: col :: names :: sep :: nm :: toks => do
      let v ← ver.toNat?
      let k ← col.toNat?
      let wn ← parseBool names
      let sp ← parseBool sep
      let n ← unhexOpt nm
      let (val, rest) ← CifArg.parseValue {} (toks.length + 1) toks
      if rest ≠ [] then none
      else
        let c : Ctx := { ctxOf v k with writeItemNames := wn, separateValues := sp }
        pure (showW (writeItem (n.getD []) val c) fun c' => s!" names={boolStr c'.writeItemNames} sep={boolStr c'.separateValues}")
  | ["lit", col, wrap, text] => do
      let k ← col.toNat?
      let w ← parseBool wrap
      let t ← unhex text
      pure (showN (writeLiteral (ctxOf 2 k) t w) t.length)
  | ["ulit", col, wrap, len, text] => do
      let k ← col.toNat?
      let w ← parseBool wrap
      let t ← unhex text
      let n ← if len == "-1" then some none else len.toNat?.map some
      let units := match n with | some x => x | none => t.length
      let chars := match n with | some x => x | none => countChar32 t
      if units > t.length then none
      else pure (showN (writeULiteral (ctxOf 2 k) t n w) (if chars = 0 then 0 else units))
  | ["valid11", text] => do
      let t ← unhex text
      if validate11 t then pure "ws rc=0 at=-"
      else
        let i := (t.takeWhile fun u => decide (u < Gen.WriterConsts.isAllowedBound) && isAllowed11 u).length
        pure s!"ws rc={Gen.ErrCodes.CIF_DISALLOWED_CHAR} at={i}"
  | _ => none

end Driver.Fam.Wstatic
