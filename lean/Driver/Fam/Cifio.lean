import Driver.CifArg
/- family `cifio` (self-test of the token language): parse the description, show it again -/
namespace Driver.Fam.Cifio
open Driver CifModel

def name : String := "cifio"

def handle : Handler := fun args =>
  match CifArg.parseCif {} (args.length + 1) args with
  | some (cif, []) => some ("cf rc=0" ++ CifArg.showCanonCif cif)
  | _ => none

end Driver.Fam.Cifio
