import Driver.Proto
import CifModel.Model.Analyze
/- family `analyze`: `analyze <hex> <unq> <triple> <limit> [norb]` ↦
   `an len= first= last= max= lines= semi= nlsemi= trail= rsv= dl= delim=<hex>` (the executor appends ` | rb …`, which the
   model does not produce: read-back through the real parser is an implementation-level observation) -/
namespace Driver.Fam.Analyze
open Driver CifModel CifModel.Model

def name : String := "analyze"

def render (a : Analysis) : String :=
  s!"an len={a.length} first={a.lengthFirst} last={a.lengthLast} max={a.lengthMax} lines={a.numLines} semi={a.maxSemiRun} " ++
  s!"nlsemi={boolStr a.containsTextDelim} trail={boolStr a.hasTrailingWs} rsv={boolStr a.hasReservedStart} " ++
  s!"dl={a.delimLength} delim={hex a.delim}"

def run (h u t l : String) : Option String := do
  let s ← unhex h
  if s.contains 0 then none
  let unq ← parseBool u
  let tri ← parseBool t
  let limit ← l.toNat?
  pure (render (analyze s unq tri limit))

def handle : Handler
  | [h, u, t, l] => run h u t l
  | [h, u, t, l, "norb"] => run h u t l
  | _ => none

end Driver.Fam.Analyze
