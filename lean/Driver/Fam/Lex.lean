import Driver.Proto
import CifModel.Model.Lexer
/- family `lex`:  `lex <dialect 1|2> <fill f|b> <policy a|r<k>> <hex units>`
     ↦ `lx toks=<ty>:<hex text>:<line>:<column>,…|- rc=<n> errs=<code>:<line>,…|-`
   fill `f`: the executor delivers the units through a read function in one fill, so the real get_more_chars() turns
   CR LF and CR into LF before the scanner sees them — the driver applies the same conversion (`eolConvert`, the
   one-fill special case of the C08 model) and then runs the scanner model;  fill `b`: raw units. -/
namespace Driver.Fam.Lex
open Driver CifModel CifModel.Model.Lexer

def name : String := "lex"

/-- CR LF ↦ LF, CR ↦ LF (a single complete fill) -/
def eolConvert : List Nat → List Nat
  | [] => []
  | 13 :: 10 :: r => 10 :: eolConvert r
  | 13 :: r => 10 :: eolConvert r
  | c :: r => c :: eolConvert r

def tokTypeCode : TokType → Nat
  | .blockHead => 0 | .frameHead => 1 | .frameTerm => 2 | .loopKw => 3 | .name => 4 | .otable => 5 | .ctable => 6
  | .olist => 7 | .clist => 8 | .key => 9 | .tkey => 10 | .value => 11 | .qvalue => 12 | .tvalue => 13 | .end_ => 14
  | .error => 15

def showTok (t : Tok) : String := s!"{tokTypeCode t.ty}:{hex t.text}:{t.line}:{t.col}"

def joinOrDash (xs : List String) : String := if xs.isEmpty then "-" else ",".intercalate xs

def parsePolicy (s : String) : Option Policy :=
  if s == "a" then some acceptAll
  else match s.toList with
    | 'r' :: ds => (String.ofList ds).toNat?.map rejectAt
    | _ => none

def run (d fill pol h : String) : Option String := do
      let dia ← if d == "1" then some Dialect.cif1 else if d == "2" then some Dialect.cif2 else none
      let units ← unhex h
      let input ← if fill == "f" then some (eolConvert units) else if fill == "b" then some units else none
      let policy ← parsePolicy pol
      let (toks, rv, log) := tokenizeWith dia policy input
      pure s!"lx toks={joinOrDash (toks.map showTok)} rc={rv} errs={joinOrDash (log.map fun r => s!"{r.code}:{r.line}")}"

/-- a fifth argument is the generator's annotation; it is not looked at -/
def handle : Handler
  | [d, fill, pol, h] => run d fill pol h
  | [d, fill, pol, h, _] => run d fill pol h
  | _ => none

end Driver.Fam.Lex
