import Driver.Proto
import CifModel.Model.Locale
/-
  family `locale` (C16): `locale <fn> <exact 0|1> <argsvalid 0|1> <failk>` — fn = init | autoinit; failk = which library
  allocation of the call fails (0 = none; 1 = the copy of the locale name made by set_c_numeric_locale, …).
  answer: `lc rc=<0 ok | 1 argument error | 2 other error> loc=same|changed round=same`
-/
namespace Driver.Fam.Locale
open Driver CifModel.Model.Locale

def name : String := "locale"

/-- the environment of one request: the k-th allocation of the call fails.  Allocation 1 of an init_numb call is the locale
    name copy; in autoinit (inexact) allocation 1 is the outer copy and allocation 2 the nested call's copy. -/
def envOf (failk : Nat) : Env :=
  { mallocOk := fun n => n + 1 ≠ failk, setCOk := fun _ => true, restoreOk := fun _ => true }

def handle : Handler
  | [fn, exact, valid, failk] => do
      let exact ← parseBool exact; let valid ← parseBool valid; let k ← failk.toNat?
      let s0 : St := { cur := .other 1 }
      -- a failing allocation after the locale copies makes the formatting body fail (digitsOom); position 0 = none
      let copies := if fn == "autoinit" && !exact then 2 else 1
      let body := if k > copies then Body.digitsOom else Body.ok
      let (rc, s) ←
        if fn == "init" then some (initNumb (envOf k) valid body s0)
        else if fn == "autoinit" then some (autoinitNumb (envOf k) valid exact true true body s0)
        else none
      pure s!"lc rc={rc} loc={if s.cur == s0.cur then "same" else "changed"} round=same"
  | _ => none

end Driver.Fam.Locale
