import Driver.CifArg
import CifModel.Model.Writer
/-
  family `write`: `write <ver> <CIF as walked>` ↦ `w rc=<code> out=<hex units | ->`.
  The CIF is given in the order the real `cif_walk` visited it (tools/gen/write.py: `model_request` copies the `walk=`
  part of the implementation's observation): token language of harness/cifio.h, except that every packet is `P`
  followed by (namehex value) pairs.
-/
namespace Driver.Fam.Write
open Driver CifModel CifModel.Model.Writer

def name : String := "write"

/-- `n` (name, value) pairs -/
def parsePairs (n : Nat) (toks : List String) : Option (List (Str × V) × List String) :=
  match n with
  | 0 => some ([], toks)
  | k + 1 =>
    match toks with
    | t :: rest => do
        let nm ← unhex t
        let (v, r) ← CifArg.parseValue {} (rest.length + 1) rest
        let (ps, r') ← parsePairs k r
        pure ((nm, v) :: ps, r')
    | [] => none

def parseWPackets (n : Nat) : Nat → List String → Option (List (List (Str × V)) × List String)
  | 0, _ => none
  | fuel + 1, t :: rest =>
    if t == "Z" then some ([], rest)
    else if t == "P" then do
      let (p, r) ← parsePairs n rest
      let (ps, r') ← parseWPackets n fuel r
      pure (p :: ps, r')
    else none
  | _ + 1, [] => none

def parseWBody : Nat → List String → Option (List WContainer × List WLoop × List String)
  | 0, _ => none
  | fuel + 1, t :: rest =>
    if t == "E" then some ([], [], rest)
    else match t.toList with
      | 'F' :: ':' :: _ => do
          let code ← unhex (CifArg.after2 t)
          let (fs, ls, r) ← parseWBody fuel rest
          let (fs', ls', r') ← parseWBody fuel r
          pure (WContainer.mk code fs ls :: fs', ls', r')
      | 'L' :: ':' :: _ => do
          let (cat, n) ← CifArg.parseLoopHead t
          let (names, r) ← CifArg.parseNames n rest
          let (ps, r') ← parseWPackets n (r.length + 1) r
          let (fs, ls, r'') ← parseWBody fuel r'
          pure (fs, { category := cat, header := names, packets := ps } :: ls, r'')
      | _ => none
  | _ + 1, [] => none

def parseWCif : Nat → List String → Option WCif
  | 0, _ => none
  | _ + 1, [] => some []
  | fuel + 1, t :: rest =>
    match t.toList with
    | 'B' :: ':' :: _ => do
        let code ← unhex (CifArg.after2 t)
        let (fs, ls, r) ← parseWBody (rest.length + 1) rest
        let bs ← parseWCif fuel r
        pure (WContainer.mk code fs ls :: bs)
    | _ => none

def answer (ver : Nat) (cif : WCif) : String :=
  match writeCif ver cif with
  | .ok o => "w rc=0 out=" ++ hex o
  | .error e => s!"w rc={e} out=-"

def handle : Handler
  | ver :: toks => do
      let v ← ver.toNat?
      let cif ← if toks == ["-"] then some [] else parseWCif (toks.length + 1) toks
      pure (answer v cif)
  | _ => none

end Driver.Fam.Write
