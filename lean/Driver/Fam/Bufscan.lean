import Driver.Proto
import Driver.Fam.Fills
import Driver.Fam.Lex
import CifModel.Model.BufScan
/- family `bufscan` (C08, buffer level):  `bufscan <dialect 1|2> <initial buffer size> <policy a|r<k>> <dochex> <cuts>`
     ↦ `bs toks=<ty>:<hex text>:<line>:<column>,…|- rc=<n> errs=<code>:<line>:<column>,…|- buf=<size>:<limit>:<next>:<text>:<tvalue>,…|-`
   — see harness/x_bufscan.c.  The model is Model.BufScan.tokenizeB: the buffer-level scanner over the chunk source, with the
   request size of every read computed by the model itself (room after makeRoom). -/
namespace Driver.Fam.Bufscan
open Driver CifModel CifModel.Model.Lexer CifModel.Model.BufScan

def name : String := "bufscan"

def showRec (r : Rec) : String := s!"{r.size}:{r.limit}:{r.next}:{r.textStart}:{r.tvalueStart}"

def parseOps (s : String) : Option Ops :=
  if s.toList.all (fun c => c == 't' || c == 'c') then some ⟨s.toList.contains 't', s.toList.contains 'c'⟩ else none

def run (d size pol docHex cuts : String) (ops : Option Ops) : Option String := do
      let dia ← if d == "1" then some Dialect.cif1 else if d == "2" then some Dialect.cif2 else none
      let sz ← size.toNat?
      if sz < 2 then none
      let policy ← Lex.parsePolicy pol
      let doc ← unhex docHex
      let chunks ← Fills.parseCuts doc cuts
      let (recs, rv, log) := match ops with
        | none => tokenizeB dia Gen.ParseConsts.bufMinFill sz policy chunks
        | some o => tokenizeOpsB dia Gen.ParseConsts.bufMinFill sz policy o (2 * doc.length + 2) chunks
      let toks := Lex.joinOrDash (recs.map fun r => Lex.showTok r.tok)
      let errs := Lex.joinOrDash (log.map fun r => s!"{r.code}:{r.line}:{r.col}")
      let bufs := Lex.joinOrDash (recs.map showRec)
      pure s!"bs toks={toks} rc={rv} errs={errs} buf={bufs}"

def handle : Handler
  | [d, size, pol, docHex, cuts] => run d size pol docHex cuts none
  | [d, size, pol, docHex, cuts, ops] => do
      let o ← parseOps ops
      run d size pol docHex cuts (some o)
  | _ => none

end Driver.Fam.Bufscan
