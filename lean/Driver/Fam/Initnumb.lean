import Driver.Fam.Numb
/- family `initnumb` (C10): cif_value_init_numb / cif_value_autoinit_numb.
     initnumb i <val> <su> <scale> <max_leading_zeroes> <msp>
     initnumb a <val> <su> <su_rule> <msp>
   `<msp>` is the value of MSP(val) observed in the executor (libm's log10), appended by `model_request`.
   ↦ in rc= msp= loc=0 rnd=0 [neg= digits= su= scale= text= val= suv= | rp rc= neg= digits= su= scale=] -/
namespace Driver.Fam.Initnumb
open Driver CifModel CifModel.Model.Numb

def name : String := "initnumb"

def fields (neg : Bool) (digits : List Nat) (su : Option (List Nat)) (scale : Int) : String :=
  s!"neg={boolStr neg} digits={Driver.Fam.Numb.hexDigits digits} su={hexOpt (su.map digitChars)} scale={scale}"

def render (msp : Int) (r : Except Code V) : Option String :=
  match r with
  | .error c => some s!"in rc={c} msp={msp} loc=0 rnd=0"
  | .ok w =>
    match w with
    | .numb _ t neg digits su scale =>
      match getNumber w, getSu w with
      | .ok (_, d), .ok (_, s) =>
        let rp := match parseNumb t with
          | none => s!"rp rc={CIF_INVALID_NUMBER}"
          | some f => s!"rp rc=0 {fields f.neg f.digits f.su f.scale}"
        some s!"in rc=0 msp={msp} loc=0 rnd=0 {fields neg digits su scale} text={hex t} val={Driver.Fam.Numb.showDbl d} suv={Driver.Fam.Numb.showDbl s} | {rp}"
      | _, _ => none
    | _ => none

def handle : Handler
  | ["i", v, s, sc, ml, mp] => do
      let val ← Driver.Fam.Numb.parseBin v
      let su ← Driver.Fam.Numb.parseBin s
      let scale ← sc.toInt?
      let maxLead ← ml.toInt?
      let msp ← mp.toInt?
      render msp (initNumb val su scale maxLead msp)
  | ["a", v, s, r, mp] => do
      let val ← Driver.Fam.Numb.parseBin v
      let su ← Driver.Fam.Numb.parseBin s
      let rule ← r.toNat?
      let msp ← mp.toInt?
      render msp (autoinitNumb val su rule msp)
  | _ => none

end Driver.Fam.Initnumb
