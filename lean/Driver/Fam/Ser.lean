import Driver.CifArg
import CifModel.Model.Columns
/-
  family `ser` (property C07): serialise / deserialise a value, and the buffer's growth loop on its own.

    ser v <value tokens>            ↦ sr rc=0 len=<bytes> <dump with number fields>     | sr rc=<code> | sr diverges
    ser sizes                       ↦ sr sizes kind=4 size=8 ssize=8 uchar=2 quoted=4 flag=4 cap=512
    ser grow <capacity> <position> <len>
                                    ↦ sr grow rc=0 pos=<position+len> limit=<…>         | sr grow rc=2 | sr diverges

  Also hosts the helpers shared with families `val` and `storeval`: the number-text parser used to fill the fields of
  `V.numb` from the text in a request, and the dump with number fields.
-/
namespace Driver.Fam.Ser
open Driver CifModel CifModel.Model.Serialize

/-- the number-text parser of the model (group gB's `Model.Numb.parseNumb`) -/
def parseNumb : Str → Option NumbFields := CifModel.Model.Columns.parseFields

/-- how the families of this group read a number token: fields from the text (an unparsable text cannot occur in a
    request the executor accepts; it maps to a value that shows as such) -/
def numbOf (q : Bool) (t : Str) : V :=
  match parseNumb t with
  | some (neg, d, su, sc) => .numb q t neg d su sc
  | none => .numb q t false [] none 0

def cfg (normKey : Str → Str := id) : CifArg.Cfg := { numbOf := numbOf, normKey := normKey }

/-- leading `@<orig hex>=<normalised hex>` tokens of a request: the table-key normaliser for the keys of the value
    (every key not listed is its own normal form); returns the normaliser and the remaining tokens -/
def takeNormPairs : List String → Option ((Str → Str) × List String)
  | [] => some (id, [])
  | t :: rest =>
    match t.toList with
    | '@' :: body =>
      match (String.ofList body).splitOn "=" with
      | [o, n] => do
          let orig ← unhex o
          let nk ← unhex n
          let (f, r) ← takeNormPairs rest
          pure ((fun k => if k == orig then nk else f k), r)
      | _ => none
    | _ => some (id, t :: rest)

def digitsStr (d : List Nat) : String := if d.isEmpty then "-" else String.join (d.map toString)

mutual
  /-- dump with the number fields: `M<q>:<text>/<+|->/<digits>/<su digits|~>/<scale>` -/
  def showV : V → String
    | .unk => "U"
    | .na => "N"
    | .chr q s => "C" ++ boolStr q ++ ":" ++ hex s
    | .numb q t neg d su sc =>
        "M" ++ boolStr q ++ ":" ++ hex t ++ "/" ++ (if neg then "-" else "+") ++ "/" ++ digitsStr d ++ "/"
          ++ (match su with | none => "~" | some x => digitsStr x) ++ "/" ++ toString sc
    | .lst vs => "[" ++ showVs vs ++ " ]"
    | .tbl es => "{" ++ showEs es ++ " }"
  def showVs : List V → String
    | [] => ""
    | v :: vs => " " ++ showV v ++ showVs vs
  def showEs : List (Str × Str × V) → String
    | [] => ""
    | (_, ko, v) :: es => " K:" ++ hex ko ++ " " ++ showV v ++ showEs es
end

def name : String := "ser"

def handle : Handler
  | ["sizes"] =>
      some s!"sr sizes kind={(Word.kind 0).width} size={(Word.size 0).width} ssize={(Word.ssize 0).width} uchar={(Word.units [0]).width} quoted={(Word.quoted 0).width} flag={(Word.flag 0).width} cap={defaultCap}"
  | ["grow", c, p, l] => do
      let cap ← c.toNat?; let pos ← p.toNat?; let len ← l.toNat?
      if len % 2 = 1 then none
      let b : WBuf := { capacity := cap, position := pos, limit := pos, alloc := max cap pos, words := [] }
      match bufWrite SZ b (.units (List.replicate (len / 2) 0)) with
      | .ok b' => pure s!"sr grow rc=0 pos={b'.position} limit={b'.limit}"
      | .err c => pure s!"sr grow rc={c}"
      | .diverges => pure "sr diverges"
  | "v" :: toks0 =>
      match takeNormPairs toks0 with
      | none => none
      | some (nf, toks) =>
      match CifArg.parseValue (cfg nf) (toks.length + 1) toks with
      | some (v, []) =>
        match serialize v with
        | .ok b =>
          match deserialize parseNumb b.contents with
          | some (v', []) => some s!"sr rc=0 len={b.limit} {showV v'}"
          | some (_, _) => some "sr rc=0 trailing"
          | none => some "sr rc=5"
        | .err c => some s!"sr rc={c}"
        | .diverges => some "sr diverges"
      | _ => none
  | _ => none

end Driver.Fam.Ser
