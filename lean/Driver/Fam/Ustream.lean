import Driver.Proto
import CifModel.Model.Ustream
/- family `ustream` (C08 / C03 / C11, byte level):
     `ustream <enc> <setup> <ver> <policy> <bytes> <counts>`   — see harness/x_ustream.c
     enc = utf8 | utf16le | utf16be; setup = s (first 4096 bytes already read by cif_parse's sniffing) | f (forced encoding:
     nothing read); ver = scanner.cif_version (replacement unit); policy = a | d | r<k>:<v>; bytes = 00xx per byte;
     counts = comma-separated `count` arguments.
     answer `us <ret>:<ec>:<units>:<reports>;…` one item per call; no call after a negative return. -/
namespace Driver.Fam.Ustream
open Driver CifModel CifModel.Model.Ustream

def name : String := "ustream"

def parseInts (s : String) : Option (List Int) :=
  (s.splitOn ",").mapM (·.toInt?)

def parsePolicy (s : String) : Option Policy :=
  if s == "a" then some acceptAll
  else if s == "d" then some (fun _ code => (code : Int))
  else if s.startsWith "r" then
    match (String.ofList (s.toList.drop 1)).splitOn ":" with
    | [ks, vs] => do
        let k ← ks.toNat?
        let v ← vs.toInt?
        pure (fun i _ => if i = k then v else 0)
    | _ => none
  else none

def encConv (s : String) : Option Conv :=
  if s == "utf8" then some utf8
  else if s == "utf16le" then some (utf16 false)
  else if s == "utf16be" then some (utf16 true)
  else none

def showReports (l : List Nat) : String :=
  if l.isEmpty then "-" else String.intercalate "+" (l.map toString)

def showCall {c : Conv} (r : CallR c) : String :=
  s!"{r.ret}:{r.err}:{if r.ret ≤ 0 then "-" else hex r.units}:{showReports r.reports}"

def runWith (c : Conv) (setup ver pol bytesS countsS : String) : Option String := do
  let sniffed ← (if setup == "s" then some true else if setup == "f" then some false else none)
  let v ← ver.toInt?
  let p ← parsePolicy pol
  let bytes ← unhex bytesS
  if bytes.any (· > 255) then none
  let counts ← parseInts countsS
  let rs := runCalls c p (replFor v) bufferSize (initStream c bufferSize bytes sniffed) counts
  pure ("us " ++ String.intercalate ";" (rs.map showCall))

def handle : Handler
  | [enc, setup, ver, pol, bytesS, countsS] =>
      match encConv enc with
      | some c => runWith c setup ver pol bytesS countsS
      | none => none
  | _ => none

end Driver.Fam.Ustream
