import Driver.CifArg
import CifModel.Model.Parser
import CifModel.Model.ParserTrace
import CifModel.Model.ParserStoreOps
import CifModel.Model.Fill
/-
  family `parse` (C03; also the request language of `parsedoc` (C01) and `defect` (C12)):

    parse <dia 1|2> <max_frame_depth> <line_folding_modifier> <text_prefixing_modifier> <extra_ws hex|-> <extra_eol hex|->
          <not_utf8 0|1> <policy> <target n|e|p> <hex document> [pre <cif tokens …>] [| annotation …]
      ↦ ps rc=<return value> n=<callback invocations> log=<code>:<line>,…|- ops=<b>,<f>,<s>,<l>,<p>,<r> seq=<call,call,…|-> sto=<…> cif=<canonical dump>|~

  `ops` = the numbers of successful store calls the instrumented parser (Model/ParserTrace.lean) records: blocks created, save
  frames created, cif_container_set_value, cif_container_create_loop, cif_loop_add_packet, cif_container_prune — the executor
  counts the same calls of the real parser; `seq` = the same calls in order of occurrence: a letter
  (b f s l p r) and a digest of the name argument (length of the block / frame code or data name in UTF-16 units, number of names
  of the loop).
  `sto` (model side only; fresh target): the trace translated into a history of the STORE model (Model/ParserStoreOps.storeOps) and
  run through `Store.step` from a new CIF: `ok` = every call returned CIF_OK and the store then shows (`Store.abs`) exactly the CIF
  the parser model built (same enumeration orders); `ord` = the same content in another order; `BAD…` = the composition of the
  two models fails on this input (a disagreement for the generator's `agree`; `BADnumb`: a value handed to the store contains a
  number object — the hypothesis of C07_parser_route would not be the parser's own guarantee; `BADexpr`: `storeOps` cannot express
  the trace (a call on a container that got no handle before — since `Store.Op.mkBlock / mkFrame` carry the `lenient` flag, group gX,
  there is no other reason); `BADshape`: a cif_loop_add_packet that does not directly follow the create_loop / add_packet of the same
  container — the hypothesis `shapedFrom` of `C03_parser_store_refines_covered_partial`);
  `skip` = there is no target, or the pre-existing content is not buildable by `cifOps` (for a pre-filled target the history is
  `cifOps initial ++ trace`).  Lenient creations are no longer skipped.

  (formats: harness/x_parse.c).  The units the scanner sees are those of the one-fill case of Model/Fill.lean
  (get_first_char, then one get_more_chars that reads everything).  Extra whitespace / end-of-line characters of the option
  record are modelled by a class-preserving substitution: the scanner and decode_text only ever look at the CLASS of such
  a unit, and a unit of class WS behaves as TAB, one of class EOL as LF — so the model runs on the substituted text
  (the one observable difference, the identity of such a unit inside a delimited string, is removed from both dumps by the
  generator's `agree`).  Names are normalised by ASCII lower-casing, table keys not at all (exact for the generated
  alphabets: no cased non-ASCII letters, no combining marks).
-/
namespace Driver.Fam.Parse
open Driver CifModel CifModel.Model CifModel.Model.Lexer CifModel.Model.Parser

def name : String := "parse"

def lowerAscii (s : Str) : Str := s.map fun c => if 65 ≤ c ∧ c ≤ 90 then c + 32 else c

/-- extra characters the substitution argument covers: units whose class in the table of INIT_V2_SCANNER is NO_CLASS and
    that no later assignment of the macro overrides -/
def extraOk (c : Nat) : Bool := (c < 32 && c != 9 && c != 10 && c != 13) || (128 ≤ c && c < 160)

def substExtra (ws eol : List Nat) (s : Str) : Str :=
  s.map fun c => if eol.contains c then 10 else if ws.contains c then 9 else c

def parsePolicy (s : String) : Option Policy :=
  if s == "a" then some acceptAll
  else if s == "d" then some dieAll
  else match s.toList with
    | 'r' :: rest =>
      match (String.ofList rest).splitOn ":" with
      | [k, v] => do let k' ← k.toNat?; let v' ← v.toInt?; pure (fun i _ => if i = k' then v' else 0)
      | _ => none
    | 'c' :: rest =>
      match (String.ofList rest).splitOn ":" with
      | [c, v] => do let c' ← c.toNat?; let v' ← v.toInt?; pure (fun _ r => if r.code = c' then v' else 0)
      | _ => none
    | _ => none

def joinOrDash (xs : List String) : String := if xs.isEmpty then "-" else ",".intercalate xs

/-- the part of the argument list before the annotation -/
def beforeBar (args : List String) : List String := args.takeWhile (· != "|")

def seenUnits (raw : Str) : Str :=
  Fill.seen [1048576, 1048576, 1048576] ⟨if raw.isEmpty then [] else [raw]⟩

def answer (args : List String) : Option String :=
  match beforeBar args with
  | d :: mfd :: fold :: pre :: ews :: eeol :: nutf :: pol :: tgt :: h :: rest => do
    let dia ← if d == "1" then some Dialect.cif1 else if d == "2" then some Dialect.cif2 else none
    let mfd' ← mfd.toInt?
    let fold' ← fold.toInt?
    let pre' ← pre.toInt?
    let ws ← unhex ews
    let eol ← unhex eeol
    if !(ws.all extraOk && eol.all extraOk) then none
    let nutf' ← parseBool nutf
    let policy ← parsePolicy pol
    let raw ← unhex h
    let (store, initial) ← (match tgt, rest with
      | "n", [] => some (false, ([] : Cif))
      | "e", [] => some (true, [])
      | "p", "pre" :: toks =>
        match CifArg.parseCif {} (toks.length + 1) toks with
        | some (c, []) => some (true, c)
        | _ => none
      | _, _ => none)
    let o : Opts := { dia := dia, maxFrameDepth := clampDepth mfd', unfold := modifierOn dia fold', prem := modifierOn dia pre',
                      notUtf8 := nutf', store := store, norm := lowerAscii, normKey := id }
    let units := substExtra ws eol (seenUnits raw)
    let out := parse o policy initial units
    let tr := storeTrace o policy initial units
    let cnt (p : SOp → Bool) : Nat := (tr.filter p).length
    let ops := s!"{cnt (fun | .mkBlock .. => true | _ => false)},{cnt (fun | .mkFrame .. => true | _ => false)},{cnt (fun | .setVal .. => true | _ => false)},{cnt (fun | .mkLoop .. => true | _ => false)},{cnt (fun | .addPkt .. => true | _ => false)},{cnt (fun | .prune .. => true | _ => false)}"
    let seq := ",".intercalate (tr.map fun
      | .mkBlock code _ => s!"b{code.length}" | .mkFrame _ code _ => s!"f{code.length}" | .setVal _ n _ => s!"s{n.length}"
      | .mkLoop _ names => s!"l{names.length}" | .addPkt .. => "p" | .prune .. => "r")
    let sto : String :=
      if !(tr.all fun op => op.values.all numbFree) then "BADnumb" else
      if tgt == "n" then "skip" else
      match cifOps o initial with
      | none => "skip"
      | some pre =>
      if !shapedFrom none (pre ++ tr) then "BADshape" else
      match storeOps o (pre ++ tr) with
      | none => "BADexpr"
      | some sops =>
        match storeRun sops with
        | (none, _) => "BADnocif"
        | (some st, okAll) =>
          if !okAll then "BADrc"
          else if CifArg.showCif (Store.abs st.db) == CifArg.showCif out.cif then "ok"
          else if CifArg.showCanonCif (Store.abs st.db) == CifArg.showCanonCif out.cif then "ord"
          else "BAD"
    let dump := if store then (let t := CifArg.showCanonCif out.cif; if t.isEmpty then " -" else t) else "~"
    pure s!"ps rc={out.rc} n={out.log.length} log={joinOrDash (out.log.map fun r => s!"{r.code}:{r.line}")} ops={ops} seq={if seq.isEmpty then "-" else seq} sto={sto} cif={dump}"
  | _ => none

def handle : Handler := answer

end Driver.Fam.Parse
