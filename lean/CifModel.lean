-- root of the library; check.py builds the modules it needs by name
import CifModel.Basic
