-- This module serves as the root of the `CifModel` library.
-- Import modules here that should be built as part of the library.
import CifModel.Basic
