import Lean
/-
  Audit.lean — `lake env lean --run Audit.lean <Module> [<Module> …]`
  For every theorem declared in the given (already built) modules prints one line
      THEOREM <module> <name> <axiom> <axiom> …
  listing every axiom its proof term transitively depends on (own walk over the environment, independent of
  `#print axioms`), `AXIOM <module> <name>` for every axiom a module declares itself, and
  `SORRY <module> <name>` for any other declaration that depends on `sorryAx`.
  The caller (tools/check.py) decides which axioms are admissible.
-/
open Lean

partial def walk (env : Environment) (c : Name) (seen : NameSet) (axs : NameSet) : NameSet × NameSet :=
  if seen.contains c then (seen, axs) else
  let seen := seen.insert c
  let go (es : List Expr) (seen axs : NameSet) : NameSet × NameSet :=
    es.foldl (fun (acc : NameSet × NameSet) e =>
      e.getUsedConstants.foldl (fun acc d => walk env d acc.1 acc.2) acc) (seen, axs)
  match env.find? c with
  | some (.axiomInfo v)  => go [v.type] seen (axs.insert c)
  | some (.defnInfo v)   => go [v.type, v.value] seen axs
  | some (.thmInfo v)    => go [v.type, v.value] seen axs
  | some (.opaqueInfo v) => go [v.type, v.value] seen axs
  | some (.quotInfo _)   => (seen, axs)
  | some (.ctorInfo v)   => go [v.type] seen axs
  | some (.recInfo v)    => go [v.type] seen axs
  | some (.inductInfo v) => v.ctors.foldl (fun acc d => walk env d acc.1 acc.2) (go [v.type] seen axs)
  | none                 => (seen, axs)

def axiomsOf (env : Environment) (c : Name) : List Name :=
  ((walk env c {} {}).2.toList).mergeSort (fun a b => a.toString ≤ b.toString)

def main (args : List String) : IO UInt32 := do
  initSearchPath (← findSysroot)
  let mods := args.map String.toName
  let env ← importModules (mods.toArray.map (fun m => { module := m })) {} (loadExts := false)
  for m in mods do
    match env.getModuleIdx? m with
    | none => IO.println s!"MISSING-MODULE {m}"
    | some idx =>
      let md := env.header.moduleData[idx.toNat]!
      for n in md.constNames do
        if n.isInternal then continue
        match env.find? n with
        | some (.thmInfo _) =>
          IO.println s!"THEOREM {m} {n} {" ".intercalate ((axiomsOf env n).map toString)}"
        | some (.defnInfo _) | some (.opaqueInfo _) =>
          if (axiomsOf env n).contains ``sorryAx then IO.println s!"SORRY {m} {n}"
        | some (.axiomInfo _) => IO.println s!"AXIOM {m} {n}"
        | _ => pure ()
  return 0
