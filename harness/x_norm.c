/* executor for family `norm` (C09): cif_normalize, matching of codes / names under variant spellings, table and packet keys.
 *
 * Every answer has the form  `<observation of the library> | <what ICU itself says about the strings involved>`:
 * the part after " | " is computed here from ICU primitives (unorm2 NFD/NFC instances, u_strFoldCase) — never through the
 * library — and serves (a) as the oracle's reference NFC(foldCase(NFD(x))), (b) as the finite instantiation of the model's
 * `UnicodeOps` parameter (tokens `g:<x>:<NFD x>:<fold NFD x>:<NFC fold NFD x>:<NFC x>`), (c) as the test of the assumed `Laws`.
 *
 *  norm cp <hex x>
 *     -> nm rc=<cif_normalize rc> out=<hex> idem=<cif_normalize(out)==out> inv=<cif_normalize(NFD x)==out && cif_normalize(NFC x)==out>
 *        | g:… laws=<nfd_nfc><nfc_nfd><fold_stable>
 *  norm match <block|frame|item> <hex a> <hex b>
 *     -> nm ca=<rc create under a> cb=<rc create under b> gb=<rc look-up under b> | g:…a g:…b
 *  norm map <tbl|pkt> <op> <op> …      ops:  s:<hex key>:<tag>   set key to the char value <tag>   -> s=<rc>
 *                                            g:<hex key>         get                               -> g=<rc>/<tag|~>
 *                                            r:<hex key>         remove                            -> r=<rc>
 *                                            k                   keys / names, sorted              -> k=[<hex>,<hex>,…]
 *                                            C   (tbl) the table is replaced by its cif_value_clone          -> C=<rc>
 *                                            N:<hex>,<hex>,…  (pkt) the packet is replaced by cif_packet_create(names) - unknown values -,
 *                                                kept as it is when the creation is refused                      -> N=<rc>
 *                                            S   (tbl) the table is stored in a managed CIF with cif_container_set_value and read back with
 *                                                cif_container_get_value; every later op works on the READ-BACK table   -> S=<rc set>/<rc get>
 *                                            P   (tbl) the table is stored as the one item of a loop packet (cif_loop_add_packet) and read
 *                                                back through a packet iterator (cif_pktitr_next_packet, value cloned out of the packet);
 *                                                (pkt) the packet itself is added to a loop created with its names and read back through
 *                                                a packet iterator as a new packet; later ops work on what was read back
 *                                                                                                          -> P=<rc add>/<rc next> | P=skip (empty packet)
 *     -> nm <result> <result> … | g:… (one per distinct key)
 *
 *  buffer level (utils.c is compiled INTO this executor with its allocator calls and its two ICU entry points interposed, so that
 *  every malloc / realloc / free and every unorm_normalize / u_strFoldCase call the library code makes is observed):
 *  norm buf <fn> <z|n> <srclen> <hex mem>
 *        fn = nfd0 nfd1 nfc0 nfc1 (cif_unicode_normalize, mode, terminate) | fold (cif_fold_case) | norm norm0 (cif_normalize with /
 *        without a result pointer) | name item tbl (cif_normalize_name / _item_name / _table_index, invalidityCode 12 / 42 / 73);
 *        the source block holds exactly the units of <mem> (may contain 0000), plus a terminator with `z`; srclen as given.
 *     -> nb rc=<rc> len=<*result_length|-> cap=<units of the result block|-> out=<first len units | C string at *normalized | ~>
 *           term=<result[len] == 0 inside the block|-> tr=<m<units> r<units> f i<capacity>:<returned>:<z|w|o|e> …, comma separated;
 *           `!…` = an ICU call whose capacity exceeds the block it writes to, or a write behind the block>
 *        | n:<x>:<NFD x> f:<y>:<fold y> c:<z>:<NFC z>       (ICU on the strings of each stage, computed here with ample buffers)
 *  norm icu <nfd|nfc|fold> <cap> <hex x>       ICU's capacity contract, called directly with a guarded destination
 *     -> ic len=<returned> st=<z|w|o|e> w=<dest[0..len) unless overflow: *> nul=<dest[len]==0 when st=z> guard=<1 = nothing written
 *           at or behind dest[cap]> | <n|f|c>:<x>:<f x>
 */
#include "common.h"
#include <unicode/unorm2.h>
#include <unicode/unorm.h>

/* ---- interposition inside utils.c ------------------------------------------------------------------------------------ */
static char nb_trace[2048];
static size_t nb_tlen;
static struct { void *p; size_t units; } nb_blocks[32];
static int nb_nblocks;

static void nb_ev(const char *fmt, ...) {
    va_list ap;
    int k;
    if (nb_tlen + 48 >= sizeof nb_trace) return;
    if (nb_tlen) nb_trace[nb_tlen++] = ',';
    va_start(ap, fmt);
    k = vsnprintf(nb_trace + nb_tlen, sizeof nb_trace - nb_tlen, fmt, ap);
    va_end(ap);
    if (k > 0) nb_tlen += (size_t) k;
}
static void nb_reset(void) { nb_tlen = 0; nb_trace[0] = 0; nb_nblocks = 0; }
static void nb_remember(void *p, size_t units) {
    if (p && nb_nblocks < 32) { nb_blocks[nb_nblocks].p = p; nb_blocks[nb_nblocks].units = units; nb_nblocks++; }
}
static void nb_forget(void *p) {
    int i;
    for (i = 0; i < nb_nblocks; i++) if (nb_blocks[i].p == p) { nb_blocks[i] = nb_blocks[--nb_nblocks]; return; }
}
static long nb_units(const void *p) {
    int i;
    for (i = 0; i < nb_nblocks; i++) if (nb_blocks[i].p == p) return (long) nb_blocks[i].units;
    return -1;
}
/* the library's blocks get NB_GUARD extra units filled with a sentinel, so that a store behind the block by (uninstrumented) ICU
   code is seen when the block is released or handed over */
#define NB_GUARD 4
#define NB_SENTINEL 0xA5C3
static void nb_arm(void *p, size_t units) { size_t i; for (i = 0; i < NB_GUARD; i++) ((UChar *) p)[units + i] = NB_SENTINEL; }
static void nb_check(const void *p, long units) {
    size_t i;
    if (units < 0) return;
    for (i = 0; i < NB_GUARD; i++) if (((const UChar *) p)[(size_t) units + i] != NB_SENTINEL) { nb_ev("!behind-block"); return; }
}
static void *nb_malloc(size_t bytes) {
    void *p = malloc(bytes + NB_GUARD * sizeof(UChar));
    nb_ev("m%lu", (unsigned long) (bytes / sizeof(UChar)));
    if (bytes % sizeof(UChar)) nb_ev("!odd-size");
    if (p) { nb_arm(p, bytes / sizeof(UChar)); nb_remember(p, bytes / sizeof(UChar)); }
    return p;
}
static void *nb_realloc(void *q, size_t bytes) {
    void *p;
    if (q) nb_check(q, nb_units(q));
    p = realloc(q, bytes + NB_GUARD * sizeof(UChar));
    nb_ev("r%lu", (unsigned long) (bytes / sizeof(UChar)));
    if (p) { nb_forget(q); nb_arm(p, bytes / sizeof(UChar)); nb_remember(p, bytes / sizeof(UChar)); }
    return p;
}
static void nb_free(void *p) {
    if (p) { nb_ev("f"); nb_check(p, nb_units(p)); nb_forget(p); }
    free(p);
}
static char nb_status(UErrorCode ec) {
    return ec == U_STRING_NOT_TERMINATED_WARNING ? 'w' : U_SUCCESS(ec) ? 'z' : ec == U_BUFFER_OVERFLOW_ERROR ? 'o' : 'e';
}
static int32_t nb_unorm_normalize(const UChar *src, int32_t len, UNormalizationMode mode, int32_t opts, UChar *dest, int32_t cap,
                                  UErrorCode *ec) {
    int32_t n;
    long have = nb_units(dest);
    if (have >= 0 && cap > have) nb_ev("!capacity>block");
    n = unorm_normalize(src, len, mode, opts, dest, cap, ec);
    nb_ev("i%ld:%ld:%c", (long) cap, (long) n, nb_status(*ec));
    if (have >= 0) nb_check(dest, have);
    return n;
}
static int32_t nb_u_strFoldCase(UChar *dest, int32_t cap, const UChar *src, int32_t len, uint32_t opts, UErrorCode *ec) {
    int32_t n;
    long have = nb_units(dest);
    if (have >= 0 && cap > have) nb_ev("!capacity>block");
    n = u_strFoldCase(dest, cap, src, len, opts, ec);
    nb_ev("i%ld:%ld:%c", (long) cap, (long) n, nb_status(*ec));
    if (have >= 0) nb_check(dest, have);
    return n;
}
/* the result block handed to the caller: checked, then released with the plain allocator */
static void nb_release_result(void *p) { if (p) { nb_check(p, nb_units(p)); nb_forget(p); free(p); } }

#include <unicode/ucnv.h>
#include <unicode/uchar.h>
#define malloc(n) nb_malloc(n)
#define realloc(p, n) nb_realloc(p, n)
#define free(p) nb_free(p)
#undef unorm_normalize
#define unorm_normalize nb_unorm_normalize
#undef u_strFoldCase
#define u_strFoldCase nb_u_strFoldCase
#include "utils.c"
#undef malloc
#undef realloc
#undef free
#undef unorm_normalize
#undef u_strFoldCase
/* (urename.h is not re-read: the two ICU names are restored by hand for the code below) */
#define unorm_normalize U_ICU_ENTRY_POINT_RENAME(unorm_normalize)
#define u_strFoldCase U_ICU_ENTRY_POINT_RENAME(u_strFoldCase)

static const UNormalizer2 *NFD, *NFC;

static UChar *n2(const UNormalizer2 *n, const UChar *s, int32_t len, int32_t *outlen) {
    UErrorCode ec = U_ZERO_ERROR;
    int32_t cap = len * 20 + 16;
    UChar *buf = (UChar *) malloc((size_t) cap * sizeof(UChar));
    *outlen = unorm2_normalize(n, s, len, buf, cap, &ec);
    if (U_FAILURE(ec)) { free(buf); *outlen = -1; return NULL; }
    buf[*outlen] = 0;
    return buf;
}

static UChar *fold(const UChar *s, int32_t len, int32_t *outlen) {
    UErrorCode ec = U_ZERO_ERROR;
    int32_t cap = len * 4 + 16;
    UChar *buf = (UChar *) malloc((size_t) cap * sizeof(UChar));
    *outlen = u_strFoldCase(buf, cap, s, len, U_FOLD_CASE_DEFAULT, &ec);
    if (U_FAILURE(ec)) { free(buf); *outlen = -1; return NULL; }
    buf[*outlen] = 0;
    return buf;
}

static int same(const UChar *a, int32_t na, const UChar *b, int32_t nb) {
    return a && b && na == nb && memcmp(a, b, (size_t) na * sizeof(UChar)) == 0;
}

/* prints ` g:<x>:<d>:<f>:<c>:<nx>`; returns the laws bits in *laws (if not NULL) */
static void graph(const UChar *x, int32_t nx_, char *laws) {
    int32_t nd, nf, nc, nn, t1n, t2n, t3n, t4n;
    UChar *d = n2(NFD, x, nx_, &nd);
    UChar *f = d ? fold(d, nd, &nf) : NULL;
    UChar *c = f ? n2(NFC, f, nf, &nc) : NULL;
    UChar *nx = n2(NFC, x, nx_, &nn);
    if (!d || !f || !c || !nx) { OUT(" g:icu-failed"); free(d); free(f); free(c); free(nx); if (laws) strcpy(laws, "???"); return; }
    OUT(" g:"); outhexn(x, (size_t) nx_); OUT(":"); outhexn(d, (size_t) nd); OUT(":"); outhexn(f, (size_t) nf);
    OUT(":"); outhexn(c, (size_t) nc); OUT(":"); outhexn(nx, (size_t) nn);
    if (laws) {
        UChar *t1, *t2, *t3, *t4;
        int l1, l2, l3;
        /* nfd_nfc: NFD(NFC y) = NFD y  for y = x and y = f */
        t1 = n2(NFD, nx, nn, &t1n); l1 = same(t1, t1n, d, nd); free(t1);
        t1 = n2(NFD, c, nc, &t1n); t2 = n2(NFD, f, nf, &t2n); l1 = l1 && same(t1, t1n, t2, t2n); free(t1);
        /* nfc_nfd: NFC(NFD y) = NFC y  for y = x and y = f   (t2 = NFD f) */
        t1 = n2(NFC, d, nd, &t1n); l2 = same(t1, t1n, nx, nn); free(t1);
        t1 = n2(NFC, t2, t2n, &t1n); l2 = l2 && same(t1, t1n, c, nc); free(t1);
        /* fold_stable: NFD(fold(NFD(fold(NFD x)))) = NFD(fold(NFD x))   (t2 = NFD(fold(NFD x))) */
        t3 = fold(t2, t2n, &t3n); t4 = t3 ? n2(NFD, t3, t3n, &t4n) : NULL; l3 = same(t4, t4n, t2, t2n);
        free(t2); free(t3); free(t4);
        laws[0] = (char) ('0' + l1); laws[1] = (char) ('0' + l2); laws[2] = (char) ('0' + l3); laws[3] = 0;
    }
    free(d); free(f); free(c); free(nx);
}

static int nonul(const UChar *s, size_t n) { size_t i; for (i = 0; i < n; i++) if (!s[i]) return 0; return 1; }

static void do_cp(const char *h) {
    UChar *x = NULL, *out = NULL, *out2 = NULL, *d, *nx;
    size_t n = 0;
    int rc, idem = 0, inv = 0;
    int32_t nd, nn;
    char laws[8];
    if (!unhex(h, &x, &n) || !x || !nonul(x, n)) { OUT("bad-op"); free(x); return; }
    rc = cif_normalize(x, -1, &out);
    if (rc == CIF_OK) {
        if (cif_normalize(out, -1, &out2) == CIF_OK) { idem = u_strcmp(out, out2) == 0; free(out2); out2 = NULL; }
        d = n2(NFD, x, (int32_t) n, &nd); nx = n2(NFC, x, (int32_t) n, &nn);
        if (d && nx) {
            UChar *o3 = NULL, *o4 = NULL;
            inv = cif_normalize(d, -1, &o3) == CIF_OK && cif_normalize(nx, -1, &o4) == CIF_OK && u_strcmp(o3, out) == 0 && u_strcmp(o4, out) == 0;
            free(o3); free(o4);
        }
        free(d); free(nx);
    }
    OUT("nm rc=%d out=", rc); outhex(out); OUT(" idem=%d inv=%d |", idem, inv);
    graph(x, (int32_t) n, laws);
    OUT(" laws=%s", laws);
    free(out); free(x);
}

static void do_match(const char *kind, const char *ha, const char *hb) {
    static const UChar b0code[] = { 'b', '0', 0 };
    UChar *a = NULL, *b = NULL;
    size_t na = 0, nb = 0;
    cif_tp *cif = NULL;
    cif_block_tp *b0 = NULL;
    int ca = -1, cb = -1, gb = -1;
    if (!unhex(ha, &a, &na) || !unhex(hb, &b, &nb) || !a || !b || !nonul(a, na) || !nonul(b, nb)) { OUT("bad-op"); free(a); free(b); return; }
    if (cif_create(&cif) != CIF_OK || cif_create_block(cif, b0code, &b0) != CIF_OK) {
        OUT("nm setup-failed |");
    } else if (strcmp(kind, "block") == 0) {
        cif_block_tp *x = NULL, *y = NULL, *z = NULL;
        ca = cif_create_block(cif, a, &x);
        gb = cif_get_block(cif, b, &z);
        cb = cif_create_block(cif, b, &y);
        if (x) cif_container_free(x); if (y) cif_container_free(y); if (z) cif_container_free(z);
        OUT("nm ca=%d cb=%d gb=%d |", ca, cb, gb);
    } else if (strcmp(kind, "frame") == 0) {
        cif_frame_tp *x = NULL, *y = NULL, *z = NULL;
        ca = cif_container_create_frame(b0, a, &x);
        gb = cif_container_get_frame(b0, b, &z);
        cb = cif_container_create_frame(b0, b, &y);
        if (x) cif_container_free(x); if (y) cif_container_free(y); if (z) cif_container_free(z);
        OUT("nm ca=%d cb=%d gb=%d |", ca, cb, gb);
    } else if (strcmp(kind, "item") == 0) {
        cif_loop_tp *loop = NULL;
        cif_value_tp *v = NULL;
        UChar *names[2];
        names[0] = b; names[1] = NULL;
        ca = cif_container_set_value(b0, a, NULL);
        gb = cif_container_get_value(b0, b, &v);
        cb = cif_container_create_loop(b0, NULL, names, &loop);          /* a second definition of the item: duplicate iff same name */
        if (v) cif_value_free(v); if (loop) cif_loop_free(loop);
        OUT("nm ca=%d cb=%d gb=%d |", ca, cb, gb);
    } else OUT("bad-op |");
    graph(a, (int32_t) na, NULL);
    graph(b, (int32_t) nb, NULL);
    if (b0) cif_container_free(b0);
    if (cif) (void) cif_destroy(cif);
    free(a); free(b);
}

static int cmp_hexstr(const void *p, const void *q) { return strcmp(*(char * const *) p, *(char * const *) q); }

static char *hexdup(const UChar *s) {
    size_t n = (size_t) u_strlen(s), i;
    char *r = (char *) malloc(4 * n + 2);
    if (n == 0) { strcpy(r, "-"); return r; }
    for (i = 0; i < n; i++) sprintf(r + 4 * i, "%04x", (unsigned) s[i]);
    return r;
}


/* replace *tbl / *pkt by what comes back from a managed CIF; prints the op's result */
static void through_store(int is_tbl, char how, cif_value_tp **tbl, cif_packet_tp **pkt) {
    static const UChar b0code[] = { 'b', '0', 0 };
    static UChar tname[] = { '_', 't', 0 };
    cif_tp *cif = NULL;
    cif_block_tp *b = NULL;
    cif_loop_tp *loop = NULL;
    cif_pktitr_tp *it = NULL;
    cif_packet_tp *p = NULL, *p2 = NULL;
    cif_value_tp *v2 = NULL, *ref = NULL;
    int rc1 = -1, rc2 = -1;

    if (cif_create(&cif) != CIF_OK || cif_create_block(cif, b0code, &b) != CIF_OK) { OUT(" %c=setup-failed", how); goto done; }
    if (is_tbl && how == 'S') {
        rc1 = cif_container_set_value(b, tname, *tbl);
        if (rc1 == CIF_OK) rc2 = cif_container_get_value(b, tname, &v2);
    } else if (is_tbl) {
        UChar *names[2];
        names[0] = tname; names[1] = NULL;
        if (cif_container_create_loop(b, NULL, names, &loop) != CIF_OK || cif_packet_create(&p, NULL) != CIF_OK
                || cif_packet_set_item(p, tname, *tbl) != CIF_OK) { OUT(" %c=setup-failed", how); goto done; }
        rc1 = cif_loop_add_packet(loop, p);
        if (rc1 == CIF_OK && cif_loop_get_packets(loop, &it) == CIF_OK) {
            rc2 = cif_pktitr_next_packet(it, &p2);
            if (rc2 == CIF_OK && (cif_packet_get_item(p2, tname, &ref) != CIF_OK || cif_value_clone(ref, &v2) != CIF_OK)) rc2 = -2;
            (void) cif_pktitr_close(it);
        }
    } else {
        const UChar **ks = NULL;
        if (cif_packet_get_names(*pkt, &ks) != CIF_OK) { OUT(" %c=setup-failed", how); goto done; }
        if (!ks[0]) { OUT(" %c=skip", how); free((void *) ks); goto done; }
        if (cif_container_create_loop(b, NULL, (UChar **) ks, &loop) != CIF_OK) { OUT(" %c=setup-failed", how); free((void *) ks); goto done; }
        free((void *) ks);
        rc1 = cif_loop_add_packet(loop, *pkt);
        if (rc1 == CIF_OK && cif_loop_get_packets(loop, &it) == CIF_OK) {
            rc2 = cif_pktitr_next_packet(it, &p2);
            (void) cif_pktitr_close(it);
        }
    }
    OUT(" %c=%d/%d", how, rc1, rc2);
    if (is_tbl && v2) { cif_value_free(*tbl); *tbl = v2; v2 = NULL; }
    if (!is_tbl && rc2 == CIF_OK && p2) { cif_packet_free(*pkt); *pkt = p2; p2 = NULL; }
done:
    if (v2) cif_value_free(v2);
    if (p) cif_packet_free(p);
    if (p2) cif_packet_free(p2);
    if (loop) cif_loop_free(loop);
    if (b) cif_container_free(b);
    if (cif) (void) cif_destroy(cif);
}

static void do_map(int argc, char **argv) {
    int is_tbl = strcmp(argv[2], "tbl") == 0, i, nkeys = 0;
    cif_value_tp *tbl = NULL;
    cif_packet_tp *pkt = NULL;
    UChar **keys = (UChar **) calloc((size_t) argc * 16 + 16, sizeof(UChar *));
    size_t *klen = (size_t *) calloc((size_t) argc * 16 + 16, sizeof(size_t));

    if (!is_tbl && strcmp(argv[2], "pkt") != 0) { OUT("bad-op"); free(keys); free(klen); return; }
    if ((is_tbl ? cif_value_create(CIF_TABLE_KIND, &tbl) : cif_packet_create(&pkt, NULL)) != CIF_OK) { OUT("nm setup-failed"); free(keys); free(klen); return; }
    OUT("nm");
    for (i = 3; i < argc; i++) {
        char *op = argv[i];
        if (strcmp(op, "k") == 0) {
            const UChar **ks = NULL;
            int rc = is_tbl ? cif_value_get_keys(tbl, &ks) : cif_packet_get_names(pkt, &ks);
            if (rc != CIF_OK) { OUT(" k=!%d", rc); }
            else {
                int n = 0, j;
                char **hs;
                while (ks[n]) n++;
                hs = (char **) malloc((size_t) (n + 1) * sizeof(char *));
                for (j = 0; j < n; j++) hs[j] = hexdup(ks[j]);
                qsort(hs, (size_t) n, sizeof(char *), cmp_hexstr);
                OUT(" k=[");
                for (j = 0; j < n; j++) { OUT("%s%s", j ? "," : "", hs[j]); free(hs[j]); }
                OUT("]");
                free(hs);
                free((void *) ks);
            }
        } else if (strcmp(op, "C") == 0 && is_tbl) {
            cif_value_tp *c = NULL;
            int rc = cif_value_clone(tbl, &c);
            OUT(" C=%d", rc);
            if (rc == CIF_OK && c) { cif_value_free(tbl); tbl = c; }
        } else if (op[0] == 'N' && op[1] == ':' && !is_tbl) {
            /* a fresh packet from a list of names */
            UChar *nm[16];
            int cnt = 0, j, bad = 0, rc;
            char *q = op + 2, *tok2;
            cif_packet_tp *np = NULL;
            while ((tok2 = strsep(&q, ",")) != NULL && cnt < 15) {
                size_t nk = 0;
                nm[cnt] = NULL;
                if (!unhex(tok2, &nm[cnt], &nk) || !nm[cnt] || !nonul(nm[cnt], nk)) { bad = 1; free(nm[cnt]); break; }
                cnt++;
            }
            nm[cnt] = NULL;
            if (bad) OUT(" bad-op");
            else {
                rc = cif_packet_create(&np, nm);
                OUT(" N=%d", rc);
                if (rc == CIF_OK && np) { cif_packet_free(pkt); pkt = np; }
                for (j = 0; j < cnt; j++) {
                    int known = 0, i2;
                    size_t nk = (size_t) u_strlen(nm[j]);
                    for (i2 = 0; i2 < nkeys; i2++) if (klen[i2] == nk && memcmp(keys[i2], nm[j], nk * sizeof(UChar)) == 0) known = 1;
                    if (!known) { keys[nkeys] = nm[j]; klen[nkeys] = nk; nkeys++; nm[j] = NULL; }
                }
            }
            for (j = 0; j < cnt; j++) free(nm[j]);
        } else if ((strcmp(op, "S") == 0 && is_tbl) || strcmp(op, "P") == 0) {
            through_store(is_tbl, op[0], &tbl, &pkt);
        } else if ((op[0] == 's' || op[0] == 'g' || op[0] == 'r') && op[1] == ':') {
            char *hk = op + 2, *tag = NULL;
            UChar *k = NULL;
            size_t nk = 0;
            int rc, j, known = 0;
            if (op[0] == 's') { tag = strchr(hk, ':'); if (!tag) { OUT(" bad-op"); continue; } *tag++ = 0; }
            if (!unhex(hk, &k, &nk) || !k || !nonul(k, nk)) { OUT(" bad-op"); free(k); continue; }
            for (j = 0; j < nkeys; j++) if (klen[j] == nk && memcmp(keys[j], k, nk * sizeof(UChar)) == 0) known = 1;
            if (op[0] == 's') {
                cif_value_tp *v = NULL;
                UChar *t = NULL;
                size_t nt = 0;
                if (!unhex(tag, &t, &nt) || !t || cif_value_create(CIF_UNK_KIND, &v) != CIF_OK || cif_value_init_char(v, t) != CIF_OK) {
                    OUT(" bad-op"); if (v) cif_value_free(v); else free(t);
                } else {
                    rc = is_tbl ? cif_value_set_item_by_key(tbl, k, v) : cif_packet_set_item(pkt, k, v);
                    OUT(" s=%d", rc);
                    cif_value_free(v);
                }
            } else if (op[0] == 'g') {
                cif_value_tp *v = NULL;
                UChar *t = NULL;
                rc = is_tbl ? cif_value_get_item_by_key(tbl, k, &v) : cif_packet_get_item(pkt, k, &v);
                OUT(" g=%d/", rc);
                if (rc == CIF_OK && v && cif_value_kind(v) == CIF_CHAR_KIND && cif_value_get_text(v, &t) == CIF_OK) { outhex(t); free(t); }
                else OUT("~");
            } else {
                rc = is_tbl ? cif_value_remove_item_by_key(tbl, k, NULL) : cif_packet_remove_item(pkt, k, NULL);
                OUT(" r=%d", rc);
            }
            if (!known) { keys[nkeys] = k; klen[nkeys] = nk; nkeys++; } else free(k);
        } else OUT(" bad-op");
    }
    OUT(" |");
    for (i = 0; i < nkeys; i++) { graph(keys[i], (int32_t) klen[i], NULL); free(keys[i]); }
    free(keys); free(klen);
    if (tbl) cif_value_free(tbl);
    if (pkt) cif_packet_free(pkt);
}


/* ---- buffer level ---------------------------------------------------------------------------------------------------- */

/* reference results from ICU primitives with ample buffers (explicit lengths: embedded NULs are ordinary characters) */
static UChar *ref_of(char fn, const UChar *x, int32_t n, int32_t *outlen) {
    return fn == 'n' ? n2(NFD, x, n, outlen) : fn == 'c' ? n2(NFC, x, n, outlen) : fold(x, n, outlen);
}
static void ref_token(char fn, const UChar *x, int32_t n, const UChar *fx, int32_t nfx) {
    OUT(" %c:", fn); outhexn(x, (size_t) n); OUT(":"); outhexn(fx, (size_t) nfx);
}

static void do_buf(const char *fn, const char *mode, const char *lenarg, const char *h) {
    UChar *units = NULL, *mem = NULL, *res = NULL;
    size_t n = 0, memunits;
    long srclen = strtol(lenarg, NULL, 10);
    int z = strcmp(mode, "z") == 0, rc = -1;
    int32_t rlen = -1, src_chars;
    int has_len = 0, want = 1;
    if ((!z && strcmp(mode, "n") != 0) || !unhex(h, &units, &n) || !units) { OUT("bad-op"); free(units); return; }
    memunits = n + (z ? 1 : 0);
    /* the preconditions of the C functions (cif.h: srclen "must not exceed the actual number of UChars"; srclen < 0 needs a terminator) */
    if (srclen >= 0 ? (size_t) srclen > memunits : !(z || !nonul(units, n))) { OUT("bad-op"); free(units); return; }
    mem = (UChar *) malloc((memunits ? memunits : 1) * sizeof(UChar));         /* exactly the block: a read behind it is an ASan report */
    memcpy(mem, units, n * sizeof(UChar));
    if (z) mem[n] = 0;
    free(units);
    if (srclen >= 0) src_chars = (int32_t) srclen; else { src_chars = 0; while (mem[src_chars]) src_chars++; }
    nb_reset();
    if (strcmp(fn, "nfd0") == 0 || strcmp(fn, "nfd1") == 0 || strcmp(fn, "nfc0") == 0 || strcmp(fn, "nfc1") == 0) {
        rc = cif_unicode_normalize(mem, (int32_t) srclen, fn[2] == 'd' ? UNORM_NFD : UNORM_NFC, &res, &rlen, fn[3] == '1');
        has_len = 1;
    } else if (strcmp(fn, "fold") == 0) {
        rc = cif_fold_case(mem, (int32_t) srclen, &res, &rlen);
        has_len = 1;
    } else if (strcmp(fn, "norm") == 0) rc = cif_normalize(mem, (int32_t) srclen, &res);
    else if (strcmp(fn, "norm0") == 0) { rc = cif_normalize(mem, (int32_t) srclen, NULL); want = 0; }
    else if ((strcmp(fn, "name") == 0 || strcmp(fn, "item") == 0 || strcmp(fn, "tbl") == 0) && (z || !nonul(mem, n))) {
        rc = fn[0] == 'n' ? cif_normalize_name(mem, (int32_t) srclen, &res, CIF_INVALID_BLOCKCODE)
           : fn[0] == 'i' ? cif_normalize_item_name(mem, (int32_t) srclen, &res, CIF_INVALID_ITEMNAME)
           : cif_normalize_table_index(mem, (int32_t) srclen, &res, CIF_INVALID_INDEX);
    } else { OUT("bad-op"); free(mem); return; }
    OUT("nb rc=%d", rc);
    if (rc == CIF_OK && has_len) {
        long cap = nb_units(res);
        OUT(" len=%ld cap=%ld out=", (long) rlen, cap); outhexn(res, (size_t) rlen);
        OUT(" term=%d", (cap > rlen && res[rlen] == 0) ? 1 : 0);
    } else if (rc == CIF_OK && want) {
        OUT(" len=- cap=%ld out=", nb_units(res)); outhex(res); OUT(" term=-");
    } else OUT(" len=- cap=- out=~ term=-");
    if (res) nb_release_result(res);
    OUT(" tr=%s |", nb_tlen ? nb_trace : "-");
    /* what ICU itself says about the strings each stage works on */
    {
        int32_t nd, nf, nc;
        if (strncmp(fn, "nfd", 3) == 0) { UChar *d = ref_of('n', mem, src_chars, &nd); if (d) ref_token('n', mem, src_chars, d, nd); free(d); }
        else if (strncmp(fn, "nfc", 3) == 0 || strcmp(fn, "tbl") == 0) { UChar *c = ref_of('c', mem, src_chars, &nc); if (c) ref_token('c', mem, src_chars, c, nc); free(c); }
        else if (strcmp(fn, "fold") == 0) { UChar *f = ref_of('f', mem, src_chars, &nf); if (f) ref_token('f', mem, src_chars, f, nf); free(f); }
        else {
            UChar *d = ref_of('n', mem, src_chars, &nd);
            UChar *f = d ? ref_of('f', d, nd, &nf) : NULL;
            UChar *c = f ? ref_of('c', f, nf, &nc) : NULL;
            if (c) { ref_token('n', mem, src_chars, d, nd); ref_token('f', d, nd, f, nf); ref_token('c', f, nf, c, nc); }
            else OUT(" g:icu-failed");
            free(d); free(f); free(c);
        }
    }
    free(mem);
}

/* ICU's capacity contract, observed directly */
static void do_icu(const char *fn, const char *caparg, const char *h) {
    UChar *x = NULL, *dest, *ref;
    size_t n = 0, i;
    long cap = strtol(caparg, NULL, 10);
    int32_t got, nref;
    UErrorCode ec = U_ZERO_ERROR;
    int guard = 1;
    char f = strcmp(fn, "nfd") == 0 ? 'n' : strcmp(fn, "nfc") == 0 ? 'c' : strcmp(fn, "fold") == 0 ? 'f' : 0;
    if (!f || cap < 0 || cap > 100000 || !unhex(h, &x, &n) || !x) { OUT("bad-op"); free(x); return; }
    dest = (UChar *) malloc(((size_t) cap + 8) * sizeof(UChar));
    for (i = 0; i < (size_t) cap + 8; i++) dest[i] = NB_SENTINEL;
    if (f == 'f') got = u_strFoldCase(dest, (int32_t) cap, x, (int32_t) n, U_FOLD_CASE_DEFAULT, &ec);
    else got = unorm_normalize(x, (int32_t) n, f == 'n' ? UNORM_NFD : UNORM_NFC, 0, dest, (int32_t) cap, &ec);
    for (i = (size_t) cap; i < (size_t) cap + 8; i++) if (dest[i] != NB_SENTINEL) guard = 0;
    OUT("ic len=%ld st=%c w=", (long) got, nb_status(ec));
    if (nb_status(ec) == 'o' || nb_status(ec) == 'e' || got < 0 || got > cap) OUT("*"); else outhexn(dest, (size_t) got);
    OUT(" nul=%s guard=%d |", nb_status(ec) == 'z' && got < cap ? (dest[got] == 0 ? "1" : "0") : "-", guard);
    ref = ref_of(f, x, (int32_t) n, &nref);
    if (ref) ref_token(f, x, (int32_t) n, ref, nref); else OUT(" g:icu-failed");
    free(ref); free(dest); free(x);
}

static void handle(int argc, char **argv) {
    UErrorCode ec = U_ZERO_ERROR;
    nb_reset();
    if (!NFD) { NFD = unorm2_getNFDInstance(&ec); NFC = unorm2_getNFCInstance(&ec); }
    if (U_FAILURE(ec) || !NFD || !NFC) { OUT("nm icu-setup-failed"); return; }
    if (argc == 3 && strcmp(argv[1], "cp") == 0) do_cp(argv[2]);
    else if (argc == 5 && strcmp(argv[1], "match") == 0) do_match(argv[2], argv[3], argv[4]);
    else if (argc >= 3 && strcmp(argv[1], "map") == 0) do_map(argc, argv);
    else if (argc == 6 && strcmp(argv[1], "buf") == 0) do_buf(argv[2], argv[3], argv[4], argv[5]);
    else if (argc == 5 && strcmp(argv[1], "icu") == 0) do_icu(argv[2], argv[3], argv[4]);
    else OUT("bad-op");
}
