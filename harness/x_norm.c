/* executor for family `norm` (C09): cif_normalize, matching of codes / names under variant spellings, table and packet keys.
 *
 * Every answer has the form  `<observation of the library> | <what ICU itself says about the strings involved>`:
 * the part after " | " is computed here from ICU primitives (unorm2 NFD/NFC instances, u_strFoldCase) — never through the
 * library — and serves (a) as the oracle's reference NFC(foldCase(NFD(x))), (b) as the finite instantiation of the model's
 * `UnicodeOps` parameter (tokens `g:<x>:<NFD x>:<fold NFD x>:<NFC fold NFD x>:<NFC x>`), (c) as the test of the assumed `Laws`.
 *
 *  norm cp <hex x>
 *     -> nm rc=<cif_normalize rc> out=<hex> idem=<cif_normalize(out)==out> inv=<cif_normalize(NFD x)==out && cif_normalize(NFC x)==out>
 *        | g:… laws=<nfd_nfc><nfc_nfd><fold_stable>
 *  norm match <block|frame|item> <hex a> <hex b>
 *     -> nm ca=<rc create under a> cb=<rc create under b> gb=<rc look-up under b> | g:…a g:…b
 *  norm map <tbl|pkt> <op> <op> …      ops:  s:<hex key>:<tag>   set key to the char value <tag>   -> s=<rc>
 *                                            g:<hex key>         get                               -> g=<rc>/<tag|~>
 *                                            r:<hex key>         remove                            -> r=<rc>
 *                                            k                   keys / names, sorted              -> k=[<hex>,<hex>,…]
 *     -> nm <result> <result> … | g:… (one per distinct key)
 */
#include "common.h"
#include <unicode/unorm2.h>

static const UNormalizer2 *NFD, *NFC;

static UChar *n2(const UNormalizer2 *n, const UChar *s, int32_t len, int32_t *outlen) {
    UErrorCode ec = U_ZERO_ERROR;
    int32_t cap = len * 20 + 16;
    UChar *buf = (UChar *) malloc((size_t) cap * sizeof(UChar));
    *outlen = unorm2_normalize(n, s, len, buf, cap, &ec);
    if (U_FAILURE(ec)) { free(buf); *outlen = -1; return NULL; }
    buf[*outlen] = 0;
    return buf;
}

static UChar *fold(const UChar *s, int32_t len, int32_t *outlen) {
    UErrorCode ec = U_ZERO_ERROR;
    int32_t cap = len * 4 + 16;
    UChar *buf = (UChar *) malloc((size_t) cap * sizeof(UChar));
    *outlen = u_strFoldCase(buf, cap, s, len, U_FOLD_CASE_DEFAULT, &ec);
    if (U_FAILURE(ec)) { free(buf); *outlen = -1; return NULL; }
    buf[*outlen] = 0;
    return buf;
}

static int same(const UChar *a, int32_t na, const UChar *b, int32_t nb) {
    return a && b && na == nb && memcmp(a, b, (size_t) na * sizeof(UChar)) == 0;
}

/* prints ` g:<x>:<d>:<f>:<c>:<nx>`; returns the laws bits in *laws (if not NULL) */
static void graph(const UChar *x, int32_t nx_, char *laws) {
    int32_t nd, nf, nc, nn, t1n, t2n, t3n, t4n;
    UChar *d = n2(NFD, x, nx_, &nd);
    UChar *f = d ? fold(d, nd, &nf) : NULL;
    UChar *c = f ? n2(NFC, f, nf, &nc) : NULL;
    UChar *nx = n2(NFC, x, nx_, &nn);
    if (!d || !f || !c || !nx) { OUT(" g:icu-failed"); free(d); free(f); free(c); free(nx); if (laws) strcpy(laws, "???"); return; }
    OUT(" g:"); outhexn(x, (size_t) nx_); OUT(":"); outhexn(d, (size_t) nd); OUT(":"); outhexn(f, (size_t) nf);
    OUT(":"); outhexn(c, (size_t) nc); OUT(":"); outhexn(nx, (size_t) nn);
    if (laws) {
        UChar *t1, *t2, *t3, *t4;
        int l1, l2, l3;
        /* nfd_nfc: NFD(NFC y) = NFD y  for y = x and y = f */
        t1 = n2(NFD, nx, nn, &t1n); l1 = same(t1, t1n, d, nd); free(t1);
        t1 = n2(NFD, c, nc, &t1n); t2 = n2(NFD, f, nf, &t2n); l1 = l1 && same(t1, t1n, t2, t2n); free(t1);
        /* nfc_nfd: NFC(NFD y) = NFC y  for y = x and y = f   (t2 = NFD f) */
        t1 = n2(NFC, d, nd, &t1n); l2 = same(t1, t1n, nx, nn); free(t1);
        t1 = n2(NFC, t2, t2n, &t1n); l2 = l2 && same(t1, t1n, c, nc); free(t1);
        /* fold_stable: NFD(fold(NFD(fold(NFD x)))) = NFD(fold(NFD x))   (t2 = NFD(fold(NFD x))) */
        t3 = fold(t2, t2n, &t3n); t4 = t3 ? n2(NFD, t3, t3n, &t4n) : NULL; l3 = same(t4, t4n, t2, t2n);
        free(t2); free(t3); free(t4);
        laws[0] = (char) ('0' + l1); laws[1] = (char) ('0' + l2); laws[2] = (char) ('0' + l3); laws[3] = 0;
    }
    free(d); free(f); free(c); free(nx);
}

static int nonul(const UChar *s, size_t n) { size_t i; for (i = 0; i < n; i++) if (!s[i]) return 0; return 1; }

static void do_cp(const char *h) {
    UChar *x = NULL, *out = NULL, *out2 = NULL, *d, *nx;
    size_t n = 0;
    int rc, idem = 0, inv = 0;
    int32_t nd, nn;
    char laws[8];
    if (!unhex(h, &x, &n) || !x || !nonul(x, n)) { OUT("bad-op"); free(x); return; }
    rc = cif_normalize(x, -1, &out);
    if (rc == CIF_OK) {
        if (cif_normalize(out, -1, &out2) == CIF_OK) { idem = u_strcmp(out, out2) == 0; free(out2); out2 = NULL; }
        d = n2(NFD, x, (int32_t) n, &nd); nx = n2(NFC, x, (int32_t) n, &nn);
        if (d && nx) {
            UChar *o3 = NULL, *o4 = NULL;
            inv = cif_normalize(d, -1, &o3) == CIF_OK && cif_normalize(nx, -1, &o4) == CIF_OK && u_strcmp(o3, out) == 0 && u_strcmp(o4, out) == 0;
            free(o3); free(o4);
        }
        free(d); free(nx);
    }
    OUT("nm rc=%d out=", rc); outhex(out); OUT(" idem=%d inv=%d |", idem, inv);
    graph(x, (int32_t) n, laws);
    OUT(" laws=%s", laws);
    free(out); free(x);
}

static void do_match(const char *kind, const char *ha, const char *hb) {
    static const UChar b0code[] = { 'b', '0', 0 };
    UChar *a = NULL, *b = NULL;
    size_t na = 0, nb = 0;
    cif_tp *cif = NULL;
    cif_block_tp *b0 = NULL;
    int ca = -1, cb = -1, gb = -1;
    if (!unhex(ha, &a, &na) || !unhex(hb, &b, &nb) || !a || !b || !nonul(a, na) || !nonul(b, nb)) { OUT("bad-op"); free(a); free(b); return; }
    if (cif_create(&cif) != CIF_OK || cif_create_block(cif, b0code, &b0) != CIF_OK) {
        OUT("nm setup-failed |");
    } else if (strcmp(kind, "block") == 0) {
        cif_block_tp *x = NULL, *y = NULL, *z = NULL;
        ca = cif_create_block(cif, a, &x);
        gb = cif_get_block(cif, b, &z);
        cb = cif_create_block(cif, b, &y);
        if (x) cif_container_free(x); if (y) cif_container_free(y); if (z) cif_container_free(z);
        OUT("nm ca=%d cb=%d gb=%d |", ca, cb, gb);
    } else if (strcmp(kind, "frame") == 0) {
        cif_frame_tp *x = NULL, *y = NULL, *z = NULL;
        ca = cif_container_create_frame(b0, a, &x);
        gb = cif_container_get_frame(b0, b, &z);
        cb = cif_container_create_frame(b0, b, &y);
        if (x) cif_container_free(x); if (y) cif_container_free(y); if (z) cif_container_free(z);
        OUT("nm ca=%d cb=%d gb=%d |", ca, cb, gb);
    } else if (strcmp(kind, "item") == 0) {
        cif_loop_tp *loop = NULL;
        cif_value_tp *v = NULL;
        UChar *names[2];
        names[0] = b; names[1] = NULL;
        ca = cif_container_set_value(b0, a, NULL);
        gb = cif_container_get_value(b0, b, &v);
        cb = cif_container_create_loop(b0, NULL, names, &loop);          /* a second definition of the item: duplicate iff same name */
        if (v) cif_value_free(v); if (loop) cif_loop_free(loop);
        OUT("nm ca=%d cb=%d gb=%d |", ca, cb, gb);
    } else OUT("bad-op |");
    graph(a, (int32_t) na, NULL);
    graph(b, (int32_t) nb, NULL);
    if (b0) cif_container_free(b0);
    if (cif) (void) cif_destroy(cif);
    free(a); free(b);
}

static int cmp_hexstr(const void *p, const void *q) { return strcmp(*(char * const *) p, *(char * const *) q); }

static char *hexdup(const UChar *s) {
    size_t n = (size_t) u_strlen(s), i;
    char *r = (char *) malloc(4 * n + 2);
    if (n == 0) { strcpy(r, "-"); return r; }
    for (i = 0; i < n; i++) sprintf(r + 4 * i, "%04x", (unsigned) s[i]);
    return r;
}

static void do_map(int argc, char **argv) {
    int is_tbl = strcmp(argv[2], "tbl") == 0, i, nkeys = 0;
    cif_value_tp *tbl = NULL;
    cif_packet_tp *pkt = NULL;
    UChar **keys = (UChar **) calloc((size_t) argc, sizeof(UChar *));
    size_t *klen = (size_t *) calloc((size_t) argc, sizeof(size_t));

    if (!is_tbl && strcmp(argv[2], "pkt") != 0) { OUT("bad-op"); free(keys); free(klen); return; }
    if ((is_tbl ? cif_value_create(CIF_TABLE_KIND, &tbl) : cif_packet_create(&pkt, NULL)) != CIF_OK) { OUT("nm setup-failed"); free(keys); free(klen); return; }
    OUT("nm");
    for (i = 3; i < argc; i++) {
        char *op = argv[i];
        if (strcmp(op, "k") == 0) {
            const UChar **ks = NULL;
            int rc = is_tbl ? cif_value_get_keys(tbl, &ks) : cif_packet_get_names(pkt, &ks);
            if (rc != CIF_OK) { OUT(" k=!%d", rc); }
            else {
                int n = 0, j;
                char **hs;
                while (ks[n]) n++;
                hs = (char **) malloc((size_t) (n + 1) * sizeof(char *));
                for (j = 0; j < n; j++) hs[j] = hexdup(ks[j]);
                qsort(hs, (size_t) n, sizeof(char *), cmp_hexstr);
                OUT(" k=[");
                for (j = 0; j < n; j++) { OUT("%s%s", j ? "," : "", hs[j]); free(hs[j]); }
                OUT("]");
                free(hs);
                free((void *) ks);
            }
        } else if ((op[0] == 's' || op[0] == 'g' || op[0] == 'r') && op[1] == ':') {
            char *hk = op + 2, *tag = NULL;
            UChar *k = NULL;
            size_t nk = 0;
            int rc, j, known = 0;
            if (op[0] == 's') { tag = strchr(hk, ':'); if (!tag) { OUT(" bad-op"); continue; } *tag++ = 0; }
            if (!unhex(hk, &k, &nk) || !k || !nonul(k, nk)) { OUT(" bad-op"); free(k); continue; }
            for (j = 0; j < nkeys; j++) if (klen[j] == nk && memcmp(keys[j], k, nk * sizeof(UChar)) == 0) known = 1;
            if (op[0] == 's') {
                cif_value_tp *v = NULL;
                UChar *t = NULL;
                size_t nt = 0;
                if (!unhex(tag, &t, &nt) || !t || cif_value_create(CIF_UNK_KIND, &v) != CIF_OK || cif_value_init_char(v, t) != CIF_OK) {
                    OUT(" bad-op"); if (v) cif_value_free(v); else free(t);
                } else {
                    rc = is_tbl ? cif_value_set_item_by_key(tbl, k, v) : cif_packet_set_item(pkt, k, v);
                    OUT(" s=%d", rc);
                    cif_value_free(v);
                }
            } else if (op[0] == 'g') {
                cif_value_tp *v = NULL;
                UChar *t = NULL;
                rc = is_tbl ? cif_value_get_item_by_key(tbl, k, &v) : cif_packet_get_item(pkt, k, &v);
                OUT(" g=%d/", rc);
                if (rc == CIF_OK && v && cif_value_kind(v) == CIF_CHAR_KIND && cif_value_get_text(v, &t) == CIF_OK) { outhex(t); free(t); }
                else OUT("~");
            } else {
                rc = is_tbl ? cif_value_remove_item_by_key(tbl, k, NULL) : cif_packet_remove_item(pkt, k, NULL);
                OUT(" r=%d", rc);
            }
            if (!known) { keys[nkeys] = k; klen[nkeys] = nk; nkeys++; } else free(k);
        } else OUT(" bad-op");
    }
    OUT(" |");
    for (i = 0; i < nkeys; i++) { graph(keys[i], (int32_t) klen[i], NULL); free(keys[i]); }
    free(keys); free(klen);
    if (tbl) cif_value_free(tbl);
    if (pkt) cif_packet_free(pkt);
}

static void handle(int argc, char **argv) {
    UErrorCode ec = U_ZERO_ERROR;
    if (!NFD) { NFD = unorm2_getNFDInstance(&ec); NFC = unorm2_getNFCInstance(&ec); }
    if (U_FAILURE(ec) || !NFD || !NFC) { OUT("nm icu-setup-failed"); return; }
    if (argc == 3 && strcmp(argv[1], "cp") == 0) do_cp(argv[2]);
    else if (argc == 5 && strcmp(argv[1], "match") == 0) do_match(argv[2], argv[3], argv[4]);
    else if (argc >= 3 && strcmp(argv[1], "map") == 0) do_map(argc, argv);
    else OUT("bad-op");
}
