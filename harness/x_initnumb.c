/* executor for family `initnumb` (property C10): cif_value_init_numb / cif_value_autoinit_numb on the REAL library.
     initnumb i <val> <su> <scale> <max_leading_zeroes>
     initnumb a <val> <su> <su_rule>
   answer: in rc=<code> msp=<MSP(val) as the library's libm computes it> loc=<0|1> rnd=<0|1>
              [neg= digits=<hex> su=<hex|~> scale= text=<hex> val=<dbl> suv=<dbl> | rp rc= neg= digits= su= scale=]
   loc / rnd: 1 when setlocale(LC_NUMERIC, NULL) / fegetround() differ after the call (the executor runs with
   LC_NUMERIC = "C.UTF-8"); `rp`: the produced text parsed back by cif_value_parse_numb into a fresh value. */
#include "common.h"
#include "x_numb_dbl.h"
#include "value.c"

static void show_fields(cif_value_tp *v) {
    struct numb_value_s *nv = &(v->as_numb);
    OUT(" neg=%d digits=", nv->sign < 0);
    outhexc(nv->digits);
    OUT(" su=");
    outhexc(nv->su_digits);
    OUT(" scale=%d", nv->scale);
}

static void handle(int argc, char **argv) {
    cif_value_tp *v = NULL;
    double val, su;
    int rc, r0, locchg;
    char *loc0, *end;
    numb_env_init();
    if (argc < 5 || !in_dbl(argv[2], &val) || !in_dbl(argv[3], &su) || !isfinite(val) || !isfinite(su)) { OUT("bad-op"); return; }
    if (cif_value_create(CIF_UNK_KIND, &v) != CIF_OK) { OUT("bad-op"); return; }
    loc0 = strdup(setlocale(LC_NUMERIC, NULL));
    r0 = fegetround();
    if (argc == 6 && strcmp(argv[1], "i") == 0) {
        long scale = strtol(argv[4], &end, 10), mlz;
        if (*end) { OUT("bad-op"); goto done; }
        mlz = strtol(argv[5], &end, 10);
        if (*end) { OUT("bad-op"); goto done; }
        rc = cif_value_init_numb(v, val, su, (int) scale, (int) mlz);
    } else if (argc == 5 && strcmp(argv[1], "a") == 0) {
        unsigned long rule = strtoul(argv[4], &end, 10);
        if (*end || rule > 4294967295UL) { OUT("bad-op"); goto done; }
        rc = cif_value_autoinit_numb(v, val, su, (unsigned int) rule);
    } else { OUT("bad-op"); goto done; }
    locchg = strcmp(loc0, setlocale(LC_NUMERIC, NULL)) != 0;
    OUT("in rc=%d msp=%d loc=%d rnd=%d", rc, MSP(val), locchg, fegetround() != r0);
    if (locchg) setlocale(LC_NUMERIC, loc0);
    if (rc == CIF_OK && cif_value_kind(v) == CIF_NUMB_KIND) {
        UChar *text = NULL;
        double d = 0, s = 0;
        show_fields(v);
        cif_value_get_text(v, &text);
        OUT(" text="); outhex(text);
        cif_value_get_number(v, &d);
        cif_value_get_su(v, &s);
        OUT(" val="); out_dbl(d);
        OUT(" suv="); out_dbl(s);
        if (text) {
            cif_value_tp *w = NULL;
            if (cif_value_create(CIF_UNK_KIND, &w) == CIF_OK) {
                int rc2 = cif_value_parse_numb(w, text);
                OUT(" | rp rc=%d", rc2);
                if (rc2 == CIF_OK) show_fields(w); else free(text);
                cif_value_free(w);
            } else free(text);
        }
    }
done:
    free(loc0);
    cif_value_free(v);
}
