/* executor for family `bufscan` (property C08, buffer level): drives the REAL static next_token() of parser.c (and through it
 * scan_ws / scan_to_ws / scan_to_eol / scan_unquoted / scan_delim_string / scan_triple_delim_string / scan_text,
 * get_more_chars) over a scanner_s set up the way cif_parse_internal() sets it up — except that the scan buffer initially
 * has a CHOSEN (small) size — with a read function that delivers a CHOSEN chunking of the document, so that refills, buffer
 * moves and doublings happen in the middle of tokens.
 *
 *   bufscan <dialect 1|2> <initial buffer size >= 2> <policy a|r<k>> <dochex> <cuts> [<ops>]
 *     ops  : what the "parser" does to a token before CONSUME_TOKEN (the token is then printed a second time):
 *            t  TRIM_TOKEN(scanner, 1); ttype = KEY   on every VALUE token longer than one unit (as parse_table on `:x`)
 *            c  next_char -= 1; column -= 1; ttype = QVALUE / TVALUE   on every KEY / TKEY (as parse_list / parse_item)
 *     cuts : `-` one chunk | `*k` chunks of k units | `n1,n2,…` chunk lengths (the remainder is the last chunk)
 *     policy a : the error callback accepts everything;  rK : it returns the error code on its K-th invocation (0-based)
 *
 *   answer: bs toks=<ty>:<hex text>:<line>:<column>,…|- rc=<rc> errs=<code>:<line>:<column>,…|-
 *              buf=<buffer_size>:<buffer_limit>:<next_char>:<text_start>:<tvalue_start>,…|-   (offsets when next_token returned)
 *              ref=<toks/rc/errs of the EOL-normalised document delivered in ONE chunk through a buffer that holds all of it,
 *                   `=` if identical>
 * get_first_char() is called first, as cif_parse_internal() does (with an accepting callback: its CIF_DISALLOWED_INITIAL_CHAR
 * report belongs to C12 and is not part of the token stream); then next_token / CONSUME_TOKEN until END or a non-zero return.
 */
#include "common.h"
#include "parser.c"

struct src {
    const UChar *doc;
    size_t len, pos;
    size_t *ends;          /* chunk end offsets, increasing, last == len */
    size_t nends, cur;
};

static ssize_t src_read(void *vs, UChar *dest, ssize_t count, int *error_code) {
    struct src *s = (struct src *) vs;
    size_t n;
    (void) error_code;
    if (count <= 0 || s->pos >= s->len) return 0;
    while (s->cur < s->nends && s->ends[s->cur] <= s->pos) s->cur++;
    n = s->ends[s->cur] - s->pos;
    if (n > (size_t) count) n = (size_t) count;
    memcpy(dest, s->doc + s->pos, n * sizeof(UChar));
    s->pos += n;
    return (ssize_t) n;
}

static int parse_cuts(const char *spec, size_t len, size_t **ends, size_t *nends) {
    size_t cap = 16, n = 0, pos = 0;
    size_t *e = malloc(cap * sizeof(size_t));
#define PUSH(v) do { if (n == cap) { cap *= 2; e = realloc(e, cap * sizeof(size_t)); } e[n++] = (v); } while (0)
    if (strcmp(spec, "-") == 0) {
        /* one chunk */
    } else if (spec[0] == '*') {
        long k = strtol(spec + 1, NULL, 10);
        if (k <= 0) { free(e); return 0; }
        while (pos + (size_t) k < len) { pos += (size_t) k; PUSH(pos); }
    } else {
        const char *p = spec;
        while (*p) {
            char *q;
            long k = strtol(p, &q, 10);
            if (q == p || k <= 0) { free(e); return 0; }
            if (pos + (size_t) k < len) { pos += (size_t) k; PUSH(pos); }
            p = (*q == ',') ? q + 1 : q;
            if (*q && *q != ',') { free(e); return 0; }
        }
    }
    PUSH(len);
#undef PUSH
    *ends = e; *nends = n;
    return 1;
}

struct elog { FILE *f; int n; long reject_at; };

static int log_error(int code, size_t line, size_t column, const UChar *text, size_t length, void *data) {
    struct elog *l = (struct elog *) data;
    int k = l->n;
    (void) text; (void) length;
    fprintf(l->f, "%s%d:%lu:%lu", l->n ? "," : "", code, (unsigned long) line, (unsigned long) column);
    l->n += 1;
    return (l->reject_at >= 0 && k == l->reject_at) ? code : 0;
}

static int accept_error(int code, size_t line, size_t column, const UChar *text, size_t length, void *data) {
    (void) code; (void) line; (void) column; (void) text; (void) length; (void) data;
    return 0;
}

static cif_handler_tp no_handler;   /* all NULL: the scanner never consults it */

/* one run; returns the malloc'd `toks=… rc=… errs=…` text, and (if bufout) the malloc'd `buf=` field */
static char *run_once(const UChar *doc, size_t len, const char *cuts, int version, size_t bufsize, long reject_at, int op_trim, int op_colon, char **bufout) {
    struct scanner_s scanner;
    struct src source;
    struct elog elog;
    char *errbuf = NULL, *res = NULL, *bbuf = NULL;
    size_t errlen = 0, reslen = 0, blen = 0;
    FILE *rf, *bf;
    int rc, first = 1;

    memset(&source, 0, sizeof(source));
    source.doc = doc; source.len = len;
    if (!parse_cuts(cuts, len, &source.ends, &source.nends)) return NULL;
    elog.f = open_memstream(&errbuf, &errlen); elog.n = 0; elog.reject_at = reject_at;
    rf = open_memstream(&res, &reslen);
    bf = open_memstream(&bbuf, &blen);

    memset(&scanner, 0, sizeof(scanner));
    /* as cif_parse() */
    scanner.char_source = &source;
    scanner.read_func = src_read;
    scanner.at_eof = CIF_FALSE;
    scanner.cif_version = version;
    scanner.line_unfolding = 0;
    scanner.prefix_removing = 0;
    scanner.max_frame_depth = 1;
    scanner.handler = &no_handler;
    scanner.error_callback = accept_error;
    scanner.whitespace_callback = NULL;
    scanner.keyword_callback = NULL;
    scanner.dataname_callback = NULL;
    scanner.user_data = &elog;
    /* as cif_parse_internal(), but with the chosen buffer size */
    scanner.buffer = (UChar *) malloc(bufsize * sizeof(UChar));
    scanner.buffer_size = bufsize;
    scanner.buffer_limit = 0;
    scanner.cr_pending = 0;
    INIT_V2_SCANNER(&scanner, NULL, NULL);
    scanner.next_char = scanner.buffer;
    scanner.text_start = scanner.buffer;
    scanner.tvalue_start = scanner.buffer;
    scanner.tvalue_length = 0;
    if (version == 1) SET_V1(&scanner);

    rc = get_first_char(&scanner);
    scanner.error_callback = log_error;
    if (rc == CIF_OK || rc == CIF_EOF) {
        fprintf(rf, "toks=");
        for (;;) {
            size_t i;
            rc = next_token(&scanner);
            if (rc != CIF_OK) break;
            fprintf(rf, "%s%d:", first ? "" : ",", (int) scanner.ttype);
            if (TVALUE_LENGTH(&scanner) == 0) fputc('-', rf);
            for (i = 0; i < (size_t) TVALUE_LENGTH(&scanner); i++) fprintf(rf, "%04x", (unsigned) TVALUE_START(&scanner)[i]);
            fprintf(rf, ":%lu:%u", (unsigned long) scanner.line, scanner.column);
            fprintf(bf, "%s%zu:%zu:%zu:%zu:%zu", first ? "" : ",", (size_t) scanner.buffer_size, (size_t) scanner.buffer_limit,
                    (size_t) (scanner.next_char - scanner.buffer), (size_t) (scanner.text_start - scanner.buffer),
                    (size_t) (scanner.tvalue_start - scanner.buffer));
            first = 0;
            if (scanner.ttype == END) break;
            if ((op_trim && scanner.ttype == VALUE && TVALUE_LENGTH(&scanner) > 1)
                    || (op_colon && (scanner.ttype == KEY || scanner.ttype == TKEY))) {
                if (scanner.ttype == VALUE) {
                    TRIM_TOKEN(&scanner, 1);
                    scanner.ttype = KEY;
                } else {
                    enum token_type alt = (scanner.ttype == TKEY) ? TVALUE : QVALUE;
                    scanner.next_char -= 1;
                    POSN_INCCOLUMN(&scanner, -1);
                    scanner.ttype = alt;
                }
                fprintf(rf, ",%d:", (int) scanner.ttype);
                if (TVALUE_LENGTH(&scanner) == 0) fputc('-', rf);
                for (i = 0; i < (size_t) TVALUE_LENGTH(&scanner); i++) fprintf(rf, "%04x", (unsigned) TVALUE_START(&scanner)[i]);
                fprintf(rf, ":%lu:%u", (unsigned long) scanner.line, scanner.column);
                fprintf(bf, ",%zu:%zu:%zu:%zu:%zu", (size_t) scanner.buffer_size, (size_t) scanner.buffer_limit,
                        (size_t) (scanner.next_char - scanner.buffer), (size_t) (scanner.text_start - scanner.buffer),
                        (size_t) (scanner.tvalue_start - scanner.buffer));
            }
            CONSUME_TOKEN(&scanner);
        }
        if (first) fputc('-', rf);
    } else {
        fprintf(rf, "toks=!first");
    }
    fclose(elog.f);
    fprintf(rf, " rc=%d errs=%s", rc, elog.n ? errbuf : "-");
    fclose(rf);
    fclose(bf);
    if (bufout) { *bufout = bbuf; bbuf = NULL; }
    free(bbuf); free(errbuf); free(source.ends); free(scanner.buffer);
    return res;
}

/* the independent reference transformation of the property: CR LF -> LF, lone CR -> LF */
static size_t normalize_eol(const UChar *in, size_t n, UChar *out) {
    size_t i, m = 0;
    for (i = 0; i < n; i++) {
        if (in[i] == 0x0d) { out[m++] = 0x0a; if (i + 1 < n && in[i + 1] == 0x0a) i++; }
        else out[m++] = in[i];
    }
    return m;
}

static void handle(int argc, char **argv) {
    UChar *doc = NULL, *norm;
    size_t len = 0, nlen;
    int version;
    long bufsize, reject_at = -1;
    char *obs, *ref, *buf = NULL;

    int op_trim = 0, op_colon = 0;

    if ((argc != 6 && argc != 7) || !unhex(argv[4], &doc, &len) || doc == NULL) { OUT("bad-op"); free(doc); return; }
    if (argc == 7) {
        const char *o;
        for (o = argv[6]; *o; o++) {
            if (*o == 't') op_trim = 1; else if (*o == 'c') op_colon = 1; else { OUT("bad-op"); free(doc); return; }
        }
    }
    version = atoi(argv[1]);
    bufsize = strtol(argv[2], NULL, 10);
    if ((version != 1 && version != 2) || bufsize < 2 || bufsize > 100000000L) { OUT("bad-op"); free(doc); return; }
    if (strcmp(argv[3], "a") == 0) {
        reject_at = -1;
    } else if (argv[3][0] == 'r' && argv[3][1]) {
        char *end;
        reject_at = strtol(argv[3] + 1, &end, 10);
        if (*end || reject_at < 0) { OUT("bad-op"); free(doc); return; }
    } else { OUT("bad-op"); free(doc); return; }

    norm = (UChar *) malloc((len + 1) * sizeof(UChar));
    nlen = normalize_eol(doc, len, norm);
    obs = run_once(doc, len, argv[5], version, (size_t) bufsize, reject_at, op_trim, op_colon, &buf);
    ref = run_once(norm, nlen, "-", version, nlen + 2 * BUF_MIN_FILL + 2, reject_at, op_trim, op_colon, NULL);
    if (!obs || !ref) {
        OUT("bad-op");
    } else {
        OUT("bs %s buf=%s ref=%s", obs, (buf && *buf) ? buf : "-", strcmp(obs, ref) == 0 ? "=" : ref);
    }
    free(obs); free(ref); free(buf); free(norm); free(doc);
}
