/*
 * alloc.h — allocation tracking and single-fault injection for executors (included by common.h when the executor is
 * compiled with -DVERIF_WRAP_ALLOC and linked with -Wl,--wrap=malloc,--wrap=calloc,--wrap=realloc,--wrap=strdup,--wrap=free;
 * tools/check.py adds both unless the family's HARNESS says "no_wrap": True).
 *
 * 1. Leak accounting (property C16).  Every pointer obtained through the wrapped allocators by code linked into the
 *    executor (the library's objects, uthash, the executor itself) is remembered together with the number of the case
 *    (request) during which it was allocated.  When a case ends, verif_case_leaks() counts the pointers allocated during
 *    that case which are still live: exact and deterministic, unlike a conservative scan.  Allocations made inside
 *    shared libraries (libc, ICU, SQLite) are not seen, so their caches cannot cause false alarms.
 * 2. Fault injection (property C17): between verif_arm(cls, k) and verif_disarm() the k-th allocation of class cls
 *    fails (cls 0 = library malloc/calloc/realloc/strdup, 1 = SQLite's allocator, 2 = ICU's allocator), and the pattern of
 *    library allocations / frees is recorded as a compact event string.
 */
#ifndef VERIF_ALLOC_H
#define VERIF_ALLOC_H
#include <stdio.h>
#include <stdlib.h>
#include <string.h>
#include <stdint.h>
#if defined(__SANITIZE_ADDRESS__)
#include <sanitizer/common_interface_defs.h>
#endif

void *__real_malloc(size_t);
void *__real_calloc(size_t, size_t);
void *__real_realloc(void *, size_t);
char *__real_strdup(const char *);
void __real_free(void *);

/* ---- live-pointer table ---------------------------------------------------------------------------------- */
#define VERIF_TBL_BITS 20
#define VERIF_TBL_SIZE (1u << VERIF_TBL_BITS)
static struct { void *p; long tag; void *ra; } *verif_tbl;
static long verif_case = 0;
static int verif_tracking = 1;

static unsigned verif_hash(void *p) { uintptr_t x = (uintptr_t) p; x ^= x >> 17; x *= 0x9E3779B97F4A7C15ull; return (unsigned) (x >> (64 - VERIF_TBL_BITS)); }

static void *verif_cur_ra;
static void verif_track(void *p) {
    unsigned i, n;
    if (!p || !verif_tracking) return;
    if (!verif_tbl) { verif_tbl = __real_calloc(VERIF_TBL_SIZE, sizeof(*verif_tbl)); if (!verif_tbl) return; }
    for (i = verif_hash(p), n = 0; n < VERIF_TBL_SIZE; i = (i + 1) & (VERIF_TBL_SIZE - 1), n++) {
        if (verif_tbl[i].p == NULL || verif_tbl[i].p == (void *) 1 || verif_tbl[i].p == p) { verif_tbl[i].p = p; verif_tbl[i].tag = verif_case; verif_tbl[i].ra = verif_cur_ra; return; }
    }
}

/* returns the case number the pointer was allocated in, or -1 if it is not a tracked pointer */
static long verif_untrack(void *p) {
    unsigned i, n;
    if (!p || !verif_tbl) return -1;
    for (i = verif_hash(p), n = 0; n < VERIF_TBL_SIZE; i = (i + 1) & (VERIF_TBL_SIZE - 1), n++) {
        if (verif_tbl[i].p == NULL) return -1;
        if (verif_tbl[i].p == p) { long t = verif_tbl[i].tag; verif_tbl[i].p = (void *) 1; return t; }
    }
    return -1;
}

static void verif_case_begin(void) { verif_case++; }

/* an executor's own cache that deliberately outlives the request must not count as a leak of that request */
#define VERIF_UNTRACKED(stmt) do { int _vt = verif_tracking; verif_tracking = 0; stmt; verif_tracking = _vt; } while (0)

/* number of tracked pointers allocated during the current case that are still live */
static long verif_case_leaks(void) {
    unsigned i; long n = 0;
    if (!verif_tbl) return 0;
    for (i = 0; i < VERIF_TBL_SIZE; i++) if (verif_tbl[i].p > (void *) 1 && verif_tbl[i].tag == verif_case) {
        n++;
#if defined(__SANITIZE_ADDRESS__)
        if (getenv("VERIF_LEAKSITES")) {       /* diagnostic aid: where was the leaked block allocated? */
            char buf[300]; buf[0] = 0;
            __sanitizer_symbolize_pc(verif_tbl[i].ra, "%s:%l %f", buf, sizeof(buf));
            fprintf(stderr, "VERIF-LEAK-SITE %s\n", buf);
        }
#endif
    }
    return n;
}

/* ---- fault injection ------------------------------------------------------------------------------------- */

static int armed = 0;                 /* inside the call under test */
static int fault_cls = 0;             /* 0 lib, 1 sq, 2 icu */
static long fail_at = 0;
static long counts[3];
static int fired = 0;
static char site[256] = "-";

#define MAXEV 400
static char evbuf[MAXEV * 8];
static int nev = 0, evoverflow = 0;
#define MAXLIVE 4096
static void *live_ptr[MAXLIVE];       /* allocations made by the library during the window: pointer -> ordinal */
static int live_ord[MAXLIVE];
static int nlive = 0;

static void ev(const char *fmt, long a) {
    if (nev >= MAXEV) { evoverflow = 1; return; }
    nev++;
    snprintf(evbuf + strlen(evbuf), 8, fmt, a);
}

static void remember(void *p, long ord) {
    if (p && nlive < MAXLIVE) { live_ptr[nlive] = p; live_ord[nlive] = (int) ord; nlive++; }
}

static long forget(void *p) {
    int i;
    for (i = nlive - 1; i >= 0; i--) if (live_ptr[i] == p) { long o = live_ord[i]; live_ptr[i] = live_ptr[nlive - 1]; live_ord[i] = live_ord[nlive - 1]; nlive--; return o; }
    return -1;
}

static void note_site(void *ra) {
#if defined(__SANITIZE_ADDRESS__)
    char buf[200];
    buf[0] = 0;
    __sanitizer_symbolize_pc(ra, "%s:%f", buf, sizeof(buf));   /* file:function */
    {
        const char *b = strrchr(buf, '/');
        snprintf(site, sizeof(site), "%s", b ? b + 1 : buf);
    }
#else
    snprintf(site, sizeof(site), "%p", ra);
#endif
    fprintf(stderr, "VERIF-FAULT-SITE %s\n", site);
}

/* should this allocation (of class c) fail? */
static int should_fail(int c, void *ra) {
    if (!armed) return 0;
    counts[c]++;
    if (c == fault_cls && fail_at > 0 && counts[c] == fail_at) { fired = 1; note_site(ra); return 1; }
    return 0;
}


void *__wrap_malloc(size_t n) {
    verif_cur_ra = __builtin_return_address(0);
    void *p;
    if (should_fail(0, __builtin_return_address(0))) { ev("X%ld ", counts[0]); return NULL; }
    p = __real_malloc(n);
    verif_track(p);
    if (armed) { ev("A%ld ", counts[0]); remember(p, counts[0]); }
    return p;
}
void *__wrap_calloc(size_t a, size_t b) {
    verif_cur_ra = __builtin_return_address(0);
    void *p;
    if (should_fail(0, __builtin_return_address(0))) { ev("X%ld ", counts[0]); return NULL; }
    p = __real_calloc(a, b);
    verif_track(p);
    if (armed) { ev("A%ld ", counts[0]); remember(p, counts[0]); }
    return p;
}
void *__wrap_realloc(void *q, size_t n) {
    verif_cur_ra = __builtin_return_address(0);
    void *p;
    if (should_fail(0, __builtin_return_address(0))) { ev("X%ld ", counts[0]); return NULL; }
    if (armed && q) { long o = forget(q); if (o >= 0) ev("R%ld ", o); else ev("Rp ", 0); }
    p = __real_realloc(q, n);
    if (p) { verif_untrack(q); verif_track(p); }
    if (armed) { ev("A%ld ", counts[0]); remember(p, counts[0]); }
    return p;
}
char *__wrap_strdup(const char *s) {
    verif_cur_ra = __builtin_return_address(0);
    char *p;
    if (should_fail(0, __builtin_return_address(0))) { ev("X%ld ", counts[0]); return NULL; }
    p = __real_strdup(s);
    verif_track(p);
    if (armed) { ev("A%ld ", counts[0]); remember(p, counts[0]); }
    return p;
}
void __wrap_free(void *p) {
    if (armed && p) { long o = forget(p); if (o >= 0) ev("F%ld ", o); else ev("Fp ", 0); }
    verif_untrack(p);
    __real_free(p);
}

#ifdef VERIF_HOOK_SQLITE_ICU
#include <sqlite3.h>
#include <unicode/uclean.h>
/* SQLite allocator with a size header */
static void *sq_malloc(int n) {
    size_t *p;
    if (should_fail(1, __builtin_return_address(0))) return NULL;
    p = (size_t *) __real_malloc((size_t) n + 16);
    if (!p) return NULL;
    p[0] = (size_t) n;
    return (char *) p + 16;
}
static void sq_free(void *q) { if (q) __real_free((char *) q - 16); }
static void *sq_realloc(void *q, int n) {
    size_t *p;
    if (should_fail(1, __builtin_return_address(0))) return NULL;
    p = (size_t *) __real_realloc(q ? (char *) q - 16 : NULL, (size_t) n + 16);
    if (!p) return NULL;
    p[0] = (size_t) n;
    return (char *) p + 16;
}
static int sq_size(void *q) { return q ? (int) ((size_t *) ((char *) q - 16))[0] : 0; }
static int sq_roundup(int n) { return (n + 7) & ~7; }
static int sq_init(void *x) { (void) x; return 0; }
static void sq_shutdown(void *x) { (void) x; }

static void *icu_alloc(const void *ctx, size_t n) { (void) ctx; if (should_fail(2, __builtin_return_address(0))) return NULL; return __real_malloc(n); }
static void *icu_realloc(const void *ctx, void *p, size_t n) { (void) ctx; if (should_fail(2, __builtin_return_address(0))) return NULL; return __real_realloc(p, n); }
static void icu_free(const void *ctx, void *p) { (void) ctx; __real_free(p); }

static int sq_hooked = 0, icu_hooked = 0;

__attribute__((constructor)) static void install_allocators(void) {
    static const sqlite3_mem_methods m = { sq_malloc, sq_free, sq_realloc, sq_size, sq_roundup, sq_init, sq_shutdown, NULL };
    UErrorCode st = U_ZERO_ERROR;
    sq_hooked = (sqlite3_config(SQLITE_CONFIG_MALLOC, &m) == SQLITE_OK);
    u_setMemoryFunctions(NULL, icu_alloc, icu_realloc, icu_free, &st);
    icu_hooked = U_SUCCESS(st);
}


#endif /* VERIF_HOOK_SQLITE_ICU */

static void verif_arm(int cls, long k) {
    fault_cls = cls; fail_at = k; counts[0] = counts[1] = counts[2] = 0; fired = 0; nev = 0; evoverflow = 0; evbuf[0] = 0; nlive = 0;
    strcpy(site, "-");
}
#define ARM() do { armed = 1; } while (0)
#define DISARM() do { armed = 0; } while (0)

#endif
