/*
 * executor for families `store` (C04, C05) and `iter` (C06): one request = one whole history of public API calls on up
 * to a few managed CIFs; the observation is, per op, the return code, the canonical query result, the autocommit
 * status of every live CIF and a canonical dump of every live CIF (`=` when it equals the previous dump of that CIF).
 *
 * Request:   store <op> <op> ...          (family word `iter` is accepted as well: same language)
 *   NAME  ::= <orighex>/<normhex>/<valid 0|1>[/L]  |  ~     the executor uses the original spelling only; the suffix /L
 *             (mkblock / mkframe only) makes the call the LENIENT one the parser uses after its error callback accepted an
 *             invalid code: cif_create_block_internal / cif_container_create_frame_internal with lenient = 1
 *   CAT   ::= <hex> | - | ~
 *   VALUE ::= value of harness/cifio.h | ~                   (~ = NULL pointer where the API allows one)
 *   ops (c = CIF slot, H = container-handle index, L = loop-handle index, I = iterator index; every op that can return
 *        a handle appends ONE entry to the respective table, a dead one when the call failed):
 *     cif+ | cif- c
 *     mkblock c NAME | getblock c NAME | blocks c
 *     mkframe H NAME | getframe H NAME | frames H | cdestroy H | code H | isblock H
 *     mkloop H CAT n NAME{n} | catloop H CAT | itemloop H NAME | loops H | prune H
 *     getval H NAME | setval H NAME VALUE | rmitem H NAME
 *     ldestroy L | getcat L | setcat L CAT | names L | additem L NAME VALUE | addpkt L n (NAME VALUE){n}
 *     itopen L | itnext I | itnextp I n (NAME VALUE){n} m NAME{m} | itupd I n (NAME VALUE){n} | itrem I | itclose I | itabort I
 *   Ops whose handle is dead (or whose execution would be a use-after-free on the CALLER's side: destroying a container
 *   or loop handle from which an open iterator derives) are not executed and answered `rc=-`.
 *
 * Answer:    st | rc=<n|-> [result] ; ac=<bits> <slot>:<dump|=> ... | ...
 */
#include "cifio.h"
#include <sqlite3.h>
#include "internal/ciftypes.h"
#include "internal/utils.h"
#include "internal/value.h"
#include "internal/sql.h"

#define MAXN 512
typedef struct { cif_tp *cif; char *last; } cif_slot;
typedef struct { cif_container_tp *h; int cif; } ch_slot;
typedef struct { cif_loop_tp *h; int cif; int ch; } lh_slot;
typedef struct { cif_pktitr_tp *h; int cif; int lh; } it_slot;

static cif_slot cifs[MAXN]; static int ncif;
static ch_slot chs[MAXN]; static int nch;
static lh_slot lhs[MAXN]; static int nlh;
static it_slot its[MAXN]; static int nit;

/* ---- raw (SQL level) canonical dump, used while a transaction is open on the CIF (the public packet iterator cannot be
   used then); same text as fdump_cif(canon = 1) ------------------------------------------------------------------- */

static void raw_loop(FILE *f, sqlite3 *db, sqlite3_int64 cid, int loop_num, const UChar *cat) {
    sqlite3_stmt *st = NULL;
    UChar *norm[64], *orig[64];
    int n = 0, i, j;
    if (sqlite3_prepare_v2(db, "select name, name_orig from loop_item where container_id = ? and loop_num = ?", -1, &st, NULL) != SQLITE_OK) { fprintf(f, " L:!sql"); return; }
    sqlite3_bind_int64(st, 1, cid); sqlite3_bind_int(st, 2, loop_num);
    while (sqlite3_step(st) == SQLITE_ROW && n < 64) {
        norm[n] = cif_u_strdup((const UChar *) sqlite3_column_text16(st, 0));
        orig[n] = cif_u_strdup((const UChar *) sqlite3_column_text16(st, 1));
        n++;
    }
    sqlite3_finalize(st);
    if (n == 0) { fprintf(f, " L:!names"); return; }
    for (i = 1; i < n; i++) for (j = i; j > 0 && u_strcmp(orig[j - 1], orig[j]) > 0; j--) {
        UChar *t = orig[j]; orig[j] = orig[j - 1]; orig[j - 1] = t; t = norm[j]; norm[j] = norm[j - 1]; norm[j - 1] = t;
    }
    fprintf(f, " L:"); fhex(f, cat); fprintf(f, ":%d", n);
    for (i = 0; i < n; i++) { fprintf(f, " "); fhex(f, orig[i]); }
    if (sqlite3_prepare_v2(db, GET_LOOP_VALUES_SQL, -1, &st, NULL) == SQLITE_OK) {
        char *cell[64]; int have = 0, cur = 0, rc;
        sqlite3_bind_int64(st, 1, cid); sqlite3_bind_int(st, 2, loop_num);
        for (i = 0; i < n; i++) cell[i] = NULL;
        for (;;) {
            rc = sqlite3_step(st);
            if (rc != SQLITE_ROW || (have && sqlite3_column_int(st, 0) != cur)) {
                if (have) { fprintf(f, " P"); for (i = 0; i < n; i++) { fprintf(f, " %s", cell[i] ? cell[i] : "U"); free(cell[i]); cell[i] = NULL; } }
                have = 0;
            }
            if (rc != SQLITE_ROW) break;
            cur = sqlite3_column_int(st, 0); have = 1;
            {
                FAILURE_HANDLING;
                const UChar *nm = (const UChar *) sqlite3_column_text16(st, 1);
                cif_value_tp *v = NULL;
                size_t sz = 0; char *txt = NULL; FILE *m;
                for (i = 0; i < n && u_strcmp(norm[i], nm) != 0; i++) ;
                if (i == n || cif_value_create(CIF_UNK_KIND, &v) != CIF_OK) continue;
                m = open_memstream(&txt, &sz);
                GET_VALUE_PROPS(st, 2, v, rawv);
                fdump_value(m, v);
                if (0) { FAILURE_HANDLER(rawv): v->kind = CIF_UNK_KIND; fprintf(m, "!val%d", _error_code); }
                fclose(m);
                cif_value_free(v);
                free(cell[i]); cell[i] = txt;
            }
        }
        sqlite3_finalize(st);
    } else fprintf(f, " !sql");
    fprintf(f, " Z");
    for (i = 0; i < n; i++) { free(norm[i]); free(orig[i]); }
}

static void raw_sorted(FILE *f, char **texts, int n) {
    int i;
    qsort(texts, n, sizeof(char *), cmp_cstr);
    for (i = 0; i < n; i++) { fputs(texts[i], f); free(texts[i]); }
}

static void raw_container(FILE *f, sqlite3 *db, sqlite3_int64 cid, const UChar *code, int is_block) {
    sqlite3_stmt *st = NULL;
    char *texts[256]; int n = 0;
    fprintf(f, " %c:", is_block ? 'B' : 'F'); fhex(f, code);
    if (sqlite3_prepare_v2(db, "select container_id, name_orig from save_frame where parent_id = ?", -1, &st, NULL) == SQLITE_OK) {
        sqlite3_bind_int64(st, 1, cid);
        while (sqlite3_step(st) == SQLITE_ROW && n < 256) {
            size_t sz = 0; FILE *m = open_memstream(&texts[n], &sz);
            raw_container(m, db, sqlite3_column_int64(st, 0), (const UChar *) sqlite3_column_text16(st, 1), 0);
            fclose(m); n++;
        }
        sqlite3_finalize(st);
        raw_sorted(f, texts, n);
    } else fprintf(f, " !frames");
    n = 0;
    if (sqlite3_prepare_v2(db, "select loop_num, category from loop where container_id = ?", -1, &st, NULL) == SQLITE_OK) {
        sqlite3_bind_int64(st, 1, cid);
        while (sqlite3_step(st) == SQLITE_ROW && n < 256) {
            size_t sz = 0; FILE *m = open_memstream(&texts[n], &sz);
            raw_loop(m, db, cid, sqlite3_column_int(st, 0), (const UChar *) sqlite3_column_text16(st, 1));
            fclose(m); n++;
        }
        sqlite3_finalize(st);
        raw_sorted(f, texts, n);
    } else fprintf(f, " !loops");
    fprintf(f, " E");
}

static void raw_cif(FILE *f, cif_tp *cif) {
    sqlite3_stmt *st = NULL;
    char *texts[256]; int n = 0;
    if (sqlite3_prepare_v2(cif->db, "select container_id, name_orig from data_block", -1, &st, NULL) != SQLITE_OK) { fprintf(f, " !blocks"); return; }
    while (sqlite3_step(st) == SQLITE_ROW && n < 256) {
        size_t sz = 0; FILE *m = open_memstream(&texts[n], &sz);
        raw_container(m, cif->db, sqlite3_column_int64(st, 0), (const UChar *) sqlite3_column_text16(st, 1), 1);
        fclose(m); n++;
    }
    sqlite3_finalize(st);
    raw_sorted(f, texts, n);
}

/* ---- request parsing helpers ------------------------------------------------------------------------------------------ */

static char **av; static int ac_, pos;
static int bad;

static const char *tok(void) { if (pos >= ac_) { bad = 1; return "~"; } return av[pos++]; }
static int tokint(void) { const char *t = tok(); char *e; long v = strtol(t, &e, 10); if (*e || e == t) bad = 1; return (int) v; }

/* NAME: original spelling (NULL for ~); caller frees */
static UChar *tokname(void) {
    char *t = strdup(tok()), *sl; UChar *u = NULL;
    if (strcmp(t, "~") != 0) { sl = strchr(t, '/'); if (sl) *sl = 0; else bad = 1; }
    if (!unhex(t, &u, NULL)) bad = 1;
    free(t);
    return u;
}
/* NAME of mkblock / mkframe: *lenient = 1 when the token ends in "/L" */
static UChar *tokname_len(int *lenient) {
    size_t n;
    *lenient = 0;
    if (pos < ac_) { n = strlen(av[pos]); if (n >= 2 && av[pos][n - 2] == '/' && av[pos][n - 1] == 'L') *lenient = 1; }
    return tokname();
}
static UChar *tokcat(void) { UChar *u = NULL; if (!unhex(tok(), &u, NULL)) bad = 1; return u; }
/* VALUE or ~ ; *isnull tells which */
static cif_value_tp *tokvalue(int *isnull) {
    int rc; cif_value_tp *v;
    *isnull = 0;
    if (pos < ac_ && strcmp(av[pos], "~") == 0) { pos++; *isnull = 1; return NULL; }
    v = build_value(av, ac_, &pos, &rc);
    if (!v) bad = 1;
    return v;
}

static cif_packet_tp *tokpacket(void) {
    int n = tokint(), i, isnull; cif_packet_tp *p = NULL;
    if (bad || cif_packet_create(&p, NULL) != CIF_OK) { bad = 1; return NULL; }
    for (i = 0; i < n && !bad; i++) {
        UChar *nm = tokname(); cif_value_tp *v = tokvalue(&isnull);
        if (!bad && nm && cif_packet_set_item(p, nm, v) != CIF_OK) bad = 1;   /* generators use valid names in packets */
        free(nm); if (v) cif_value_free(v);
    }
    return p;
}

static void out_sorted_strs(UChar **s, int n) {       /* prints and frees */
    int i;
    qsort(s, n, sizeof(UChar *), cmp_ustr);
    for (i = 0; i < n; i++) { OUT(" "); outhex(s[i]); free(s[i]); }
}

static int live_c(int c) { return c >= 0 && c < ncif && cifs[c].cif; }
static int live_h(int h) { return h >= 0 && h < nch && chs[h].h && live_c(chs[h].cif); }
static int live_l(int l) { return l >= 0 && l < nlh && lhs[l].h && live_h(lhs[l].ch); }
static int live_i(int i) { return i >= 0 && i < nit && its[i].h && live_l(its[i].lh); }

static void push_ch(cif_container_tp *h, int c) { if (nch < MAXN) { chs[nch].h = h; chs[nch].cif = c; nch++; } else if (h) cif_container_free(h); }
static void push_lh(cif_loop_tp *h, int c, int ch) { if (nlh < MAXN) { lhs[nlh].h = h; lhs[nlh].cif = c; lhs[nlh].ch = ch; nlh++; } else if (h) cif_loop_free(h); }

static void kill_ch(int h) {      /* the container handle object is gone: loop handles made from it dangle */
    int l;
    for (l = 0; l < nlh; l++) if (lhs[l].h && lhs[l].ch == h) { cif_loop_free(lhs[l].h); lhs[l].h = NULL; }
    chs[h].h = NULL;
}
static int it_on_lh(int l) { int i; for (i = 0; i < nit; i++) if (its[i].h && its[i].lh == l) return 1; return 0; }
static int it_on_ch(int h) { int i; for (i = 0; i < nit; i++) if (its[i].h && lhs[its[i].lh].ch == h) return 1; return 0; }

static void destroy_cif(int c) {
    int i;
    for (i = 0; i < nit; i++) if (its[i].h && its[i].cif == c) { cif_pktitr_abort(its[i].h); its[i].h = NULL; }
    for (i = 0; i < nlh; i++) if (lhs[i].h && lhs[i].cif == c) { cif_loop_free(lhs[i].h); lhs[i].h = NULL; }
    for (i = 0; i < nch; i++) if (chs[i].h && chs[i].cif == c) { cif_container_free(chs[i].h); chs[i].h = NULL; }
    cif_destroy(cifs[c].cif); cifs[c].cif = NULL;
    free(cifs[c].last); cifs[c].last = NULL;
}

/* ---- single allocation fault during one op (family `storefault`, property C17): `fault <cls> <k>` before an op makes the k-th
   allocation of class cls (1 = SQLite's allocator, 2 = ICU's) fail during that op; the step then carries ` !fault<fired>` --- */
static int fault_pending = 0, fault_active = 0, fault_cls_req = 1;
static long fault_k_req = 0;

static void observe(void) {
    int c;
#ifdef VERIF_HOOK_SQLITE_ICU
    if (fault_active) { DISARM(); fail_at = 0; OUT(" !fault%d", fired); fault_active = 0; }
#endif
    OUT(" ; ac=");
    for (c = 0; c < ncif; c++) OUT("%c", cifs[c].cif ? (sqlite3_get_autocommit(cifs[c].cif->db) ? '1' : '0') : 'x');
    for (c = 0; c < ncif; c++) if (cifs[c].cif) {
        char *txt = NULL; size_t sz = 0; FILE *m = open_memstream(&txt, &sz);
        if (sqlite3_get_autocommit(cifs[c].cif->db)) fdump_cif(m, cifs[c].cif, 1); else raw_cif(m, cifs[c].cif);
        fclose(m);
        if (cifs[c].last && strcmp(cifs[c].last, txt) == 0) { OUT(" %d:=", c); free(txt); }
        else { OUT(" %d:%s", c, txt); free(cifs[c].last); cifs[c].last = txt; }
    }
}

#define SKIP() do { OUT(" | rc=-"); goto observed; } while (0)

static void handle(int argc, char **argv) {
    int i;
    av = argv; ac_ = argc; pos = 1; bad = 0;
    ncif = nch = nlh = nit = 0;
    OUT("st");
    fault_pending = fault_active = 0;
    while (pos < argc && !bad) {
        const char *op = tok();
#ifdef VERIF_HOOK_SQLITE_ICU
        if (strcmp(op, "fault") == 0) {            /* applies to the next op */
            fault_cls_req = tokint(); fault_k_req = tokint();
            if (bad || fault_cls_req < 1 || fault_cls_req > 2 || pos >= argc) { bad = 1; break; }
            fault_pending = 1;
            op = tok();
        }
        if (fault_pending) { fault_pending = 0; fault_active = 1; verif_arm(fault_cls_req, fault_k_req); ARM(); }
#endif
        if (strcmp(op, "cif+") == 0) {
            cif_tp *cif = NULL; int rc = cif_create(&cif);
            if (ncif >= MAXN) { bad = 1; break; }
            cifs[ncif].cif = rc == CIF_OK ? cif : NULL; cifs[ncif].last = NULL; ncif++;
            OUT(" | rc=%d", rc);
        } else if (strcmp(op, "cif-") == 0) {
            int c = tokint(); if (bad) break;
            if (!live_c(c)) SKIP();
            destroy_cif(c); OUT(" | rc=0");
        } else if (strcmp(op, "mkblock") == 0 || strcmp(op, "getblock") == 0) {
            int len = 0, c = tokint(); UChar *nm = tokname_len(&len); cif_block_tp *b = NULL; int rc;
            if (bad || (len && (op[0] != 'm' || !nm))) { bad = 1; free(nm); break; }
            if (!live_c(c)) { free(nm); push_ch(NULL, c); SKIP(); }
            rc = op[0] != 'm' ? cif_get_block(cifs[c].cif, nm, &b)
               : len ? cif_create_block_internal(cifs[c].cif, nm, 1, &b) : cif_create_block(cifs[c].cif, nm, &b);
            free(nm);
            push_ch(rc == CIF_OK ? b : NULL, c);
            OUT(" | rc=%d", rc);
        } else if (strcmp(op, "blocks") == 0) {
            int c = tokint(), rc, n = 0; cif_block_tp **bs = NULL; UChar *codes[MAXN];
            if (bad) break;
            if (!live_c(c)) SKIP();
            rc = cif_get_all_blocks(cifs[c].cif, &bs);
            OUT(" | rc=%d", rc);
            if (rc == CIF_OK) {
                for (i = 0; bs[i]; i++) { if (n < MAXN) { codes[n] = NULL; cif_container_get_code(bs[i], &codes[n]); n++; } cif_container_free(bs[i]); }
                free(bs); out_sorted_strs(codes, n);
            }
        } else if (strcmp(op, "mkframe") == 0 || strcmp(op, "getframe") == 0) {
            int len = 0, h = tokint(); UChar *nm = tokname_len(&len); cif_frame_tp *fr = NULL; int rc;
            if (bad || (len && (op[0] != 'm' || !nm))) { bad = 1; free(nm); break; }
            if (!live_h(h)) { free(nm); push_ch(NULL, 0); SKIP(); }
            rc = op[0] != 'm' ? cif_container_get_frame(chs[h].h, nm, &fr)
               : len ? cif_container_create_frame_internal(chs[h].h, nm, 1, &fr) : cif_container_create_frame(chs[h].h, nm, &fr);
            free(nm);
            push_ch(rc == CIF_OK ? fr : NULL, chs[h].cif);
            OUT(" | rc=%d", rc);
        } else if (strcmp(op, "frames") == 0) {
            int h = tokint(), rc, n = 0; cif_frame_tp **fs = NULL; UChar *codes[MAXN];
            if (bad) break;
            if (!live_h(h)) SKIP();
            rc = cif_container_get_all_frames(chs[h].h, &fs);
            OUT(" | rc=%d", rc);
            if (rc == CIF_OK) {
                for (i = 0; fs[i]; i++) { if (n < MAXN) { codes[n] = NULL; cif_container_get_code(fs[i], &codes[n]); n++; } cif_container_free(fs[i]); }
                free(fs); out_sorted_strs(codes, n);
            }
        } else if (strcmp(op, "cdestroy") == 0) {
            int h = tokint(), rc; if (bad) break;
            if (!live_h(h) || it_on_ch(h)) SKIP();
            rc = cif_container_destroy(chs[h].h);
            if (rc == CIF_OK || rc == CIF_INVALID_HANDLE) kill_ch(h);     /* the library released the handle object */
            OUT(" | rc=%d", rc);
        } else if (strcmp(op, "code") == 0) {
            int h = tokint(), rc; UChar *code = NULL; if (bad) break;
            if (!live_h(h)) SKIP();
            rc = cif_container_get_code(chs[h].h, &code);
            OUT(" | rc=%d ", rc); if (rc == CIF_OK) { outhex(code); free(code); }
        } else if (strcmp(op, "isblock") == 0) {
            int h = tokint(); if (bad) break;
            if (!live_h(h)) SKIP();
            OUT(" | rc=%d", cif_container_assert_block(chs[h].h));
        } else if (strcmp(op, "mkloop") == 0) {
            int h = tokint(); UChar *cat = tokcat(); int n = tokint(), rc; UChar *names[65]; cif_loop_tp *lp = NULL;
            if (bad || n < 0 || n > 64) { free(cat); bad = 1; break; }
            for (i = 0; i < n; i++) names[i] = tokname();
            names[n] = NULL;
            if (bad || !live_h(h)) { for (i = 0; i < n; i++) free(names[i]); free(cat); if (bad) break; push_lh(NULL, 0, h); SKIP(); }
            /* a NULL name inside the list would end it early for the C: generators never send one */
            rc = cif_container_create_loop(chs[h].h, cat, names, &lp);
            for (i = 0; i < n; i++) free(names[i]);
            free(cat);
            push_lh(rc == CIF_OK ? lp : NULL, chs[h].cif, h);
            OUT(" | rc=%d", rc);
        } else if (strcmp(op, "catloop") == 0) {
            int h = tokint(), rc; UChar *cat = tokcat(); cif_loop_tp *lp = NULL;
            if (bad) { free(cat); break; }
            if (!live_h(h)) { free(cat); push_lh(NULL, 0, h); SKIP(); }
            rc = cif_container_get_category_loop(chs[h].h, cat, &lp);
            free(cat);
            push_lh(rc == CIF_OK ? lp : NULL, chs[h].cif, h);
            OUT(" | rc=%d", rc);
        } else if (strcmp(op, "itemloop") == 0) {
            int h = tokint(), rc; UChar *nm = tokname(); cif_loop_tp *lp = NULL;
            if (bad) { free(nm); break; }
            if (!live_h(h)) { free(nm); push_lh(NULL, 0, h); SKIP(); }
            rc = cif_container_get_item_loop(chs[h].h, nm, &lp);
            free(nm);
            push_lh(rc == CIF_OK ? lp : NULL, chs[h].cif, h);
            OUT(" | rc=%d", rc);
            if (rc == CIF_OK) { UChar *cat = NULL; cif_loop_get_category(lp, &cat); OUT(" "); outhex(cat); free(cat); }
        } else if (strcmp(op, "loops") == 0) {
            int h = tokint(), rc, n = 0; cif_loop_tp **ls = NULL; char *texts[MAXN];
            if (bad) break;
            if (!live_h(h)) SKIP();
            rc = cif_container_get_all_loops(chs[h].h, &ls);
#ifdef VERIF_HOOK_SQLITE_ICU
            DISARM();          /* the fault is meant for the call above, not for the get_names calls that print its result */
#endif
            OUT(" | rc=%d", rc);
            if (rc == CIF_OK) {
                for (i = 0; ls[i]; i++) {
                    UChar *cat = NULL, **nms = NULL; size_t sz = 0; FILE *m; int k, cnt = 0;
                    if (n >= MAXN) { cif_loop_free(ls[i]); continue; }
                    m = open_memstream(&texts[n], &sz);
                    cif_loop_get_category(ls[i], &cat);
                    fprintf(m, " "); fhex(m, cat); free(cat);
                    if (cif_loop_get_names(ls[i], &nms) == CIF_OK) {
                        while (nms[cnt]) cnt++;
                        qsort(nms, cnt, sizeof(UChar *), cmp_ustr);
                        for (k = 0; k < cnt; k++) { fprintf(m, ","); fhex(m, nms[k]); free(nms[k]); }
                        free(nms);
                    } else fprintf(m, ",!");
                    fclose(m); n++;
                    cif_loop_free(ls[i]);
                }
                free(ls);
                qsort(texts, n, sizeof(char *), cmp_cstr);
                for (i = 0; i < n; i++) { OUT("%s", texts[i]); free(texts[i]); }
            }
        } else if (strcmp(op, "prune") == 0) {
            int h = tokint(); if (bad) break;
            if (!live_h(h)) SKIP();
            OUT(" | rc=%d", cif_container_prune(chs[h].h));
        } else if (strcmp(op, "getval") == 0) {
            int h = tokint(), rc; UChar *nm = tokname(); cif_value_tp *v = NULL;
            if (bad) { free(nm); break; }
            if (!live_h(h) || !nm) { free(nm); SKIP(); }
            rc = cif_container_get_value(chs[h].h, nm, &v);
            free(nm);
            OUT(" | rc=%d", rc);
            if (v) { if (rc == CIF_OK || rc == CIF_AMBIGUOUS_ITEM) { OUT(" "); dump_value(v); } cif_value_free(v); }
        } else if (strcmp(op, "setval") == 0) {
            int h = tokint(), rc, isnull; UChar *nm = tokname(); cif_value_tp *v = tokvalue(&isnull);
            if (bad) { free(nm); if (v) cif_value_free(v); break; }
            if (!live_h(h)) { free(nm); if (v) cif_value_free(v); SKIP(); }
            rc = cif_container_set_value(chs[h].h, nm, v);
            free(nm); if (v) cif_value_free(v);
            OUT(" | rc=%d", rc);
        } else if (strcmp(op, "rmitem") == 0) {
            int h = tokint(), rc; UChar *nm = tokname();
            if (bad) { free(nm); break; }
            if (!live_h(h)) { free(nm); SKIP(); }
            rc = cif_container_remove_item(chs[h].h, nm);
            free(nm);
            OUT(" | rc=%d", rc);
        } else if (strcmp(op, "ldestroy") == 0) {
            int l = tokint(), rc; if (bad) break;
            if (!live_l(l) || it_on_lh(l)) SKIP();
            rc = cif_loop_destroy(lhs[l].h);
            if (rc == CIF_OK) lhs[l].h = NULL;                     /* released by the library on success only */
            OUT(" | rc=%d", rc);
        } else if (strcmp(op, "getcat") == 0) {
            int l = tokint(), rc; UChar *cat = NULL; if (bad) break;
            if (!live_l(l)) SKIP();
            rc = cif_loop_get_category(lhs[l].h, &cat);
            OUT(" | rc=%d ", rc); if (rc == CIF_OK) { outhex(cat); free(cat); }
        } else if (strcmp(op, "setcat") == 0) {
            int l = tokint(), rc; UChar *cat = tokcat();
            if (bad) { free(cat); break; }
            if (!live_l(l)) { free(cat); SKIP(); }
            rc = cif_loop_set_category(lhs[l].h, cat);
            free(cat);
            OUT(" | rc=%d", rc);
        } else if (strcmp(op, "names") == 0) {
            int l = tokint(), rc, n = 0; UChar **nms = NULL; if (bad) break;
            if (!live_l(l)) SKIP();
            rc = cif_loop_get_names(lhs[l].h, &nms);
            OUT(" | rc=%d", rc);
            if (rc == CIF_OK) { while (nms[n]) n++; out_sorted_strs(nms, n); free(nms); }
        } else if (strcmp(op, "additem") == 0) {
            int l = tokint(), rc, isnull; UChar *nm = tokname(); cif_value_tp *v = tokvalue(&isnull);
            if (bad) { free(nm); if (v) cif_value_free(v); break; }
            if (!live_l(l) || !nm) { free(nm); if (v) cif_value_free(v); SKIP(); }
            rc = cif_loop_add_item(lhs[l].h, nm, v);
            free(nm); if (v) cif_value_free(v);
            OUT(" | rc=%d", rc);
        } else if (strcmp(op, "addpkt") == 0) {
            int l = tokint(), rc; cif_packet_tp *p = tokpacket();
            if (bad) { if (p) cif_packet_free(p); break; }
            if (!live_l(l)) { cif_packet_free(p); SKIP(); }
            rc = cif_loop_add_packet(lhs[l].h, p);
            cif_packet_free(p);
            OUT(" | rc=%d", rc);
        } else if (strcmp(op, "itopen") == 0) {
            int l = tokint(), rc; cif_pktitr_tp *it = NULL; if (bad) break;
            if (nit >= MAXN) { bad = 1; break; }
            if (!live_l(l)) { its[nit].h = NULL; its[nit].cif = 0; its[nit].lh = l; nit++; SKIP(); }
            rc = cif_loop_get_packets(lhs[l].h, &it);
            its[nit].h = rc == CIF_OK ? it : NULL; its[nit].cif = lhs[l].cif; its[nit].lh = l; nit++;
            OUT(" | rc=%d", rc);
        } else if (strcmp(op, "itnext") == 0) {
            int k = tokint(), rc; cif_packet_tp *p = NULL; if (bad) break;
            if (!live_i(k)) SKIP();
            rc = cif_pktitr_next_packet(its[k].h, &p);
            OUT(" | rc=%d", rc);
            if (rc == CIF_OK && p) {
                const UChar **keys = NULL; int n = 0;
                if (cif_packet_get_names(p, &keys) == CIF_OK) {
                    const UChar *srt[MAXN];
                    while (keys[n] && n < MAXN) { srt[n] = keys[n]; n++; }
                    qsort(srt, n, sizeof(UChar *), cmp_ustr);
                    for (i = 0; i < n; i++) { cif_value_tp *v = NULL; OUT(" "); outhex(srt[i]); OUT("="); if (cif_packet_get_item(p, srt[i], &v) == CIF_OK) dump_value(v); else OUT("!"); }
                    free(keys);
                }
            }
            if (p) cif_packet_free(p);
        } else if (strcmp(op, "itnextp") == 0) {
            /* next with a CALLER-SUPPLIED packet: itnextp I n (NAME VALUE){n} m NAME{m} — the packet is built from the n pairs,
               handed to cif_pktitr_next_packet, and afterwards asked for its names and for each of the m probe names */
            int k = tokint(), rc, m, j; cif_packet_tp *p = tokpacket(); UChar *probes[64];
            m = bad ? 0 : tokint();
            if (bad || m < 0 || m > 64) { if (p) cif_packet_free(p); bad = 1; break; }
            for (j = 0; j < m; j++) probes[j] = tokname();
            if (bad || !live_i(k)) { for (j = 0; j < m; j++) free(probes[j]); cif_packet_free(p); if (bad) break; SKIP(); }
            rc = cif_pktitr_next_packet(its[k].h, &p);
            OUT(" | rc=%d", rc);
            if (rc == CIF_OK && p) {
                const UChar **keys = NULL; int n = 0;
                if (cif_packet_get_names(p, &keys) == CIF_OK) {
                    const UChar *srt[MAXN];
                    while (keys[n] && n < MAXN) { srt[n] = keys[n]; n++; }
                    qsort(srt, n, sizeof(UChar *), cmp_ustr);
                    for (i = 0; i < n; i++) { OUT(" N:"); outhex(srt[i]); }
                    free(keys);
                } else OUT(" N:!");
                for (j = 0; j < m; j++) {
                    cif_value_tp *v = NULL; int r2;
                    OUT(" "); outhex(probes[j]); OUT("=");
                    r2 = probes[j] ? cif_packet_get_item(p, probes[j], &v) : -1;
                    if (r2 == CIF_OK) dump_value(v); else OUT("!%d", r2);
                }
            }
            for (j = 0; j < m; j++) free(probes[j]);
            if (p) cif_packet_free(p);
        } else if (strcmp(op, "itupd") == 0) {
            int k = tokint(), rc; cif_packet_tp *p = tokpacket();
            if (bad) { if (p) cif_packet_free(p); break; }
            if (!live_i(k)) { cif_packet_free(p); SKIP(); }
            rc = cif_pktitr_update_packet(its[k].h, p);
            cif_packet_free(p);
            OUT(" | rc=%d", rc);
        } else if (strcmp(op, "itrem") == 0) {
            int k = tokint(); if (bad) break;
            if (!live_i(k)) SKIP();
            OUT(" | rc=%d", cif_pktitr_remove_packet(its[k].h));
        } else if (strcmp(op, "itclose") == 0 || strcmp(op, "itabort") == 0) {
            int k = tokint(), rc; if (bad) break;
            if (!live_i(k)) SKIP();
            rc = op[2] == 'c' ? cif_pktitr_close(its[k].h) : cif_pktitr_abort(its[k].h);
            its[k].h = NULL;
            OUT(" | rc=%d", rc);
        } else { bad = 1; break; }
        if (bad) break;
    observed:
        observe();
    }
#ifdef VERIF_HOOK_SQLITE_ICU
    DISARM(); fail_at = 0;
#endif
    if (bad) OUT(" | bad-op");
    for (i = 0; i < ncif; i++) if (cifs[i].cif) destroy_cif(i);
}
