/*
 * executor for family `decode` (properties C02, C13; also the text cases of C01): the file-static decode_text() of
 * src/parser.c, called directly on the body of a text field, with a scanner configured the way cif_parse_internal()
 * configures it (INIT_V2_SCANNER without extra whitespace / end-of-line characters).
 *
 *   decode <line_unfolding 0|1> <prefix_removing 0|1> <rawhex> [<expectedhex>]
 *       → dc rc=<code> text=<hex of the decoded value's text | ~>
 *
 * The optional fourth argument is for the oracle only (the text the body was encoded from); it is ignored here.
 */
#include "common.h"
#include "parser.c"

static void handle(int argc, char **argv) {
    struct scanner_s scanner;
    UChar *raw = NULL, *text = NULL;
    size_t len = 0;
    cif_value_tp *value = NULL;
    int rc;

    if (argc < 4 || argc > 5 || strlen(argv[1]) != 1 || strlen(argv[2]) != 1) { OUT("bad-op"); return; }
    if (!unhex(argv[3], &raw, &len) || raw == NULL) { OUT("bad-op"); free(raw); return; }
    memset(&scanner, 0, sizeof(scanner));
    scanner.cif_version = 2;
    /* cif_parse() stores MIN(modifier, 1); INIT_V2_SCANNER adds 1 */
    scanner.line_unfolding = (argv[1][0] == '1') ? 0 : -1;
    scanner.prefix_removing = (argv[2][0] == '1') ? 0 : -1;
    INIT_V2_SCANNER(&scanner, (const char *) NULL, (const char *) NULL);

    rc = decode_text(&scanner, raw, (int32_t) len, &value);
    OUT("dc rc=%d text=", rc);
    if (rc == CIF_OK && value != NULL && cif_value_get_text(value, &text) == CIF_OK) {
        outhex(text);
        free(text);
    } else {
        OUT("~");
    }
    if (value) cif_value_free(value);
    free(raw);
}
