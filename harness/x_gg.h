/*
 * x_gg.h — helpers shared by the executors of group gG (x_ser.c, x_val.c, x_storeval.c).
 *
 * dumpx_value(): like fdump_value() of cifio.h, but numbers are printed with the fields of struct numb_value_s
 *     M<q>:<hex text>/<+|->/<digits>/<su digits|~>/<scale>
 * (the executors that use it #include "value.c", so the struct layout is visible), and table entries are printed by
 * walking the hash handle list (insertion order) with their ORIGINAL key — the same thing cif_value_get_keys reports.
 */
#ifndef VERIF_X_GG_H
#define VERIF_X_GG_H

#include "cifio.h"
#include "internal/ciftypes.h"

static void fdumpx_value(FILE *f, cif_value_tp *v) {
    size_t i;
    if (v == NULL) { fprintf(f, "~"); return; }
    switch (v->kind) {
    case CIF_UNK_KIND: fprintf(f, "U"); break;
    case CIF_NA_KIND: fprintf(f, "N"); break;
    case CIF_CHAR_KIND:
        fprintf(f, "C%d:", v->as_char.quoted == CIF_QUOTED ? 1 : 0);
        fhex(f, v->as_char.text);
        break;
    case CIF_NUMB_KIND:
        fprintf(f, "M%d:", v->as_numb.quoted == CIF_QUOTED ? 1 : 0);
        fhex(f, v->as_numb.text);
        fprintf(f, "/%c/%s/%s/%d", v->as_numb.sign < 0 ? '-' : '+',
                (v->as_numb.digits && *v->as_numb.digits) ? v->as_numb.digits : "-",
                v->as_numb.su_digits ? (*v->as_numb.su_digits ? v->as_numb.su_digits : "-") : "~", v->as_numb.scale);
        break;
    case CIF_LIST_KIND:
        fprintf(f, "[");
        for (i = 0; i < v->as_list.size; i++) { fprintf(f, " "); fdumpx_value(f, v->as_list.elements[i]); }
        fprintf(f, " ]");
        break;
    case CIF_TABLE_KIND: {
        const UChar **keys = NULL;
        fprintf(f, "{");
        if (cif_value_get_keys(v, &keys) == CIF_OK) {
            for (i = 0; keys[i]; i++) {
                cif_value_tp *e = NULL;
                fprintf(f, " K:"); fhex(f, keys[i]); fprintf(f, " ");
                if (cif_value_get_item_by_key(v, keys[i], &e) == CIF_OK) fdumpx_value(f, e); else fprintf(f, "!");
            }
            free(keys);
        } else fprintf(f, " !keys");
        fprintf(f, " }");
        break;
    }
    default: fprintf(f, "?kind%d", (int) v->kind);
    }
}

static void dumpx_value(cif_value_tp *v) { fdumpx_value(stdout, v); }

#endif
