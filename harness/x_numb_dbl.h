/* x_numb_dbl.h — shared by the executors of property C10 (x_numb, x_todbl, x_todig, x_initnumb):
   doubles travel as integers, never as decimal text:   <sign><mantissa>:<exponent>   value = ±mantissa·2^exponent
   canonical output: normal numbers 2^52 <= mantissa < 2^53; subnormals exponent = -1074; zero `+0:0` / `-0:0`;
   `+inf`, `-inf`, `nan`. */
#ifndef X_NUMB_DBL_H
#define X_NUMB_DBL_H
#include <math.h>
#include <float.h>
#include <fenv.h>
#include <locale.h>
#include <stdint.h>

static void out_dbl(double d) {
    int e;
    double f;
    uint64_t m;
    if (isnan(d)) { printf("nan"); return; }
    if (isinf(d)) { printf(d < 0 ? "-inf" : "+inf"); return; }
    if (d == 0.0) { printf(signbit(d) ? "-0:0" : "+0:0"); return; }
    f = frexp(fabs(d), &e);
    m = (uint64_t) ldexp(f, 53);
    e -= 53;
    if (e < -1074) { m >>= (-1074 - e); e = -1074; }
    printf("%c%llu:%d", d < 0 ? '-' : '+', (unsigned long long) m, e);
}

/* returns 1 on success */
static int in_dbl(const char *s, double *out) {
    int neg;
    unsigned long long m;
    int e;
    char *end;
    if (*s != '+' && *s != '-') return 0;
    neg = (*s == '-');
    s++;
    if (strcmp(s, "inf") == 0) { *out = neg ? -INFINITY : INFINITY; return 1; }
    m = strtoull(s, &end, 10);
    if (end == s || *end != ':' || m > (1ULL << 53)) return 0;
    e = (int) strtol(end + 1, &end, 10);
    if (*end) return 0;
    *out = ldexp((double) m, e);
    if (neg) *out = -*out;
    return 1;
}

/* the executors of C10 run with LC_NUMERIC = "C.UTF-8" so that a library call that leaves the numeric locale changed
   (it switches to "C" internally) is observable */
static void numb_env_init(void) {
    static int done = 0;
    if (!done) { setlocale(LC_NUMERIC, "C.UTF-8"); done = 1; }
}

/* a UChar string of ASCII units as a freshly allocated C string; NULL if a unit is outside 1..127 */
static char *ascii_of(const UChar *u) {
    size_t n = (size_t) u_strlen(u), i;
    char *c = (char *) malloc(n + 1);
    for (i = 0; i < n; i++) { if (u[i] > 127) { free(c); return NULL; } c[i] = (char) u[i]; }
    c[n] = 0;
    return c;
}
#endif
