/* executor for family `cifio`: build the described CIF through the public API, dump it through the public query API */
#include "cifio.h"

static void handle(int argc, char **argv) {
    cif_tp *cif = NULL;
    int pos = 1, rc;
    if (cif_create(&cif) != CIF_OK) { OUT("cf create-failed"); return; }
    rc = build_cif(cif, argv, argc, &pos);
    OUT("cf rc=%d", rc);
    if (rc == CIF_OK) dump_cif(cif, 1);
    cif_destroy(cif);
}
