/* executor for family `dialect` (property C11): the REAL cif_parse on an in-memory file, one cell of the
 * version / encoding table per request.
 *
 *   dialect <prefer_cif2> <force 0|1> <enc> <sig 0|1> <dflt> <texthex>
 *     enc   : utf8 | utf16le | utf16be | utf32le | utf32be | latin1   — how <text> is turned into the file's bytes
 *     sig   : 1 = the file starts with the Unicode signature of <enc> (latin1: the UTF-8 signature EF BB BF, a lying one)
 *     dflt  : `~` (default_encoding_name = NULL) | `=` (the ICU name of <enc>) | an ICU converter name
 *   -> dl enc=<name cif_parse opened the converter with | ~> conv=<ucnv_getName of it> sys=<canonical name of the system
 *         default converter> dconv=<canonical name of default_encoding_name> v1=<cif_version handed to
 *         cif_parse_internal> ver=<scanner.cif_version when it returned> nu8=<not_utf8 != 0> rc=<rc> err=<code:line,…>
 *         as1=<content == content of the same text read as CIF 1.1> as2=<… as CIF 2.0> e1=<errors of the CIF 1.1 reading>
 *         e2=<errors of the CIF 2.0 reading> cif=<canonical dump>
 *   The two reference readings are the same text as plain UTF-8 without signature under prefer_cif2 = -1 and = 20.
 *   cif_parse lives in ciffile.c, which is #included so that the two calls it makes — ucnv_open() and cif_parse_internal() —
 *   can be observed (HARNESS exclude_objs ["ciffile"]); nothing else of it is touched.
 */
#include "cifio.h"
#include <unicode/ucnv.h>
#include "internal/utils.h"

static struct { char enc[64]; int enc_null; char conv[64]; int v1, ver, nu8, seen; } tap;

static UConverter *tap_ucnv_open(const char *name, UErrorCode *err) {
    UConverter *c;
    tap.enc_null = (name == NULL);
    snprintf(tap.enc, sizeof(tap.enc), "%s", name ? name : "~");
    c = ucnv_open(name, err);
    if (c && U_SUCCESS(*err)) {
        UErrorCode e2 = U_ZERO_ERROR;
        const char *n = ucnv_getName(c, &e2);
        snprintf(tap.conv, sizeof(tap.conv), "%s", n ? n : "?");
    }
    return c;
}

static int tap_cif_parse_internal(struct scanner_s *scanner, int not_utf8, const char *extra_ws, const char *extra_eol, cif_tp *dest) {
    int rc;
    tap.seen = 1;
    tap.v1 = scanner->cif_version;
    tap.nu8 = not_utf8 != 0;
    rc = cif_parse_internal(scanner, not_utf8, extra_ws, extra_eol, dest);
    tap.ver = scanner->cif_version;
    return rc;
}

#undef ucnv_open
#define ucnv_open tap_ucnv_open
#define cif_parse_internal tap_cif_parse_internal
#include "ciffile.c"
#undef ucnv_open
#define ucnv_open U_ICU_ENTRY_POINT_RENAME(ucnv_open)      /* ICU's own renaming macro again */
#undef cif_parse_internal

struct elog { FILE *f; int n; };

static int err_cb(int code, size_t line, size_t column, const UChar *text, size_t length, void *data) {
    struct elog *l = (struct elog *) data;
    fprintf(l->f, "%s%d:%zu", l->n++ ? "," : "", code, line);
    return CIF_OK;
}

static const char *icu_name(const char *enc) {
    if (!strcmp(enc, "utf8")) return "UTF-8";
    if (!strcmp(enc, "utf16le")) return "UTF-16LE";
    if (!strcmp(enc, "utf16be")) return "UTF-16BE";
    if (!strcmp(enc, "utf32le")) return "UTF-32LE";
    if (!strcmp(enc, "utf32be")) return "UTF-32BE";
    if (!strcmp(enc, "latin1")) return "ISO-8859-1";
    return NULL;
}

/* encode text with the named ICU converter (unmappable characters: converter's substitution); returns malloc'd bytes */
static char *encode(const UChar *text, size_t len, const char *name, const char *sigbytes, size_t siglen, size_t *outlen) {
    UErrorCode e = U_ZERO_ERROR;
    /* the real ucnv_open: the macro above is undefined again here */
    UConverter *c = ucnv_open(name, &e);
    size_t cap = siglen + 4 * len + 16;
    char *out = malloc(cap);
    int32_t n;
    if (U_FAILURE(e) || !c) { free(out); return NULL; }
    memcpy(out, sigbytes, siglen);
    n = ucnv_fromUChars(c, out + siglen, (int32_t) (cap - siglen), text, (int32_t) len, &e);
    ucnv_close(c);
    if (U_FAILURE(e)) { free(out); return NULL; }
    *outlen = siglen + (size_t) n;
    return out;
}

/* what ICU makes of a converter name (NULL = the system default); "?" if it cannot be opened */
static const char *canonical_name(const char *name) {
    static char buf[2][64];
    static int k = 0;
    UErrorCode e = U_ZERO_ERROR;
    UConverter *c = ucnv_open(name, &e);
    char *out = buf[k ^= 1];
    strcpy(out, "?");
    if (c && U_SUCCESS(e)) {
        const char *n = ucnv_getName(c, &e);
        if (n) snprintf(out, 64, "%s", n);
    }
    if (c) ucnv_close(c);
    return out;
}

/* one parse; returns rc; *errs and *dump are malloc'd strings */
static int parse_bytes(char *bytes, size_t n, int prefer, int force, const char *dflt, char **errs, char **dump) {
    struct cif_parse_opts_s *opts = NULL;
    struct elog l;
    size_t el = 0, dl = 0;
    cif_tp *cif = NULL;
    FILE *in, *df;
    int rc;
    *errs = NULL; *dump = NULL;
    l.f = open_memstream(errs, &el); l.n = 0;
    if (cif_parse_options_create(&opts) != CIF_OK) { fclose(l.f); return -1; }
    opts->prefer_cif2 = prefer;
    opts->force_default_encoding = force;
    opts->default_encoding_name = dflt;
    opts->error_callback = err_cb;
    opts->user_data = &l;
    in = n ? fmemopen(bytes, n, "rb") : fopen("/dev/null", "rb");
    rc = cif_parse(in, opts, &cif);
    fclose(in);
    fclose(l.f);
    df = open_memstream(dump, &dl);
    if (cif) { fdump_cif(df, cif, 1); cif_destroy(cif); }
    fclose(df);
    free(opts);
    return rc;
}

static char *cache_key = NULL, *cache[4] = { NULL, NULL, NULL, NULL };

static void handle(int argc, char **argv) {
    UChar *text = NULL;
    size_t len = 0, blen = 0, rlen = 0, siglen = 0;
    const char *name, *dflt, *sig = "";
    char *bytes, *ref, *errs, *dump, *e1, *d1, *e2, *d2;
    int prefer, force, rc;
    if (argc != 7 || !unhex(argv[6], &text, &len) || text == NULL) { OUT("bad-op"); free(text); return; }
    prefer = atoi(argv[1]);
    force = atoi(argv[2]);
    name = icu_name(argv[3]);
    if (!name) { OUT("bad-op"); free(text); return; }
    if (atoi(argv[4])) {
        if (!strcmp(argv[3], "utf8") || !strcmp(argv[3], "latin1")) { sig = "\xEF\xBB\xBF"; siglen = 3; }
        else if (!strcmp(argv[3], "utf16le")) { sig = "\xFF\xFE"; siglen = 2; }
        else if (!strcmp(argv[3], "utf16be")) { sig = "\xFE\xFF"; siglen = 2; }
        else if (!strcmp(argv[3], "utf32le")) { sig = "\xFF\xFE\x00\x00"; siglen = 4; }
        else { sig = "\x00\x00\xFE\xFF"; siglen = 4; }
    }
    dflt = !strcmp(argv[5], "~") ? NULL : (!strcmp(argv[5], "=") ? name : argv[5]);
    bytes = encode(text, len, name, sig, siglen, &blen);
    ref = encode(text, len, "UTF-8", "", 0, &rlen);
    if (!bytes || !ref) { OUT("bad-op"); free(bytes); free(ref); free(text); return; }

    memset(&tap, 0, sizeof(tap));
    strcpy(tap.enc, "-"); strcpy(tap.conv, "-");
    rc = parse_bytes(bytes, blen, prefer, force, dflt, &errs, &dump);
    {
        struct { char enc[64]; int enc_null; char conv[64]; int v1, ver, nu8, seen; } t = { 0 };
        memcpy(&t, &tap, sizeof(t));
        /* the two reference readings depend on the text only: keep those of the latest text */
        if (cache_key && strcmp(cache_key, argv[6]) == 0) {
            e1 = strdup(cache[0]); d1 = strdup(cache[1]); e2 = strdup(cache[2]); d2 = strdup(cache[3]);
        } else {
            int i;
            parse_bytes(ref, rlen, -1, 0, NULL, &e1, &d1);
            parse_bytes(ref, rlen, 20, 0, NULL, &e2, &d2);
            free(cache_key); for (i = 0; i < 4; i++) free(cache[i]);
            /* the cache outlives the request on purpose: not a leak of this request */
            VERIF_UNTRACKED(cache_key = strdup(argv[6]));
            VERIF_UNTRACKED(cache[0] = strdup(e1); cache[1] = strdup(d1); cache[2] = strdup(e2); cache[3] = strdup(d2));
        }
        OUT("dl enc=%s conv=%s sys=%s dconv=%s v1=%d ver=%d nu8=%d rc=%d err=%s as1=%d as2=%d e1=%s e2=%s cif=%s",
            t.enc, t.conv, canonical_name(NULL), canonical_name(dflt), t.v1, t.seen ? t.ver : 0, t.nu8, rc, (errs && *errs) ? errs : "-",
            strcmp(dump, d1) == 0, strcmp(dump, d2) == 0, (e1 && *e1) ? e1 : "-", (e2 && *e2) ? e2 : "-",
            (dump && *dump) ? dump : " -");
    }
    free(errs); free(dump); free(e1); free(d1); free(e2); free(d2);
    free(bytes); free(ref); free(text);
}
