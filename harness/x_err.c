/* executor for family `err` (property C20): prints the COMPILED cif_errlist / cif_nerr of the library as built
   from /repo's working tree.   `err <code>` -> `er <hex message | ~ if code >= cif_nerr>` ; `err nerr` -> `er n=<cif_nerr>` */
#include "common.h"
#include "cif_error.h"

static void handle(int argc, char **argv) {
    if (argc == 2 && strcmp(argv[1], "nerr") == 0) {
        OUT("er n=%d", cif_nerr);
    } else if (argc == 2) {
        char *end;
        long code = strtol(argv[1], &end, 10);
        if (*end || code < 0) { OUT("bad-op"); return; }
        OUT("er ");
        if (code >= cif_nerr) OUT("~"); else outhexc(cif_errlist[code]);
    } else {
        OUT("bad-op");
    }
}
