/*
 * executor for the families `parse` (property C03), `parsedoc` (C01) and `defect` (C12): runs the REAL
 * cif_parse_internal() of parser.c — i.e. the whole integrated parser: get_first_char / get_more_chars, next_token and the
 * scan functions, every production, decode_text, value construction, the storage calls — on one document under one
 * option record and one error-callback policy.  The scanner_s is set up exactly as cif_parse() sets it up (the clamps
 * MIN(x, 1) included); the character source delivers UTF-16 code units directly, so that unpaired surrogates, NUL and
 * U+FFFE/U+FFFF reach the scanner (byte decoding is ICU's and is not what these properties are about).
 *
 *   parse <dia 1|2> <max_frame_depth> <line_folding_modifier> <text_prefixing_modifier> <extra_ws hex|-> <extra_eol hex|->
 *         <not_utf8 0|1> <policy> <target n|e|p> <hex document> [pre <cif tokens of harness/cifio.h …>] [| annotation …]
 *
 *   policy   a            the callback accepts everything (cif_parse_error_ignore)
 *            d            the callback returns the code (cif_parse_error_die)
 *            r<k>:<v>     the k-th invocation (0-based) answers <v> (any int, also negative), all others 0
 *            c<code>:<v>  every invocation with this code answers <v>, all others 0
 *   target   n            no target (syntax-only parse, cif_tp * == NULL)
 *            e            a new, empty CIF
 *            p            a CIF pre-filled from the tokens after `pre`
 *   everything after a `|` token is an annotation for the oracle and is ignored here.
 *
 *   answer:  ps rc=<return value> n=<callback invocations> log=<code>:<line>,…|- ptr=<ok|bad<k>> ops=<b>,<f>,<s>,<l>,<p>,<r> seq=<call,call,…|->
 *            kinds=<n> cif=<canonical dump|~>
 *            post=<walk rc>,<write rc>,<modify rc>,<destroy rc>|~ [aa=<code>]
 *   aa (policy d only): the first code an ACCEPT-ALL parse of the same input into an equivalent fresh target reports (0 = none)
 *   (dump: fdump_cif canon=1 with unquoted numbers shown as unquoted character values — M0: → C0: — so that the model need
 *    not decide number syntax; the generator's oracle decides kind from the ORIGINAL dump, printed as kinds=<n> = number of
 *    M0 values.)  `ptr` = every (text, length) handed to the callback with length > 0 lay inside the scan buffer and was read.
 */
#include "cifio.h"
#include "internal/utils.h"

/*
 * the store calls of the productions, counted: parser.c is compiled into this file, so a function-like macro in front of it
 * wraps every call the productions make (the declarations have been read above).  Counted: calls that return CIF_OK while the
 * parse under observation runs — [0] cif_create_block(_internal), [1] cif_container_create_frame(_internal),
 * [2] cif_container_set_value, [3] cif_container_create_loop, [4] cif_loop_add_packet, [5] cif_container_prune.
 * and the ORDER of these calls with a digest of their name arguments (`seq=` field).  The model side is the trace of Model/ParserTrace.lean.
 */
static long ops_cnt[6];
static int ops_on;
static char *ops_seq;            /* the successful calls in order of occurrence: a letter b f s l p r and, for b f s the length of the
                                    code / name in UTF-16 units, for l the number of names */
static size_t ops_len, ops_cap;
static int ops_count(int rc, int k, long arg) {
    if (ops_on && rc == CIF_OK) {
        ops_cnt[k] += 1;
        if (ops_len + 32 > ops_cap) { ops_cap = ops_cap ? ops_cap * 2 : 256; ops_seq = (char *) realloc(ops_seq, ops_cap); }
        if (arg >= 0) ops_len += (size_t) sprintf(ops_seq + ops_len, "%s%c%ld", ops_len ? "," : "", "bfslpr"[k], arg);
        else ops_len += (size_t) sprintf(ops_seq + ops_len, "%s%c", ops_len ? "," : "", "bfslpr"[k]);
    }
    return rc;
}
static long ops_ulen(const UChar *u) { return u ? (long) u_strlen(u) : -1; }
static long ops_nnames(UChar **names) { long n = 0; if (names) while (names[n]) n++; return n; }
#define cif_create_block(c, code, b) ops_count((cif_create_block)((c), (code), (b)), 0, ops_ulen(code))
#define cif_create_block_internal(c, code, l, b) ops_count((cif_create_block_internal)((c), (code), (l), (b)), 0, ops_ulen(code))
#define cif_container_create_frame(c, code, f) ops_count((cif_container_create_frame)((c), (code), (f)), 1, ops_ulen(code))
#define cif_container_create_frame_internal(c, code, l, f) ops_count((cif_container_create_frame_internal)((c), (code), (l), (f)), 1, ops_ulen(code))
#define cif_container_set_value(c, n, v) ops_count((cif_container_set_value)((c), (n), (v)), 2, ops_ulen(n))
#define cif_container_create_loop(c, cat, names, l) ops_count((cif_container_create_loop)((c), (cat), (names), (l)), 3, ops_nnames(names))
#define cif_loop_add_packet(l, p) ops_count((cif_loop_add_packet)((l), (p)), 4, -1)
#define cif_container_prune(c) ops_count((cif_container_prune)((c)), 5, -1)
#include "parser.c"

struct src { const UChar *data; size_t len; size_t pos; };

static ssize_t read_units(void *char_source, UChar *dest, ssize_t count, int *error_code) {
    struct src *s = (struct src *) char_source;
    size_t n = s->len - s->pos;
    (void) error_code;
    if (count <= 0) return 0;
    if (n > (size_t) count) n = (size_t) count;
    memcpy(dest, s->data + s->pos, n * sizeof(UChar));
    s->pos += n;
    return (ssize_t) n;
}

struct elog {
    long n; long cap; int *code; size_t *line;
    char mode;            /* a d r c */
    long k; int code_sel; int v;
    long badptr;          /* first invocation whose text pointer was not inside the buffer, or -1 */
    unsigned long sum;    /* forces the reads of the text */
    struct scanner_s *scanner;
};

static int log_error(int code, size_t line, size_t column, const UChar *text, size_t length, void *data) {
    struct elog *l = (struct elog *) data;
    long k = l->n;
    size_t i;
    (void) column;
    if (l->n == l->cap) {
        l->cap = l->cap ? l->cap * 2 : 64;
        l->code = realloc(l->code, l->cap * sizeof(int));
        l->line = realloc(l->line, l->cap * sizeof(size_t));
    }
    l->code[l->n] = code;
    l->line[l->n] = line;
    l->n += 1;
    if (text != NULL && length > 0) {
        struct scanner_s *s = l->scanner;
        if (text < s->buffer || text + length > s->buffer + s->buffer_size) { if (l->badptr < 0) l->badptr = k; }
        else for (i = 0; i < length; i++) l->sum += text[i];
    }
    switch (l->mode) {
        case 'd': return code;
        case 'r': return (k == l->k) ? l->v : 0;
        case 'c': return (code == l->code_sel) ? l->v : 0;
        default: return 0;
    }
}

static cif_handler_tp no_handler;   /* all NULL */

static long walk_count;
static int w_cif(cif_tp *x, void *ctx) { (void) x; (void) ctx; walk_count++; return CIF_TRAVERSE_CONTINUE; }
static int w_cont(cif_container_tp *x, void *ctx) { (void) x; (void) ctx; walk_count++; return CIF_TRAVERSE_CONTINUE; }
static int w_loop(cif_loop_tp *x, void *ctx) { (void) x; (void) ctx; walk_count++; return CIF_TRAVERSE_CONTINUE; }
static int w_pkt(cif_packet_tp *x, void *ctx) { (void) x; (void) ctx; walk_count++; return CIF_TRAVERSE_CONTINUE; }
static int w_item(UChar *name, cif_value_tp *v, void *ctx) { (void) name; (void) v; (void) ctx; walk_count++; return CIF_TRAVERSE_CONTINUE; }

static char *to_cstr(const UChar *u, size_t n) {   /* extra_ws / extra_eol are `const char *` */
    char *c = (char *) malloc(n + 1);
    size_t i;
    for (i = 0; i < n; i++) c[i] = (char) u[i];
    c[n] = 0;
    return c;
}

/* one call of cif_parse_internal with the scanner set up as cif_parse() does */
static int run_parse(struct scanner_s *scanner, struct src *source, struct elog *elog, const UChar *units, size_t len,
        int dia, int mfd, int fold, int prefix, int nutf8, const char *cws, const char *ceol, cif_tp *cif) {
    memset(scanner, 0, sizeof(*scanner));
    source->data = units; source->len = len; source->pos = 0;
    elog->scanner = scanner;
    /* as cif_parse() */
    scanner->char_source = source;
    scanner->read_func = read_units;
    scanner->at_eof = CIF_FALSE;
    scanner->cif_version = dia;
    scanner->line_unfolding = (fold < 1) ? fold : 1;
    scanner->prefix_removing = (prefix < 1) ? prefix : 1;
    scanner->max_frame_depth = (mfd < 1) ? mfd : 1;
    scanner->handler = &no_handler;
    scanner->error_callback = log_error;
    scanner->whitespace_callback = NULL;
    scanner->keyword_callback = NULL;
    scanner->dataname_callback = NULL;
    scanner->user_data = elog;
    return cif_parse_internal(scanner, nutf8, cws, ceol, cif);
}

static void handle(int argc, char **argv) {
    struct scanner_s scanner;
    struct src source;
    struct elog elog;
    UChar *units = NULL, *ws = NULL, *eol = NULL;
    size_t len = 0, nws = 0, neol = 0;
    char *cws = NULL, *ceol = NULL;
    int dia, mfd, fold, prefix, nutf8, rc, i, pos, end;
    char target;
    cif_tp *cif = NULL;
    const char *pol;

    memset(&elog, 0, sizeof(elog));
    elog.badptr = -1;
    if (argc < 11) { OUT("bad-op"); return; }
    dia = atoi(argv[1]); mfd = atoi(argv[2]); fold = atoi(argv[3]); prefix = atoi(argv[4]);
    nutf8 = atoi(argv[7]); pol = argv[8]; target = argv[9][0];
    if ((dia != 1 && dia != 2) || (target != 'n' && target != 'e' && target != 'p') || argv[9][1]) { OUT("bad-op"); return; }
    if (strcmp(pol, "a") == 0) elog.mode = 'a';
    else if (strcmp(pol, "d") == 0) elog.mode = 'd';
    else if (pol[0] == 'r' && sscanf(pol + 1, "%ld:%d", &elog.k, &elog.v) == 2) elog.mode = 'r';
    else if (pol[0] == 'c' && sscanf(pol + 1, "%d:%d", &elog.code_sel, &elog.v) == 2) elog.mode = 'c';
    else { OUT("bad-op"); return; }
    if (!unhex(argv[5], &ws, &nws) || !unhex(argv[6], &eol, &neol) || !unhex(argv[10], &units, &len) || !units || !ws || !eol) {
        OUT("bad-op"); free(ws); free(eol); free(units); return;
    }
    for (end = 11; end < argc && strcmp(argv[end], "|") != 0; end++) ;
    pos = 11;
    if (target == 'p') {
        if (pos >= end || strcmp(argv[pos], "pre") != 0) { OUT("bad-op"); goto done; }
        pos++;
    } else if (pos != end) { OUT("bad-op"); goto done; }
    if (target != 'n') {
        if (cif_create(&cif) != CIF_OK) { OUT("bad-op create"); goto done; }
        if (target == 'p') {
            int brc = build_cif(cif, argv, end, &pos);
            if (brc != CIF_OK || pos != end) { OUT("bad-op pre %d", brc); cif_destroy(cif); goto done; }
        }
    }
    cws = nws ? to_cstr(ws, nws) : NULL;
    ceol = neol ? to_cstr(eol, neol) : NULL;

    memset(ops_cnt, 0, sizeof(ops_cnt));
    ops_len = 0;
    if (ops_seq) ops_seq[0] = 0;
    ops_on = 1;
    rc = run_parse(&scanner, &source, &elog, units, len, dia, mfd, fold, prefix, nutf8, cws, ceol, cif);
    ops_on = 0;

    OUT("ps rc=%d n=%ld log=", rc, elog.n);
    if (elog.n == 0) OUT("-");
    for (i = 0; i < elog.n; i++) OUT("%s%d:%lu", i ? "," : "", elog.code[i], (unsigned long) elog.line[i]);
    if (elog.badptr >= 0) OUT(" ptr=bad%ld", elog.badptr); else OUT(" ptr=ok");
    OUT(" ops=%ld,%ld,%ld,%ld,%ld,%ld", ops_cnt[0], ops_cnt[1], ops_cnt[2], ops_cnt[3], ops_cnt[4], ops_cnt[5]);
    OUT(" seq=%s", ops_len ? ops_seq : "-");
    free(ops_seq); ops_seq = NULL; ops_len = ops_cap = 0;   /* per-request leak accounting: nothing may stay allocated */
    if (cif == NULL) {
        OUT(" kinds=0 cif=~ post=~");
    } else {
        char *text = NULL, *p;
        size_t size = 0;
        long kinds = 0;
        int wrc, orc, mrc, drc;
        FILE *m = open_memstream(&text, &size);
        fdump_cif(m, cif, 1);
        fclose(m);
        for (p = text; (p = strstr(p, " M0:")) != NULL; p += 4) { p[1] = 'C'; kinds++; }
        OUT(" kinds=%ld cif=%s", kinds, (text && *text) ? text : " -");
        free(text);
        {   /* C03: the CIF is consistent afterwards — walk it, write it, modify it, destroy it */
            cif_handler_tp h = { w_cif, w_cif, w_cont, w_cont, w_cont, w_cont, w_loop, w_loop, w_pkt, w_pkt, w_item };
            char *out = NULL;
            size_t outsz = 0;
            FILE *o;
            cif_block_tp *b = NULL;
            static const UChar bcode[] = { 'z', 'z', '_', 'p', 'o', 's', 't', 0 };
            static const UChar iname[] = { '_', 'z', 'z', '.', 'p', 'o', 's', 't', 0 };
            walk_count = 0;
            wrc = cif_walk(cif, &h, NULL);
            o = open_memstream(&out, &outsz);
            orc = cif_write(o, NULL, cif);
            fclose(o);
            free(out);
            /* every data block the CIF lists can be re-opened by the code it reports — also the blocks the parser's recovery made
               (the anonymous block for data in front of the first header, blocks whose invalid code was accepted) */
            {
                cif_block_tp **all = NULL, **q;
                int lrc = cif_get_all_blocks(cif, &all);
                size_t u;
                int odd_units = 0;
                /* SQLite does not hand back U+FFFE / U+FFFF / unpaired surrogates as they were bound (a text BEGINNING with U+FFFE is even
                   taken for byte-swapped UTF-16): a document holding such units can put a block code into the store that reads back
                   differently — outside every property; the re-opening is not demanded of such documents */
                for (u = 0; u < len; u++) if (units[u] >= 0xFFFE || (units[u] >= 0xD800 && units[u] <= 0xDFFF)) { odd_units = 1; break; }
                if (odd_units && lrc == CIF_OK && all != NULL) { for (q = all; *q != NULL; q++) cif_container_free(*q); free(all); all = NULL; }
                if (lrc == CIF_OK && all != NULL) {
                    for (q = all; *q != NULL; q++) {
                        UChar *code = NULL;
                        cif_block_tp *again = NULL;
                        int r1 = cif_container_get_code(*q, &code);
                        /* (not for codes with units that SQLite does not hand back as stored: U+FFFE / U+FFFF / unpaired surrogates come back as U+FFFD; only a
                           parse that accepted CIF_DISALLOWED_CHAR in a block code can have put there) */
                        if (r1 == CIF_OK) { const UChar *c; for (c = code; *c; c++) if (*c >= 0xFFFD || (*c >= 0xD800 && *c <= 0xDFFF)) break; if (*c) { free(code); cif_container_free(*q); continue; } }
                        if (r1 == CIF_OK) { r1 = cif_get_block(cif, code, &again); if (again) cif_container_free(again); }
                        if (r1 != CIF_OK && lrc == CIF_OK) lrc = 2000 + r1;
                        free(code);
                        cif_container_free(*q);
                    }
                    free(all);
                }
                mrc = lrc;
            }
            if (mrc == CIF_OK) mrc = cif_create_block(cif, bcode, &b);
            if (mrc == CIF_DUP_BLOCKCODE) mrc = cif_get_block(cif, bcode, &b);
            if (mrc == CIF_OK) {
                cif_value_tp *v = NULL;
                mrc = cif_value_create(CIF_UNK_KIND, &v);
                if (mrc == CIF_OK) mrc = cif_container_set_value(b, iname, v);
                if (mrc == CIF_OK) mrc = cif_container_get_value(b, iname, NULL);
                if (mrc == CIF_OK) mrc = cif_container_remove_item(b, iname);
                if (v) cif_value_free(v);
                if (mrc == CIF_OK) mrc = cif_container_destroy(b); else cif_container_free(b);
            }
            drc = cif_destroy(cif);
            OUT(" post=%d,%d,%d,%d", wrc, orc, mrc, drc);
        }
    }
    if (elog.mode == 'd') {
        struct elog e2;
        cif_tp *cif2 = NULL;
        int ok = 1;
        memset(&e2, 0, sizeof(e2));
        e2.badptr = -1; e2.mode = 'a';
        if (target != 'n') {
            ok = (cif_create(&cif2) == CIF_OK);
            if (ok && target == 'p') { int pos2 = 12; ok = (build_cif(cif2, argv, end, &pos2) == CIF_OK); }
        }
        if (ok) {
            (void) run_parse(&scanner, &source, &e2, units, len, dia, mfd, fold, prefix, nutf8, cws, ceol, cif2);
            OUT(" aa=%d", e2.n ? e2.code[0] : 0);
        } else OUT(" aa=?");
        if (cif2) cif_destroy(cif2);
        free(e2.code); free(e2.line);
    }
    free(elog.code);
    free(elog.line);
done:
    free(cws); free(ceol);
    free(ws); free(eol); free(units);
}
