/* executor for family `lex` (property C01, lexical layer; also used by C03/C12): drives the REAL static next_token()
 * of parser.c over a scanner_s initialised the way cif_parse()/cif_parse_internal() initialise it (INIT_V2_SCANNER,
 * then SET_V1 for CIF 1.1 mode), and prints the token stream and the error log.
 *
 *   lex <dialect 1|2> <fill f|b> <policy a|r<k>> <hex units> [<annotation, ignored>]
 *
 *   fill  f : the units are delivered by a read_chars_f in ONE fill (so the real get_more_chars() converts CR / CR LF)
 *         b : the scan buffer is pre-loaded with the units and at_eof is set (raw units reach the scanner unchanged;
 *             get_more_chars() then only ever answers CIF_EOF)
 *   policy a  : the error callback accepts everything (returns 0)
 *          rK : the callback returns the error code on its K-th invocation (0-based) and 0 otherwise
 *
 *   answer:  lx rc=<return value of the failing next_token, or 0> toks=<ty>:<hex text>:<line>:<column>,…|- errs=<code>:<line>,…|-
 *   (<ty> = enum token_type as an integer; line/column = scanner->line/column when next_token returned; the stream
 *    ends with the END token (ty 14) or with the first non-zero return)
 */
#include "common.h"
#include "parser.c"

struct src { const UChar *data; size_t len; size_t pos; };

static ssize_t read_all(void *char_source, UChar *dest, ssize_t count, int *error_code) {
    struct src *s = (struct src *) char_source;
    size_t n = s->len - s->pos;
    (void) error_code;
    if (count <= 0) return 0;
    if (n > (size_t) count) n = (size_t) count;
    memcpy(dest, s->data + s->pos, n * sizeof(UChar));
    s->pos += n;
    return (ssize_t) n;
}

struct elog { int n; int cap; int *code; size_t *line; long reject_at; };

static int log_error(int code, size_t line, size_t column, const UChar *text, size_t length, void *data) {
    struct elog *l = (struct elog *) data;
    int k = l->n;
    (void) column; (void) text; (void) length;
    if (l->n == l->cap) {
        l->cap = l->cap ? l->cap * 2 : 64;
        l->code = realloc(l->code, l->cap * sizeof(int));
        l->line = realloc(l->line, l->cap * sizeof(size_t));
    }
    l->code[l->n] = code;
    l->line[l->n] = line;
    l->n += 1;
    return (l->reject_at >= 0 && k == l->reject_at) ? code : 0;
}

static cif_handler_tp no_handler;   /* all NULL: the scanner never consults it */

static void handle(int argc, char **argv) {
    struct scanner_s scanner;
    struct src source;
    struct elog elog = { 0, 0, NULL, NULL, -1 };
    UChar *units = NULL;
    size_t len = 0;
    int version, rc = 0, first = 1, i;
    char fill;

    if ((argc != 5 && argc != 6) || !unhex(argv[4], &units, &len) || units == NULL) { OUT("bad-op"); return; }
    version = atoi(argv[1]);
    fill = argv[2][0];
    if ((version != 1 && version != 2) || (fill != 'f' && fill != 'b') || argv[2][1]) { OUT("bad-op"); free(units); return; }
    if (strcmp(argv[3], "a") == 0) {
        elog.reject_at = -1;
    } else if (argv[3][0] == 'r' && argv[3][1]) {
        char *end;
        elog.reject_at = strtol(argv[3] + 1, &end, 10);
        if (*end || elog.reject_at < 0) { OUT("bad-op"); free(units); return; }
    } else { OUT("bad-op"); free(units); return; }

    memset(&scanner, 0, sizeof(scanner));
    source.data = units; source.len = len; source.pos = 0;
    /* as cif_parse() */
    scanner.char_source = &source;
    scanner.read_func = read_all;
    scanner.at_eof = CIF_FALSE;
    scanner.cif_version = version;
    scanner.line_unfolding = 0;
    scanner.prefix_removing = 0;
    scanner.max_frame_depth = 1;
    scanner.handler = &no_handler;
    scanner.error_callback = log_error;
    scanner.whitespace_callback = NULL;
    scanner.keyword_callback = NULL;
    scanner.dataname_callback = NULL;
    scanner.user_data = &elog;
    /* as cif_parse_internal() */
    scanner.buffer_size = BUF_SIZE_INITIAL;
    if (fill == 'b' && scanner.buffer_size < len + BUF_MIN_FILL + 1) scanner.buffer_size = len + BUF_MIN_FILL + 1;
    scanner.buffer = (UChar *) malloc(scanner.buffer_size * sizeof(UChar));
    scanner.buffer_limit = 0;
    scanner.cr_pending = 0;
    INIT_V2_SCANNER(&scanner, NULL, NULL);
    scanner.next_char = scanner.buffer;
    scanner.text_start = scanner.buffer;
    scanner.tvalue_start = scanner.buffer;
    scanner.tvalue_length = 0;
    if (version == 1) SET_V1(&scanner);
    if (fill == 'b') {
        memcpy(scanner.buffer, units, len * sizeof(UChar));
        scanner.buffer_limit = len;
        scanner.at_eof = CIF_TRUE;
    }

    OUT("lx toks=");
    for (;;) {
        rc = next_token(&scanner);
        if (rc != CIF_OK) break;
        if (!first) OUT(",");
        first = 0;
        OUT("%d:", (int) scanner.ttype);
        outhexn(TVALUE_START(&scanner), TVALUE_LENGTH(&scanner));
        OUT(":%lu:%u", (unsigned long) scanner.line, scanner.column);
        if (scanner.ttype == END) break;
        CONSUME_TOKEN(&scanner);
    }
    if (first) OUT("-");
    OUT(" rc=%d errs=", rc);
    if (elog.n == 0) OUT("-");
    for (i = 0; i < elog.n; i++) OUT("%s%d:%lu", i ? "," : "", elog.code[i], (unsigned long) elog.line[i]);

    free(scanner.buffer);
    free(elog.code);
    free(elog.line);
    free(units);
}
