/* executor for family `numb` (property C10): cif_value_parse_numb and the char->numb coercion of
   cif_value_get_number / cif_value_get_su on the REAL library.
     numb p <hextext>        value initialised as the character value "keep", then cif_value_parse_numb(v, text)
     numb c <q:0|1> <hextext> character value (quoted flag q) with that text, then cif_value_get_number + cif_value_get_su
   answer:  nb rc=<code> unchanged=<0|1>                                   (failure; unchanged: the value object is what it was)
            nb rc=0 neg= digits=<hex> scale= su=<hex|~> q= text=<hex> val=<dbl> suv=<dbl> ref=<dbl|~> sref=<dbl|~>
   ref / sref: glibc strtod on the text up to the su / on "<su digits>e<-scale>" (implementation-level oracle only). */
#include "common.h"
#include "x_numb_dbl.h"
#include "internal/ciftypes.h"

static const UChar keep[] = { 'k', 'e', 'e', 'p', 0 };

static void show_success(cif_value_tp *v) {
    struct numb_value_s *nv = &(v->as_numb);
    double val = 0, su = 0;
    UChar *text = NULL;
    int r1 = cif_value_get_number(v, &val), r2 = cif_value_get_su(v, &su);
    cif_value_get_text(v, &text);
    OUT("nb rc=%d neg=%d digits=", (r1 != CIF_OK) ? r1 : r2, nv->sign < 0);
    outhexc(nv->digits);
    OUT(" scale=%d su=", nv->scale);
    outhexc(nv->su_digits);
    OUT(" q=%d text=", cif_value_is_quoted(v) == CIF_QUOTED);
    outhex(text);
    OUT(" val="); out_dbl(val);
    OUT(" suv="); out_dbl(su);
    {   /* reference conversions by glibc strtod */
        char *a = text ? ascii_of(text) : NULL;
        OUT(" ref=");
        if (a) {
            char *p = strchr(a, '(');
            char *end;
            double ref;
            if (p) *p = 0;
            ref = strtod(a, &end);
            if (*end == 0 && end != a) out_dbl(ref); else OUT("~");
            free(a);
        } else OUT("~");
        OUT(" sref=");
        if (nv->su_digits) {
            size_t n = strlen(nv->su_digits);
            char *b = (char *) malloc(n + 40);
            sprintf(b, "%se%ld", nv->su_digits, -(long) nv->scale);
            out_dbl(strtod(b, NULL));
            free(b);
        } else OUT("~");
    }
    free(text);
}

static void handle(int argc, char **argv) {
    UChar *text = NULL;
    cif_value_tp *v = NULL;
    numb_env_init();
    if (argc == 3 && strcmp(argv[1], "p") == 0) {
        int rc;
        if (!unhex(argv[2], &text, NULL) || text == NULL) { free(text); OUT("bad-op"); return; }
        if (cif_value_create(CIF_UNK_KIND, &v) != CIF_OK || cif_value_copy_char(v, keep) != CIF_OK) { OUT("bad-op"); free(text); if (v) cif_value_free(v); return; }
        rc = cif_value_parse_numb(v, text);
        if (rc != CIF_OK) {
            UChar *t = NULL;
            int same = (cif_value_kind(v) == CIF_CHAR_KIND) && cif_value_get_text(v, &t) == CIF_OK && t && u_strcmp(t, keep) == 0
                    && cif_value_is_quoted(v) == CIF_QUOTED;
            free(t);
            free(text);                       /* ownership stays with the caller on failure */
            OUT("nb rc=%d unchanged=%d", rc, same);
        } else {
            show_success(v);                  /* the value owns `text` now */
        }
        cif_value_free(v);
    } else if (argc == 4 && strcmp(argv[1], "c") == 0 && (strcmp(argv[2], "0") == 0 || strcmp(argv[2], "1") == 0)) {
        int rc, q = atoi(argv[2]);
        double d = 0;
        if (!unhex(argv[3], &text, NULL) || text == NULL) { free(text); OUT("bad-op"); return; }
        if (cif_value_create(CIF_UNK_KIND, &v) != CIF_OK || cif_value_init_char(v, text) != CIF_OK) { OUT("bad-op"); free(text); if (v) cif_value_free(v); return; }
        /* init_char marks the value quoted; an unquoted character value is what the parser produces for bare words */
        if (!q) v->as_char.quoted = CIF_NOT_QUOTED;
        rc = cif_value_get_number(v, &d);
        if (rc != CIF_OK) {
            UChar *t = NULL;
            double s2 = 0;
            int rc2 = cif_value_get_su(v, &s2);
            int same = (cif_value_kind(v) == CIF_CHAR_KIND) && cif_value_get_text(v, &t) == CIF_OK && t
                    && u_strcmp(t, text) == 0 && (cif_value_is_quoted(v) == CIF_QUOTED) == (q != 0) && rc2 == rc;
            free(t);
            OUT("nb rc=%d unchanged=%d", rc, same);
        } else {
            show_success(v);
        }
        cif_value_free(v);
    } else {
        OUT("bad-op");
    }
}
