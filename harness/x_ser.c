/* executor for family `ser` (property C07): the REAL serialiser / deserialiser of value.c (file-static functions are
   reached by including the source file; HARNESS.exclude_objs = ["value"]).

     ser v <value tokens>             -> sr rc=0 len=<buf->limit> <dump with number fields> | sr rc=<code> | sr deser-fail
     ser sizes                        -> sr sizes kind=… size=… ssize=… uchar=… quoted=… flag=… cap=…
     ser grow <capacity> <position> <len>
                                      -> sr grow rc=<code> [pos=<position> limit=<limit>]
   A growth loop that does not terminate is stopped by the per-case alarm of common.h (observation TIMEOUT). */
#include "value.c"
#include "x_gg.h"

static void handle(int argc, char **argv) {
    if (argc == 2 && strcmp(argv[1], "sizes") == 0) {
        int flag = 0;
        OUT("sr sizes kind=%zu size=%zu ssize=%zu uchar=%zu quoted=%zu flag=%zu cap=%d", sizeof(cif_kind_tp), sizeof(size_t),
            sizeof(ssize_t), sizeof(UChar), sizeof(cif_quoted_tp), sizeof(flag), DEFAULT_SERIALIZATION_CAP);
        return;
    }
    if (argc == 5 && strcmp(argv[1], "grow") == 0) {
        size_t cap = strtoull(argv[2], NULL, 10), pos = strtoull(argv[3], NULL, 10), len = strtoull(argv[4], NULL, 10);
        buffer_tp *buf;
        char *src;
        int rc;
        if (cap == 0 || len > ((size_t) 1 << 28) || pos > ((size_t) 1 << 28)) { OUT("bad-op"); return; }
        buf = cif_buf_create(cap);
        if (buf == NULL) { OUT("sr grow alloc-failed"); return; }
        if (pos > cap) {          /* the state after earlier growth: `capacity` keeps its initial value, the block is larger */
            char *p = (char *) realloc(buf->for_writing.start, pos);
            if (p == NULL) { cif_buf_free(&buf->for_writing); OUT("sr grow alloc-failed"); return; }
            buf->for_writing.start = p;
        }
        memset(buf->for_writing.start, 0, pos > cap ? pos : cap);
        buf->for_writing.position = pos;
        buf->for_writing.limit = pos;
        src = (char *) calloc(len ? len : 1, 1);
        rc = cif_buf_write(&buf->for_writing, src, len);
        if (rc == CIF_OK) OUT("sr grow rc=0 pos=%zu limit=%zu", buf->for_writing.position, buf->for_writing.limit);
        else OUT("sr grow rc=%d", rc);
        free(src);
        cif_buf_free(&buf->for_writing);
        return;
    }
    if (argc >= 3 && strcmp(argv[1], "v") == 0) {
        int pos = 2, rc;
        cif_value_tp *v, *back = NULL;
        while (pos < argc && argv[pos][0] == '@') pos++;       /* key normalisation pairs: for the model only */
        v = build_value(argv, argc, &pos, &rc);
        buffer_tp *buf = NULL;
        if (v == NULL || pos != argc) { if (v) cif_value_free(v); OUT("bad-op"); return; }
        rc = cif_value_serialize(v, &buf);
        if (rc != CIF_OK) { OUT("sr rc=%d", rc); cif_value_free(v); return; }
        /* the original is released before the copy is rebuilt: the blob must be self-contained */
        cif_value_free(v);
        if (cif_value_create(CIF_UNK_KIND, &back) != CIF_OK) { cif_buf_free(&buf->for_writing); OUT("sr alloc-failed"); return; }
        rc = cif_value_deserialize(buf->for_writing.start, buf->for_writing.limit, back);
        if (rc != CIF_OK) { OUT("sr deser-fail"); free(back); }      /* its fields are unspecified after a failure */
        else { OUT("sr rc=0 len=%zu ", buf->for_writing.limit); dumpx_value(back); cif_value_free(back); }
        cif_buf_free(&buf->for_writing);
        return;
    }
    OUT("bad-op");
}
