/*
 * executor for family `oom` (property C17): fail ONE dynamic allocation during ONE public API call.
 *
 *   oom <op> <cls> <k>      cls = lib | sq | icu  — which allocator the failing allocation belongs to:
 *                             lib: malloc/calloc/realloc/strdup called from the library's own objects and uthash (--wrap)
 *                             sq : SQLite's allocator (sqlite3_config(SQLITE_CONFIG_MALLOC))
 *                             icu: ICU's allocator (u_setMemoryFunctions)
 *                           k = 0: count only (no failure); k >= 1: the k-th allocation of that class made during the call fails.
 *
 * For every request a fresh scenario is built (no failures), the fault is armed, the operation is executed once, the fault
 * is disarmed, and then the executor observes: return code, whether the fault fired, number of allocations of the class
 * during the call, the source location of the failing allocation, whether the canonical dump of the managed CIF changed,
 * whether the caller-owned objects still dump the same, the result of repeating the same call with memory available, and
 * the event pattern of library allocations/frees made during the call (for the cleanup-ladder correspondence).
 * Everything is released afterwards (leak checks: ASan/LSan via VERIF_LEAKCHECK).
 */
#define _GNU_SOURCE
#define VERIF_HOOK_SQLITE_ICU 1      /* also route SQLite's and ICU's allocators through alloc.h */
#include "cifio.h"

/* ---- scenario -------------------------------------------------------------------------------------------- */

static UChar *U(const char *s) { UChar *u; int i, k = (int) strlen(s); u = (UChar *) __real_malloc((k + 1) * sizeof(UChar)); for (i = 0; i <= k; i++) u[i] = (unsigned char) s[i]; return u; }

struct scn {
    cif_tp *cif; cif_block_tp *b; cif_frame_tp *fr; cif_loop_tp *l; cif_packet_tp *p;
    cif_value_tp *v, *w, *lst, *tbl, *num;
    UChar *n_a, *n_b, *names[3], *s1, *k1;
};

static int scn_build(struct scn *s) {
    int rc = 0;
    memset(s, 0, sizeof(*s));
    s->n_a = U("_a"); s->n_b = U("_B"); s->names[0] = s->n_a; s->names[1] = s->n_b; s->names[2] = NULL;
    s->s1 = U("hello"); s->k1 = U("Key");
    rc |= cif_create(&s->cif);
    { UChar *c = U("blk"); rc |= cif_create_block(s->cif, c, &s->b); free(c); }
    { UChar *c = U("fr"); rc |= cif_container_create_frame(s->b, c, &s->fr); free(c); }
    { UChar *c = U("c"); rc |= cif_container_create_loop(s->b, c, s->names, &s->l); free(c); }
    rc |= cif_packet_create(&s->p, s->names);
    rc |= cif_value_create(CIF_UNK_KIND, &s->v); rc |= cif_value_copy_char(s->v, s->s1);
    rc |= cif_value_create(CIF_UNK_KIND, &s->num); { UChar *t = U("-12.5e3(7)"); if (cif_value_parse_numb(s->num, t) != CIF_OK) { free(t); rc |= 1; } }
    rc |= cif_value_create(CIF_LIST_KIND, &s->lst); rc |= cif_value_insert_element_at(s->lst, 0, s->v); rc |= cif_value_insert_element_at(s->lst, 1, s->num);
    rc |= cif_value_create(CIF_TABLE_KIND, &s->tbl); rc |= cif_value_set_item_by_key(s->tbl, s->k1, s->lst); rc |= cif_value_set_item_by_key(s->tbl, s->s1, s->v);
    rc |= cif_packet_set_item(s->p, s->n_a, s->tbl); rc |= cif_packet_set_item(s->p, s->n_b, s->v);
    rc |= cif_loop_add_packet(s->l, s->p); rc |= cif_loop_add_packet(s->l, s->p);
    { UChar *c = U("_s"); rc |= cif_container_set_value(s->b, c, s->tbl); free(c); }
    { UChar *c = U("_t"); rc |= cif_container_set_value(s->fr, c, s->num); free(c); }
    return rc;
}

static void scn_free(struct scn *s) {
    cif_value_free(s->w); cif_value_free(s->v); cif_value_free(s->lst); cif_value_free(s->tbl); cif_value_free(s->num);
    cif_packet_free(s->p); if (s->l) cif_loop_free(s->l); if (s->fr) cif_container_free(s->fr); if (s->b) cif_container_free(s->b);
    if (s->cif) cif_destroy(s->cif);
    free(s->n_a); free(s->n_b); free(s->s1); free(s->k1);
}

/* canonical dump of the managed CIF into a malloc'd string (what C17 requires to be unchanged by a failed call) */
static char *snapshot(struct scn *s) {
    char *text = NULL; size_t sz = 0;
    FILE *m = open_memstream(&text, &sz);
    fdump_cif(m, s->cif, 1);
    fclose(m);
    return text;
}

/* the caller-owned objects must stay valid and releasable: walk over all of them (under ASan); their content after a
   failed call is not constrained by the property, so the text is discarded */
static void touch_objects(struct scn *s) {
    char *text = NULL; size_t sz = 0; const UChar **nm = NULL;
    FILE *m = open_memstream(&text, &sz);
    fdump_value(m, s->v); fdump_value(m, s->lst); fdump_value(m, s->tbl); fdump_value(m, s->num); if (s->w) fdump_value(m, s->w);
    if (cif_packet_get_names(s->p, &nm) == CIF_OK) {
        int i;
        for (i = 0; nm[i]; i++) { cif_value_tp *x = NULL; if (cif_packet_get_item(s->p, nm[i], &x) == CIF_OK) fdump_value(m, x); }
        free(nm);
    }
    fclose(m);
    free(text);
}

static int noop_err(int code, size_t line, size_t col, const UChar *text, size_t len, void *data) { (void) code; (void) line; (void) col; (void) text; (void) len; (void) data; return 0; }
static const char PARSE_DOC[] = "#\\#CIF_2.0\ndata_d\n_x [1 {'k':v}]\nloop_ _p _q 1 2 3 '4'\nsave_f _y\n;t\n;\nsave_\n_z '''a\nb'''\n";

/* the operation under test; modifies = whether the op is supposed to change the managed CIF when it succeeds.
   returns the API result code; *isnull reports a NULL result for pointer-returning functions */
struct opdesc { const char *name; int modifies; };
static const struct opdesc OPS[] = {
    {"value_create_char", 0}, {"value_create_list", 0}, {"value_create_table", 0}, {"copy_char", 0}, {"init_char", 0},
    {"clone_char", 0}, {"clone_numb", 0}, {"clone_list", 0}, {"clone_table", 0},
    {"list_insert", 0}, {"list_set", 0}, {"list_remove", 0}, {"table_set_new", 0}, {"table_set_existing", 0}, {"table_set_respelled", 0},
    {"table_get", 0}, {"table_remove", 0}, {"get_keys", 0},
    {"packet_create", 0}, {"packet_set_new", 0}, {"packet_set_existing", 0}, {"packet_set_respelled", 0}, {"packet_get", 0}, {"packet_remove", 0}, {"packet_names", 0},
    {"parse_numb", 0}, {"init_numb", 0}, {"autoinit_numb", 0}, {"get_text", 0}, {"get_number", 0}, {"set_quoted", 0},
    {"normalize", 0}, {"analyze", 0}, {"api_version", 0},
    {"cif_create", 0}, {"create_block", 1}, {"get_block", 0}, {"get_all_blocks", 0}, {"create_frame", 1}, {"get_frame", 0}, {"get_all_frames", 0},
    {"get_code", 0}, {"destroy_frame", 1},
    {"create_loop", 1}, {"get_all_loops", 0}, {"get_names", 0}, {"get_category", 0}, {"set_category", 1}, {"get_item_loop", 0}, {"get_cat_loop", 0},
    {"add_packet", 1}, {"add_item", 1}, {"set_value_new", 1}, {"set_value_existing", 1}, {"set_value_biglist", 1}, {"get_value", 0}, {"get_value_looped", 0}, {"remove_item", 1}, {"prune", 0},
    {"loop_destroy", 1}, {"get_packets", 0}, {"iter_next", 0}, {"iter_update", 1}, {"iter_remove", 1},
    {"walk", 0}, {"write", 0}, {"parse", 0}, {"parse_into", 1},
    {NULL, 0}
};

static cif_pktitr_tp *g_it;           /* iterator opened (un-armed) for the iter_* ops */
static cif_packet_tp *g_q;

static int h_count;
static int hb(cif_container_tp *c, void *d) { (void) c; (void) d; h_count++; return 0; }
static int hl(cif_loop_tp *c, void *d) { (void) c; (void) d; h_count++; return 0; }
static int hp(cif_packet_tp *c, void *d) { (void) c; (void) d; h_count++; return 0; }
static int hi(UChar *n, cif_value_tp *v, void *d) { (void) n; (void) v; (void) d; h_count++; return 0; }
static int hc(cif_tp *c, void *d) { (void) c; (void) d; h_count++; return 0; }

static int run_op(const char *op, struct scn *s, int *isnull) {
    int rc = -99;
    *isnull = 0;
    if (!strcmp(op, "value_create_char")) { cif_value_tp *x = NULL; ARM(); rc = cif_value_create(CIF_CHAR_KIND, &x); DISARM(); cif_value_free(x); }
    else if (!strcmp(op, "value_create_list")) { cif_value_tp *x = NULL; ARM(); rc = cif_value_create(CIF_LIST_KIND, &x); DISARM(); cif_value_free(x); }
    else if (!strcmp(op, "value_create_table")) { cif_value_tp *x = NULL; ARM(); rc = cif_value_create(CIF_TABLE_KIND, &x); DISARM(); cif_value_free(x); }
    else if (!strcmp(op, "copy_char")) { ARM(); rc = cif_value_copy_char(s->v, s->k1); DISARM(); if (rc == CIF_OK) (void) cif_value_copy_char(s->v, s->s1); }
    else if (!strcmp(op, "init_char")) { UChar *t = U("hello"); ARM(); rc = cif_value_init_char(s->v, t); DISARM(); if (rc != CIF_OK) free(t); }
    else if (!strcmp(op, "clone_char")) { ARM(); rc = cif_value_clone(s->v, &s->w); DISARM(); }
    else if (!strcmp(op, "clone_numb")) { ARM(); rc = cif_value_clone(s->num, &s->w); DISARM(); }
    else if (!strcmp(op, "clone_list")) { ARM(); rc = cif_value_clone(s->lst, &s->w); DISARM(); }
    else if (!strcmp(op, "clone_table")) { ARM(); rc = cif_value_clone(s->tbl, &s->w); DISARM(); }
    else if (!strcmp(op, "list_insert")) { ARM(); rc = cif_value_insert_element_at(s->lst, 1, s->tbl); DISARM(); if (rc == CIF_OK) { cif_value_tp *x = NULL; cif_value_remove_element_at(s->lst, 1, &x); cif_value_free(x); } }
    else if (!strcmp(op, "list_set")) { ARM(); rc = cif_value_set_element_at(s->lst, 0, s->tbl); DISARM(); if (rc == CIF_OK) cif_value_set_element_at(s->lst, 0, s->v); }
    else if (!strcmp(op, "list_remove")) { cif_value_tp *x = NULL; ARM(); rc = cif_value_remove_element_at(s->lst, 1, &x); DISARM(); if (rc == CIF_OK) { cif_value_insert_element_at(s->lst, 1, x); cif_value_free(x); } }
    else if (!strcmp(op, "table_set_new")) { ARM(); rc = cif_value_set_item_by_key(s->tbl, s->n_a, s->lst); DISARM(); if (rc == CIF_OK) cif_value_remove_item_by_key(s->tbl, s->n_a, NULL); }
    else if (!strcmp(op, "table_set_existing")) { ARM(); rc = cif_value_set_item_by_key(s->tbl, s->k1, s->lst); DISARM(); }
    else if (!strcmp(op, "table_set_respelled")) { UChar k2[] = { 'K', 'e', 0x0301, 'y', 0 }, k3[] = { 'K', 0x00e9, 'y', 0 }; cif_value_set_item_by_key(s->tbl, k3, s->v); ARM(); rc = cif_value_set_item_by_key(s->tbl, k2, s->lst); DISARM(); cif_value_remove_item_by_key(s->tbl, k3, NULL); }
    else if (!strcmp(op, "table_get")) { cif_value_tp *x = NULL; ARM(); rc = cif_value_get_item_by_key(s->tbl, s->k1, &x); DISARM(); }
    else if (!strcmp(op, "table_remove")) { cif_value_tp *x = NULL; ARM(); rc = cif_value_remove_item_by_key(s->tbl, s->s1, &x); DISARM(); if (rc == CIF_OK) { cif_value_set_item_by_key(s->tbl, s->s1, x); cif_value_free(x); } }
    else if (!strcmp(op, "get_keys")) { const UChar **ks = NULL; ARM(); rc = cif_value_get_keys(s->tbl, &ks); DISARM(); if (rc == CIF_OK) free(ks); }
    else if (!strcmp(op, "packet_create")) { cif_packet_tp *p2 = NULL; UChar *nn[3]; nn[0] = s->n_a; nn[1] = s->n_b; nn[2] = NULL; ARM(); rc = cif_packet_create(&p2, nn); DISARM(); if (rc == CIF_OK) cif_packet_free(p2); }
    else if (!strcmp(op, "packet_set_new")) { UChar *c = U("_new"); ARM(); rc = cif_packet_set_item(s->p, c, s->tbl); DISARM(); if (rc == CIF_OK) cif_packet_remove_item(s->p, c, NULL); free(c); }
    else if (!strcmp(op, "packet_set_existing")) { ARM(); rc = cif_packet_set_item(s->p, s->n_b, s->v); DISARM(); }
    else if (!strcmp(op, "packet_set_respelled")) { UChar *c = U("_A"); ARM(); rc = cif_packet_set_item(s->p, c, s->tbl); DISARM(); cif_packet_set_item(s->p, s->n_a, s->tbl); free(c); }
    else if (!strcmp(op, "packet_get")) { cif_value_tp *x = NULL; ARM(); rc = cif_packet_get_item(s->p, s->n_b, &x); DISARM(); }
    else if (!strcmp(op, "packet_remove")) { cif_value_tp *x = NULL; ARM(); rc = cif_packet_remove_item(s->p, s->n_b, &x); DISARM(); if (rc == CIF_OK) { cif_packet_set_item(s->p, s->n_b, x); cif_value_free(x); } }
    else if (!strcmp(op, "packet_names")) { const UChar **nm = NULL; ARM(); rc = cif_packet_get_names(s->p, &nm); DISARM(); if (rc == CIF_OK) free(nm); }
    else if (!strcmp(op, "parse_numb")) { UChar *t = U("-12.5e3(7)"); ARM(); rc = cif_value_parse_numb(s->num, t); DISARM(); if (rc != CIF_OK) free(t); }
    else if (!strcmp(op, "init_numb")) { cif_value_tp *x = NULL; cif_value_create(CIF_UNK_KIND, &x); ARM(); rc = cif_value_init_numb(x, 12.345, 0.02, 2, 5); DISARM(); cif_value_free(x); }
    else if (!strcmp(op, "autoinit_numb")) { cif_value_tp *x = NULL; cif_value_create(CIF_UNK_KIND, &x); ARM(); rc = cif_value_autoinit_numb(x, 12.345, 0.02, 19); DISARM(); cif_value_free(x); }
    else if (!strcmp(op, "get_text")) { UChar *t = NULL; ARM(); rc = cif_value_get_text(s->num, &t); DISARM(); free(t); }
    else if (!strcmp(op, "get_number")) { double d; cif_value_tp *x = NULL; UChar *t = U("12.5"); cif_value_create(CIF_UNK_KIND, &x); cif_value_init_char(x, t); ARM(); rc = cif_value_get_number(x, &d); DISARM(); cif_value_free(x); }
    else if (!strcmp(op, "set_quoted")) { ARM(); rc = cif_value_set_quoted(s->v, CIF_NOT_QUOTED); DISARM(); cif_value_set_quoted(s->v, CIF_QUOTED); }
    else if (!strcmp(op, "normalize")) { UChar *t = NULL; ARM(); rc = cif_normalize(s->k1, -1, &t); DISARM(); free(t); }
    else if (!strcmp(op, "analyze")) { struct cif_string_analysis_s a; ARM(); rc = cif_analyze_string(s->s1, 1, 1, 2048, &a); DISARM(); }
    else if (!strcmp(op, "api_version")) { char *vs = NULL; ARM(); rc = cif_get_api_version(&vs); DISARM(); free(vs); }
    else if (!strcmp(op, "cif_create")) { cif_tp *c2 = NULL; ARM(); rc = cif_create(&c2); DISARM(); if (c2) cif_destroy(c2); }
    else if (!strcmp(op, "create_block")) { cif_block_tp *b2 = NULL; ARM(); rc = cif_create_block(s->cif, s->k1, &b2); DISARM(); if (b2) { if (rc == CIF_OK) cif_container_destroy(b2); else cif_container_free(b2); } }
    else if (!strcmp(op, "get_block")) { cif_block_tp *b2 = NULL; UChar *c = U("BLK"); ARM(); rc = cif_get_block(s->cif, c, &b2); DISARM(); free(c); if (b2) cif_container_free(b2); }
    else if (!strcmp(op, "get_all_blocks")) { cif_block_tp **bs = NULL; ARM(); rc = cif_get_all_blocks(s->cif, &bs); DISARM(); if (rc == CIF_OK) { int i; for (i = 0; bs[i]; i++) cif_container_free(bs[i]); free(bs); } }
    else if (!strcmp(op, "create_frame")) { cif_frame_tp *f = NULL; ARM(); rc = cif_container_create_frame(s->b, s->k1, &f); DISARM(); if (f) { if (rc == CIF_OK) cif_container_destroy(f); else cif_container_free(f); } }
    else if (!strcmp(op, "get_frame")) { cif_frame_tp *f = NULL; UChar *c = U("FR"); ARM(); rc = cif_container_get_frame(s->b, c, &f); DISARM(); free(c); if (f) cif_container_free(f); }
    else if (!strcmp(op, "get_all_frames")) { cif_frame_tp **fs = NULL; ARM(); rc = cif_container_get_all_frames(s->b, &fs); DISARM(); if (rc == CIF_OK) { int i; for (i = 0; fs[i]; i++) cif_container_free(fs[i]); free(fs); } }
    else if (!strcmp(op, "get_code")) { UChar *c = NULL; ARM(); rc = cif_container_get_code(s->b, &c); DISARM(); free(c); }
    else if (!strcmp(op, "destroy_frame")) { ARM(); rc = cif_container_destroy(s->fr); DISARM(); if (rc == CIF_OK) { UChar *c = U("fr"), *t = U("_t"); s->fr = NULL; cif_container_create_frame(s->b, c, &s->fr); cif_container_set_value(s->fr, t, s->num); free(c); free(t); } }
    else if (!strcmp(op, "create_loop")) { cif_loop_tp *l2 = NULL; UChar *nn[3]; nn[0] = U("_x"); nn[1] = U("_y"); nn[2] = NULL; ARM(); rc = cif_container_create_loop(s->b, NULL, nn, &l2); DISARM(); if (l2) { if (rc == CIF_OK) cif_loop_destroy(l2); else cif_loop_free(l2); } free(nn[0]); free(nn[1]); }
    else if (!strcmp(op, "get_all_loops")) { cif_loop_tp **ls = NULL; ARM(); rc = cif_container_get_all_loops(s->b, &ls); DISARM(); if (rc == CIF_OK) { int i; for (i = 0; ls[i]; i++) cif_loop_free(ls[i]); free(ls); } }
    else if (!strcmp(op, "get_names")) { UChar **nm = NULL; ARM(); rc = cif_loop_get_names(s->l, &nm); DISARM(); if (rc == CIF_OK) { int i; for (i = 0; nm[i]; i++) free(nm[i]); free(nm); } }
    else if (!strcmp(op, "get_category")) { UChar *c = NULL; ARM(); rc = cif_loop_get_category(s->l, &c); DISARM(); free(c); }
    else if (!strcmp(op, "set_category")) { UChar *c = U("c"); ARM(); rc = cif_loop_set_category(s->l, s->k1); DISARM(); if (rc == CIF_OK) cif_loop_set_category(s->l, c); free(c); }
    else if (!strcmp(op, "get_item_loop")) { cif_loop_tp *l2 = NULL; ARM(); rc = cif_container_get_item_loop(s->b, s->n_b, &l2); DISARM(); if (l2) cif_loop_free(l2); }
    else if (!strcmp(op, "get_cat_loop")) { cif_loop_tp *l2 = NULL; UChar *c = U("c"); ARM(); rc = cif_container_get_category_loop(s->b, c, &l2); DISARM(); free(c); if (l2) cif_loop_free(l2); }
    else if (!strcmp(op, "add_packet")) {
        ARM(); rc = cif_loop_add_packet(s->l, s->p); DISARM();
        if (rc == CIF_OK) {   /* undo: remove the third packet again */
            cif_pktitr_tp *it = NULL; cif_packet_tp *q = NULL; int n = 0;
            if (cif_loop_get_packets(s->l, &it) == CIF_OK) {
                while (cif_pktitr_next_packet(it, &q) == CIF_OK) if (++n == 3) cif_pktitr_remove_packet(it);
                cif_pktitr_close(it); cif_packet_free(q);
            }
        }
    }
    else if (!strcmp(op, "add_item")) { UChar *c = U("_new"); ARM(); rc = cif_loop_add_item(s->l, c, s->tbl); DISARM(); if (rc == CIF_OK) cif_container_remove_item(s->b, c); free(c); }
    else if (!strcmp(op, "set_value_new")) { UChar *c = U("_new"); ARM(); rc = cif_container_set_value(s->b, c, s->tbl); DISARM(); if (rc == CIF_OK) cif_container_remove_item(s->b, c); free(c); }
    else if (!strcmp(op, "set_value_biglist")) {
        /* a list whose serialised form outgrows the 512-byte serialisation buffer more than once (cif_buf_write's growth, incl. its
           fall-back to the exact size when the generous request fails) */
        cif_value_tp *big = NULL; UChar *c = U("_big"); int i;
        cif_value_create(CIF_LIST_KIND, &big);
        for (i = 0; big && i < 60; i++) cif_value_insert_element_at(big, (size_t) i, (i % 7 == 3) ? s->num : s->v);
        ARM(); rc = cif_container_set_value(s->b, c, big); DISARM();
        if (rc == CIF_OK) { cif_value_tp *back = NULL; if (cif_container_get_value(s->b, c, &back) == CIF_OK) { size_t n = 0; cif_value_get_element_count(back, &n); if (n != 60) rc = 9999; cif_value_free(back); } cif_container_remove_item(s->b, c); }
        cif_value_free(big); free(c);
    }
    else if (!strcmp(op, "set_value_existing")) { UChar *c = U("_s"); ARM(); rc = cif_container_set_value(s->b, c, s->lst); DISARM(); if (rc == CIF_OK) cif_container_set_value(s->b, c, s->tbl); free(c); }
    else if (!strcmp(op, "get_value")) { UChar *c = U("_s"); ARM(); rc = cif_container_get_value(s->b, c, &s->w); DISARM(); free(c); }
    else if (!strcmp(op, "get_value_looped")) { ARM(); rc = cif_container_get_value(s->b, s->n_a, &s->w); DISARM(); if (rc == CIF_AMBIGUOUS_ITEM) rc = CIF_OK; }
    else if (!strcmp(op, "remove_item")) { ARM(); rc = cif_container_remove_item(s->b, s->n_b); DISARM(); if (rc == CIF_OK) cif_loop_add_item(s->l, s->n_b, s->v); }
    else if (!strcmp(op, "prune")) { ARM(); rc = cif_container_prune(s->b); DISARM(); }
    else if (!strcmp(op, "loop_destroy")) { ARM(); rc = cif_loop_destroy(s->l); DISARM(); if (rc == CIF_OK) { UChar *c = U("c"); s->l = NULL; cif_container_create_loop(s->b, c, s->names, &s->l); cif_loop_add_packet(s->l, s->p); cif_loop_add_packet(s->l, s->p); free(c); } }
    else if (!strcmp(op, "get_packets")) { cif_pktitr_tp *it = NULL; ARM(); rc = cif_loop_get_packets(s->l, &it); DISARM(); if (rc == CIF_OK) cif_pktitr_abort(it); }
    else if (!strcmp(op, "iter_next") || !strcmp(op, "iter_update") || !strcmp(op, "iter_remove")) {
        cif_pktitr_tp *it = NULL; cif_packet_tp *q = NULL;
        if (cif_loop_get_packets(s->l, &it) != CIF_OK) return -98;
        if (!strcmp(op, "iter_next")) { ARM(); rc = cif_pktitr_next_packet(it, &q); DISARM(); }
        else {
            if (cif_pktitr_next_packet(it, &q) != CIF_OK) { cif_pktitr_abort(it); return -97; }
            if (!strcmp(op, "iter_update")) { cif_packet_set_item(q, s->n_b, s->lst); ARM(); rc = cif_pktitr_update_packet(it, q); DISARM(); }
            else { ARM(); rc = cif_pktitr_remove_packet(it); DISARM(); }
        }
        cif_packet_free(q);
        cif_pktitr_abort(it);     /* whatever happened is reverted: the snapshot comparison then checks the abort path, too */
    }
    else if (!strcmp(op, "walk")) { cif_handler_tp h = { hc, hc, hb, hb, hb, hb, hl, hl, hp, hp, hi }; ARM(); rc = cif_walk(s->cif, &h, NULL); DISARM(); }
    else if (!strcmp(op, "write")) { char *mem = NULL; size_t msz = 0; FILE *f = open_memstream(&mem, &msz); ARM(); rc = cif_write(f, NULL, s->cif); DISARM(); fclose(f); free(mem); }
    else if (!strcmp(op, "parse") || !strcmp(op, "parse_into")) {
        FILE *f = fmemopen((void *) PARSE_DOC, strlen(PARSE_DOC), "rb");
        struct cif_parse_opts_s *o = NULL; cif_tp *c2 = NULL; cif_tp **target = &c2;
        cif_parse_options_create(&o); o->error_callback = noop_err;
        if (!strcmp(op, "parse_into")) target = &s->cif;
        ARM(); rc = cif_parse(f, o, target); DISARM();
        fclose(f); free(o);
        if (c2) cif_destroy(c2);
        if (!strcmp(op, "parse_into")) { cif_block_tp *d = NULL; UChar *c = U("d"); if (cif_get_block(s->cif, c, &d) == CIF_OK) cif_container_destroy(d); free(c); }
    }
    return rc;
}

static void handle(int argc, char **argv) {
    struct scn s;
    const struct opdesc *od;
    char *before, *after, *evsave;
    int rc, rc2 = -99, isnull = 0, cls, evcount, evover;
    long k;
    if (argc == 2 && !strcmp(argv[1], "ops")) {          /* list of operations, for the generator */
        OUT("om ops");
        for (od = OPS; od->name; od++) OUT(" %s", od->name);
        OUT(" hooks sq=%d icu=%d", sq_hooked, icu_hooked);
        return;
    }
    if (argc != 4) { OUT("bad-op"); return; }
    for (od = OPS; od->name && strcmp(od->name, argv[1]); od++) ;
    if (!od->name) { OUT("bad-op"); return; }
    cls = !strcmp(argv[2], "lib") ? 0 : !strcmp(argv[2], "sq") ? 1 : !strcmp(argv[2], "icu") ? 2 : -1;
    k = atol(argv[3]);
    if (cls < 0 || k < 0) { OUT("bad-op"); return; }
    if (scn_build(&s) != 0) { OUT("om scenario-failed"); scn_free(&s); return; }
    before = snapshot(&s);
    verif_arm(cls, k);
    rc = run_op(od->name, &s, &isnull);
    fail_at = 0;
    after = snapshot(&s);
    touch_objects(&s);
    evsave = __real_strdup(evbuf);
    evcount = nev; evover = evoverflow;
    if (fired) {
        /* the same call must succeed when repeated with memory available */
        cif_value_free(s.w); s.w = NULL;
        rc2 = run_op(od->name, &s, &isnull);
    }
    OUT("om op=%s cls=%s k=%ld rc=%d fired=%d n=%ld site=%s same=%d retry=%d", od->name, argv[2], k, rc, fired, counts[cls], site,
        strcmp(before, after) == 0, rc2);
    OUT(" ev=%s%s", evcount ? "" : "-", evover ? "..." : "");
    if (evcount) { char *p; for (p = evsave; *p; p++) if (*p == ' ') *p = ','; OUT("%s", evsave); }
    free(evsave);
    free(before); free(after);
    scn_free(&s);
}
