/*
 * executor for family `ustream`: the REAL file-static character source of cif_parse — ustream_read_chars() with its ICU
 * to-Unicode callback ustream_to_unicode_callback() (src/ciffile.c, reached by #including that file; HARNESS exclude_objs
 * ["ciffile"]) — on a byte string behind a real FILE*, driven by a given sequence of request sizes.
 *
 *   ustream <enc> <setup> <ver> <policy> <bytes> <counts>
 *     enc    : utf8 | utf16le | utf16be            -> ucnv_open("UTF-8" | "UTF-16LE" | "UTF-16BE")
 *     setup  : s  the first 4096 bytes are read before the first call, exactly as cif_parse does when it sniffs the encoding
 *              f  nothing is read beforehand (cif_parse with force_default_encoding: count = 0)
 *     ver    : 1 | 2                               scanner.cif_version (replacement unit '*' resp. U+FFFD)
 *     policy : a (every report answered 0) | d (answered with the code reported) | r<k>:<v> (report number k, 0-based over the
 *              whole request, answered v != 0; all others 0)
 *     bytes  : the file, 4 hex digits per byte (00xx); `-` = empty file
 *     counts : comma-separated decimal `count` arguments of the successive calls (0 and negative allowed), at least one
 *
 *   answer: us <call>;<call>;…   <call> = <ret>:<ec>:<units delivered as hex | ->:<codes reported during the call joined by + | ->
 *   No call is made after one that returned a negative value.  `!pos` is appended if the error callback ever received
 *   anything but line 7, column 3, text NULL, length 0 (the values planted in the scanner).
 */
#include "common.h"
#include <errno.h>
#include <limits.h>
#include <unicode/ucnv.h>
#include "ciffile.c"

#define USTREAM_BUFFER_SIZE 4096        /* cif_parse's BUFFER_SIZE (it #undefs the macro) */

struct ulog {
    long n;            /* reports so far, over the whole request */
    long first;        /* index of the first report of the current call */
    long cap;
    int *code;
    char mode;         /* a | d | r */
    long k;
    int v;
    int badpos;
};

static int log_report(int code, size_t line, size_t column, const UChar *text, size_t length, void *data) {
    struct ulog *l = (struct ulog *) data;
    long k = l->n;
    if (l->n == l->cap) {
        l->cap = l->cap ? l->cap * 2 : 64;
        l->code = (int *) realloc(l->code, l->cap * sizeof(int));
    }
    l->code[l->n++] = code;
    if (line != 7 || column != 3 || text != NULL || length != 0) l->badpos = 1;
    switch (l->mode) {
        case 'd': return code;
        case 'r': return (k == l->k) ? l->v : 0;
        default: return 0;
    }
}

/* a decimal integer filling the whole of [s, e) */
static int parse_long(const char *s, const char *e, long *out) {
    char *end = NULL;
    const char *p = s;
    if (s == e) return 0;
    if (*p == '-') p++;
    if (p == e) return 0;
    for (; p < e; p++) if (*p < '0' || *p > '9') return 0;
    errno = 0;
    *out = strtol(s, &end, 10);
    return errno == 0 && end == e;
}

static void handle(int argc, char **argv) {
    const char *name = NULL;
    UChar *b = NULL;
    size_t n = 0, i, ncounts = 0;
    unsigned char *bytes = NULL;
    long *counts = NULL;
    struct ulog l;
    int ver, setup;
    const char *p;

    memset(&l, 0, sizeof(l));
    if (argc != 7) { OUT("bad-op"); return; }
    if (!strcmp(argv[1], "utf8")) name = "UTF-8";
    else if (!strcmp(argv[1], "utf16le")) name = "UTF-16LE";
    else if (!strcmp(argv[1], "utf16be")) name = "UTF-16BE";
    else { OUT("bad-op"); return; }
    if (!strcmp(argv[2], "s")) setup = 's';
    else if (!strcmp(argv[2], "f")) setup = 'f';
    else { OUT("bad-op"); return; }
    if (!strcmp(argv[3], "1")) ver = 1;
    else if (!strcmp(argv[3], "2")) ver = 2;
    else { OUT("bad-op"); return; }
    if (!strcmp(argv[4], "a")) l.mode = 'a';
    else if (!strcmp(argv[4], "d")) l.mode = 'd';
    else if (argv[4][0] == 'r') {
        const char *colon = strchr(argv[4], ':');
        long k, v;
        if (!colon || !parse_long(argv[4] + 1, colon, &k) || k < 0 || !parse_long(colon + 1, colon + 1 + strlen(colon + 1), &v)
                || v == 0 || v > INT_MAX || v < INT_MIN) { OUT("bad-op"); return; }
        l.mode = 'r'; l.k = k; l.v = (int) v;
    } else { OUT("bad-op"); return; }
    if (!unhex(argv[5], &b, &n) || b == NULL) { OUT("bad-op"); free(b); return; }
    for (i = 0; i < n; i++) if (b[i] > 0xff) { OUT("bad-op"); free(b); return; }

    /* the counts */
    counts = (long *) malloc((strlen(argv[6]) / 2 + 2) * sizeof(long));
    for (p = argv[6]; ; ) {
        const char *e = strchr(p, ',');
        if (!e) e = p + strlen(p);
        if (!parse_long(p, e, &counts[ncounts])) { OUT("bad-op"); free(b); free(counts); return; }
        ncounts++;
        if (!*e) break;
        p = e + 1;
    }

    bytes = (unsigned char *) malloc(n + 1);
    for (i = 0; i < n; i++) bytes[i] = (unsigned char) b[i];

    {
        unsigned char buffer[USTREAM_BUFFER_SIZE];
        uchar_stream_t ustream;
        struct scanner_s *scanner = (struct scanner_s *) calloc(1, sizeof(struct scanner_s));
        UErrorCode icu = U_ZERO_ERROR;
        size_t count = 0;
        FILE *stream = n ? fmemopen(bytes, n, "rb") : fopen("/dev/null", "rb");

        memset(&ustream, 0, sizeof(ustream));
        if (stream == NULL || scanner == NULL) {
            OUT("bad-op");
        } else {
            if (setup == 's') {
                count = fread((char *) buffer, 1, USTREAM_BUFFER_SIZE, stream);
            }
            ustream.converter = ucnv_open(name, &icu);
            if (U_FAILURE(icu) || ustream.converter == NULL) {
                OUT("bad-op");
            } else {
                ucnv_setToUCallBack(ustream.converter, ustream_to_unicode_callback, scanner, NULL, NULL, &icu);
                if (U_FAILURE(icu)) {
                    OUT("bad-op");
                } else {
                    ustream.byte_stream = stream;
                    ustream.byte_buffer = buffer;
                    ustream.buffer_size = USTREAM_BUFFER_SIZE;
                    ustream.buffer_position = buffer;
                    ustream.buffer_limit = buffer + count;
                    ustream.eof_status = 0;
                    ustream.last_error = 0;

                    scanner->char_source = &ustream;
                    scanner->read_func = ustream_read_chars;
                    scanner->cif_version = ver;
                    scanner->error_callback = log_report;
                    scanner->user_data = &l;
                    scanner->line = 7;
                    scanner->column = 3;

                    OUT("us ");
                    for (i = 0; i < ncounts; i++) {
                        long cnt = counts[i];
                        int ec = 0;
                        UChar *dest = (UChar *) malloc((size_t) (cnt > 0 ? cnt : 1) * sizeof(UChar));
                        ssize_t r;
                        long j;
                        l.first = l.n;
                        r = ustream_read_chars(&ustream, dest, (ssize_t) cnt, &ec);
                        OUT("%s%ld:%d:", i ? ";" : "", (long) r, ec);
                        if (r > 0) outhexn(dest, (size_t) r); else OUT("-");
                        OUT(":");
                        if (l.n == l.first) OUT("-");
                        for (j = l.first; j < l.n; j++) OUT("%s%d", j > l.first ? "+" : "", l.code[j]);
                        free(dest);
                        if (r < 0) break;
                    }
                    if (l.badpos) OUT("!pos");
                }
                ucnv_close(ustream.converter);
            }
        }
        if (stream) fclose(stream);
        free(scanner);
    }
    free(l.code);
    free(bytes);
    free(counts);
    free(b);
}
