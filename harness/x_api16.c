/*
 * executor for family `api16` (property C16): size-boundary stress of the public API under ASan/UBSan with exact leak
 * accounting.  No model is involved; the observation only records result codes.  One request = one scenario:
 *
 *   api16 key <hex>          the string as a table key: set (twice, second time via a clone of the table), get, get_keys, remove;
 *                            as a packet item name (prefixed with '_'): create, set, get, names, remove
 *   api16 name <hex>         the string as block code, frame code and (prefixed with '_') data name: create, look up under the
 *                            same spelling, set/get a value, remove, destroy; then cif_normalize of it
 *   api16 list <n> <m> <i>   a list of n elements; clone it; insert m more elements at index min(i, size) into the CLONE and
 *                            into the original, read all back, remove every second one, free
 *   api16 text <hex>         the string as a character value: copy_char, set_quoted(NOT_QUOTED), analyze, as value of a scalar
 *                            stored and read back, written with cif_write (2.0 and 1.1) to memory
 */
#include "cifio.h"

static void do_key(UChar *k, size_t len) {
    cif_value_tp *t = NULL, *t2 = NULL, *v = NULL, *x = NULL;
    const UChar **keys = NULL;
    UChar *name = (UChar *) malloc((len + 2) * sizeof(UChar));
    cif_packet_tp *p = NULL;
    UChar *names[2];
    int rc[10], i = 0;
    name[0] = '_'; u_memcpy(name + 1, k, len); name[len + 1] = 0;
    cif_value_create(CIF_TABLE_KIND, &t); cif_value_create(CIF_UNK_KIND, &v);
    rc[i++] = cif_value_set_item_by_key(t, k, v);
    rc[i++] = cif_value_clone(t, &t2);
    rc[i++] = t2 ? cif_value_set_item_by_key(t2, k, t) : -1;
    rc[i++] = cif_value_get_item_by_key(t, k, &x);
    if ((rc[i++] = cif_value_get_keys(t, &keys)) == CIF_OK) { int j; for (j = 0; keys[j]; j++) (void) u_strlen(keys[j]); free(keys); }
    rc[i++] = cif_value_remove_item_by_key(t, k, NULL);
    names[0] = name; names[1] = NULL;
    rc[i++] = cif_packet_create(&p, names);
    if (p) {
        const UChar **pn = NULL;
        rc[i++] = cif_packet_set_item(p, name, t2 ? t2 : v);
        rc[i++] = cif_packet_get_item(p, name, &x);
        if (cif_packet_get_names(p, &pn) == CIF_OK) { int j; for (j = 0; pn[j]; j++) (void) u_strlen(pn[j]); free(pn); }
        rc[i++] = cif_packet_remove_item(p, name, NULL);
    }
    OUT("a16 key");
    { int j; for (j = 0; j < i; j++) OUT(" %d", rc[j]); }
    cif_packet_free(p); cif_value_free(t); cif_value_free(t2); cif_value_free(v); free(name);
}

static void do_name(UChar *k, size_t len) {
    cif_tp *cif = NULL; cif_block_tp *b = NULL, *b2 = NULL; cif_frame_tp *f = NULL; cif_value_tp *v = NULL, *w = NULL;
    UChar *name = (UChar *) malloc((len + 2) * sizeof(UChar)), *norm = NULL;
    int rc[12], i = 0;
    name[0] = '_'; u_memcpy(name + 1, k, len); name[len + 1] = 0;
    if (cif_create(&cif) != CIF_OK) { OUT("a16 create-failed"); free(name); return; }
    cif_value_create(CIF_UNK_KIND, &v);
    rc[i++] = cif_create_block(cif, k, &b);
    rc[i++] = cif_get_block(cif, k, &b2);
    if (!b) { UChar plain[] = { 'b', 0 }; cif_create_block(cif, plain, &b); }
    if (b) {
        rc[i++] = cif_container_create_frame(b, k, &f);
        rc[i++] = cif_container_set_value(b, name, v);
        rc[i++] = cif_container_get_value(b, name, &w);
        rc[i++] = cif_container_remove_item(b, name);
        if (f) rc[i++] = cif_container_destroy(f), f = NULL;
    }
    rc[i++] = cif_normalize(k, -1, &norm);
    OUT("a16 name");
    { int j; for (j = 0; j < i; j++) OUT(" %d", rc[j]); }
    free(norm); cif_value_free(v); cif_value_free(w);
    if (f) cif_container_free(f); if (b2) cif_container_free(b2); if (b) cif_container_free(b);
    cif_destroy(cif); free(name);
}

static void do_list(int n, int m, int at) {
    cif_value_tp *l = NULL, *c = NULL, *e = NULL, *x = NULL;
    UChar txt[] = { 'e', 0 };
    int i, bad = 0;
    size_t sz;
    cif_value_create(CIF_LIST_KIND, &l); cif_value_create(CIF_UNK_KIND, &e); cif_value_copy_char(e, txt);
    for (i = 0; i < n; i++) bad |= cif_value_insert_element_at(l, (size_t) i, e);
    bad |= cif_value_clone(l, &c);
    for (i = 0; c && i < m; i++) { cif_value_get_element_count(c, &sz); bad |= cif_value_insert_element_at(c, (size_t) at < sz ? (size_t) at : sz, i % 2 ? l : e); }
    for (i = 0; i < m; i++) { cif_value_get_element_count(l, &sz); bad |= cif_value_insert_element_at(l, (size_t) at < sz ? (size_t) at : sz, e); }
    if (c) { cif_value_get_element_count(c, &sz); for (i = 0; (size_t) i < sz; i++) if (cif_value_get_element_at(c, i, &x) == CIF_OK) (void) cif_value_kind(x); }
    if (c) { cif_value_get_element_count(c, &sz); for (i = (int) sz - 1; i >= 0; i -= 2) { x = NULL; cif_value_remove_element_at(c, i, &x); cif_value_free(x); } }
    if (c) { cif_value_get_element_count(c, &sz); OUT("a16 list %d %zu", bad, sz); } else OUT("a16 list %d -", bad);
    cif_value_free(c); cif_value_free(l); cif_value_free(e);
}

static void do_text(UChar *s, size_t len) {
    cif_tp *cif = NULL; cif_block_tp *b = NULL; cif_value_tp *v = NULL, *w = NULL;
    struct cif_string_analysis_s a;
    UChar code[] = { 'b', 0 }, nm[] = { '_', 'x', 0 };
    int rc[8], i = 0, ver;
    (void) len;
    cif_value_create(CIF_UNK_KIND, &v);
    rc[i++] = cif_value_copy_char(v, s);
    rc[i++] = cif_value_set_quoted(v, CIF_NOT_QUOTED);
    rc[i++] = cif_analyze_string(s, 1, 1, 2048, &a);
    if (cif_create(&cif) == CIF_OK && cif_create_block(cif, code, &b) == CIF_OK) {
        rc[i++] = cif_container_set_value(b, nm, v);
        rc[i++] = cif_container_get_value(b, nm, &w);
        for (ver = 2; ver >= 1; ver--) {
            char *mem = NULL; size_t msz = 0; FILE *f = open_memstream(&mem, &msz);
            struct cif_write_opts_s *wo = NULL;
            cif_write_options_create(&wo); wo->cif_version = (ver == 1) ? 1 : 0;
            rc[i++] = cif_write(f, wo, cif);
            fclose(f); free(mem); free(wo);
        }
    }
    OUT("a16 text");
    { int j; for (j = 0; j < i; j++) OUT(" %d", rc[j]); }
    cif_value_free(v); cif_value_free(w); if (b) cif_container_free(b); if (cif) cif_destroy(cif);
}

static void handle(int argc, char **argv) {
    UChar *s = NULL; size_t len = 0;
    if (argc == 3 && !strcmp(argv[1], "key") && unhex(argv[2], &s, &len) && s) { do_key(s, len); free(s); }
    else if (argc == 3 && !strcmp(argv[1], "name") && unhex(argv[2], &s, &len) && s) { do_name(s, len); free(s); }
    else if (argc == 3 && !strcmp(argv[1], "text") && unhex(argv[2], &s, &len) && s) { do_text(s, len); free(s); }
    else if (argc == 5 && !strcmp(argv[1], "list")) do_list(atoi(argv[2]), atoi(argv[3]), atoi(argv[4]));
    else OUT("bad-op");
}
