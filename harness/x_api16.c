/*
 * executor for family `api16` (property C16): size-boundary stress of the public API under ASan/UBSan with exact leak
 * accounting.  No model is involved; the observation only records result codes.  One request = one scenario:
 *
 *   api16 key <hex>          the string as a table key: set (twice, second time via a clone of the table), get, get_keys, remove;
 *                            as a packet item name (prefixed with '_'): create, set, get, names, remove
 *   api16 name <hex>         the string as block code, frame code and (prefixed with '_') data name: create, look up under the
 *                            same spelling, set/get a value, remove, destroy; then cif_normalize of it
 *   api16 list <n> <m> <i>   a list of n elements; clone it; insert m more elements at index min(i, size) into the CLONE and
 *                            into the original, read all back, remove every second one, free
 *   api16 misc <n>           public functions no other family calls, valid and documented error paths: cif_cstr_to_ustr,
 *                            cif_get_api_version, cif_parse_error_die / _ignore (directly and as the callback of a parse of an
 *                            erroneous text), cif_value_clean on every kind, cif_u_strdup
 *   api16 verr <n>           documented error exits of the value functions: wrong kind of value, index out of range, NULL text,
 *                            invalid kind code, non-numeric text, absent key, invalid number-initialisation arguments
 *   api16 herr <n>           documented error exits of the handle functions: NULL / stale container and loop handles (the
 *                            object destroyed through another handle), NULL iterator location, duplicate category
 *                            (CIF_CAT_NOT_UNIQUE), duplicates and absent names
 *   api16 text <hex>         the string as a character value: copy_char, set_quoted(NOT_QUOTED), analyze, as value of a scalar
 *                            stored and read back, written with cif_write (2.0 and 1.1) to memory
 */
#include "cifio.h"

static void do_key(UChar *k, size_t len) {
    cif_value_tp *t = NULL, *t2 = NULL, *v = NULL, *x = NULL;
    const UChar **keys = NULL;
    UChar *name = (UChar *) malloc((len + 2) * sizeof(UChar));
    cif_packet_tp *p = NULL;
    UChar *names[2];
    int rc[10], i = 0;
    name[0] = '_'; u_memcpy(name + 1, k, len); name[len + 1] = 0;
    cif_value_create(CIF_TABLE_KIND, &t); cif_value_create(CIF_UNK_KIND, &v);
    rc[i++] = cif_value_set_item_by_key(t, k, v);
    rc[i++] = cif_value_clone(t, &t2);
    rc[i++] = t2 ? cif_value_set_item_by_key(t2, k, t) : -1;
    rc[i++] = cif_value_get_item_by_key(t, k, &x);
    if ((rc[i++] = cif_value_get_keys(t, &keys)) == CIF_OK) { int j; for (j = 0; keys[j]; j++) (void) u_strlen(keys[j]); free(keys); }
    rc[i++] = cif_value_remove_item_by_key(t, k, NULL);
    names[0] = name; names[1] = NULL;
    rc[i++] = cif_packet_create(&p, names);
    if (p) {
        const UChar **pn = NULL;
        rc[i++] = cif_packet_set_item(p, name, t2 ? t2 : v);
        rc[i++] = cif_packet_get_item(p, name, &x);
        if (cif_packet_get_names(p, &pn) == CIF_OK) { int j; for (j = 0; pn[j]; j++) (void) u_strlen(pn[j]); free(pn); }
        rc[i++] = cif_packet_remove_item(p, name, NULL);
    }
    OUT("a16 key");
    { int j; for (j = 0; j < i; j++) OUT(" %d", rc[j]); }
    cif_packet_free(p); cif_value_free(t); cif_value_free(t2); cif_value_free(v); free(name);
}

static void do_name(UChar *k, size_t len) {
    cif_tp *cif = NULL; cif_block_tp *b = NULL, *b2 = NULL; cif_frame_tp *f = NULL; cif_value_tp *v = NULL, *w = NULL;
    UChar *name = (UChar *) malloc((len + 2) * sizeof(UChar)), *norm = NULL;
    int rc[12], i = 0;
    name[0] = '_'; u_memcpy(name + 1, k, len); name[len + 1] = 0;
    if (cif_create(&cif) != CIF_OK) { OUT("a16 create-failed"); free(name); return; }
    cif_value_create(CIF_UNK_KIND, &v);
    rc[i++] = cif_create_block(cif, k, &b);
    rc[i++] = cif_get_block(cif, k, &b2);
    if (!b) { UChar plain[] = { 'b', 0 }; cif_create_block(cif, plain, &b); }
    if (b) {
        rc[i++] = cif_container_create_frame(b, k, &f);
        rc[i++] = cif_container_set_value(b, name, v);
        rc[i++] = cif_container_get_value(b, name, &w);
        rc[i++] = cif_container_remove_item(b, name);
        if (f) rc[i++] = cif_container_destroy(f), f = NULL;
    }
    rc[i++] = cif_normalize(k, -1, &norm);
    OUT("a16 name");
    { int j; for (j = 0; j < i; j++) OUT(" %d", rc[j]); }
    free(norm); cif_value_free(v); cif_value_free(w);
    if (f) cif_container_free(f); if (b2) cif_container_free(b2); if (b) cif_container_free(b);
    cif_destroy(cif); free(name);
}

static void do_list(int n, int m, int at) {
    cif_value_tp *l = NULL, *c = NULL, *e = NULL, *x = NULL;
    UChar txt[] = { 'e', 0 };
    int i, bad = 0;
    size_t sz;
    cif_value_create(CIF_LIST_KIND, &l); cif_value_create(CIF_UNK_KIND, &e); cif_value_copy_char(e, txt);
    for (i = 0; i < n; i++) bad |= cif_value_insert_element_at(l, (size_t) i, e);
    bad |= cif_value_clone(l, &c);
    for (i = 0; c && i < m; i++) { cif_value_get_element_count(c, &sz); bad |= cif_value_insert_element_at(c, (size_t) at < sz ? (size_t) at : sz, i % 2 ? l : e); }
    for (i = 0; i < m; i++) { cif_value_get_element_count(l, &sz); bad |= cif_value_insert_element_at(l, (size_t) at < sz ? (size_t) at : sz, e); }
    if (c) { cif_value_get_element_count(c, &sz); for (i = 0; (size_t) i < sz; i++) if (cif_value_get_element_at(c, i, &x) == CIF_OK) (void) cif_value_kind(x); }
    if (c) { cif_value_get_element_count(c, &sz); for (i = (int) sz - 1; i >= 0; i -= 2) { x = NULL; cif_value_remove_element_at(c, i, &x); cif_value_free(x); } }
    if (c) { cif_value_get_element_count(c, &sz); OUT("a16 list %d %zu", bad, sz); } else OUT("a16 list %d -", bad);
    cif_value_free(c); cif_value_free(l); cif_value_free(e);
}

static void do_text(UChar *s, size_t len) {
    cif_tp *cif = NULL; cif_block_tp *b = NULL; cif_value_tp *v = NULL, *w = NULL;
    struct cif_string_analysis_s a;
    UChar code[] = { 'b', 0 }, nm[] = { '_', 'x', 0 };
    int rc[8], i = 0, ver;
    (void) len;
    cif_value_create(CIF_UNK_KIND, &v);
    rc[i++] = cif_value_copy_char(v, s);
    rc[i++] = cif_value_set_quoted(v, CIF_NOT_QUOTED);
    rc[i++] = cif_analyze_string(s, 1, 1, 2048, &a);
    if (cif_create(&cif) == CIF_OK && cif_create_block(cif, code, &b) == CIF_OK) {
        rc[i++] = cif_container_set_value(b, nm, v);
        rc[i++] = cif_container_get_value(b, nm, &w);
        for (ver = 2; ver >= 1; ver--) {
            char *mem = NULL; size_t msz = 0; FILE *f = open_memstream(&mem, &msz);
            struct cif_write_opts_s *wo = NULL;
            cif_write_options_create(&wo); wo->cif_version = (ver == 1) ? 1 : 0;
            rc[i++] = cif_write(f, wo, cif);
            fclose(f); free(mem); free(wo);
        }
    }
    OUT("a16 text");
    { int j; for (j = 0; j < i; j++) OUT(" %d", rc[j]); }
    cif_value_free(v); cif_value_free(w); if (b) cif_container_free(b); if (cif) cif_destroy(cif);
}


/* every value kind, built through the public API */
static cif_value_tp *mkkind(int which) {
    cif_value_tp *v = NULL, *e = NULL;
    UChar t[] = { '1', '.', '5', '(', '2', ')', 0 }, k[] = { 'k', 0 };
    switch (which) {
    case 0: cif_value_create(CIF_UNK_KIND, &v); break;
    case 1: cif_value_create(CIF_NA_KIND, &v); break;
    case 2: cif_value_create(CIF_UNK_KIND, &v); cif_value_copy_char(v, k); break;
    case 3: cif_value_create(CIF_UNK_KIND, &v); { UChar *c = cif_u_strdup(t); if (cif_value_parse_numb(v, c) != CIF_OK) free(c); } break;
    case 4: cif_value_create(CIF_LIST_KIND, &v); cif_value_create(CIF_UNK_KIND, &e); cif_value_copy_char(e, k); cif_value_insert_element_at(v, 0, e); cif_value_insert_element_at(v, 1, e); break;
    default: cif_value_create(CIF_TABLE_KIND, &v); cif_value_create(CIF_UNK_KIND, &e); cif_value_copy_char(e, k); cif_value_set_item_by_key(v, k, e); break;
    }
    cif_value_free(e);
    return v;
}

static void do_misc(int n) {
    int rc[40], i = 0, w;
    UChar *u = NULL;
    char *ver = NULL;
    const char *srcs[] = { "abc", "", "\xc3\xa9t\xc3\xa9", "\xff\xfe bad utf8", "a" };
    (void) n;
    for (w = 0; w < 5; w++) { u = NULL; rc[i++] = cif_cstr_to_ustr(srcs[w], w == 4 ? 1 : -1, &u); free(u); }
    u = (UChar *) 1; rc[i++] = cif_cstr_to_ustr(NULL, -1, &u);              /* NULL source: *ustr = NULL */
    rc[i++] = (u == NULL) ? 0 : -1;
    rc[i++] = cif_cstr_to_ustr("x", -1, NULL);                               /* no destination */
    rc[i++] = cif_get_api_version(&ver); if (ver) { rc[i++] = (int) strlen(ver) > 0; free(ver); }
    rc[i++] = cif_get_api_version(NULL);
    rc[i++] = cif_parse_error_die(CIF_INVALID_ITEMNAME, 1, 1, NULL, 0, NULL);
    rc[i++] = cif_parse_error_ignore(CIF_INVALID_ITEMNAME, 1, 1, NULL, 0, NULL);
    for (w = 0; w < 2; w++) {
        /* an erroneous document (duplicate data name, unterminated quoted string) parsed with each of the two callbacks */
        static const char doc[] = "#\\#CIF_2.0\ndata_d\n_a 1\n_a 2\n_b 'unterminated\n_c [1 2\n";
        struct cif_parse_opts_s *po = NULL;
        cif_tp *cif = NULL;
        FILE *f = fmemopen((void *) doc, sizeof doc - 1, "r");
        cif_parse_options_create(&po);
        po->error_callback = w ? cif_parse_error_ignore : cif_parse_error_die;
        rc[i++] = cif_parse(f, po, &cif);
        fclose(f); free(po);
        if (cif) cif_destroy(cif);
    }
    for (w = 0; w < 6; w++) {
        cif_value_tp *v = mkkind(w);
        UChar t[] = { 'z', 0 };
        cif_value_clean(v); rc[i++] = (int) cif_value_kind(v);
        cif_value_clean(v);                                                   /* cleaning twice is allowed */
        rc[i++] = cif_value_copy_char(v, t);                                  /* the cleaned object is reusable */
        cif_value_free(v);
    }
    { UChar e[] = { 0 }, *d = cif_u_strdup(e); rc[i++] = d ? 0 : -1; free(d); d = cif_u_strdup(NULL); rc[i++] = d ? -1 : 0; free(d); }
    OUT("a16 misc");
    { int j; for (j = 0; j < i; j++) OUT(" %d", rc[j]); }
}

static void do_verr(int n) {
    int rc[240], i = 0, w;
    UChar k[] = { 'k', 0 }, absent[] = { 'q', 0 }, notnum[] = { 'x', 'y', 0 }, bad[] = { 'a', 0xFFFF, 0 };
    cif_value_tp *x = NULL;
    (void) n;
    rc[i++] = cif_value_create((cif_kind_tp) 99, &x);                        /* invalid kind code */
    rc[i++] = cif_value_create((cif_kind_tp) -1, &x);
    for (w = 0; w < 6; w++) {
        cif_value_tp *v = mkkind(w), *e = NULL, *c = NULL;
        const UChar **keys = NULL;
        UChar *txt = NULL;
        size_t cnt = 0;
        double d = 0;
        rc[i++] = cif_value_get_element_count(v, &cnt);
        rc[i++] = cif_value_get_element_at(v, 0, &e);
        rc[i++] = cif_value_get_element_at(v, 7, &e);
        rc[i++] = cif_value_set_element_at(v, 7, v);
        rc[i++] = cif_value_insert_element_at(v, 9, v);
        rc[i++] = cif_value_remove_element_at(v, 5, NULL);
        e = NULL; rc[i++] = cif_value_remove_element_at(v, 5, &e); cif_value_free(e);
        rc[i++] = cif_value_get_keys(v, &keys); if (keys) free(keys);
        rc[i++] = cif_value_set_item_by_key(v, bad, NULL);                    /* not a valid key */
        rc[i++] = cif_value_get_item_by_key(v, absent, &e);
        rc[i++] = cif_value_remove_item_by_key(v, absent, NULL);
        e = NULL; rc[i++] = cif_value_remove_item_by_key(v, absent, &e);
        rc[i++] = cif_value_get_number(v, &d);
        rc[i++] = cif_value_get_su(v, &d);
        rc[i++] = cif_value_get_text(v, &txt); free(txt);
        rc[i++] = cif_value_set_quoted(v, CIF_NOT_QUOTED);
        rc[i++] = (int) cif_value_is_quoted(v);
        rc[i++] = cif_value_clone(v, &c); cif_value_free(c);
        cif_value_free(v);
    }
    {
        cif_value_tp *v = NULL;
        double d;
        cif_value_create(CIF_UNK_KIND, &v);
        rc[i++] = cif_value_copy_char(v, NULL);
        rc[i++] = cif_value_init_char(v, NULL);
        rc[i++] = cif_value_copy_char(v, notnum);
        rc[i++] = cif_value_get_number(v, &d);                                /* text that is not a number */
        rc[i++] = cif_value_get_su(v, &d);
        { UChar *c = cif_u_strdup(notnum); if ((rc[i++] = cif_value_parse_numb(v, c)) != CIF_OK) free(c); }
        rc[i++] = cif_value_init_numb(v, 1.0, -1.0, 2, 1);                    /* negative su */
        rc[i++] = cif_value_init_numb(v, 1.0, 0.1, -400, 1);
        rc[i++] = cif_value_init_numb(v, 1.0, 0.1, 2, 0);
        rc[i++] = cif_value_autoinit_numb(v, 1.0, -0.5, 19);
        rc[i++] = cif_value_autoinit_numb(v, 1.0, 0.5, 1);
        rc[i++] = cif_value_init(v, (cif_kind_tp) 77);
        rc[i++] = cif_value_init(v, CIF_TABLE_KIND);
        rc[i++] = cif_value_set_item_by_key(v, k, v);                         /* a table holding a copy of itself */
        rc[i++] = cif_value_try_quoted(v, CIF_NOT_QUOTED);
        cif_value_free(v);
    }
    OUT("a16 verr");
    { int j; for (j = 0; j < i; j++) OUT(" %d", rc[j]); }
}

static void do_herr(int n) {
    int rc[80], i = 0;
    cif_tp *cif = NULL;
    cif_block_tp *b = NULL, *b2 = NULL;
    cif_frame_tp *f = NULL, *f2 = NULL;
    cif_loop_tp *l1 = NULL, *l1b = NULL, *l2 = NULL, *l3 = NULL, *lx = NULL;
    cif_packet_tp *p = NULL;
    cif_pktitr_tp *it = NULL;
    cif_value_tp *v = NULL;
    UChar bc[] = { 'b', 0 }, fc[] = { 'f', 0 }, cat[] = { 'c', 0 }, na[] = { '_', 'a', 0 }, nb[] = { '_', 'b', 0 }, nc[] = { '_', 'c', 0 },
          nd[] = { '_', 'd', 0 }, badname[] = { 'n', 'o', 0 }, *names1[] = { na, NULL }, *names2[] = { nb, NULL }, *names3[] = { nc, NULL },
          *dup[] = { nd, nd, NULL }, *none[] = { NULL }, **got = NULL, *cat2 = NULL;
    (void) n;
    rc[i++] = cif_create(NULL);
    if (cif_create(&cif) != CIF_OK) { OUT("a16 create-failed"); return; }
    rc[i++] = cif_container_destroy(NULL);
    rc[i++] = cif_create_block(cif, bc, &b);
    rc[i++] = cif_create_block(cif, bc, &b2);                                 /* duplicate code */
    rc[i++] = cif_get_block(cif, fc, &b2);                                    /* no such block */
    rc[i++] = cif_get_block(cif, bc, &b2);
    rc[i++] = cif_container_create_frame(b, fc, &f);
    rc[i++] = cif_container_get_frame(b, fc, &f2);
    rc[i++] = cif_container_destroy(f);                                       /* destroys the frame and frees this handle … */
    rc[i++] = cif_container_destroy(f2); f2 = NULL;                           /* … so the second handle is stale */
    rc[i++] = cif_container_create_loop(b, cat, names1, &l1);
    rc[i++] = cif_container_create_loop(b, cat, names2, &l2);                 /* a second loop of the same category */
    rc[i++] = cif_container_get_category_loop(b, cat, &lx);                   /* CIF_CAT_NOT_UNIQUE */
    rc[i++] = cif_container_get_category_loop(b, badname, &lx);
    rc[i++] = cif_container_create_loop(b, NULL, names1, &l3);                /* item already in a loop */
    rc[i++] = cif_container_create_loop(b, NULL, dup, &l3);
    rc[i++] = cif_container_create_loop(b, NULL, none, &l3);
    rc[i++] = cif_container_create_loop(b, NULL, names3, &l3);
    rc[i++] = cif_container_get_item_loop(b, na, &l1b);                       /* a second handle on loop 1 */
    rc[i++] = cif_container_get_item_loop(b, badname, &lx);
    rc[i++] = cif_loop_get_packets(l1, NULL);                                 /* no place for the iterator */
    rc[i++] = cif_loop_get_packets(l1, &it);                                  /* no packets yet */
    if (it) { cif_pktitr_abort(it); it = NULL; }
    rc[i++] = cif_loop_destroy(l1); l1 = NULL;                                /* frees that handle; l1b is now stale */
    cif_value_create(CIF_UNK_KIND, &v);
    cif_packet_create(&p, names1); cif_packet_set_item(p, na, v);
    rc[i++] = cif_loop_add_item(l1b, nd, v);
    rc[i++] = cif_loop_add_packet(l1b, p);
    rc[i++] = cif_loop_get_names(l1b, &got); if (got) { int j; for (j = 0; got[j]; j++) free(got[j]); free(got); got = NULL; }
    rc[i++] = cif_loop_get_packets(l1b, &it); if (it) { cif_pktitr_abort(it); it = NULL; }
    rc[i++] = cif_loop_get_category(l1b, &cat2); free(cat2); cat2 = NULL;
    rc[i++] = cif_loop_set_category(l1b, nd);
    if ((rc[i++] = cif_loop_destroy(l1b)) == CIF_OK) l1b = NULL;               /* CIF_INVALID_HANDLE: the handle stays the caller's */
    { cif_packet_tp *q = NULL; cif_packet_create(&q, NULL); rc[i++] = cif_loop_add_packet(l2, q); cif_packet_free(q); }   /* empty packet */
    rc[i++] = cif_loop_add_packet(l2, p);                                     /* packet for items the loop does not have */
    rc[i++] = cif_container_set_value(b, badname, v);
    rc[i++] = cif_container_get_value(b, nd, NULL);
    rc[i++] = cif_container_remove_item(b, nd);
    rc[i++] = cif_container_prune(b);
    rc[i++] = cif_container_destroy(b2); b2 = NULL;                           /* destroys the block … */
    rc[i++] = cif_container_set_value(b, na, v);                              /* … so `b` and the loops are stale */
    rc[i++] = cif_loop_add_packet(l2, p);
    rc[i++] = cif_container_create_frame(b, fc, &f2);
    rc[i++] = cif_container_destroy(b); b = NULL;
    OUT("a16 herr");
    { int j; for (j = 0; j < i; j++) OUT(" %d", rc[j]); }
    cif_packet_free(p); cif_value_free(v);
    if (l1b) cif_loop_free(l1b); if (l2) cif_loop_free(l2); if (l3) cif_loop_free(l3); if (lx) cif_loop_free(lx);
    if (f2) cif_container_free(f2);
    cif_destroy(cif);
}

static void handle(int argc, char **argv) {
    UChar *s = NULL; size_t len = 0;
    if (argc == 3 && !strcmp(argv[1], "key") && unhex(argv[2], &s, &len) && s) { do_key(s, len); free(s); }
    else if (argc == 3 && !strcmp(argv[1], "name") && unhex(argv[2], &s, &len) && s) { do_name(s, len); free(s); }
    else if (argc == 3 && !strcmp(argv[1], "text") && unhex(argv[2], &s, &len) && s) { do_text(s, len); free(s); }
    else if (argc == 5 && !strcmp(argv[1], "list")) do_list(atoi(argv[2]), atoi(argv[3]), atoi(argv[4]));
    else if (argc == 3 && !strcmp(argv[1], "misc")) do_misc(atoi(argv[2]));
    else if (argc == 3 && !strcmp(argv[1], "verr")) do_verr(atoi(argv[2]));
    else if (argc == 3 && !strcmp(argv[1], "herr")) do_herr(atoi(argv[2]));
    else OUT("bad-op");
}
