/* executor for family `todig` (property C10): the file-static to_digits() of src/value.c on the REAL code.
     todig <dbl> <scale>   ->   tg <hex digit string> rnd=<0|1: rounding mode changed by the call> */
#include "common.h"
#include "x_numb_dbl.h"
#include "value.c"

static void handle(int argc, char **argv) {
    double d;
    char *end, *r;
    long scale;
    int r0;
    numb_env_init();
    if (argc != 3 || !in_dbl(argv[1], &d) || !isfinite(d)) { OUT("bad-op"); return; }
    scale = strtol(argv[2], &end, 10);
    /* to_digits is only ever called with a scale that cif_value_init_numb has admitted */
    if (*end || -scale < LEAST_DBL_10_DIGIT || -scale > DBL_MAX_10_EXP) { OUT("bad-op"); return; }
    r0 = fegetround();
    r = to_digits(d, (int) scale);
    OUT("tg ");
    outhexc(r);
    OUT(" rnd=%d", fegetround() != r0);
    free(r);
}
