/*
 * common.h — shared by every executor `x_<family>.c`.
 *
 * An executor reads one request per line on stdin (`<family> <arg> <arg> …`, strings as 4-hex-digits-per-unit
 * UTF-16, `-` = empty string, `~` = NULL), runs the REAL library code on it in-process, and prints exactly one
 * canonical observation line per request, flushing after each — so that when a sanitizer aborts the process the
 * driver (tools/check.py) knows which request was being executed.
 *
 * The executor defines:   static void handle(int argc, char **argv);   // argv[0] = family word
 * and calls OUT(...) (printf-like) any number of times; the line is terminated by the framework.
 */
#ifndef VERIF_COMMON_H
#define VERIF_COMMON_H

#include <stdio.h>
#include <stdlib.h>
#include <string.h>
#include <stdarg.h>
#include <unistd.h>
#include <unicode/ustring.h>
#include "cif.h"

#define OUT(...) do { printf(__VA_ARGS__); } while (0)

#ifdef VERIF_WRAP_ALLOC
#include "alloc.h"
#else
#define VERIF_UNTRACKED(stmt) do { stmt; } while (0)
#endif

static int hexval(int c) {
    if (c >= '0' && c <= '9') return c - '0';
    if (c >= 'a' && c <= 'f') return c - 'a' + 10;
    return -1;
}

/* decode a hex argument into a freshly allocated NUL-terminated UChar string; "~" gives NULL; *len gets the unit count
   (embedded NULs are possible in the data; len is authoritative).  Returns 0 on malformed input. */
static int unhex(const char *s, UChar **out, size_t *len) {
    size_t n, i;
    UChar *u;
    if (strcmp(s, "~") == 0) { *out = NULL; if (len) *len = 0; return 1; }
    if (strcmp(s, "-") == 0) { u = (UChar *) calloc(1, sizeof(UChar)); *out = u; if (len) *len = 0; return 1; }
    n = strlen(s);
    if (n % 4) return 0;
    u = (UChar *) malloc((n / 4 + 1) * sizeof(UChar));
    for (i = 0; i < n / 4; i++) {
        int a = hexval(s[4 * i]), b = hexval(s[4 * i + 1]), c = hexval(s[4 * i + 2]), d = hexval(s[4 * i + 3]);
        if (a < 0 || b < 0 || c < 0 || d < 0) { free(u); return 0; }
        u[i] = (UChar) (a * 4096 + b * 256 + c * 16 + d);
    }
    u[n / 4] = 0;
    *out = u;
    if (len) *len = n / 4;
    return 1;
}

static void outhexn(const UChar *s, size_t n) {
    size_t i;
    if (s == NULL) { printf("~"); return; }
    if (n == 0) { printf("-"); return; }
    for (i = 0; i < n; i++) printf("%04x", (unsigned) s[i]);
}

static void outhex(const UChar *s) {
    outhexn(s, s ? (size_t) u_strlen(s) : 0);
}

/* a C (char) string as hex code units */
static void outhexc(const char *s) {
    if (s == NULL) { printf("~"); return; }
    if (!*s) { printf("-"); return; }
    for (; *s; s++) printf("%04x", (unsigned) (unsigned char) *s);
}

static void handle(int argc, char **argv);

/* per-case leak check (property C16): with VERIF_LEAKCHECK=1 in the environment, a case that ends with memory still
   allocated that was obtained during the case (through the wrapped allocators, see alloc.h) gets ` !LEAK<n>` appended to
   its observation line.  Executors must therefore release everything they own before returning from handle().  Without
   the allocation wrappers LeakSanitizer's conservative scan is used instead (less precise: may attribute a leak to the
   following case). */
#if defined(__SANITIZE_ADDRESS__)
#include <sanitizer/lsan_interface.h>
#define VERIF_HAVE_LSAN 1
#else
#define VERIF_HAVE_LSAN 0
#endif

/* overwrite the dead stack region below main() so that stale pointers left there by handle() do not hide a leak from
   the (conservative) leak scanner */
static void __attribute__((noinline)) verif_scrub_stack(void) {
    volatile char buf[1 << 17];
    size_t i;
    for (i = 0; i < sizeof(buf); i++) buf[i] = 0;
}

#ifndef VERIF_CASE_SECONDS
#define VERIF_CASE_SECONDS 20
#endif

/* A case that does not return is an observation (TIMEOUT), not a hang.  The limit is on the CPU time the case consumes
   (ITIMER_PROF -> SIGPROF), so that a loaded machine cannot turn a slow but terminating case into a false TIMEOUT; a wall-clock
   alarm of thirty times the limit remains as a backstop for a case that blocks without computing. */
#include <sys/time.h>
static void verif_case_timer(int seconds) {
    struct itimerval it;
    memset(&it, 0, sizeof it);
    it.it_value.tv_sec = seconds;
    setitimer(ITIMER_PROF, &it, NULL);
    alarm(seconds ? 30 * (unsigned) seconds : 0);
}

int main(void) {
    char *line = NULL;
    size_t cap = 0;
    ssize_t n;
    char **argv = NULL;
    size_t argcap = 0;
    int leakcheck = getenv("VERIF_LEAKCHECK") && atoi(getenv("VERIF_LEAKCHECK"));

    while ((n = getline(&line, &cap, stdin)) > 0) {
        int argc = 0;
        char *p = line, *tok;
        while (n > 0 && (line[n - 1] == '\n' || line[n - 1] == '\r')) line[--n] = 0;
        while ((tok = strsep(&p, " ")) != NULL) {
            if (!*tok) continue;
            if ((size_t) argc + 1 >= argcap) { argcap = argcap ? argcap * 2 : 64; argv = realloc(argv, argcap * sizeof(char *)); }
            argv[argc++] = tok;
        }
        if (argc == 0) { printf("bad-op\n"); fflush(stdout); continue; }
        argv[argc] = NULL;
        verif_case_timer(VERIF_CASE_SECONDS);
#ifdef VERIF_WRAP_ALLOC
        verif_case_begin();
#endif
        handle(argc, argv);
        verif_case_timer(0);
#ifdef VERIF_WRAP_ALLOC
        if (leakcheck) { long nleak = verif_case_leaks(); if (nleak) printf(" !LEAK%ld", nleak); }
#elif VERIF_HAVE_LSAN
        if (leakcheck) { verif_scrub_stack(); if (__lsan_do_recoverable_leak_check()) printf(" !LEAK"); }
#endif
        printf("\n");
        fflush(stdout);
    }
    free(line);
    free(argv);
    return 0;
}

#endif
