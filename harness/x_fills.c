/* executor for family `fills` (property C08): drives the REAL get_first_char / get_more_chars / HANDLE_EOL of parser.c
 * with a character source that delivers a CHOSEN CHUNKING of the document.
 *
 *   fills <mode> <dochex> <cuts>
 *     cuts : `-` one chunk | `*k` chunks of k units | `n1,n2,…` chunk lengths (the remainder is the last chunk)
 *     mode : d  direct calls, the consumer has consumed everything before each get_more_chars (buffer reset path)
 *            k  direct calls, the consumer keeps everything (one growing token: append / move-to-itself / expansion paths)
 *            h  direct calls, the consumer keeps the second half of what is buffered (compaction path)
 *               -> `fl <units the scanner was given, in order> eof=<0|1> counts=<count argument of every read_func call>`
 *            e  the real scan_ws (HANDLE_EOL) over the RAW units pre-loaded into the buffer (no conversion)
 *               -> `fl lines=<final line> col=<final column>`
 *            p  cif_parse_internal, syntax only, CIF 2 fixed;  q  the same with cif_version 0 (magic code inspected)
 *               -> `fl ws=<whitespace runs / comments as the whitespace callback got them, joined by />
 *                      lines=<final scanner line> err=<code:line,…> rc=<rc> counts=… ref=<lines/err/rc of the LF form in one chunk, `=` if identical>`
 *            P  cif_parse_internal into a managed CIF, cif_version 0
 *               -> `fl rc=<rc> lines=<n> err=<code:line,…> cif=<canonical dump> counts=… ref=<… | =>`
 * The static functions are reached by including parser.c (HARNESS exclude_objs ["parser"]).
 */
#include "cifio.h"
#include "parser.c"

struct src {
    const UChar *doc;
    size_t len, pos;
    size_t *ends;          /* chunk end offsets, increasing, last == len */
    size_t nends, cur;
    struct scanner_s *sc;
    /* log */
    size_t *counts; size_t ncounts, capcounts;
    size_t last_dest;      /* offset of dest in the scan buffer at the latest call */
};

static ssize_t src_read(void *vs, UChar *dest, ssize_t count, int *error_code) {
    struct src *s = (struct src *) vs;
    size_t n;
    if (s->ncounts == s->capcounts) { s->capcounts = s->capcounts ? 2 * s->capcounts : 64; s->counts = realloc(s->counts, s->capcounts * sizeof(size_t)); }
    s->counts[s->ncounts++] = (size_t) count;
    s->last_dest = (size_t) (dest - s->sc->buffer);
    if (count <= 0 || s->pos >= s->len) return 0;
    while (s->cur < s->nends && s->ends[s->cur] <= s->pos) s->cur++;
    n = s->ends[s->cur] - s->pos;
    if (n > (size_t) count) n = (size_t) count;
    memcpy(dest, s->doc + s->pos, n * sizeof(UChar));
    s->pos += n;
    return (ssize_t) n;
}

static int parse_cuts(const char *spec, size_t len, size_t **ends, size_t *nends) {
    size_t cap = 16, n = 0, pos = 0;
    size_t *e = malloc(cap * sizeof(size_t));
#define PUSH(v) do { if (n == cap) { cap *= 2; e = realloc(e, cap * sizeof(size_t)); } e[n++] = (v); } while (0)
    if (strcmp(spec, "-") == 0) {
        /* one chunk */
    } else if (spec[0] == '*') {
        long k = strtol(spec + 1, NULL, 10);
        if (k <= 0) { free(e); return 0; }
        while (pos + (size_t) k < len) { pos += (size_t) k; PUSH(pos); }
    } else {
        const char *p = spec;
        while (*p) {
            char *q;
            long k = strtol(p, &q, 10);
            if (q == p || k <= 0) { free(e); return 0; }
            if (pos + (size_t) k < len) { pos += (size_t) k; PUSH(pos); }
            p = (*q == ',') ? q + 1 : q;
            if (*q && *q != ',') { free(e); return 0; }
        }
    }
    PUSH(len);
#undef PUSH
    *ends = e; *nends = n;
    return 1;
}

/* ---- logs ---------------------------------------------------------------------------------------------- */
struct log {
    FILE *ws; int nws;
    FILE *err; int nerr;
};

static int err_cb(int code, size_t line, size_t column, const UChar *text, size_t length, void *data) {
    struct log *l = (struct log *) data;
    fprintf(l->err, "%s%d:%zu", l->nerr++ ? "," : "", code, line);
    return CIF_OK;
}

static void ws_cb(size_t line, size_t column, const UChar *token, size_t length, void *data) {
    struct log *l = (struct log *) data;
    if (length == 0) return;
    if (l->nws++) fputc('/', l->ws);
    fhexn(l->ws, token, length);
}

static void out_counts(struct src *s) {
    size_t i;
    OUT(" counts=");
    for (i = 0; i < s->ncounts; i++) OUT("%s%zu", i ? "," : "", s->counts[i]);
    if (!s->ncounts) OUT("-");
}

static void setup_scanner(struct scanner_s *sc, struct src *s, int version, struct log *l, cif_handler_tp *h) {
    memset(sc, 0, sizeof(*sc));
    sc->char_source = s;
    sc->read_func = src_read;
    sc->at_eof = CIF_FALSE;
    sc->cif_version = version;
    sc->line_unfolding = 0;
    sc->prefix_removing = 0;
    sc->max_frame_depth = 1;
    sc->handler = h;
    sc->error_callback = err_cb;
    sc->whitespace_callback = l ? ws_cb : NULL;
    sc->keyword_callback = NULL;
    sc->dataname_callback = NULL;
    sc->user_data = l;
    s->sc = sc;
}

/* the independent reference transformation of the property: CR LF -> LF, lone CR -> LF */
static size_t normalize_eol(const UChar *in, size_t n, UChar *out) {
    size_t i, m = 0;
    for (i = 0; i < n; i++) {
        if (in[i] == 0x0d) { out[m++] = 0x0a; if (i + 1 < n && in[i + 1] == 0x0a) i++; }
        else out[m++] = in[i];
    }
    return m;
}

/* one parse through cif_parse_internal; returns a malloc'd observation string (without counts) */
static char *parse_once(const UChar *doc, size_t len, const char *cuts, int version, int managed, char **ws_out, struct src *s_out) {
    struct src s;
    struct scanner_s sc;
    struct log l;
    cif_handler_tp h;
    char *wsbuf = NULL, *errbuf = NULL, *cifbuf = NULL, *res = NULL;
    size_t wslen = 0, errlen = 0, ciflen = 0, reslen = 0;
    FILE *cf, *rf;
    cif_tp *cif = NULL;
    int rc;

    memset(&s, 0, sizeof(s));
    memset(&h, 0, sizeof(h));
    s.doc = doc; s.len = len;
    if (!parse_cuts(cuts, len, &s.ends, &s.nends)) return NULL;
    l.ws = open_memstream(&wsbuf, &wslen); l.nws = 0;
    l.err = open_memstream(&errbuf, &errlen); l.nerr = 0;
    setup_scanner(&sc, &s, version, &l, &h);
    if (managed && cif_create(&cif) != CIF_OK) cif = NULL;
    rc = cif_parse_internal(&sc, 0, NULL, NULL, cif);
    fclose(l.ws); fclose(l.err);
    rf = open_memstream(&res, &reslen);
    if (managed) {
        cf = open_memstream(&cifbuf, &ciflen);
        if (cif) fdump_cif(cf, cif, 1);
        fclose(cf);
        fprintf(rf, "rc=%d lines=%zu err=%s cif=%s", rc, sc.line, l.nerr ? errbuf : "-", ciflen ? cifbuf : "-");
    } else {
        fprintf(rf, "lines=%zu err=%s rc=%d", sc.line, l.nerr ? errbuf : "-", rc);
    }
    fclose(rf);
    if (cif) cif_destroy(cif);
    if (ws_out) { *ws_out = wsbuf; wsbuf = NULL; }
    free(wsbuf); free(errbuf); free(cifbuf); free(s.ends);
    if (s_out) *s_out = s; else free(s.counts);
    return res;
}

static void handle(int argc, char **argv) {
    UChar *doc = NULL;
    size_t len = 0;
    char mode;
    if (argc != 4 || strlen(argv[1]) != 1 || !unhex(argv[2], &doc, &len) || doc == NULL) { OUT("bad-op"); free(doc); return; }
    mode = argv[1][0];

    if (mode == 'd' || mode == 'k' || mode == 'h') {
        struct src s;
        struct scanner_s scanner_v, *scanner = &scanner_v;
        cif_handler_tp h;
        int rc;
        memset(&s, 0, sizeof(s));
        memset(&h, 0, sizeof(h));
        s.doc = doc; s.len = len;
        if (!parse_cuts(argv[3], len, &s.ends, &s.nends)) { OUT("bad-op"); free(doc); return; }
        setup_scanner(scanner, &s, 2, NULL, &h);
        /* exactly the set-up of cif_parse_internal */
        scanner->buffer = (UChar *) malloc(BUF_SIZE_INITIAL * sizeof(UChar));
        scanner->buffer_size = BUF_SIZE_INITIAL;
        scanner->buffer_limit = 0;
        /* cr_pending = 0: done by the memset of setup_scanner (not named here, so that this file also builds against a tree
           whose scanner_s lacks the member) */
        INIT_V2_SCANNER(scanner, NULL, NULL);
        scanner->next_char = scanner->buffer;
        scanner->text_start = scanner->buffer;
        scanner->tvalue_start = scanner->buffer;
        scanner->tvalue_length = 0;
        OUT("fl ");
        rc = get_first_char(scanner);
        if (rc == CIF_OK) {
            size_t total = scanner->buffer_limit;
            outhexn(scanner->buffer, scanner->buffer_limit);
            for (;;) {
                size_t lim = scanner->buffer_limit;
                scanner->next_char = scanner->buffer + lim;
                if (mode == 'd') scanner->text_start = scanner->next_char;
                else if (mode == 'k') scanner->text_start = scanner->buffer;
                else scanner->text_start = scanner->buffer + lim / 2;
                scanner->tvalue_start = scanner->text_start;
                if (scanner->at_eof) { rc = CIF_EOF; break; }
                rc = get_more_chars(scanner);
                if (rc != CIF_OK) break;
                if (scanner->buffer_limit > s.last_dest) {
                    outhexn(scanner->buffer + s.last_dest, scanner->buffer_limit - s.last_dest);
                    total += scanner->buffer_limit - s.last_dest;
                }
            }
            if (total == 0) OUT("-");
        } else {
            OUT("-");
        }
        OUT(" eof=%d", rc == CIF_EOF ? 1 : 0);
        if (rc != CIF_EOF) OUT(" rc=%d", rc);
        out_counts(&s);
        free(scanner->buffer); free(s.ends); free(s.counts);
    } else if (mode == 'e') {
        struct src s;
        struct scanner_s scanner_v, *scanner = &scanner_v;
        cif_handler_tp h;
        struct log l;
        char *errbuf = NULL; size_t errlen = 0;
        int rc;
        memset(&s, 0, sizeof(s));
        memset(&h, 0, sizeof(h));
        l.ws = NULL; l.nws = 0; l.err = open_memstream(&errbuf, &errlen); l.nerr = 0;
        setup_scanner(scanner, &s, 2, NULL, &h);
        scanner->user_data = &l;
        scanner->buffer = (UChar *) malloc((len + 1) * sizeof(UChar));
        scanner->buffer_size = len + 1;
        memcpy(scanner->buffer, doc, len * sizeof(UChar));
        scanner->buffer_limit = len;
        INIT_V2_SCANNER(scanner, NULL, NULL);
        scanner->next_char = scanner->buffer;
        scanner->text_start = scanner->buffer;
        scanner->tvalue_start = scanner->buffer;
        scanner->at_eof = CIF_TRUE;
        rc = scan_ws(scanner);
        fclose(l.err);
        OUT("fl lines=%zu col=%u used=%zu rc=%d", scanner->line, scanner->column, (size_t) (scanner->next_char - scanner->buffer), rc);
        free(errbuf); free(scanner->buffer);
    } else if (mode == 'p' || mode == 'q' || mode == 'P') {
        struct src s;
        int version = (mode == 'p') ? 2 : 0, managed = (mode == 'P');
        UChar *norm = (UChar *) malloc((len + 1) * sizeof(UChar));
        size_t nlen = normalize_eol(doc, len, norm);
        char *obs, *ref, *ws = NULL;
        memset(&s, 0, sizeof(s));
        obs = parse_once(doc, len, argv[3], version, managed, &ws, &s);
        ref = parse_once(norm, nlen, "-", version, managed, NULL, NULL);
        if (!obs || !ref) { OUT("bad-op"); }
        else {
            OUT("fl ");
            if (!managed) OUT("ws=%s ", (ws && *ws) ? ws : "-");
            OUT("%s", obs);
            out_counts(&s);
            OUT(" ref=%s", strcmp(obs, ref) == 0 ? "=" : ref);
        }
        free(obs); free(ref); free(ws); free(norm); free(s.counts);
    } else {
        OUT("bad-op");
    }
    free(doc);
}
