/* executor for family `val` (property C19): see x_val_ops.h for the operations and lean/Driver/Fam/Val.lean for the
   request language. */
#include "x_val_ops.h"

static void handle(int argc, char **argv) {
    int i = 1, k, first = 1;
    OUT("vl ");
    while (i < argc) {
        int j = i;
        while (j < argc && strcmp(argv[j], "|") != 0) j++;
        if (j > i) {
            if (!first) OUT(" | ");
            first = 0;
            one_op(j - i, argv + i);
        }
        i = j + 1;
    }
    OUT(" # ");
    for (k = 0; k < NV; k++) { if (k) OUT(" ; "); if (vals[k]) dumpx_value(vals[k]); else OUT("_"); }
    for (k = 0; k < NP; k++) { OUT(" ; "); dump_packet(pkts[k]); }
    /* release everything the harness owns */
    for (k = 0; k < NV; k++) { if (vals[k]) cif_value_free(vals[k]); vals[k] = NULL; }
    for (k = 0; k < NP; k++) { if (pkts[k]) cif_packet_free(pkts[k]); pkts[k] = NULL; }
}
