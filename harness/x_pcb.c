/*
 * executor for family `pcb` (property C15): cif_parse of a document with handler, syntax and error callbacks installed,
 * in storing mode (target CIF) and in syntax-only mode (no target), under one handler program.
 *
 *   pcb doc <hex document text> toks <model tokens, ignored here> prog <k>:<resp> ...
 *
 * The k-th HANDLER invocation (cif_handler_tp callbacks only; k = 0, 1, ...) answers <resp> when listed, 0 otherwise.
 * Observation:
 *
 *   pc S rc=<rc> n=<handler calls> log= <events> cif= <canonical dump of the target> N rc=<rc> n=<calls> log= <events>
 *
 * events (handles are queried inside the callbacks):
 *   @cs <1|0 handle non-NULL> | @ce <1|0>
 *   @bs <code|~> q:<ab|~> | @be … | @fs … | @fe …                      ~ = NULL container handle; ab = what
 *                                                                       cif_container_assert_block(handle) answers inside the
 *                                                                       callback (0 data block, CIF_ARGUMENT_ERROR save frame)
 *   @ls <n> <name>{n}                                                   names of the loop handle, in header order
 *   @le ~ | @le <n> <name>{n}                                           NULL handle, or names sorted by code unit
 *   @ps <1|0>                                                           packet handle non-NULL?
 *   @pe <m> (<name> <value>){m}
 *   @it <name> <value>
 *   @dn <name> | @kw <text> | @ws <text>                                syntax callbacks; adjacent whitespace callbacks are
 *                                                                       concatenated, zero-length ones dropped
 *   @er <code>                                                          error callback (answers 0)
 */
#include "cifio.h"

#define MAXPROG 64
static struct { long k; int resp; } prog[MAXPROG];
static int nprog;
static long ncalls;
static FILE *lg;
static UChar *wsbuf;
static size_t wslen, wscap;

static void flush_ws(void) {
    if (wslen) { fprintf(lg, " @ws "); fhexn(lg, wsbuf, wslen); }
    wslen = 0;
}

static int answer(void) {
    int i, r = 0;
    for (i = 0; i < nprog; i++) if (prog[i].k == ncalls) r = prog[i].resp;
    ncalls++;
    return r;
}

static void log_code(const char *tag, cif_container_tp *c) {
    UChar *code = NULL;
    flush_ws();
    fprintf(lg, " %s ", tag);
    if (c == NULL) { fprintf(lg, "~ q:~"); return; }
    if (cif_container_get_code(c, &code) == CIF_OK) { fhex(lg, code); free(code); } else fprintf(lg, "!");
    fprintf(lg, " q:%d", cif_container_assert_block(c));
    {   /* exercise the handle a little more */
        cif_loop_tp **loops = NULL;
        if (cif_container_get_all_loops(c, &loops) == CIF_OK) { int i; for (i = 0; loops[i]; i++) cif_loop_free(loops[i]); free(loops); }
    }
}

static void log_loop(const char *tag, cif_loop_tp *loop, int sort) {
    UChar **names = NULL, *cat = NULL;
    int n = 0, i;
    flush_ws();
    fprintf(lg, " %s", tag);
    if (loop == NULL) { fprintf(lg, " ~"); return; }
    if (cif_loop_get_category(loop, &cat) == CIF_OK) free(cat);
    if (cif_loop_get_names(loop, &names) != CIF_OK) { fprintf(lg, " !"); return; }
    while (names[n]) n++;
    if (sort) qsort(names, n, sizeof(UChar *), cmp_ustr);
    fprintf(lg, " %d", n);
    for (i = 0; i < n; i++) { fprintf(lg, " "); fhex(lg, names[i]); free(names[i]); }
    free(names);
}

static int h_cif_start(cif_tp *cif, void *ctx) { flush_ws(); fprintf(lg, " @cs %d", cif != NULL); return answer(); }
static int h_cif_end(cif_tp *cif, void *ctx) {
    flush_ws(); fprintf(lg, " @ce %d", cif != NULL);
    if (cif) { cif_block_tp **bs = NULL; if (cif_get_all_blocks(cif, &bs) == CIF_OK) { int i; for (i = 0; bs[i]; i++) cif_container_free(bs[i]); free(bs); } }
    return answer(); }
static int h_block_start(cif_container_tp *c, void *ctx) { log_code("@bs", c); return answer(); }
static int h_block_end(cif_container_tp *c, void *ctx) { log_code("@be", c); return answer(); }
static int h_frame_start(cif_container_tp *c, void *ctx) { log_code("@fs", c); return answer(); }
static int h_frame_end(cif_container_tp *c, void *ctx) { log_code("@fe", c); return answer(); }
static int h_loop_start(cif_loop_tp *l, void *ctx) { log_loop("@ls", l, 0); return answer(); }
static int h_loop_end(cif_loop_tp *l, void *ctx) { log_loop("@le", l, 1); return answer(); }
static int h_packet_start(cif_packet_tp *p, void *ctx) { flush_ws(); fprintf(lg, " @ps %d", p != NULL); return answer(); }
static int h_packet_end(cif_packet_tp *p, void *ctx) {
    const UChar **names = NULL;
    int n = 0, i;
    flush_ws();
    fprintf(lg, " @pe");
    if (p == NULL) { fprintf(lg, " ~"); return answer(); }
    if (cif_packet_get_names(p, &names) != CIF_OK) { fprintf(lg, " !"); return answer(); }
    while (names[n]) n++;
    fprintf(lg, " %d", n);
    for (i = 0; i < n; i++) {
        cif_value_tp *v = NULL;
        fprintf(lg, " "); fhex(lg, names[i]); fprintf(lg, " ");
        if (cif_packet_get_item(p, names[i], &v) == CIF_OK) fdump_value(lg, v); else fprintf(lg, "!");
    }
    free(names);
    return answer();
}
static int h_item(UChar *name, cif_value_tp *v, void *ctx) {
    flush_ws(); fprintf(lg, " @it "); fhex(lg, name); fprintf(lg, " "); fdump_value(lg, v); return answer(); }

static void s_dataname(size_t line, size_t column, const UChar *token, size_t length, void *data) {
    flush_ws(); fprintf(lg, " @dn "); fhexn(lg, token, length); }
static void s_keyword(size_t line, size_t column, const UChar *token, size_t length, void *data) {
    flush_ws(); fprintf(lg, " @kw "); fhexn(lg, token, length); }
static void s_whitespace(size_t line, size_t column, const UChar *token, size_t length, void *data) {
    if (length == 0) return;
    if (wslen + length > wscap) { wscap = (wslen + length) * 2 + 64; wsbuf = (UChar *) realloc(wsbuf, wscap * sizeof(UChar)); }
    memcpy(wsbuf + wslen, token, length * sizeof(UChar));
    wslen += length;
}
static int e_error(int code, size_t line, size_t column, const UChar *text, size_t length, void *data) {
    flush_ws(); fprintf(lg, " @er %d", code); return 0; }

/* one parse; returns the log text (caller frees) */
/* which of the three syntax callbacks are registered: bit 0 whitespace, bit 1 keyword, bit 2 data name (7 = all, the normal runs) */
static int cbmask = 7;

/* the log with the events of the callbacks NOT in `mask` removed (events are " @xx …" up to the next " @") */
static char *filter_log(const char *log, int mask) {
    size_t n = strlen(log);
    char *out = (char *) malloc(n + 1), *o = out;
    const char *p = log;
    int lastws = 0;
    while (*p) {
        const char *q = strstr(p + 1, " @");
        size_t len = q ? (size_t) (q - p) : strlen(p);
        int keep = 1;
        if (strncmp(p, " @ws", 4) == 0) keep = mask & 1;
        else if (strncmp(p, " @kw", 4) == 0) keep = mask & 2;
        else if (strncmp(p, " @dn", 4) == 0) keep = mask & 4;
        if (keep) {
            /* whitespace is logged when the next event is logged: two runs of it around a removed event arrive as one */
            if (strncmp(p, " @ws ", 5) == 0 && lastws) { memcpy(o, p + 5, len - 5); o += len - 5; }
            else { memcpy(o, p, len); o += len; }
            lastws = (strncmp(p, " @ws ", 5) == 0);
        }
        p += len;
    }
    *o = 0;
    return out;
}

static char *run(const char *bytes, size_t nbytes, cif_tp **target, int *rc, long *calls) {
    struct cif_parse_opts_s *opts = NULL;
    cif_handler_tp h = { h_cif_start, h_cif_end, h_block_start, h_block_end, h_frame_start, h_frame_end,
                         h_loop_start, h_loop_end, h_packet_start, h_packet_end, h_item };
    char *text = NULL;
    size_t size = 0;
    FILE *in;
    ncalls = 0; wslen = 0;
    lg = open_memstream(&text, &size);
    if (cif_parse_options_create(&opts) != CIF_OK) { fclose(lg); *rc = -99; return text; }
    opts->handler = &h;
    opts->whitespace_callback = (cbmask & 1) ? s_whitespace : NULL;
    opts->keyword_callback = (cbmask & 2) ? s_keyword : NULL;
    opts->dataname_callback = (cbmask & 4) ? s_dataname : NULL;
    opts->error_callback = e_error;
    opts->default_encoding_name = "UTF-8";
    in = fmemopen((void *) bytes, nbytes ? nbytes : 1, "rb");
    if (nbytes == 0) { /* fmemopen refuses size 0: an empty document is a single read of nothing */ fclose(in); in = fopen("/dev/null", "rb"); }
    *rc = cif_parse(in, opts, target);
    fclose(in);
    flush_ws();
    fclose(lg);
    free(opts);
    *calls = ncalls;
    return text;
}

/* prints the canonical dump with unquoted numbers shown as unquoted character values (the kind of a whitespace-delimited
   value is decided lazily by the library and is not what C15 is about) */
static void out_dump(cif_tp *cif) {
    char *text = NULL, *p;
    size_t size = 0;
    FILE *m = open_memstream(&text, &size);
    fdump_cif(m, cif, 1);
    fclose(m);
    for (p = text; (p = strstr(p, " M0:")) != NULL; p += 4) p[1] = 'C';
    fputs(text, stdout);
    free(text);
}

static void handle(int argc, char **argv) {
    UChar *doc = NULL;
    size_t ndoc = 0;
    char *bytes;
    int32_t nbytes = 0;
    UErrorCode ec = U_ZERO_ERROR;
    int pos, rc;
    long calls;
    cif_tp *cif = NULL;
    char *text;

    nprog = 0;
    if (argc < 4 || strcmp(argv[1], "doc") != 0 || !unhex(argv[2], &doc, &ndoc) || doc == NULL) { OUT("bad-op"); return; }
    for (pos = 3; pos < argc && strcmp(argv[pos], "prog") != 0; pos++) ;
    if (pos >= argc) { OUT("bad-op"); free(doc); return; }
    for (pos++; pos < argc; pos++) {
        long k; int r;
        if (sscanf(argv[pos], "%ld:%d", &k, &r) != 2 || nprog >= MAXPROG) { OUT("bad-op"); free(doc); return; }
        prog[nprog].k = k; prog[nprog].resp = r; nprog++;
    }
    bytes = (char *) malloc(ndoc * 3 + 4);
    u_strToUTF8(bytes, (int32_t) (ndoc * 3 + 4), &nbytes, doc, (int32_t) ndoc, &ec);
    free(doc);
    if (U_FAILURE(ec)) { OUT("bad-op"); free(bytes); return; }

    text = run(bytes, (size_t) nbytes, &cif, &rc, &calls);
    OUT("pc S rc=%d n=%ld log=%s cif=", rc, calls, text ? text : "");
    free(text);
    if (cif) { out_dump(cif); cif_destroy(cif); }
    text = run(bytes, (size_t) nbytes, NULL, &rc, &calls);
    OUT(" N rc=%d n=%ld log=%s", rc, calls, text ? text : "");
    /* C15: each syntax callback is independent of whether the OTHERS are registered — the same parse with only a subset of the three
       registered (rotating with the request) must deliver exactly the full log without the events of the missing ones, and the same
       result; a difference is printed (the model never prints it) */
    {
        int mask = (int) ((nbytes + (size_t) nprog * 3) % 7);      /* 0 … 6: every proper subset */
        int rc2; long calls2;
        char *want = filter_log(text ? text : "", mask), *got;
        cbmask = mask;
        got = run(bytes, (size_t) nbytes, NULL, &rc2, &calls2);
        cbmask = 7;
        if (rc2 != rc || calls2 != calls || strcmp(got ? got : "", want) != 0) OUT(" !SUBSET-CALLBACKS-DIFFER mask=%d rc=%d log=%s", mask, rc2, got ? got : "");
        free(got); free(want);
    }
    free(text);
    free(bytes);
    free(wsbuf); wsbuf = NULL; wscap = 0; wslen = 0;
}
