/*
 * executor for family `parsebytes` (property C03, byte level): the REAL cif_parse() on a BYTE sequence read through a FILE*
 * (fmemopen), so that ICU decodes it in 4096-byte refills and malformed input surfaces as CIF_INVALID_CHAR /
 * CIF_UNMAPPED_CHAR reports from the character source (ustream_to_unicode_callback) DURING a scanner buffer refill.
 *
 *   parsebytes <prefer_cif2> <policy> <bytes as hex units 00xx…> <alt bytes as hex units|~>
 *
 *   policy: a | d | r<k>:<v> | c<code>:<v>   (as harness/x_parse.c)
 *   alt   : the same document with every malformed sequence replaced by the replacement character (for the oracle)
 *
 *   answer: pb rc=<rc> n=<calls> log=<code>:<line>,…|- cif=<dump> aa=<first code of an accept-all parse of the bytes, 0 = none>
 *              alog=<accept-all log> acif=<accept-all dump> xrc=<rc> xlog=<accept-all log of alt> xcif=<dump of alt>
 */
#include "cifio.h"

struct elog { long n, cap; int *code; size_t *line; char mode; long k; int code_sel, v; };

static int log_error(int code, size_t line, size_t column, const UChar *text, size_t length, void *data) {
    struct elog *l = (struct elog *) data;
    long k = l->n;
    size_t i;
    volatile unsigned long sum = 0;
    (void) column;
    if (l->n == l->cap) {
        l->cap = l->cap ? l->cap * 2 : 64;
        l->code = realloc(l->code, l->cap * sizeof(int));
        l->line = realloc(l->line, l->cap * sizeof(size_t));
    }
    l->code[l->n] = code; l->line[l->n] = line; l->n += 1;
    if (text != NULL) for (i = 0; i < length; i++) sum += text[i];     /* the text must be readable (ASan) */
    switch (l->mode) {
        case 'd': return code;
        case 'r': return (k == l->k) ? l->v : 0;
        case 'c': return (code == l->code_sel) ? l->v : 0;
        default: return 0;
    }
}

static int run(const UChar *b, size_t n, int prefer, struct elog *e, cif_tp **cif) {
    struct cif_parse_opts_s *opts = NULL;
    char *bytes = (char *) malloc(n + 1);
    size_t i;
    FILE *in;
    int rc;
    for (i = 0; i < n; i++) bytes[i] = (char) (b[i] & 0xff);
    if (cif_parse_options_create(&opts) != CIF_OK) { free(bytes); return -99; }
    opts->prefer_cif2 = prefer;
    opts->default_encoding_name = "UTF-8";
    opts->error_callback = log_error;
    opts->user_data = e;
    in = n ? fmemopen(bytes, n, "rb") : fopen("/dev/null", "rb");
    rc = cif_parse(in, opts, cif);
    fclose(in);
    free(opts);
    free(bytes);
    return rc;
}

static void out_log(struct elog *e) {
    long i;
    if (e->n == 0) OUT("-");
    for (i = 0; i < e->n; i++) OUT("%s%d:%lu", i ? "," : "", e->code[i], (unsigned long) e->line[i]);
}

static void out_dump(cif_tp *cif) {
    char *text = NULL, *p;
    size_t size = 0;
    FILE *m;
    if (!cif) { OUT("~"); return; }
    m = open_memstream(&text, &size);
    fdump_cif(m, cif, 1);
    fclose(m);
    for (p = text; (p = strstr(p, " M0:")) != NULL; p += 4) p[1] = 'C';
    OUT("%s", (text && *text) ? text : " -");
    free(text);
}

static void handle(int argc, char **argv) {
    UChar *b = NULL, *alt = NULL;
    size_t n = 0, nalt = 0;
    struct elog e, ea, ex;
    cif_tp *cif = NULL, *cifa = NULL, *cifx = NULL;
    int prefer, rc, rca, rcx = 0;
    const char *pol;
    memset(&e, 0, sizeof(e)); memset(&ea, 0, sizeof(ea)); memset(&ex, 0, sizeof(ex));
    if (argc != 5 || !unhex(argv[3], &b, &n) || !b || !unhex(argv[4], &alt, &nalt)) { OUT("bad-op"); free(b); free(alt); return; }
    prefer = atoi(argv[1]);
    pol = argv[2];
    if (strcmp(pol, "a") == 0) e.mode = 'a';
    else if (strcmp(pol, "d") == 0) e.mode = 'd';
    else if (pol[0] == 'r' && sscanf(pol + 1, "%ld:%d", &e.k, &e.v) == 2) e.mode = 'r';
    else if (pol[0] == 'c' && sscanf(pol + 1, "%d:%d", &e.code_sel, &e.v) == 2) e.mode = 'c';
    else { OUT("bad-op"); free(b); free(alt); return; }
    ea.mode = 'a'; ex.mode = 'a';
    rc = run(b, n, prefer, &e, &cif);
    rca = run(b, n, prefer, &ea, &cifa);
    OUT("pb rc=%d n=%ld log=", rc, e.n); out_log(&e);
    OUT(" cif="); out_dump(cif);
    OUT(" aa=%d arc=%d alog=", ea.n ? ea.code[0] : 0, rca); out_log(&ea);
    OUT(" acif="); out_dump(cifa);
    if (alt) {
        rcx = run(alt, nalt, prefer, &ex, &cifx);
        OUT(" xrc=%d xlog=", rcx); out_log(&ex);
        OUT(" xcif="); out_dump(cifx);
    } else OUT(" xrc=0 xlog=~ xcif=~");
    if (cif) cif_destroy(cif);
    if (cifa) cif_destroy(cifa);
    if (cifx) cif_destroy(cifx);
    free(e.code); free(e.line); free(ea.code); free(ea.line); free(ex.code); free(ex.line);
    free(b); free(alt);
}
