/* executor for family `align` (property C08, oracle only): the REAL cif_parse on in-memory files whose interesting units
 * are placed at chosen byte offsets relative to the 4096-byte read buffer of ustream_read_chars and the scan buffer.
 *
 *   align <enc> <style> <n> <head> <padkind> <tail>
 *     enc     : utf8 | utf16le (with signature)
 *     style   : lf | crlf | cr | mix   — how the line terminators of <tail> are spelled in the file (head and padding keep LF,
 *               so that <tail> starts exactly at byte offset n)
 *     n       : byte offset at which <tail> starts (head + padding are made exactly n bytes long; n = 0: no padding at all)
 *     head, tail : segments joined by `+`; a segment is <hex> or R<count>:<hex> (repeated count times)
 *     padkind : s (lines of blanks) | c (comment lines) | b (empty lines)
 *   The reference is the same document in LF form with the padding reduced to a single empty line.
 *   -> al same=<1|0> rc=<rc> lines=<pad lines> err=<code:line,… of the padded document> len=<bytes>
 *         [ref=<code:line,…> d1=<start of the differing dumps> d2=<…>]
 *   `same` = canonical content dumps identical, return codes identical, error codes identical in sequence and their line
 *   numbers identical after subtracting the extra padding lines.
 */
#include "cifio.h"
#include <unicode/ucnv.h>

struct ubuf { UChar *p; size_t n, cap; };

static void ub_push(struct ubuf *b, const UChar *s, size_t n) {
    if (b->n + n + 1 > b->cap) { b->cap = 2 * (b->n + n) + 64; b->p = realloc(b->p, b->cap * sizeof(UChar)); }
    memcpy(b->p + b->n, s, n * sizeof(UChar));
    b->n += n;
}

static int expand(const char *spec, struct ubuf *out) {
    char *copy = strdup(spec), *save = NULL, *seg;
    int ok = 1;
    for (seg = strtok_r(copy, "+", &save); seg && ok; seg = strtok_r(NULL, "+", &save)) {
        UChar *u = NULL; size_t n = 0; long rep = 1;
        const char *hex = seg;
        if (seg[0] == 'R') {
            char *colon = strchr(seg, ':');
            if (!colon) { ok = 0; break; }
            rep = strtol(seg + 1, NULL, 10);
            hex = colon + 1;
        }
        if (!unhex(hex, &u, &n) || !u || rep < 0) { ok = 0; free(u); break; }
        while (rep-- > 0) ub_push(out, u, n);
        free(u);
    }
    free(copy);
    return ok;
}

struct elog { FILE *f; int n; };

static int err_cb(int code, size_t line, size_t column, const UChar *text, size_t length, void *data) {
    struct elog *l = (struct elog *) data;
    fprintf(l->f, "%s%d:%zu", l->n++ ? "," : "", code, line);
    return CIF_OK;
}

static int parse_doc(const UChar *doc, size_t len, int utf16, char **errs, char **dump, size_t *nbytes) {
    UErrorCode e = U_ZERO_ERROR;
    UConverter *c = ucnv_open(utf16 ? "UTF-16LE" : "UTF-8", &e);
    size_t cap = 4 * len + 16, el = 0, dl = 0, off = 0;
    char *bytes = malloc(cap);
    struct cif_parse_opts_s *opts = NULL;
    struct elog l;
    cif_tp *cif = NULL;
    FILE *in, *df;
    int rc;
    int32_t n;
    *errs = NULL; *dump = NULL;
    if (utf16) { bytes[0] = (char) 0xFF; bytes[1] = (char) 0xFE; off = 2; }
    n = ucnv_fromUChars(c, bytes + off, (int32_t) (cap - off), doc, (int32_t) len, &e);
    ucnv_close(c);
    if (U_FAILURE(e)) { free(bytes); return -1; }
    *nbytes = off + (size_t) n;
    l.f = open_memstream(errs, &el); l.n = 0;
    cif_parse_options_create(&opts);
    opts->error_callback = err_cb;
    opts->user_data = &l;
    in = fmemopen(bytes, *nbytes, "rb");
    rc = cif_parse(in, opts, &cif);
    fclose(in);
    fclose(l.f);
    df = open_memstream(dump, &dl);
    if (cif) { fdump_cif(df, cif, 1); cif_destroy(cif); }
    fclose(df);
    free(opts); free(bytes);
    return rc;
}

/* error log with the line numbers beyond `after` reduced by `delta` */
static char *shift_log(const char *log, long after, long delta) {
    size_t cap = strlen(log) + 16, n = 0;
    char *out = malloc(cap);
    const char *p = log;
    out[0] = 0;
    while (*p) {
        long code = strtol(p, (char **) &p, 10), line;
        if (*p != ':') break;
        line = strtol(p + 1, (char **) &p, 10);
        if (line > after) line -= delta;
        n += (size_t) snprintf(out + n, cap - n, "%s%ld:%ld", n ? "," : "", code, line);
        if (*p == ',') p++;
    }
    return out;
}

static void handle(int argc, char **argv) {
    struct ubuf head = { 0 }, tail = { 0 }, styled = { 0 }, doc = { 0 }, ref = { 0 };
    int utf16, rc1, rc2, same;
    long n, padlines = 0, headlines = 0;
    size_t i, unit_bytes, prefix_units, b1 = 0, b2 = 0;
    char *e1 = NULL, *d1 = NULL, *e2 = NULL, *d2 = NULL, *e1s;
    const UChar lf = 0x0a, cr = 0x0d;
    if (argc != 7) { OUT("bad-op"); return; }
    utf16 = !strcmp(argv[1], "utf16le");
    n = strtol(argv[3], NULL, 10);
    if (!expand(argv[4], &head) || !expand(argv[6], &tail)) { OUT("bad-op"); free(head.p); free(tail.p); return; }
    /* style the tail */
    for (i = 0; i < tail.n; i++) {
        if (tail.p[i] == lf) {
            int s = !strcmp(argv[2], "lf") ? 0 : !strcmp(argv[2], "crlf") ? 1 : !strcmp(argv[2], "cr") ? 2 : (int) (i % 3);
            if (s == 2 && i + 1 < tail.n && tail.p[i + 1] == lf && !strcmp(argv[2], "mix") && ((i + 1) % 3) == 0) s = 1;
            if (s == 1) { ub_push(&styled, &cr, 1); ub_push(&styled, &lf, 1); }
            else if (s == 2) ub_push(&styled, &cr, 1);
            else ub_push(&styled, &lf, 1);
        } else ub_push(&styled, tail.p + i, 1);
    }
    for (i = 0; i < head.n; i++) if (head.p[i] == lf) headlines++;
    /* padded document */
    unit_bytes = utf16 ? 2 : 1;
    prefix_units = (n > (utf16 ? 2 : 0)) ? ((size_t) n - (utf16 ? 2 : 0)) / unit_bytes : 0;
    ub_push(&doc, head.p, head.n);
    if (n > 0) {
        while (doc.n < prefix_units) {
            size_t room = prefix_units - doc.n, k = room < 64 ? room : 64, j;
            for (j = 0; j + 1 < k; j++) {
                UChar ch = (argv[5][0] == 'b') ? lf : (argv[5][0] == 'c' ? (j == 0 ? 0x23 : 0x70) : 0x20);
                ub_push(&doc, &ch, 1);
                if (ch == lf) padlines++;
            }
            ub_push(&doc, &lf, 1);
            padlines++;
        }
    }
    ub_push(&doc, styled.p, styled.n);
    /* reference: LF form, one empty line instead of the padding (none if there is no padding) */
    ub_push(&ref, head.p, head.n);
    if (n > 0) ub_push(&ref, &lf, 1);
    ub_push(&ref, tail.p, tail.n);

    rc1 = parse_doc(doc.p, doc.n, utf16, &e1, &d1, &b1);
    rc2 = parse_doc(ref.p, ref.n, utf16, &e2, &d2, &b2);
    e1s = shift_log(e1 ? e1 : "", headlines, n > 0 ? padlines - 1 : 0);
    same = rc1 == rc2 && d1 && d2 && strcmp(d1, d2) == 0 && strcmp(e1s, e2 ? e2 : "") == 0;
    OUT("al same=%d rc=%d lines=%ld err=%.300s len=%zu", same, rc1, padlines, (e1 && *e1) ? e1 : "-", b1);
    if (!same) OUT(" rc2=%d ref=%.300s d1=%.200s d2=%.200s", rc2, (e2 && *e2) ? e2 : "-", d1 ? d1 : "~", d2 ? d2 : "~");
    free(e1); free(d1); free(e2); free(d2); free(e1s);
    free(head.p); free(tail.p); free(styled.p); free(doc.p); free(ref.p);
}
