/* executor for family `setq` (C18): cif_value_set_quoted / cif_value_try_quoted
 *   setq <value> <quoted 0|1> <lenient 0|1>  ->  sq rc=<code> kind=<cif_kind_tp> q=<0|1> text=<hex|~>
 *   <value>: unk | na | lst | tbl | numb:<0|1>:<hex number text> | chr:<0|1>:<hex text>      (the 0|1 is the value's quoted flag)
 * An UNQUOTED character value with arbitrary text cannot be built through the public API (every initialiser marks the value
 * quoted and set_quoted refuses most texts), but the parser builds such values; the flag is therefore set through the struct. */
#include "common.h"
#include "internal/ciftypes.h"

static void handle(int argc, char **argv) {
    cif_value_tp *v = NULL;
    UChar *s = NULL, *text = NULL;
    size_t n = 0, i;
    int q, lenient, rc, kind;
    const char *spec;

    if (argc != 4) { OUT("bad-op"); return; }
    spec = argv[1];
    q = atoi(argv[2]); lenient = atoi(argv[3]);
    if (strcmp(spec, "unk") == 0) { if (cif_value_create(CIF_UNK_KIND, &v) != CIF_OK) { OUT("sq setup-failed"); return; } }
    else if (strcmp(spec, "na") == 0) { if (cif_value_create(CIF_NA_KIND, &v) != CIF_OK) { OUT("sq setup-failed"); return; } }
    else if (strcmp(spec, "lst") == 0) { if (cif_value_create(CIF_LIST_KIND, &v) != CIF_OK) { OUT("sq setup-failed"); return; } }
    else if (strcmp(spec, "tbl") == 0) { if (cif_value_create(CIF_TABLE_KIND, &v) != CIF_OK) { OUT("sq setup-failed"); return; } }
    else if ((strncmp(spec, "chr:", 4) == 0 || strncmp(spec, "numb:", 5) == 0) ) {
        int isnumb = spec[0] == 'n';
        const char *p = spec + (isnumb ? 5 : 4);
        int vq = p[0] - '0';
        if ((vq != 0 && vq != 1) || p[1] != ':' || !unhex(p + 2, &s, &n) || s == NULL) { OUT("bad-op"); free(s); return; }
        for (i = 0; i < n; i++) if (s[i] == 0) { OUT("bad-op"); free(s); return; }
        if (cif_value_create(CIF_UNK_KIND, &v) != CIF_OK) { OUT("sq setup-failed"); free(s); return; }
        if (isnumb) {
            if (cif_value_parse_numb(v, s) != CIF_OK) { OUT("bad-op"); free(s); cif_value_free(v); return; }   /* takes s on success */
            v->as_numb.quoted = vq ? CIF_QUOTED : CIF_NOT_QUOTED;
        } else {
            if (cif_value_init_char(v, s) != CIF_OK) { OUT("sq setup-failed"); free(s); cif_value_free(v); return; }
            v->as_char.quoted = vq ? CIF_QUOTED : CIF_NOT_QUOTED;
        }
    } else { OUT("bad-op"); return; }

    rc = lenient ? cif_value_try_quoted(v, q ? CIF_QUOTED : CIF_NOT_QUOTED) : cif_value_set_quoted(v, q ? CIF_QUOTED : CIF_NOT_QUOTED);
    kind = cif_value_kind(v);
    OUT("sq rc=%d kind=%d q=%d text=", rc, kind, cif_value_is_quoted(v) == CIF_QUOTED ? 1 : 0);
    if ((kind == CIF_CHAR_KIND || kind == CIF_NUMB_KIND) && cif_value_get_text(v, &text) == CIF_OK) { outhex(text); free(text); }
    else OUT("~");
    cif_value_free(v);
}
