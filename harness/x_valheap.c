/* executor for family `valheap` (properties C19 / C16): the operation sequences of family `val`, with the allocation tracker
   of alloc.h switched on for the whole request.  For every operation it prints the change in the number of live blocks
   that were allocated (by the library, uthash or this executor on the library's behalf) since the request began, and at
   the end the number still live after every slot has been released.  The heap model (lean/Driver/Fam/Valheap.lean)
   predicts the same numbers, which ties its malloc/free protocol to the C call by call.
   Temporary blocks of the executor (decoded keys, key arrays, dumps) are released within the operation that made them, so
   they do not show. */
#include "x_val_ops.h"

#ifndef VERIF_WRAP_ALLOC
#error "family valheap needs the wrapped allocators (do not set no_wrap)"
#endif

static void handle(int argc, char **argv) {
    int i = 1, k, first = 1, sink;
    FILE *nul = fopen("/dev/null", "w");
    FILE *saved = stdout;
    (void) sink;
    verif_arm(0, 0);
    ARM();
    printf("vh");
    while (i < argc) {
        int j = i;
        while (j < argc && strcmp(argv[j], "|") != 0) j++;
        if (j > i) {
            int before = nlive;
            first = 0;
            /* the per-operation dumps of x_val.c are not wanted here: they go to /dev/null */
            fflush(stdout);
            stdout = nul;
            one_op(j - i, argv + i);
            fflush(stdout);
            stdout = saved;
            if (nlive >= MAXLIVE) printf(" overflow"); else printf(" %d", nlive - before);
        }
        i = j + 1;
    }
    (void) first;
    for (k = 0; k < NV; k++) { if (vals[k]) cif_value_free(vals[k]); vals[k] = NULL; }
    for (k = 0; k < NP; k++) { if (pkts[k]) cif_packet_free(pkts[k]); pkts[k] = NULL; }
    printf(" # end=%d", nlive);
    DISARM();
    fclose(nul);
}
