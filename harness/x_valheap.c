/* executor for family `valheap` (properties C19 / C16): the operation sequences of family `val`, with the allocation tracker
   of alloc.h switched on for the whole request.  For every operation it prints the change in the number of live blocks
   that were allocated (by the library, uthash or this executor on the library's behalf) since the request began, and at
   the end the number still live after every slot has been released.  The heap model (lean/Driver/Fam/Valheap.lean)
   predicts the same numbers, which ties its malloc/free protocol to the C call by call.  Each number is followed by a summary
   of the CONTENTS of the string blocks and an ownership check of all live blocks (see heap_summary below).
   Temporary blocks of the executor (decoded keys, key arrays, dumps) are released within the operation that made them, so
   they do not show. */
#include "x_val_ops.h"

#ifndef VERIF_WRAP_ALLOC
#error "family valheap needs the wrapped allocators (do not set no_wrap)"
#endif

/* ---- the dump hook: what the live blocks HOLD ------------------------------------------------------------------------
   After every operation the executor walks the internal structures (struct value_u / entry_s / cif_map_s / cif_packet_s;
   value.c is compiled into this executor) from the slots: every block it reaches must be a live block of the tracker and
   must be reached exactly once, and the blocks reached must be ALL the live blocks (`!own` otherwise: a block nobody owns,
   a block owned twice, or a pointer to something that is not a live block).  The string blocks — texts, digit strings
   (as digit values), su digit strings, normalised keys, original keys (once when the two are one block) — are summarised
   as their number and the sum (mod 2^64) of the FNV-1a hashes of their contents; the heap model computes the same summary
   from its `str` cells.  The walk allocates nothing. */
static unsigned char seen_blk[MAXLIVE];
static unsigned max_buckets;      /* largest uthash bucket array met during the request (32 = never expanded) */
typedef struct { long blocks, strs; unsigned long long sum; int bad; } hw_tp;

static void hw_block(hw_tp *w, void *p) {
    int i;
    if (p == NULL) { w->bad = 1; return; }
    for (i = 0; i < nlive; i++) if (live_ptr[i] == p) {
        if (seen_blk[i]) w->bad = 1;
        seen_blk[i] = 1;
        w->blocks++;
        return;
    }
    w->bad = 1;
}
#define FNV_OFF 14695981039346656037ULL
#define FNV_PRIME 1099511628211ULL
static void hw_ustr(hw_tp *w, const UChar *t) {
    unsigned long long h = FNV_OFF;
    hw_block(w, (void *) t);
    if (!t) return;
    for (; *t; t++) { h ^= (unsigned long long) *t; h *= FNV_PRIME; }
    w->strs++; w->sum += h;
}
static void hw_digits(hw_tp *w, const char *t) {
    unsigned long long h = FNV_OFF;
    hw_block(w, (void *) t);
    if (!t) return;
    for (; *t; t++) { h ^= (unsigned long long) (unsigned char) (*t - '0'); h *= FNV_PRIME; }
    w->strs++; w->sum += h;
}
static void hw_fields(hw_tp *w, cif_value_tp *v);
static void hw_map(hw_tp *w, cif_map_t *m) {
    struct entry_s *e;
    if (m->head == NULL) return;
    hw_block(w, m->head->hh.tbl);
    if (m->head->hh.tbl) { hw_block(w, m->head->hh.tbl->buckets); if (m->head->hh.tbl->num_buckets > max_buckets) max_buckets = m->head->hh.tbl->num_buckets; }
    for (e = m->head; e != NULL; e = (struct entry_s *) e->hh.next) {
        hw_block(w, e);
        hw_ustr(w, e->key);
        if (e->key_orig != e->key) hw_ustr(w, e->key_orig);
        hw_fields(w, &e->as_value);
    }
}
static void hw_fields(hw_tp *w, cif_value_tp *v) {
    size_t i;
    switch (v->kind) {
    case CIF_CHAR_KIND: hw_ustr(w, v->as_char.text); break;
    case CIF_NUMB_KIND:
        hw_ustr(w, v->as_numb.text);
        hw_digits(w, v->as_numb.digits);
        if (v->as_numb.su_digits) hw_digits(w, v->as_numb.su_digits);
        break;
    case CIF_LIST_KIND:
        if (v->as_list.elements) {
            hw_block(w, v->as_list.elements);
            for (i = 0; i < v->as_list.size; i++) { hw_block(w, v->as_list.elements[i]); if (v->as_list.elements[i]) hw_fields(w, v->as_list.elements[i]); }
        } else if (v->as_list.size) w->bad = 1;
        break;
    case CIF_TABLE_KIND: hw_map(w, &v->as_table.map); break;
    default: break;
    }
}
static void heap_summary(void) {
    hw_tp w = { 0, 0, 0, 0 };
    int k;
    memset(seen_blk, 0, sizeof(seen_blk));
    for (k = 0; k < NV; k++) if (vals[k]) { hw_block(&w, vals[k]); hw_fields(&w, vals[k]); }
    for (k = 0; k < NP; k++) if (pkts[k]) { hw_block(&w, pkts[k]); hw_map(&w, &pkts[k]->map); }
    if (w.blocks != nlive) w.bad = 1;
    printf(":%ld:%016llx%s", w.strs, w.sum, w.bad ? "!own" : "");
}

static void handle(int argc, char **argv) {
    int i = 1, k, first = 1, sink;
    FILE *nul = fopen("/dev/null", "w");
    FILE *saved = stdout;
    (void) sink;
    max_buckets = 0;
    verif_arm(0, 0);
    ARM();
    printf("vh");
    while (i < argc) {
        int j = i;
        while (j < argc && strcmp(argv[j], "|") != 0) j++;
        if (j > i) {
            int before = nlive;
            first = 0;
            /* the per-operation dumps of x_val.c are not wanted here: they go to /dev/null */
            fflush(stdout);
            stdout = nul;
            one_op(j - i, argv + i);
            fflush(stdout);
            stdout = saved;
            if (nlive >= MAXLIVE) printf(" overflow"); else { printf(" %d", nlive - before); heap_summary(); }
        }
        i = j + 1;
    }
    (void) first;
    for (k = 0; k < NV; k++) { if (vals[k]) cif_value_free(vals[k]); vals[k] = NULL; }
    for (k = 0; k < NP; k++) { if (pkts[k]) cif_packet_free(pkts[k]); pkts[k] = NULL; }
    printf(" # end=%d b=%u", nlive, max_buckets);
    DISARM();
    fclose(nul);
}
