/* executor for family `store` (C04, C05): see x_store_body.h (shared with x_iter.c and x_storefault.c; it is a header so that
   tools/check.py's build cache sees its changes through HARNESS["extra_sources"]) */
#include "x_store_body.h"
