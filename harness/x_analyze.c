/* executor for family `analyze` (property C18)
 *
 *   analyze <hex string> <allow_unquoted 0|1> <allow_triple 0|1> <limit> [norb]
 *     -> an len=.. first=.. last=.. max=.. lines=.. semi=.. nlsemi=.. trail=.. rsv=.. dl=.. delim=<hex> | rb <probe> <probe> ...
 *
 * The part before " | " is what cif_analyze_string() reported (compared with the model).  The part after it is what the real
 * CIF 2.0 parser (cif_parse, syntax-only, document in memory via fmemopen) read back when the string was presented with the
 * recommended delimiter in a probe document `data_a _x <presentation>`:
 *     <label>:<rc>:<number of error callbacks>:<first error code>:<items seen>:<kind>:<quoted>:<hex text>
 * labels: A = value at column 1 of its own line, B = at column 2, C = right-aligned so that the first physical line of the
 * presentation ends exactly at column `limit` (only if that needs >= 2 blanks), D = on the line of the data name (`_x <pres>`),
 * T = text field (written plain; `rb proto` when the fold/prefix protocol would be needed, i.e. contains_text_delim or
 * has_reserved_start).  `rb none` when the string cannot be encoded as UTF-8 (unpaired surrogate) or with the `norb` flag.
 * W = (text-field recommendations only) the value is stored as a quoted character value in a managed CIF, written by the real
 * cif_write — which applies the line-folding / prefix protocol where the analysis asks for it — and the bytes written are parsed
 * back:  W:<rc of cif_write>:<rc of cif_parse>:<error callbacks>:<first error code>:<items>:<kind>:<quoted>:<hex text>
 */
#include "common.h"

static UChar *got_text;
static int got_kind, got_quoted, n_err, first_err, n_items;

static int h_item(UChar *name, cif_value_tp *v, void *x) {
    UChar *t = NULL;
    (void) name; (void) x;
    n_items++;
    got_kind = cif_value_kind(v);
    got_quoted = cif_value_is_quoted(v);
    if (got_kind == CIF_CHAR_KIND || got_kind == CIF_NUMB_KIND) {
        if (cif_value_get_text(v, &t) == CIF_OK) {
            free(got_text);
            got_text = t;
        }
    }
    return 0;
}

static int errcb(int code, size_t line, size_t col, const UChar *text, size_t len, void *data) {
    (void) line; (void) col; (void) text; (void) len; (void) data;
    if (n_err++ == 0) first_err = code;
    return 0;
}

/* append the UTF-8 encoding of s[0..n) to *p; returns 0 on an unpaired surrogate */
static int put_utf8(char **p, const UChar *s, size_t n) {
    size_t i;
    for (i = 0; i < n; i++) {
        unsigned long c = s[i];
        if (c >= 0xd800 && c <= 0xdbff) {
            if (i + 1 < n && s[i + 1] >= 0xdc00 && s[i + 1] <= 0xdfff) {
                c = 0x10000 + ((c - 0xd800) << 10) + (s[i + 1] - 0xdc00);
                i++;
            } else return 0;
        } else if (c >= 0xdc00 && c <= 0xdfff) return 0;
        if (c < 0x80) *(*p)++ = (char) c;
        else if (c < 0x800) { *(*p)++ = (char) (0xc0 | (c >> 6)); *(*p)++ = (char) (0x80 | (c & 0x3f)); }
        else if (c < 0x10000) { *(*p)++ = (char) (0xe0 | (c >> 12)); *(*p)++ = (char) (0x80 | ((c >> 6) & 0x3f)); *(*p)++ = (char) (0x80 | (c & 0x3f)); }
        else { *(*p)++ = (char) (0xf0 | (c >> 18)); *(*p)++ = (char) (0x80 | ((c >> 12) & 0x3f)); *(*p)++ = (char) (0x80 | ((c >> 6) & 0x3f)); *(*p)++ = (char) (0x80 | (c & 0x3f)); }
    }
    return 1;
}

static void probe(char label, const char *lead, size_t pad, const struct cif_string_analysis_s *a, const UChar *s, size_t n) {
    static cif_handler_tp h = { 0, 0, 0, 0, 0, 0, 0, 0, 0, 0, h_item };
    char *doc = (char *) malloc(64 + strlen(lead) + pad + 4 * n + 16);
    char *p = doc;
    struct cif_parse_opts_s *o = NULL;
    FILE *f;
    int rc;
    unsigned i;

    p += sprintf(p, "#\\#CIF_2.0\ndata_a\n%s", lead);
    memset(p, ' ', pad); p += pad;
    for (i = 0; i < a->delim_length; i++) *p++ = (char) a->delim[i];
    if (!put_utf8(&p, s, n)) { OUT(" %c:unencodable", label); free(doc); return; }
    for (i = 0; i < a->delim_length; i++) *p++ = (char) a->delim[i];
    *p++ = '\n';
    f = fmemopen(doc, (size_t) (p - doc), "rb");
    if (f == NULL || cif_parse_options_create(&o) != CIF_OK) { OUT(" %c:setup-failed", label); if (f) fclose(f); free(doc); return; }
    o->handler = &h;
    o->error_callback = errcb;
    n_err = 0; first_err = 0; n_items = 0; got_kind = -1; got_quoted = -1;
    free(got_text); got_text = NULL;
    rc = cif_parse(f, o, NULL);
    fclose(f);
    free(o);
    OUT(" %c:%d:%d:%d:%d:%d:%d:", label, rc, n_err, first_err, n_items, got_kind, got_quoted);
    outhex(got_text);
    free(got_text); got_text = NULL;
    free(doc);
}


/* text-field recommendations, through the real writer (fold / prefix protocol included) and back through the real parser */
static void probe_written(const UChar *s) {
    static cif_handler_tp h = { 0, 0, 0, 0, 0, 0, 0, 0, 0, 0, h_item };
    static const UChar code[] = { 'a', 0 }, name[] = { '_', 'x', 0 };
    cif_tp *cif = NULL;
    cif_block_tp *b = NULL;
    cif_value_tp *v = NULL;
    UChar *copy = cif_u_strdup(s);
    struct cif_parse_opts_s *o = NULL;
    char *doc = NULL;
    size_t doclen = 0;
    FILE *f;
    int wrc = -1, rc = -1;

    if (!copy || cif_create(&cif) != CIF_OK || cif_create_block(cif, code, &b) != CIF_OK || cif_value_create(CIF_UNK_KIND, &v) != CIF_OK) {
        OUT(" W:setup-failed"); free(copy); goto done;
    }
    if (cif_value_init_char(v, copy) != CIF_OK) { OUT(" W:setup-failed"); free(copy); goto done; }    /* takes ownership of copy */
    if (cif_container_set_value(b, name, v) != CIF_OK) { OUT(" W:setup-failed"); goto done; }
    f = open_memstream(&doc, &doclen);
    wrc = cif_write(f, NULL, cif);
    fclose(f);
    n_err = 0; first_err = 0; n_items = 0; got_kind = -1; got_quoted = -1;
    free(got_text); got_text = NULL;
    if (wrc == CIF_OK && cif_parse_options_create(&o) == CIF_OK) {
        f = fmemopen(doc, doclen ? doclen : 1, "rb");
        o->handler = &h;
        o->error_callback = errcb;
        rc = cif_parse(f, o, NULL);
        fclose(f);
        free(o);
    }
    OUT(" W:%d:%d:%d:%d:%d:%d:%d:", wrc, rc, n_err, first_err, n_items, got_kind, got_quoted);
    outhex(got_text);
    free(got_text); got_text = NULL;
done:
    free(doc);
    if (v) cif_value_free(v);
    if (b) cif_container_free(b);
    if (cif) (void) cif_destroy(cif);
}

static void handle(int argc, char **argv) {
    UChar *s = NULL;
    size_t n = 0, i;
    long limit;
    char *end;
    struct cif_string_analysis_s a;
    int rc, unq, tri;

    if (argc < 5 || argc > 6 || !unhex(argv[1], &s, &n) || s == NULL) { OUT("bad-op"); free(s); return; }
    for (i = 0; i < n; i++) if (s[i] == 0) { OUT("bad-op"); free(s); return; }      /* a NUL would end the C string */
    unq = atoi(argv[2]); tri = atoi(argv[3]);
    limit = strtol(argv[4], &end, 10);
    if (*end || limit < 0 || limit > 100000000) { OUT("bad-op"); free(s); return; }
    memset(&a, 0x5a, sizeof a);
    rc = cif_analyze_string(s, unq, tri, (int32_t) limit, &a);
    if (rc != CIF_OK) { OUT("an rc=%d", rc); free(s); return; }
    if (a.delim_length > 3) { OUT("an dl=%u", a.delim_length); free(s); return; }
    OUT("an len=%d first=%d last=%d max=%d lines=%d semi=%d nlsemi=%d trail=%d rsv=%d dl=%u delim=",
        (int) a.length, (int) a.length_first, (int) a.length_last, (int) a.length_max, (int) a.num_lines, (int) a.max_semi_run,
        a.contains_text_delim ? 1 : 0, a.has_trailing_ws ? 1 : 0, a.has_reserved_start ? 1 : 0, a.delim_length);
    outhexn(a.delim, a.delim_length);
    OUT(" | rb");
    if (argc == 6) { OUT(" none"); free(s); return; }
    if (a.delim_length == 2) {
        if (a.contains_text_delim || a.has_reserved_start) OUT(" proto");
        else probe('T', "_x", 0, &a, s, n);
        probe_written(s);
    } else {
        long firstphys = (long) a.delim_length + a.length_first + (a.num_lines == 1 ? (long) a.delim_length : 0);
        probe('A', "_x\n", 0, &a, s, n);
        if (1 + firstphys <= limit || limit < 64) probe('B', "_x\n", 1, &a, s, n);
        if (limit - firstphys >= 2 && limit <= 4096) probe('C', "_x\n", (size_t) (limit - firstphys), &a, s, n);
        /* on the data name's line the value starts at column 4: a position "within the limit" only if it still fits (the real
           parser's limit is 2048 whatever `limit` says, so small limits cannot produce an over-length line) */
        if (3 + firstphys <= limit || limit < 64) probe('D', "_x ", 0, &a, s, n);
    }
    free(s);
}
